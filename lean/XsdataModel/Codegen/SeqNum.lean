/-
Sequence / choice / group identifiers.  `xsdata/models/xsd.py` puts
`id(self)` of every xs:sequence / xs:choice / xs:group / xs:all into the attr
`path`; three handlers consume them:

* `CalculateAttributePaths.process_attr_path` — first sequence id, first
  choice id, last group id, min/max occurs products;
* `ResetAttributeSequences` — drops the sequence of non repeatable attrs;
* `ResetAttributeSequenceNumbers` — renumbers the surviving ids 1, 2, … per
  class, starting after the largest number found in the base classes.

Ids are arbitrary Python ints here (`id()` values); the theorems show which
outputs do not depend on them.
-/
import XsdataModel.Codegen.Basic

namespace Xs.Codegen
open Py

structure PathStep where
  tag : Str
  id : Int
  mi : Int
  ma : Int
deriving Repr, DecidableEq

/-- the part of `Attr`/`Restrictions` the three handlers touch -/
structure SeqAttr where
  /-- `attr.is_attribute or attr.is_enumeration` (such attrs are skipped) -/
  skip : Bool := false
  path : List PathStep := []
  minOccurs : Int := 1
  maxOccurs : Int := 1
  sequence : Option Int := none
  choice : Option Int := none
  group : Option Int := none
deriving Repr, DecidableEq

/-- Python truthiness of an `int | None` -/
def truthy : Option Int → Bool
  | some i => i != 0
  | none => false

structure PathAcc where
  sequence : Option Int
  choice : Option Int
  group : Option Int
  mn : Int := 1
  mx : Int := 1
  choiceMin : Option Int := none

def pathStep (acc : PathAcc) (p : PathStep) : PathAcc :=
  let acc :=
    if p.tag = ['s'] then
      (if !truthy acc.sequence then { acc with sequence := some p.id } else acc)
    else if p.tag = ['c'] then
      let acc := if !truthy acc.choice then { acc with choice := some p.id } else acc
      match acc.choiceMin with
      | none => { acc with choiceMin := some p.mi }
      | some m => if p.mi < m then { acc with choiceMin := some p.mi } else acc
    else if p.tag = ['g'] then { acc with group := some p.id }
    else acc
  { acc with mn := acc.mn * p.mi, mx := acc.mx * p.ma }

/-- `CalculateAttributePaths.process_attr_path` -/
def processAttrPath (a : SeqAttr) : SeqAttr :=
  let acc := a.path.foldl pathStep
    { sequence := a.sequence, choice := a.choice, group := a.group }
  let mn := a.minOccurs * acc.mn
  let mn := match acc.choiceMin with
    | some m => if m ≤ 1 then 0 else mn
    | none => mn
  { a with sequence := acc.sequence, choice := acc.choice, group := acc.group,
           minOccurs := mn, maxOccurs := a.maxOccurs * acc.mx }

/-- `CalculateAttributePaths.process(target)` -/
def calculatePaths (attrs : List SeqAttr) : List SeqAttr :=
  attrs.map (fun a => if !a.path.isEmpty && !a.skip then processAttrPath a else a)

/-- `ResetAttributeSequences.is_repeatable_sequence` -/
def isRepeatableSequence (a : SeqAttr) : Bool :=
  match a.sequence with
  | some seq =>
    if seq = 0 then false else
    let rec go : List PathStep → Bool
      | [] => false
      | p :: ps =>
        if p.tag = ['s'] && p.id = seq then decide (p.ma > 1)
        else if p.ma > 1 then true
        else go ps
    go a.path
  | none => false

/-- `ResetAttributeSequences.process`: attrs are grouped by `restrictions.sequence`;
a group of one loses its sequence, in larger groups the non repeatable attrs do. -/
def resetSequences (attrs : List SeqAttr) : List SeqAttr :=
  attrs.map (fun a =>
    if !truthy a.sequence then a
    else if (attrs.filter (fun b => b.sequence == a.sequence)).length = 1 then
      { a with sequence := none }
    else if !isRepeatableSequence a then { a with sequence := none }
    else a)

/-- position of `k` in the first-seen order of the truthy keys, as built by the
`defaultdict` of `ResetAttributeSequenceNumbers.process` -/
def firstSeen : List (Option Int) → List Int
  | [] => []
  | k :: ks =>
    match k with
    | some i => if i != 0 then i :: (firstSeen ks).filter (· != i) else firstSeen ks
    | none => firstSeen ks

/-- position of `s` in a list of ids -/
def rankOf (s : Int) : List Int → Option Nat
  | [] => none
  | x :: xs => if x = s then some 0 else (rankOf s xs).map (· + 1)

/-- `find_next_sequence_number`: `max((attr.restrictions.sequence or 0 …), default=0) + 1` -/
def nextSequenceNumber (baseSeqs : List (Option Int)) : Int :=
  (baseSeqs.foldl (fun m s => max m (match s with | some i => i | none => 0)) 0) + 1

/-- the new `restrictions.sequence` of an attr: the rank of its group added to `next` -/
def newSequence (groups : List Int) (next : Int) : Option Int → Option Int
  | some i =>
    if i != 0 then
      match rankOf i groups with
      | some k => some (next + k)
      | none => some i   -- unreachable: every truthy sequence is in `groups`
    else some i
  | none => none

/-- `ResetAttributeSequenceNumbers.process`; `baseSeqs` are the
`restrictions.sequence` values of `base_attrs(target)` *as they are when this
handler runs*. -/
def resetSequenceNumbers (baseSeqs : List (Option Int)) (attrs : List SeqAttr) : List SeqAttr :=
  let groups := firstSeen (attrs.map (·.sequence))
  if groups.isEmpty then attrs else
  let next := nextSequenceNumber baseSeqs
  attrs.map (fun a => { a with sequence := newSequence groups next a.sequence })

/-- the three handlers in pipeline order, for one class, given the numbers of its bases -/
def sequencePipeline (baseSeqs : List (Option Int)) (attrs : List SeqAttr) : List SeqAttr :=
  resetSequenceNumbers baseSeqs (resetSequences (calculatePaths attrs))

/-- `ResetAttributeSequenceNumbers.process` along an inheritance chain (root class
first).  `process(target)` first renumbers the base classes (recursively), then
reads `base_attrs(target)` — the nearest base's attrs first — for
`find_next_sequence_number`; so the numbers a class reads from its bases are
always final numbers, never raw ids. `baseSeqs` = numbers of the classes above. -/
def renumberChainFrom (baseSeqs : List (Option Int)) : List (List SeqAttr) → List (List SeqAttr)
  | [] => []
  | c :: rest =>
    let c' := resetSequenceNumbers baseSeqs c
    c' :: renumberChainFrom (c'.map (·.sequence) ++ baseSeqs) rest

/-- the three handlers for every class of an inheritance chain (root first) -/
def sequencePipelineChain (chain : List (List SeqAttr)) : List (List SeqAttr) :=
  renumberChainFrom [] (chain.map (fun attrs => resetSequences (calculatePaths attrs)))

/-- canonical label (first-seen rank) of each attr's choice id: which attrs
`CreateCompoundFields` would put into the same compound field -/
def choiceClasses (attrs : List SeqAttr) : List (Option Nat) :=
  let groups := firstSeen (attrs.map (·.choice))
  attrs.map (fun a => match a.choice with
    | some c => rankOf c groups
    | none => none)

/-- what reaches the generated code: occurrence bounds, the sequence number, the choice class -/
def seqOutput (attrs : List SeqAttr) : List (Int × Int × Option Int × Option Nat) :=
  (attrs.zip (choiceClasses attrs)).map (fun p => (p.1.minOccurs, p.1.maxOccurs, p.1.sequence, p.2))

end Xs.Codegen
