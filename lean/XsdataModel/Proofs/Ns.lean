/-
Helper lemmas for C02, part 9: namespaces and forms (`Gen/Ns`).
-/
import XsdataModel.Gen.Ns

namespace Xs.Gen
open Py


theorem normNs_idem (x : Option Str) : normNs (normNs x) = normNs x := by
  cases x with
  | none => rfl
  | some s => cases s <;> rfl

theorem truthy_iff (x : Option Str) : truthy x = true ↔ ∃ c cs, x = some (c :: cs) := by
  cases x with
  | none => simp [truthy]
  | some s => cases s <;> simp [truthy]

theorem element_namespace_spec_core (ctx : NsCtx) (d : NsDecl) (hc : ctx.wf = true)
    (hd : d.wf ctx = true) (hh : refHeuristicOk ctx d = true) :
    normNs (elementNamespace ctx d) = normNs (specNs ctx d) := by
  cases d with
  | globalD a =>
    simp [elementNamespace, specNs, truthy, NsDecl.isRef, isQualified, parserForm]
  | localD a form t =>
    cases t with
    | some tv =>
      cases tv with
      | nil => simp [NsDecl.wf, truthy] at hd
      | cons c cs => simp [elementNamespace, specNs, truthy]
    | none =>
      cases form with
      | some f =>
        cases f <;> cases a <;>
          simp [elementNamespace, specNs, truthy, NsDecl.isRef, isQualified, parserForm, normNs, NsDecl.isAttr]
      | none =>
        cases a
        · cases he : ctx.elementForm with
          | none => simp [elementNamespace, specNs, truthy, NsDecl.isRef, isQualified, parserForm, normNs, NsDecl.isAttr, he]
          | some f => cases f <;> simp [elementNamespace, specNs, truthy, NsDecl.isRef, isQualified, parserForm, normNs, NsDecl.isAttr, he]
        · cases he : ctx.attributeForm with
          | none => simp [elementNamespace, specNs, truthy, NsDecl.isRef, isQualified, parserForm, normNs, NsDecl.isAttr, he]
          | some f => cases f <;> simp [elementNamespace, specNs, truthy, NsDecl.isRef, isQualified, parserForm, normNs, NsDecl.isAttr, he]
  | refD a pfx =>
    cases pfx with
    | some p =>
      cases p with
      | nil => simp [NsDecl.wf, truthy] at hd
      | cons c cs => simp [elementNamespace, specNs, truthy]
    | none =>
      cases hdn : ctx.defaultNs with
      | some dv =>
        cases dv with
        | nil => simp [NsCtx.wf, hdn, truthy] at hc
        | cons c cs => simp [elementNamespace, specNs, truthy, NsDecl.isRef, hdn]
      | none =>
        have hnd : isDefaultNs ctx = fun _ => false := by
          funext t
          simp only [isDefaultNs, hdn, Bool.or_eq_false_iff, List.any_eq_false]
          refine ⟨by simp, ?_⟩
          intro pu hpu
          simp only [NsCtx.wf, Bool.and_eq_true, List.all_eq_true] at hc
          have := hc.1.1.1 pu hpu
          cases h1 : pu.1 with
          | nil => simp [h1, truthy] at this
          | cons c cs => simp
        cases htn : ctx.tns with
        | none =>
          have hch : ctx.chameleon = false := by
            simp only [NsCtx.wf, Bool.and_eq_true, htn] at hc
            simpa using hc.2
          cases a <;>
            simp [elementNamespace, specNs, truthy, NsDecl.isRef, isQualified, hdn, htn, hch, normNs]
        | some t =>
          cases t with
          | nil => simp [NsCtx.wf, htn, truthy] at hc
          | cons c cs =>
            simp only [refHeuristicOk, hdn, htn, truthy, Bool.false_or, Bool.true_and] at hh
            by_cases hp : prefixExists ctx (c :: cs) <;> cases a <;>
              simp_all [elementNamespace, specNs, truthy, NsDecl.isRef, isQualified, normNs,
                NsDecl.isAttr]

theorem ite_some_nil_none {c : Prop} [Decidable c] {x : Option Str}
    (h : (if c then x else some []) = none) : x = none := by
  by_cases hc : c
  · simpa [hc] using h
  · simp [hc] at h

/-- for an element the mapper answers `None` only when the schema has no target namespace -/
theorem elementNamespace_none (ctx : NsCtx) (d : NsDecl) (hd : d.wf ctx = true)
    (h : elementNamespace ctx d = none) : d.isAttr = true ∨ ctx.tns = none := by
  cases d with
  | globalD a =>
    simp [elementNamespace, truthy, NsDecl.isRef, isQualified, parserForm] at h
    exact Or.inr h
  | localD a form t =>
    cases a
    · right
      cases t with
      | some tv => cases tv <;> simp [elementNamespace, truthy, NsDecl.wf] at h hd
      | none =>
        simp only [elementNamespace, truthy, NsDecl.isRef, NsDecl.isAttr, Bool.false_eq_true,
          if_false, Bool.not_false, Bool.true_or, Bool.and_true, Bool.false_and] at h
        exact ite_some_nil_none h
    · exact Or.inl rfl
  | refD a pfx =>
    cases a
    · right
      cases pfx with
      | some p =>
        cases p with
        | nil => simp [NsDecl.wf, truthy] at hd
        | cons c cs =>
          simp only [NsDecl.wf, truthy, Bool.true_and] at hd
          simp only [elementNamespace, truthy, Bool.false_eq_true, if_false, if_true,
            Option.bind_some] at h
          rw [h] at hd
          simp at hd
      | none =>
        cases hdn : ctx.defaultNs with
        | some dv =>
          cases dv with
          | nil =>
            simp only [elementNamespace, truthy, NsDecl.isRef, NsDecl.isAttr, hdn,
              Bool.false_eq_true, if_false, Bool.and_false] at h
            exact ite_some_nil_none h
          | cons c cs => simp [elementNamespace, truthy, NsDecl.isRef, hdn] at h
        | none =>
          simp only [elementNamespace, truthy, NsDecl.isRef, NsDecl.isAttr, hdn,
            Bool.false_eq_true, if_false, Bool.and_false] at h
          exact ite_some_nil_none h
    · exact Or.inl rfl

theorem fieldNs_eq (ctx : NsCtx) (classNs : Option Str) (d : NsDecl)
    (h : elementNamespace ctx d = none → d.isAttr = true ∨ classNs = none) :
    fieldNs ctx classNs d = normNs (elementNamespace ctx d) := by
  unfold fieldNs boundNs fieldMetaNs
  cases ha : d.isAttr
  · cases hn : elementNamespace ctx d with
    | none =>
      rcases h hn with h1 | h1
      · rw [ha] at h1; cases h1
      · subst h1; simp [normNs]
    | some v =>
      by_cases hc : classNs = some v
      · subst hc; simp
      · have : ¬ classNs = some v := hc
        simp [this]
  · simp

theorem field_namespace_core (ctx : NsCtx) (classNs : Option Str) (d : NsDecl)
    (hc : ctx.wf = true) (hd : d.wf ctx = true) (hh : refHeuristicOk ctx d = true)
    (hcls : classNs = none ∨ classNs = ctx.tns) :
    fieldNs ctx classNs d = normNs (specNs ctx d) := by
  rw [fieldNs_eq, element_namespace_spec_core ctx d hc hd hh]
  intro hn
  rcases elementNamespace_none ctx d hd hn with h | h
  · exact Or.inl h
  · right
    rcases hcls with h1 | h1
    · exact h1
    · rw [h1, h]

end Xs.Gen
