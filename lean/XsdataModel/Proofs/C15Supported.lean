/-
C15 — inside the supported region (`Fault/Supported.lean`) the XML parser model never answers
`Err.unsupported`.  `Sup r`: `r` is not `unsupported`; `valOK`: the shape of the objects nodes
leave for their parent (lists of primitives, never a bare dict) which `prepare_generic_value`
can always handle.
-/
import XsdataModel.Fault.Supported
import XsdataModel.Proofs.C10Shared

namespace Proofs.C15
open Py Xs.Bind Xs.Fault

def Err.isUnsup : Err → Bool
  | .unsupported _ => true
  | _ => false

def supB {α} : Except Err α → Bool
  | .ok _ => true
  | .error err => !Err.isUnsup err

/-- the result is not the model's `unsupported` marker -/
def Sup {α} (r : Except Err α) : Prop := supB r = true

theorem Sup.ok {α} (a : α) : Sup (Except.ok a : Except Err α) := rfl
theorem Sup.pure {α} (a : α) : Sup (pure a : Except Err α) := rfl
theorem Sup.parser {α} (m : String) : Sup (Except.error (.parser m) : Except Err α) := rfl
theorem Sup.throwParser {α} (m : String) : Sup (throw (Err.parser m) : Except Err α) := rfl
theorem Sup.converter {α} : Sup (Except.error .converter : Except Err α) := rfl
theorem Sup.context {α} (m : String) : Sup (Except.error (.context m) : Except Err α) := rfl
theorem Sup.leaked {α} (m : String) : Sup (Except.error (.leaked m) : Except Err α) := rfl

theorem Sup.not_unsupported {α} {r : Except Err α} (h : Sup r) (w : String) : r ≠ .error (.unsupported w) := by
  intro hr; subst hr; cases h

theorem Sup.error_cast {α β} {err : Err} (h : Sup (Except.error err : Except Err α)) :
    Sup (Except.error err : Except Err β) := h

theorem Sup.bind' {α β} {x : Except Err α} {f : α → Except Err β}
    (hx : Sup x) (hf : ∀ a, x = .ok a → Sup (f a)) : Sup (x >>= f) := by
  cases x with
  | error err => exact hx
  | ok a => exact hf a rfl

theorem Sup.bind {α β} {x : Except Err α} {f : α → Except Err β}
    (hx : Sup x) (hf : ∀ a, Sup (f a)) : Sup (x >>= f) := Sup.bind' hx (fun a _ => hf a)

theorem Sup.map {α β} {x : Except Err α} {f : α → β} (hx : Sup x) : Sup (f <$> x) := by
  cases x with
  | error err => exact hx
  | ok a => rfl

theorem Sup.mapM_mem {α β} (f : α → Except Err β) :
    ∀ l : List α, (∀ a ∈ l, Sup (f a)) → Sup (l.mapM f)
  | [], _ => by simp [List.mapM_nil]; exact Sup.pure _
  | a :: l, h => by
    rw [List.mapM_cons]
    exact Sup.bind (h a (by simp)) (fun b => Sup.bind
      (Sup.mapM_mem f l (fun x hx => h x (by simp [hx]))) (fun bs => Sup.pure _))

theorem Sup.mapM {α β} (f : α → Except Err β) (hf : ∀ a, Sup (f a)) (l : List α) : Sup (l.mapM f) :=
  Sup.mapM_mem f l (fun a _ => hf a)

theorem Sup.foldlM_mem {α σ} (f : σ → α → Except Err σ) :
    ∀ (l : List α) (s : σ), (∀ s, ∀ a ∈ l, Sup (f s a)) → Sup (l.foldlM f s)
  | [], s, _ => by simp [List.foldlM_nil]; exact Sup.pure _
  | a :: l, s, h => by
    rw [List.foldlM_cons]
    exact Sup.bind (h s a (by simp)) (fun s' => Sup.foldlM_mem f l s' (fun s x hx => h s x (by simp [hx])))

/-! ### the shape of parsed objects -/

/-- what a node may leave on the objects list: anything but a bare dict or a list with
non-primitive members -/
def valOK : Val → Bool
  | .list xs => xs.all (fun x => match x with | .prim _ => true | _ => false)
  | .attrs _ => false
  | _ => true

def objsOK (objs : Objs) : Bool := objs.all (fun p => valOK p.2)

theorem objsOK_append (a b : Objs) : objsOK (a ++ b) = (objsOK a && objsOK b) := by
  simp [objsOK, List.all_append]

/-! ### leaves -/

theorem parseVar_sup (e : BEnv) (cfg : ParserConfig) (var : VarCore) (hv : varSupported var = true)
    (value : Option Str) (nsmap : NsMap) (types : Option (List TypeRef)) :
    Sup (parseVar e cfg var value nsmap types) := by
  unfold parseVar
  simp only [varSupported, Bool.and_eq_true, bne_iff_ne, ne_eq] at hv
  cases value with
  | none => cases hd : var.default <;> simp_all [Sup, supB]
  | some s =>
    dsimp only
    repeat' split
    all_goals rfl

theorem parseVar_valOK (e : BEnv) (cfg : ParserConfig) (var : VarCore) (hv : varSupported var = true)
    (value : Option Str) (nsmap : NsMap) (types : Option (List TypeRef)) (r : Parsed)
    (h : parseVar e cfg var value nsmap types = .ok r) : valOK r.val = true := by
  unfold parseVar at h
  simp only [varSupported, Bool.and_eq_true, bne_iff_ne, ne_eq, Bool.not_eq_true', Bool.and_eq_false_iff] at hv
  cases value with
  | none =>
    cases hd : var.default <;> simp [hd] at h hv
    all_goals (subst h)
    · rfl
    · rfl
    · cases var.tokens <;> rfl
    · cases ht : var.tokens
      · rfl
      · simp [ht] at hv
  | some s =>
    dsimp only at h
    repeat' split at h
    all_goals (first | (cases h; simp [valOK]) | cases h)


theorem validateFixed_sup (e : Env) (var : VarCore) (value : Val) : Sup (validateFixed e var value) := by
  unfold validateFixed
  split <;> first | rfl | (split <;> rfl)

theorem xsiTypeOf_sup (e : BEnv) (attrs : List (QN × Str)) (nsmap : NsMap) : Sup (xsiTypeOf e attrs nsmap) := by
  unfold xsiTypeOf
  repeat' split
  all_goals rfl

theorem fetch_sup (Γ : Ctx) (c : ClassId) (pns : Option Str) (xt : Option QN) : Sup (Γ.fetch c pns xt) := by
  unfold Ctx.fetch
  repeat' split
  all_goals rfl

theorem classFactory_sup (Γ : Ctx) (c : ClassId) (p : Params) : Sup (classFactory Γ c p) := by
  unfold classFactory
  split
  · rfl
  · dsimp only
    split <;> rfl

theorem classFactory_valOK (Γ : Ctx) (c : ClassId) (p : Params) (v : Val) (h : classFactory Γ c p = .ok v) :
    valOK v = true := by
  unfold classFactory at h
  split at h
  · cases h
  · dsimp only at h
    split at h
    · cases h; rfl
    · cases h

/-! ### the metadata a parse touches stays inside the universe -/

theorem metaFor_mem (ci : ClassInfo) (pns : Option Str) (m : XmlMeta) (h : ci.metaFor pns = some m) :
    ∃ p ∈ ci.metas, p.2 = m := by
  unfold ClassInfo.metaFor at h
  split at h
  · rename_i k m' hf
    cases h
    exact ⟨_, List.mem_of_find?_eq_some hf, rfl⟩
  · cases hh : ci.metas with
    | nil => simp [hh] at h
    | cons p rest =>
      simp [hh] at h
      exact ⟨p, by simp, h⟩

theorem find_metaFor_supported (Γ : Ctx) (hΓ : ctxSupported Γ = true) (c : ClassId) (pns : Option Str) (m : XmlMeta)
    (h : (Γ.find c).bind (·.metaFor pns) = some m) : metaSupported m = true := by
  cases hf : Γ.find c with
  | none => simp [hf] at h
  | some ci =>
    simp [hf] at h
    obtain ⟨p, hp, hpm⟩ := metaFor_mem ci pns m h
    have hci : ci ∈ Γ.classes := List.mem_of_find?_eq_some hf
    unfold ctxSupported at hΓ
    have := List.all_eq_true.mp (List.all_eq_true.mp hΓ ci hci) p hp
    rw [hpm] at this; exact this

theorem fetch_supported (Γ : Ctx) (hΓ : ctxSupported Γ = true) (c : ClassId) (pns : Option Str) (xt : Option QN)
    (m : XmlMeta) (h : Γ.fetch c pns xt = .ok m) : metaSupported m = true := by
  unfold Ctx.fetch at h
  split at h
  · cases h
  · rename_i m0 hm0
    have h0 := find_metaFor_supported Γ hΓ c pns m0 hm0
    split at h
    · split at h
      · split at h
        · split at h
          · rename_i sm hsm
            cases h
            exact find_metaFor_supported Γ hΓ _ pns _ hsm
          · cases h
        · cases h; exact h0
      · cases h; exact h0
    · cases h; exact h0


/-! ### the vars a lookup returns are vars of the metadata -/

theorem toVar_supported (c : VarCore) (h : varSupported c = true) : xvarSupported c.toVar = true := by
  simp [xvarSupported, VarCore.toVar, h]

theorem findChoice_supported (v : XmlVar) (hv : xvarSupported v = true) (q : QN) (c : XmlVar)
    (h : v.findChoice q = some c) : xvarSupported c = true := by
  simp only [xvarSupported, Bool.and_eq_true] at hv
  unfold XmlVar.findChoice at h
  split at h
  · rename_i k core hf
    cases h
    have := List.all_eq_true.mp hv.1.2 _ (List.mem_of_find?_eq_some hf)
    exact toVar_supported _ this
  · unfold findByNamespaceCore at h
    cases hf : v.wildcards.find? (fun w => matchNamespace w.namespaces q) with
    | none => simp [hf] at h
    | some w =>
      simp [hf] at h
      cases h
      exact toVar_supported _ (List.all_eq_true.mp hv.2 _ (List.mem_of_find?_eq_some hf))

theorem findWildcard_supported (m : XmlMeta) (hm : metaSupported m = true) (q : QN) (c : XmlVar)
    (h : m.findWildcard q = some c) : xvarSupported c = true := by
  simp only [metaSupported, Bool.and_eq_true] at hm
  unfold XmlMeta.findWildcard at h
  unfold findByNamespace at h
  cases hf : m.wildcards.find? (fun v => matchNamespace v.namespaces q) with
  | none => simp [hf] at h
  | some w =>
    have hw := List.all_eq_true.mp hm.1.1.2 _ (List.mem_of_find?_eq_some hf)
    simp only [hf] at h
    split at h
    · split at h
      · rename_i c' hc'
        cases h
        exact findChoice_supported w hw q _ hc'
      · cases h; exact hw
    · cases h; exact hw

theorem findChildren_supported (m : XmlMeta) (hm : metaSupported m = true) (q : QN) :
    ∀ v ∈ m.findChildren q, xvarSupported v = true := by
  intro v hv
  have hm' := hm
  simp only [metaSupported, Bool.and_eq_true] at hm'
  unfold XmlMeta.findChildren at hv
  simp only [List.mem_append] at hv
  rcases hv with (hv | hv) | hv
  · cases hf : m.elements.find? (·.1 = q) with
    | none => simp [hf] at hv
    | some p =>
      simp [hf] at hv
      have := List.all_eq_true.mp hm'.1.1.1.2 _ (List.mem_of_find?_eq_some hf)
      exact List.all_eq_true.mp this v hv
  · simp only [List.mem_filterMap] at hv
    obtain ⟨ch, hch, hfc⟩ := hv
    exact findChoice_supported ch (List.all_eq_true.mp hm'.1.1.1.1.2 _ hch) q v hfc
  · cases hw : m.findWildcard q with
    | none => simp [hw] at hv
    | some w =>
      simp [hw] at hv
      subst hv
      exact findWildcard_supported m hm q _ hw

theorem findAttribute_supported (m : XmlMeta) (hm : metaSupported m = true) (q : QN) (v : XmlVar)
    (h : m.findAttribute q = some v) : xvarSupported v = true := by
  simp only [metaSupported, Bool.and_eq_true] at hm
  unfold XmlMeta.findAttribute at h
  cases hf : m.attributes.find? (·.1 = q) with
  | none => simp [hf] at h
  | some p =>
    simp [hf] at h
    subst h
    exact List.all_eq_true.mp hm.1.2 _ (List.mem_of_find?_eq_some hf)

theorem text_supported (m : XmlMeta) (hm : metaSupported m = true) (v : XmlVar) (h : m.text = some v) :
    xvarSupported v = true := by
  simp only [metaSupported, Bool.and_eq_true] at hm
  have := hm.1.1.1.1.1
  rw [h] at this
  simpa using this

theorem xvar_core (v : XmlVar) (h : xvarSupported v = true) : varSupported v.toVarCore = true := by
  simp only [xvarSupported, Bool.and_eq_true] at h
  exact h.1.1


/-! ### results that carry a property -/

def holdsB {α} (P : α → Bool) : Except Err α → Bool
  | .ok a => P a
  | .error err => !Err.isUnsup err

/-- not `unsupported`, and a value satisfies `P` -/
def Holds {α} (P : α → Bool) (r : Except Err α) : Prop := holdsB P r = true

theorem Holds.ok {α} {P : α → Bool} {a : α} (h : P a = true) : Holds P (Except.ok a : Except Err α) := h
theorem Holds.pure {α} {P : α → Bool} {a : α} (h : P a = true) : Holds P (pure a : Except Err α) := h

theorem Holds.sup {α} {P : α → Bool} {r : Except Err α} (h : Holds P r) : Sup r := by
  cases r with
  | ok a => rfl
  | error err => exact h

theorem Holds.elim {α} {P : α → Bool} {r : Except Err α} (h : Holds P r) {a : α} (hr : r = .ok a) : P a = true := by
  subst hr; exact h

theorem Holds.intro {α} {P : α → Bool} {r : Except Err α} (hs : Sup r) (hp : ∀ a, r = .ok a → P a = true) : Holds P r := by
  cases r with
  | ok a => exact hp a rfl
  | error err => exact hs

theorem Holds.error_cast {α β} {P : α → Bool} {Q : β → Bool} {err : Err} (h : Holds P (Except.error err : Except Err α)) :
    Holds Q (Except.error err : Except Err β) := h

theorem Holds.bind {α β} {P : α → Bool} {Q : β → Bool} {x : Except Err α} {f : α → Except Err β}
    (hx : Holds P x) (hf : ∀ a, P a = true → Holds Q (f a)) : Holds Q (x >>= f) := by
  cases x with
  | error err => exact hx
  | ok a => exact hf a hx

theorem Holds.of_sup {α} {r : Except Err α} (h : Sup r) : Holds (fun _ => true) r := by
  cases r with
  | ok a => rfl
  | error err => exact h

/-! ### nodes -/

def nodeOK : Node → Bool
  | .element m _ _ _ _ _ => metaSupported m
  | .primitive _ var _ _ => xvarSupported var
  | .standard var _ _ _ _ _ => xvarSupported var
  | .wildcard _ _ _ => true
  | .skip => true
  | .wrapper _ => false

def optNodeOK : Option Node → Bool
  | some n => nodeOK n
  | none => true

def nodeUOK : NodeU → Bool
  | .base n => nodeOK n
  | .union _ var _ _ _ => xvarSupported var

theorem fetch_holds (Γ : Ctx) (hΓ : ctxSupported Γ = true) (c : ClassId) (pns : Option Str) (xt : Option QN) :
    Holds metaSupported (Γ.fetch c pns xt) :=
  Holds.intro (fetch_sup Γ c pns xt) (fun m h => fetch_supported Γ hΓ c pns xt m h)

theorem buildElementNode_holds (Γ : Ctx) (hΓ : ctxSupported Γ = true) (pns : Option Str) (clazz : ClassId)
    (derived nillable : Bool) (attrs : List (QN × Str)) (nsmap : NsMap) (df : Bool) (xt : Option QN) (xn : Option Bool) :
    Holds optNodeOK (buildElementNode Γ pns clazz derived nillable attrs nsmap df xt xn) := by
  unfold buildElementNode
  apply Holds.bind (fetch_holds Γ hΓ clazz pns xt)
  intro m hm
  dsimp only
  repeat' split
  all_goals first | exact Holds.pure rfl | exact Holds.pure (by simpa [optNodeOK, nodeOK] using hm)


/-- the datatype `xsi:type` names, if any, is inside the fragment -/
def dtOK (Γ : Ctx) (xt : Option QN) : Bool :=
  (xt.bind fun q => (Γ.datatypes.find? (·.1 = q)).map (·.2)) != some none

theorem xsiTypeOf_holds (e : BEnv) (Γ : Ctx) (attrs : List (QN × Str)) (nsmap : NsMap)
    (hx : xsiTypeSupported e Γ attrs nsmap = true) : Holds (dtOK Γ) (xsiTypeOf e attrs nsmap) := by
  apply Holds.intro (xsiTypeOf_sup e attrs nsmap)
  intro xt hxt
  unfold xsiTypeSupported at hx
  rw [hxt] at hx
  cases xt with
  | none => rfl
  | some q => simpa [dtOK] using hx

theorem buildNode_holds (e : BEnv) (Γ : Ctx) (hΓ : ctxSupported Γ = true) (pmeta : XmlMeta) (qname : QN) (var : XmlVar)
    (hu : var.isClazzUnion = false) (hv : xvarSupported var = true)
    (attrs : List (QN × Str)) (nsmap : NsMap) (hx : xsiTypeSupported e Γ attrs nsmap = true) :
    Holds optNodeOK (buildNode e Γ pmeta qname var attrs nsmap) := by
  unfold buildNode
  simp only [hu, Bool.false_eq_true, if_false]
  have hbe := fun pns c d nl df xt xn => buildElementNode_holds Γ hΓ pns c d nl attrs nsmap df xt xn
  repeat' (first
    | exact hbe _ _ _ _ _ _ _
    | exact Holds.pure rfl
    | exact Holds.pure (by simpa [optNodeOK, nodeOK] using hv)
    | apply Holds.bind (xsiTypeOf_holds e Γ attrs nsmap hx)
    | apply Holds.bind (P := optNodeOK)
    | intro _
    | split
    | dsimp only)
  all_goals first
    | exact Holds.pure ‹_›
    | (exfalso; simp_all [dtOK])


def optNodeUOK : Option NodeU → Bool
  | some n => nodeUOK n
  | none => true

theorem filterFixedAttrs_sup (e : BEnv) (Γ : Ctx) (attrs : List (QN × Str)) (pns : Option Str) (t : TypeRef) :
    Sup (filterFixedAttrs e Γ attrs pns t) := by
  unfold filterFixedAttrs
  split
  · split <;> rfl
  · rfl

theorem filterCandidates_sup (e : BEnv) (Γ : Ctx) (var : XmlVar) (attrs : List (QN × Str)) :
    Sup (filterCandidates e Γ var attrs) := by
  unfold filterCandidates
  apply Sup.bind
  · apply Sup.mapM
    intro t
    exact Sup.map (filterFixedAttrs_sup e Γ attrs _ t)
  · intro _; exact Sup.pure _

theorem buildNodeU_holds (e : BEnv) (Γ : Ctx) (hΓ : ctxSupported Γ = true) (pmeta : XmlMeta) (qname : QN) (var : XmlVar)
    (hv : xvarSupported var = true) (attrs : List (QN × Str)) (nsmap : NsMap)
    (hx : xsiTypeSupported e Γ attrs nsmap = true) :
    Holds optNodeUOK (buildNodeU e Γ pmeta qname var attrs nsmap) := by
  unfold buildNodeU
  split
  · apply Holds.bind (Holds.of_sup (filterCandidates_sup e Γ var attrs))
    intro cands _
    exact Holds.pure (by simpa [optNodeUOK, nodeUOK] using hv)
  · rename_i hu
    have hu' : var.isClazzUnion = false := by simpa using hu
    have hb := buildNode_holds e Γ hΓ pmeta qname var hu' hv attrs nsmap hx
    cases hbn : buildNode e Γ pmeta qname var attrs nsmap with
    | error err => rw [hbn] at hb; exact Holds.error_cast hb
    | ok r =>
      rw [hbn] at hb
      cases r with
      | none => rfl
      | some n => exact hb

theorem childNodeU_go_holds (e : BEnv) (Γ : Ctx) (hΓ : ctxSupported Γ = true) (cfg : ParserConfig) (m : XmlMeta)
    (st : ElState) (qname : QN) (attrs : List (QN × Str)) (nsmap : NsMap)
    (hx : xsiTypeSupported e Γ attrs nsmap = true) (wrapper : Option QN) :
    ∀ vars, (∀ v ∈ vars, xvarSupported v = true) →
      Holds (fun p => nodeUOK p.1) (childNodeU.go e Γ cfg m st qname attrs nsmap wrapper vars)
  | [], _ => by unfold childNodeU.go; split <;> rfl
  | var :: rest, hvars => by
    have ih := childNodeU_go_holds e Γ hΓ cfg m st qname attrs nsmap hx wrapper rest
      (fun v hv => hvars v (List.mem_cons_of_mem _ hv))
    have hb := buildNodeU_holds e Γ hΓ m qname var (hvars var (List.mem_cons_self ..)) attrs nsmap hx
    unfold childNodeU.go
    cases hbn : buildNodeU e Γ m qname var attrs nsmap with
    | error err =>
      rw [hbn] at hb
      simp only []
      repeat' split
      all_goals first | exact ih | exact Holds.error_cast hb
    | ok r =>
      rw [hbn] at hb
      cases r with
      | none =>
        simp only []
        repeat' split
        all_goals exact ih
      | some node =>
        simp only []
        repeat' split
        all_goals first | exact ih | exact hb

theorem childNodeU_holds (e : BEnv) (Γ : Ctx) (hΓ : ctxSupported Γ = true) (cfg : ParserConfig) (m : XmlMeta)
    (hm : metaSupported m = true) (st : ElState) (qname : QN) (attrs : List (QN × Str)) (nsmap : NsMap)
    (hx : xsiTypeSupported e Γ attrs nsmap = true) (wrapper : Option QN) :
    Holds (fun p => nodeUOK p.1) (childNodeU e Γ cfg m st qname attrs nsmap wrapper) := by
  unfold childNodeU
  exact childNodeU_go_holds e Γ hΓ cfg m st qname attrs nsmap hx wrapper _ (findChildren_supported m hm qname)


/-! ### binding -/

macro "sup_leaf" : tactic => `(tactic| first
  | exact Sup.ok _ | exact Sup.pure _ | exact Sup.parser _ | exact Sup.converter
  | exact Sup.context _ | exact Sup.throwParser _ | exact Sup.leaked _
  | exact validateFixed_sup _ _ _ | exact fetch_sup _ _ _ _ | exact classFactory_sup _ _ _
  | exact xsiTypeOf_sup _ _ _
  | assumption)

macro "sup_descend" : tactic => `(tactic| repeat' (first
  | sup_leaf
  | apply Sup.bind
  | intro _
  | split
  | dsimp only))

theorem prepareGeneric_sup (q : Option QN) (v : Val) (hv : valOK v = true) : Sup (prepareGeneric q v) := by
  unfold prepareGeneric
  split
  · rfl
  · rfl
  · split
    · rfl
    · rfl
    · rfl
    · rfl
    · rfl
    · rename_i xs
      dsimp only
      have hlen : (xs.filterMap (fun v => match v with | .prim p => some (serPrim p) | _ => none)).length = xs.length := by
        have hall : ∀ x ∈ xs, (match x with | Val.prim _ => true | _ => false) = true :=
          List.all_eq_true.mp (by simpa [valOK] using hv)
        clear hv
        induction xs with
        | nil => rfl
        | cons x rest ih =>
          have hx := hall x (by simp)
          cases x <;> simp at hx
          simp [ih (fun y hy => hall y (List.mem_cons_of_mem _ hy))]
      rw [if_neg (fun hne => hne hlen)]
      rfl
    · simp [valOK] at hv

theorem bindWildVar_sup (p : Params) (var : XmlVar) (q : Option QN) (v : Val) (hv : valOK v = true) :
    Sup (bindWildVar p var q v) := by
  unfold bindWildVar
  have := prepareGeneric_sup q v hv
  sup_descend

theorem bindObject_go_sup (params : Params) (wrapper : Option QN) (q : QN) (value : Val) (hv : valOK value = true) :
    ∀ vars, Sup (bindObject.go params value wrapper q vars)
  | [] => by unfold bindObject.go; rfl
  | var :: rest => by
    have ih := bindObject_go_sup params wrapper q value hv rest
    have hw := bindWildVar_sup params var (some q) value hv
    unfold bindObject.go
    dsimp only
    repeat' split
    all_goals first
      | exact ih
      | exact Sup.ok _
      | (rename_i heq; rw [heq] at hw; exact Sup.error_cast hw)

theorem bindObject_sup (m : XmlMeta) (ws : List (QN × List QN)) (params : Params) (qname : Option QN)
    (value : Val) (hv : valOK value = true) : Sup (bindObject m ws params qname value) := by
  unfold bindObject
  dsimp only
  split
  · sup_descend
  · apply Sup.bind
    · exact bindObject_go_sup _ _ _ _ hv _
    · sup_descend

theorem bindAttrs_sup (e : BEnv) (cfg : ParserConfig) (m : XmlMeta) (hm : metaSupported m = true)
    (attrs : List (QN × Str)) (nsmap : NsMap) : Sup (bindAttrs e cfg m attrs nsmap) := by
  unfold bindAttrs
  apply Sup.foldlM_mem
  intro acc kv _
  have hpv : ∀ var, m.findAttribute kv.1 = some var →
      ∀ value, Sup (parseVar e cfg var.toVarCore value nsmap none) := fun var hf value =>
    parseVar_sup e cfg _ (xvar_core var (findAttribute_supported m hm kv.1 var hf)) value nsmap none
  dsimp only
  split
  · rename_i var hdir
    have hf : m.findAttribute kv.1 = some var := by
      split at hdir
      · rename_i v hv
        split at hdir
        · cases hdir; exact hv
        · cases hdir
      · cases hdir
    have := hpv var hf
    sup_descend
    all_goals exact this _
  · sup_descend

theorem bindText_sup (e : BEnv) (cfg : ParserConfig) (m : XmlMeta) (hm : metaSupported m = true) (xn : Option Bool)
    (nsmap : NsMap) (params : Params) (text : Option Str) : Sup (bindText e cfg m xn nsmap params text) := by
  unfold bindText
  split
  · rfl
  · rename_i var hvar
    have := fun value => parseVar_sup e cfg _ (xvar_core var (text_supported m hm var hvar)) value nsmap none
    sup_descend
    all_goals exact this _


theorem classFactory_holds (Γ : Ctx) (c : ClassId) (p : Params) : Holds valOK (classFactory Γ c p) :=
  Holds.intro (classFactory_sup Γ c p) (fun v h => classFactory_valOK Γ c p v h)

/-- `ElementNode.bind`: no `unsupported`, and the objects handed up are well shaped -/
theorem elementFinish_holds (e : BEnv) (Γ : Ctx) (cfg : ParserConfig) (m : XmlMeta) (hm : metaSupported m = true)
    (attrs : List (QN × Str)) (nsmap : NsMap) (derived : Bool) (xt : Option QN) (xn : Option Bool) (q : QN)
    (text tail : Option Str) (sub : Out) (hsub : objsOK sub.objs = true) (st : ElState) :
    Holds (fun out => objsOK out.objs) (elementFinish e Γ cfg m attrs nsmap derived xt xn q text tail sub st) := by
  have hmem : ∀ p ∈ sub.objs, valOK p.2 = true := List.all_eq_true.mp hsub
  unfold elementFinish
  have hpg : Sup (sub.objs.mapM (fun (x : Option QN × Val) => match x with | (q, v) => prepareGeneric q v)) := by
    apply Sup.mapM_mem
    intro p hp
    exact prepareGeneric_sup p.1 p.2 (hmem p hp)
  have hbo : ∀ init, Sup (sub.objs.foldlM (fun (acc : Params × List (QN × List QN)) (qv : Option QN × Val) => do
      let __x ← bindObject m acc.snd acc.fst qv.fst qv.snd
      match __x with
        | (b, p, ws) =>
          have x := b
          pure (p, ws)) init) := by
    intro init
    apply Sup.foldlM_mem
    intro acc p hp
    apply Sup.bind (bindObject_sup m acc.2 acc.1 p.1 p.2 (hmem p hp))
    intro r; exact Sup.pure _
  dsimp only
  split
  · apply Holds.bind (Holds.of_sup (bindAttrs_sup e cfg m hm attrs nsmap))
    intro pw _
    obtain ⟨params, w1⟩ := pw
    dsimp only
    split
    · apply Holds.bind (Holds.of_sup hpg)
      intro vals _
      simp only [pure_bind]
      apply Holds.bind (classFactory_holds Γ m.clazz _)
      intro obj hobj
      try simp only [pure_bind]
      apply Holds.pure
      simp only [objsOK_append, Bool.and_eq_true]
      refine ⟨⟨rfl, ?_⟩, ?_⟩
      · cases derived
        · simpa [objsOK] using hobj
        · simp [objsOK, valOK]
      · split <;> rfl
    · apply Holds.bind (Holds.of_sup (hbo _))
      intro r _
      obtain ⟨p2, ws⟩ := r
      dsimp only
      apply Holds.bind (Holds.of_sup (bindText_sup e cfg m hm xn nsmap _ text))
      intro r _
      obtain ⟨bt, p3, w⟩ := r
      simp only [pure_bind]
      apply Holds.bind (classFactory_holds Γ m.clazz _)
      intro obj hobj
      try simp only [pure_bind]
      apply Holds.pure
      simp only [objsOK_append, Bool.and_eq_true]
      refine ⟨⟨rfl, ?_⟩, ?_⟩
      · cases derived
        · simpa [objsOK] using hobj
        · simp [objsOK, valOK]
      · split <;> rfl
  · simp only [pure_bind]
    apply Holds.pure
    simp only [objsOK_append, Bool.and_eq_true]
    refine ⟨⟨hsub, ?_⟩, ?_⟩
    · cases derived <;> simp [objsOK, valOK]
    · split <;> rfl


/-! ### the nodes without unions below them (`parseNode` of `Bind/Parse.lean`) -/

open Proofs.C10Shared in
mutual
theorem parseWildNode_sup (e : BEnv) (Γ : Ctx) (cfg : ParserConfig) (var : XmlVar) (attrs : List (QN × Str)) (ns : NsMap) :
    ∀ t : Tree, Holds (fun out => objsOK out.objs) (parseNode e Γ cfg (.wildcard var attrs ns) t)
  | .node q a n text children tail => by
    have ih := parseWild_sup e Γ cfg var children
    rw [parseNode_wildcard_split]
    cases hw : parseWild e Γ cfg var children with
    | error err => rw [hw] at ih; exact Holds.error_cast (Holds.of_sup ih)
    | ok sub =>
      dsimp only
      unfold wildFinish
      dsimp only
      split
      · apply Holds.pure; simp [objsOK, valOK]
      · apply Holds.pure
        simp only [objsOK, List.all_cons, List.all_nil, Bool.and_true]
        split <;> rfl
termination_by t => sizeOf t
theorem parseWild_sup (e : BEnv) (Γ : Ctx) (cfg : ParserConfig) (var : XmlVar) :
    ∀ ts : List Tree, Sup (parseWild e Γ cfg var ts)
  | [] => by rw [parseWild]; rfl
  | (.node q a n t c tl) :: rest => by
    have h1 := (parseWildNode_sup e Γ cfg var a n (.node q a n t c tl)).sup
    have h2 := parseWild_sup e Γ cfg var rest
    rw [parseWild]
    exact Sup.bind h1 (fun o => Sup.bind h2 (fun r => Sup.pure _))
termination_by ts => sizeOf ts
end

theorem Holds.map {α β} {P : α → Bool} {Q : β → Bool} {x : Except Err α} {f : α → β}
    (hx : Holds P x) (hf : ∀ a, P a = true → Q (f a) = true) : Holds Q (f <$> x) := by
  cases x with
  | error err => exact hx
  | ok a => exact hf a hx

theorem leafObjs_ok (q : QN) (v d : Val) (tl : Option Str) (hv : valOK v = true) (hd : valOK d = true) :
    objsOK ((some q, match v with | .none => d | v => v) ::
      (match tl with | some t => [(none, Val.prim (.str t))] | none => [])) = true := by
  cases v <;> cases tl <;> simp only [objsOK, List.all_cons, List.all_nil, Bool.and_true, Bool.and_eq_true] <;>
    first | exact hv | exact hd | exact ⟨hv, rfl⟩ | exact ⟨hd, rfl⟩ | rfl | exact ⟨rfl, rfl⟩

theorem parseVar_holds (e : BEnv) (cfg : ParserConfig) (var : VarCore) (hv : varSupported var = true)
    (value : Option Str) (nsmap : NsMap) (types : Option (List TypeRef)) :
    Holds (fun r => valOK r.val) (parseVar e cfg var value nsmap types) :=
  Holds.intro (parseVar_sup e cfg var hv value nsmap types) (fun r h => parseVar_valOK e cfg var hv value nsmap types r h)

/-- primitive, standard, wildcard and skip nodes -/
theorem parseNode_base_holds (e : BEnv) (Γ : Ctx) (cfg : ParserConfig) (nd : Node) (hn : nodeOK nd = true)
    (hne : ∀ m a n d x y, nd ≠ .element m a n d x y) (t : Tree) :
    Holds (fun out => objsOK out.objs) (parseNode e Γ cfg nd t) := by
  cases t with
  | node q a n text children tail =>
    cases nd with
    | element m a' n' d x y => exact absurd rfl (hne m a' n' d x y)
    | wrapper w => simp [nodeOK] at hn
    | skip => rw [parseNode]; rfl
    | wildcard v a' n' => exact parseWildNode_sup e Γ cfg v a' n' _
    | primitive pm var ns nil =>
      have hv := xvar_core var (by simpa [nodeOK] using hn)
      rw [parseNode]
      split
      · rfl
      · apply Holds.bind (parseVar_holds e cfg _ hv text ns none)
        intro r hr
        apply Holds.pure
        dsimp only
        simp only [objsOK_append, Bool.and_eq_true]
        refine ⟨?_, ?_⟩
        · simp only [objsOK, List.all_cons, List.all_nil, Bool.and_true]
          cases hval : r.val <;> rw [hval] at hr <;> dsimp only <;> first | exact hr | (split <;> rfl)
        · split <;> rfl
    | standard var dt ns nl d mx =>
      have hv := xvar_core var (by simpa [nodeOK] using hn)
      rw [parseNode]
      split
      · rfl
      · apply Holds.bind (parseVar_holds e cfg _ hv text ns _)
        intro r hr
        apply Holds.pure
        dsimp only
        cases d
        · simp only [Bool.false_eq_true, if_false, objsOK_append, Bool.and_eq_true]
          refine ⟨?_, ?_⟩
          · simp only [objsOK, List.all_cons, List.all_nil, Bool.and_true]
            cases hval : r.val <;> rw [hval] at hr <;> dsimp only <;> first | exact hr | (split <;> rfl)
          · split <;> rfl
        · cases (if mx = true then normalizeContent e.py tail else none) <;> simp [objsOK, valOK]


/-! ### root and union -/

theorem rootNode_holds (e : BEnv) (Γ : Ctx) (hΓ : ctxSupported Γ = true) (c : ClassId) (pns : Option Str) (q : QN)
    (a : List (QN × Str)) (n : NsMap) : Holds (fun r => metaSupported r.meta) (rootNode e Γ c pns q a n) := by
  unfold rootNode
  apply Holds.bind (Holds.of_sup (xsiTypeOf_sup e a n))
  intro xt _
  apply Holds.bind (fetch_holds Γ hΓ c pns xt)
  intro m hm
  exact Holds.pure hm

theorem rootResult_holds (out : Out) (ho : objsOK out.objs = true) : Holds (fun r => valOK r.1) (rootResult out) := by
  unfold rootResult
  cases hl : out.objs.getLast? with
  | none => rfl
  | some p =>
    obtain ⟨k, v⟩ := p
    have hmem : (k, v) ∈ out.objs := List.mem_of_getLast? hl
    have hv : valOK v = true := List.all_eq_true.mp ho _ hmem
    cases v <;> first | rfl | exact hv

theorem suppressed_holds (r : Except Err (Val × Nat)) (h : Holds (fun r => valOK r.1) r) : Holds valOK (suppressed r) := by
  unfold suppressed
  split
  · exact h
  · exact h
  · rfl

theorem unionTrial_holds (e : BEnv) (Γ : Ctx) (hΓ : ctxSupported Γ = true) (cfg : ParserConfig)
    (kids : XmlMeta → Except Err (Out × ElState))
    (hkids : ∀ m, metaSupported m = true → Holds (fun p => objsOK p.1.objs) (kids m))
    (var : XmlVar) (hv : xvarSupported var = true) (attrs : List (QN × Str)) (nsmap : NsMap) (q : QN)
    (text tail : Option Str) (t : TypeRef) :
    Holds valOK (unionTrial e Γ cfg kids var attrs nsmap q text tail t) := by
  unfold unionTrial
  split
  · apply suppressed_holds
    apply Holds.bind (rootNode_holds e Γ hΓ _ _ q attrs nsmap)
    intro root hroot
    apply Holds.bind (hkids root.meta hroot)
    intro p hp
    obtain ⟨sub, st⟩ := p
    dsimp only
    apply Holds.bind (elementFinish_holds e Γ _ root.meta hroot attrs nsmap _ _ _ q text tail sub hp st)
    intro out hout
    exact rootResult_holds out hout
  · apply suppressed_holds
    exact Holds.map (parseVar_holds e _ _ (xvar_core var hv) text nsmap _) (fun r hr => hr)

theorem pickBest_valOK : ∀ (rs : List Val) (bs : Option Nat) (b : Val),
    (∀ x ∈ rs, valOK x = true) → valOK b = true → valOK (pickBest rs bs b) = true
  | [], _, b, _, hb => hb
  | r :: rest, bs, b, hrs, hb => by
    unfold pickBest
    split
    · exact pickBest_valOK rest _ r (fun x hx => hrs x (List.mem_cons_of_mem _ hx)) (hrs r (List.mem_cons_self ..))
    · exact pickBest_valOK rest _ b (fun x hx => hrs x (List.mem_cons_of_mem _ hx)) hb

theorem unionBind_holds (var : XmlVar) (results : List Val) (hr : ∀ x ∈ results, valOK x = true) :
    Holds (fun out => objsOK out.objs) (unionBind var results) := by
  have hb := pickBest_valOK results none .none hr rfl
  unfold unionBind
  split
  · rfl
  · apply Holds.ok
    simpa [objsOK] using hb

theorem Holds.mapM_all {α β} {P : β → Bool} (f : α → Except Err β) (hf : ∀ a, Holds P (f a)) :
    ∀ l : List α, Holds (fun bs => bs.all P) (l.mapM f)
  | [] => by simp [List.mapM_nil]; exact Holds.pure rfl
  | a :: l => by
    rw [List.mapM_cons]
    apply Holds.bind (hf a)
    intro b hb
    apply Holds.bind (Holds.mapM_all f hf l)
    intro bs hbs
    exact Holds.pure (by simp [hb, hbs])


/-! ### the recursion -/

theorem treesSupported_cons (e : BEnv) (Γ : Ctx) (t : Tree) (ts : List Tree) :
    treesSupported e Γ (t :: ts) = (treeSupported e Γ t && treesSupported e Γ ts) := by
  rw [treesSupported]

theorem treeSupported_node (e : BEnv) (Γ : Ctx) (q : QN) (a : List (QN × Str)) (n : NsMap) (t : Option Str)
    (c : List Tree) (tl : Option Str) :
    treeSupported e Γ (.node q a n t c tl) = (xsiTypeSupported e Γ a n && treesSupported e Γ c) := by
  rw [treeSupported]

mutual

theorem parseNodeU_holds (e : BEnv) (Γ : Ctx) (hΓ : ctxSupported Γ = true) :
    ∀ (cfg : ParserConfig) (node : NodeU) (t : Tree), nodeUOK node = true → treeSupported e Γ t = true →
      Holds (fun out => objsOK out.objs) (parseNodeU e Γ cfg node t)
  | cfg, node, .node qname a n text children tail, hn, ht => by
    rw [treeSupported_node, Bool.and_eq_true] at ht
    cases node with
    | union pmeta var attrs nsmap cands =>
      rw [parseNodeU]
      have hv : xvarSupported var = true := by simpa [nodeUOK] using hn
      have hkids : ∀ m, metaSupported m = true →
          Holds (fun p => objsOK p.1.objs) (parseKidsU e Γ (strictCfg cfg) m {} none children) :=
        fun m hm => parseKidsU_holds e Γ hΓ (strictCfg cfg) m {} none children hm ht.2
      apply Holds.bind (Holds.mapM_all _ (fun t => unionTrial_holds e Γ hΓ cfg _ hkids var hv attrs nsmap qname text tail t) cands)
      intro results hres
      exact unionBind_holds var results (List.all_eq_true.mp hres)
    | base nd =>
      cases nd with
      | element m at' ns derived xt xn =>
        have hm : metaSupported m = true := by simpa [nodeUOK, nodeOK] using hn
        rw [parseNodeU]
        apply Holds.bind (parseKidsU_holds e Γ hΓ cfg m {} none children hm ht.2)
        intro p hp
        obtain ⟨sub, st⟩ := p
        exact elementFinish_holds e Γ cfg m hm at' ns derived xt xn qname text tail sub hp st
      | skip => rw [parseNodeU]; exact parseNode_base_holds e Γ cfg _ (by simpa [nodeUOK] using hn) (by intros; simp) _; intro _ _ _ _ _ _ h; cases h
      | wrapper w => simp [nodeUOK, nodeOK] at hn
      | primitive pm v ns nil =>
        rw [parseNodeU]; exact parseNode_base_holds e Γ cfg _ (by simpa [nodeUOK] using hn) (by intros; simp) _; intro _ _ _ _ _ _ h; cases h
      | standard v dt ns nl d mx =>
        rw [parseNodeU]; exact parseNode_base_holds e Γ cfg _ (by simpa [nodeUOK] using hn) (by intros; simp) _; intro _ _ _ _ _ _ h; cases h
      | wildcard v at' ns =>
        rw [parseNodeU]; exact parseNode_base_holds e Γ cfg _ (by simpa [nodeUOK] using hn) (by intros; simp) _; intro _ _ _ _ _ _ h; cases h
termination_by _ _ t => sizeOf t

theorem parseKidsU_holds (e : BEnv) (Γ : Ctx) (hΓ : ctxSupported Γ = true) :
    ∀ (cfg : ParserConfig) (m : XmlMeta) (st : ElState) (wrapper : Option QN) (ts : List Tree),
      metaSupported m = true → treesSupported e Γ ts = true →
      Holds (fun p => objsOK p.1.objs) (parseKidsU e Γ cfg m st wrapper ts)
  | cfg, m, st, wrapper, [], _, _ => by rw [parseKidsU]; rfl
  | cfg, m, st, wrapper, (.node q a n t c tl) :: rest, hm, hts => by
    rw [treesSupported_cons, Bool.and_eq_true] at hts
    have ht := hts.1
    rw [treeSupported_node, Bool.and_eq_true] at ht
    have h1 := fun node hn => parseNodeU_holds e Γ hΓ cfg node (.node q a n t c tl) hn hts.1
    have h2 := fun st' => parseKidsU_holds e Γ hΓ cfg m st' wrapper rest hm hts.2
    have h3 := parseKidsU_holds e Γ hΓ cfg m st (some q) c hm ht.2
    rw [parseKidsU]
    split
    · apply Holds.bind h3
      intro p hp
      obtain ⟨o, st'⟩ := p
      apply Holds.bind (h2 st')
      intro p' hp'
      obtain ⟨r, st''⟩ := p'
      apply Holds.pure
      simp only [objsOK_append, Bool.and_eq_true]
      exact ⟨hp, hp'⟩
    · apply Holds.bind (childNodeU_holds e Γ hΓ cfg m hm st q a n ht.1 wrapper)
      intro p hp
      obtain ⟨node, st'⟩ := p
      apply Holds.bind (h1 node hp)
      intro o ho
      apply Holds.bind (h2 st')
      intro p' hp'
      obtain ⟨r, st''⟩ := p'
      apply Holds.pure
      simp only [objsOK_append, Bool.and_eq_true]
      exact ⟨ho, hp'⟩
termination_by _ _ _ _ ts => sizeOf ts

end

/-- inside the supported region `NodeParser.parse` never answers `unsupported` -/
theorem parseRootU_sup (e : BEnv) (Γ : Ctx) (hΓ : ctxSupported Γ = true) (cfg : ParserConfig) (c : ClassId) :
    ∀ t : Tree, treeSupported e Γ t = true → Sup (parseRootU e Γ cfg c t)
  | .node q a n t ch tl, ht => by
    unfold parseRootU
    apply Holds.sup (P := fun r => valOK r.1)
    apply Holds.bind (rootNode_holds e Γ hΓ c none q a n)
    intro root hroot
    apply Holds.bind (parseNodeU_holds e Γ hΓ cfg _ (.node q a n t ch tl) (by simpa [nodeUOK, nodeOK] using hroot) ht)
    intro out hout
    exact rootResult_holds out hout

end Proofs.C15
