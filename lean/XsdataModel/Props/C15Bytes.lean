/- C15 — the converter of xs:hexBinary / xs:base64Binary fails cleanly: property theorems (only).  Model: `Fault/Bytes.lean`. -/
import XsdataModel.Fault.Bytes

namespace Props.C15
open Py Xs.Bind Xs.Fault

/-- **bytes_deserialize_clean.** For every environment, format, string and stdlib verdict,
`BytesConverter.deserialize` returns bytes or raises `ConverterError` — never the codec's own
`binascii.Error` or plain `ValueError`. -/
theorem bytes_deserialize_clean (e : Env) (fmt : BytesFormat) (value : Str) (b64 : Codec) :
    (∃ bs, bytesDeserialize e fmt value b64 = .ok bs) ∨ bytesDeserialize e fmt value b64 = .error .converter := by
  unfold bytesDeserialize
  cases fmt
  · dsimp only
    cases unhexlify (value.filter fun c => !e.isSpace c) <;> simp
  · cases b64 <;> simp
  · right; rfl

/-- **bytes_nonascii_is_converter_error.** A value with a non-ASCII character (after the
whitespace is dropped) is a `ConverterError` in base16 — the stdlib raises a plain `ValueError` for
it, which only `except ValueError` (not `except binascii.Error`) translates. -/
theorem bytes_nonascii_is_converter_error (e : Env) (value : Str)
    (h : (value.filter fun c => !e.isSpace c).any (fun c => c.toNat ≥ 128) = true) (b64 : Codec) :
    bytesDeserialize e .base16 value b64 = .error .converter := by
  unfold bytesDeserialize unhexlify
  simp [h]

example : ("CAFÉ".toList.filter fun c => !Env.ascii.isSpace c).any (fun c => c.toNat ≥ 128) = true := by decide

/-- the same for base64, where the stdlib verdict is the input -/
theorem bytes_valueerror_is_converter_error (e : Env) (value : Str) :
    bytesDeserialize e .base64 value .valueError = .error .converter := rfl

/-- at the field level: a value, a warning with the raw string kept, or — with
`fail_on_converter_warnings` — ParserError; nothing else -/
theorem parse_bytes_var_clean (e : Env) (cfg : ParserConfig) (fmt : BytesFormat) (value : Str) (b64 : Codec) :
    (∃ r, parseBytesVar e cfg fmt value b64 = .ok r) ∨ (∃ m, parseBytesVar e cfg fmt value b64 = .error (.parser m)) := by
  unfold parseBytesVar
  split
  · exact .inl ⟨_, rfl⟩
  · split
    · exact .inr ⟨_, rfl⟩
    · exact .inl ⟨_, rfl⟩

example : bytesDeserialize Env.ascii .base16 "CA fe".toList (.bytes []) = .ok [202, 254] := by rfl

end Props.C15
