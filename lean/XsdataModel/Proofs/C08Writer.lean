/- C08 — helper lemmas: the indentation bookkeeping of the native writer only adds layout whitespace. -/
import XsdataModel.Backends.Writer

namespace Xs.Backends
open Py Xs.Bind

/-! ### the normaliser -/

abbrev W (e : Env) (b : Str) : Bool := b.all e.isSpace

def feedAll (e : Env) (n : NState) (xs : List ISax) : NState := xs.foldl (NState.feed e) n

theorem normState_append (e : Env) (xs ys : List ISax) :
    normState e (xs ++ ys) = feedAll e (normState e xs) ys := by
  simp [normState, feedAll, List.foldl_append]

theorem feedAll_append (e : Env) (n : NState) (xs ys : List ISax) :
    feedAll e n (xs ++ ys) = feedAll e (feedAll e n xs) ys := by
  simp [feedAll, List.foldl_append]

theorem feedAll_nil (e : Env) (n : NState) : feedAll e n [] = n := rfl
theorem feedAll_cons (e : Env) (n : NState) (x : ISax) (xs : List ISax) :
    feedAll e n (x :: xs) = feedAll e (n.feed e x) xs := rfl

theorem flush_bad_mono (e : Env) (n : NState) (c : Bool) (h : (n.flush e c).bad = false) : n.bad = false := by
  unfold NState.flush at h
  split at h
  · exact h
  · split at h
    · split at h <;> exact h
    · simp only [Bool.or_eq_false_iff] at h; exact h.1

theorem feed_bad_mono (e : Env) (n : NState) (x : ISax) (h : (n.feed e x).bad = false) : n.bad = false := by
  cases x with
  | ws s => exact h
  | sax y =>
    cases y with
    | chars s => exact h
    | «open» q a => exact flush_bad_mono e n false h
    | close q => exact flush_bad_mono e n true h

theorem feedAll_bad_mono (e : Env) (n : NState) (xs : List ISax) (h : (feedAll e n xs).bad = false) :
    n.bad = false := by
  induction xs generalizing n with
  | nil => exact h
  | cons x xs ih => exact feed_bad_mono e n x (ih _ h)

/-- the relation between the reader's state on the indented and on the plain stream;
`g` = the next tag call is known to be a start tag -/
def Sim (e : Env) (g : Bool) (nI nP : NState) : Prop :=
  nI.emitted = nP.emitted ∧ nI.prevOpen = nP.prevOpen ∧
    (nI.buf = nP.buf ∨ (W e nI.buf = W e nP.buf ∧ (nP.prevOpen = true → g = true)))

theorem Sim.ws {e : Env} {g : Bool} {nI nP : NState} (h : Sim e g nI nP) (c : Str) (hc : W e c = true)
    (hg : nP.prevOpen = true → g = true) : Sim e g (nI.feed e (.ws c)) nP := by
  obtain ⟨h1, h2, h3⟩ := h
  refine ⟨h1, h2, Or.inr ⟨?_, hg⟩⟩
  simp only [NState.feed, W, List.all_append]
  rcases h3 with h3 | h3
  · rw [h3]; simp only [W] at hc; rw [hc, Bool.and_true]
  · simp only [W] at hc h3; rw [hc, Bool.and_true]; exact h3.1

theorem Sim.chars {e : Env} {g : Bool} {nI nP : NState} (h : Sim e g nI nP) (s : Str) :
    Sim e g (nI.feed e (.sax (.chars s))) (nP.feed e (.sax (.chars s))) := by
  obtain ⟨h1, h2, h3⟩ := h
  refine ⟨h1, h2, ?_⟩
  simp only [NState.feed]
  rcases h3 with h3 | h3
  · exact Or.inl (by rw [h3])
  · refine Or.inr ⟨?_, h3.2⟩
    simp only [W, List.all_append] at h3 ⊢
    rw [h3.1]

theorem Sim.weaken {e : Env} {g g' : Bool} {nI nP : NState} (h : Sim e g nI nP) (hg : g = true → g' = true) :
    Sim e g' nI nP := by
  obtain ⟨h1, h2, h3⟩ := h
  refine ⟨h1, h2, ?_⟩
  rcases h3 with h3 | h3
  · exact Or.inl h3
  · exact Or.inr ⟨h3.1, fun hp => hg (h3.2 hp)⟩

/-- flushing in a context that is not "whole content of a leaf" -/
theorem flush_nonleaf {e : Env} {g : Bool} {nI nP : NState} (c : Bool) (h : Sim e g nI nP)
    (hctx : nI.buf ≠ nP.buf → (nP.prevOpen && c) = false)
    (hb : (nP.flush e c).bad = false) :
    (nI.flush e c).emitted = (nP.flush e c).emitted ∧ (nI.flush e c).prevOpen = (nP.flush e c).prevOpen
      ∧ (nI.flush e c).buf = [] ∧ (nP.flush e c).buf = [] := by
  obtain ⟨h1, h2, h3⟩ := h
  by_cases heq : nI.buf = nP.buf
  · have : nI.flush e c = { nP.flush e c with bad := (nI.flush e c).bad } := by
      unfold NState.flush
      rw [heq, h1, h2]
      split
      · cases nI; cases nP; simp_all
      · split
        · split <;> rfl
        · rfl
    rw [this]
    refine ⟨rfl, rfl, ?_, ?_⟩ <;>
    · unfold NState.flush
      split
      · rename_i h; simpa [List.isEmpty_iff] using h
      · split
        · split <;> rfl
        · rfl
  · have hc := hctx heq
    have hw : W e nI.buf = W e nP.buf := by
      rcases h3 with h3 | h3
      · exact absurd h3 heq
      · exact h3.1
    have hcI : (nI.prevOpen && c) = false := by rw [h2]; exact hc
    -- the plain buffer is whitespace only, otherwise the flush marks `bad`
    have hWP : W e nP.buf = true := by
      by_cases hemp : nP.buf.isEmpty = true
      · have : nP.buf = [] := by simpa [List.isEmpty_iff] using hemp
        simp [W, this]
      · cases hW : W e nP.buf with
        | true => rfl
        | false =>
          exfalso
          unfold NState.flush at hb
          simp only [hemp, W] at hb hW
          simp [hW, hc] at hb
    have hWI : W e nI.buf = true := hw.trans hWP
    have fI : nI.flush e c = if nI.buf.isEmpty then nI else { nI with buf := [] } := by
      unfold NState.flush
      simp only [W] at hWI
      simp [hWI, hcI]
    have fP : nP.flush e c = if nP.buf.isEmpty then nP else { nP with buf := [] } := by
      unfold NState.flush
      simp only [W] at hWP
      simp [hWP, hc]
    rw [fI, fP]
    refine ⟨?_, ?_, ?_, ?_⟩
    · split <;> split <;> exact h1
    · split <;> split <;> exact h2
    · split
      · rename_i h; simpa [List.isEmpty_iff] using h
      · rfl
    · split
      · rename_i h; simpa [List.isEmpty_iff] using h
      · rfl

theorem Sim.open {e : Env} {g : Bool} {nI nP : NState} (h : Sim e g nI nP) (q : QN) (a : List (QN × Str))
    (hb : (nP.feed e (.sax (.open q a))).bad = false) (g' : Bool) :
    Sim e g' (nI.feed e (.sax (.open q a))) (nP.feed e (.sax (.open q a))) := by
  have hf := flush_nonleaf (e := e) false h (by intro _; simp) hb
  obtain ⟨f1, _, f3, f4⟩ := hf
  refine ⟨?_, rfl, Or.inl ?_⟩
  · simp only [NState.feed]; rw [f1]
  · simp only [NState.feed]; rw [f3, f4]

theorem Sim.close {e : Env} {nI nP : NState} (h : Sim e false nI nP) (q : QN)
    (hb : (nP.feed e (.sax (.close q))).bad = false) (g' : Bool) :
    Sim e g' (nI.feed e (.sax (.close q))) (nP.feed e (.sax (.close q))) := by
  have hctx : nI.buf ≠ nP.buf → (nP.prevOpen && true) = false := by
    intro hne
    rcases h.2.2 with h3 | h3
    · exact absurd h3 hne
    · cases hp : nP.prevOpen with
      | false => rfl
      | true => exact absurd (h3.2 hp) (by decide)
  have hf := flush_nonleaf (e := e) true h hctx hb
  obtain ⟨f1, _, f3, f4⟩ := hf
  refine ⟨?_, rfl, Or.inl ?_⟩
  · simp only [NState.feed]; rw [f1]
  · simp only [NState.feed]; rw [f3, f4]

theorem Sim.finish {e : Env} {g : Bool} {nI nP : NState} (h : Sim e g nI nP)
    (hb : (nP.flush e false).bad = false) :
    (nI.flush e false).emitted = (nP.flush e false).emitted :=
  (flush_nonleaf (e := e) false h (by intro _; simp) hb).1

theorem prevOpen_feed_chars (e : Env) (n : NState) (s : Str) :
    (n.feed e (.sax (.chars s))).prevOpen = n.prevOpen := rfl

theorem prevOpen_feed_close (e : Env) (n : NState) (q : QN) :
    (n.feed e (.sax (.close q))).prevOpen = false := rfl

theorem Sim.refl (e : Env) (g : Bool) (n : NState) : Sim e g n n := ⟨rfl, rfl, Or.inl rfl⟩

end Xs.Backends

namespace Xs.Backends
open Py Xs.Bind

/-! ### the shape of what one `EventHandler` event appends -/

/-- the start-tag call `flush_start` makes (if a tag is pending) -/
def OpenPart (w : WState) (o : List Sax) : Prop :=
  (w.pending = none ∧ o = []) ∨ (∃ q a, w.pending = some q ∧ o = [Sax.open q a])

theorem flush_shape (w : WState) (isNil : Bool) :
    ∃ o, OpenPart w o ∧ (w.flush isNil).out = w.out ++ o ∧ (w.flush isNil).pending = none
      ∧ (w.flush isNil).tail = w.tail := by
  unfold WState.flush
  cases h : w.pending with
  | none => exact ⟨[], Or.inl ⟨h, rfl⟩, by simp, h, rfl⟩
  | some q => exact ⟨_, Or.inr ⟨q, _, h, rfl⟩, rfl, rfl, rfl⟩

/-- what `WState.step` appends: `o` (a flushed start tag) then `c` -/
def StepShape (w : WState) (ev : Ev) (w' : WState) : Prop :=
  ∃ o c, w'.out = w.out ++ (o ++ c) ∧
    match ev with
    | .start q => OpenPart w o ∧ c = [] ∧ w'.pending = some q
    | .attr _ _ => o = [] ∧ c = [] ∧ w'.pending = w.pending
    | .data _ => OpenPart w o ∧ (c = [] ∨ ∃ s, c = [Sax.chars s]) ∧ w'.pending = none
    | .end q => OpenPart w o ∧ (c = [Sax.close q] ∨ ∃ s, c = [Sax.close q, Sax.chars s]) ∧ w'.pending = none

theorem step_shape (m : NsMap) (isDt : Str → Bool) (w : WState) (ev : Ev) (w' : WState)
    (h : w.step m isDt ev = .ok w') : StepShape w ev w' := by
  cases ev with
  | start q =>
    obtain ⟨o, ho, hout, _, _⟩ := flush_shape w false
    simp only [WState.step, Except.ok.injEq] at h
    subst h
    exact ⟨o, [], by simp [hout], ho, rfl, rfl⟩
  | attr q d =>
    simp only [WState.step] at h
    split at h
    · cases h
    · split at h
      · simp only [Except.ok.injEq] at h; subst h; exact ⟨[], [], by simp, rfl, rfl, rfl⟩
      · cases h
      · cases h
  | data d =>
    simp only [WState.step] at h
    split at h
    · cases h
    · rename_i value hv
      simp only [Except.ok.injEq] at h
      subst h
      cases value with
      | none =>
        obtain ⟨o, ho, hout, hp, _⟩ := flush_shape w true
        exact ⟨o, [], by simp [hout], ho, Or.inl rfl, by simp [hp]⟩
      | some s =>
        obtain ⟨o, ho, hout, hp, _⟩ := flush_shape w false
        by_cases hs : s.isEmpty = true
        · exact ⟨o, [], by simp [hs, hout], ho, Or.inl rfl, by simp [hs, hp]⟩
        · refine ⟨o, [Sax.chars s], ?_, ho, Or.inr ⟨s, rfl⟩, ?_⟩
          · simp [hs, hout]
          · simp [hs, hp]
  | «end» q =>
    obtain ⟨o, ho, hout, hp, htl⟩ := flush_shape w true
    simp only [WState.step, Except.ok.injEq] at h
    subst h
    cases htail : w.tail with
    | none =>
      refine ⟨o, [Sax.close q], ?_, ho, Or.inl rfl, ?_⟩
      · simp [htl, htail, hout]
      · simp [htl, htail, hp]
    | some t =>
      by_cases hte : t.isEmpty = true
      · refine ⟨o, [Sax.close q], ?_, ho, Or.inl rfl, ?_⟩
        · simp [htl, htail, hte, hout]
        · simp [htl, htail, hte, hp]
      · refine ⟨o, [Sax.close q, Sax.chars t], ?_, ho, Or.inr ⟨t, rfl⟩, ?_⟩
        · simp [htl, htail, hte, hout]
        · simp [htl, htail, hte, hp]

theorem step_out_append (m : NsMap) (isDt : Str → Bool) (w : WState) (ev : Ev) (w' : WState)
    (h : w.step m isDt ev = .ok w') : ∃ d, w'.out = w.out ++ d := by
  obtain ⟨o, c, hout, _⟩ := step_shape m isDt w ev w' h
  exact ⟨o ++ c, hout⟩

end Xs.Backends

namespace Xs.Backends
open Py Xs.Bind

/-! ### the native writer against the inherited handler -/

theorem super_of_step {m : NsMap} {isDt : Str → Bool} {s : IState} {ev : Ev} {w' : WState} {d : List Sax}
    (h : s.w.step m isDt ev = .ok w') (hd : w'.out = s.w.out ++ d) :
    s.super m isDt ev = .ok { s with w := w', out := s.out ++ d.map ISax.sax } := by
  unfold IState.super
  rw [h]
  simp [hd]

theorem super_err {m : NsMap} {isDt : Str → Bool} {s : IState} {ev : Ev} {x : Err}
    (h : s.w.step m isDt ev = .error x) : s.super m isDt ev = .error x := by
  unfold IState.super
  rw [h]

theorem W_newline (e : Env) : W e ['\n'] = true := by
  simp [W, Env.isSpace, isAscii, isAsciiSpace]

theorem W_strMul (e : Env) (i : Str) (n : Int) (h : W e i = true) : W e (strMul i n) = true := by
  unfold strMul
  induction n.toNat with
  | zero => simp [W]
  | succ k ih =>
    simp only [W, List.replicate_succ, List.flatten_cons, List.all_append, Bool.and_eq_true] at ih ⊢
    exact ⟨h, ih⟩

/-- the invariant tying the native writer's calls to the inherited handler's calls -/
structure Inv (e : Env) (s : IState) : Prop where
  sim : Sim e s.w.pending.isSome (normState e s.out) (normState e (s.w.out.map ISax.sax))
  pend : s.pendingEnd = true →
    s.w.pending = none ∧ (normState e (s.w.out.map ISax.sax)).prevOpen = false

theorem feed_open_part {e : Env} {w : WState} {nI nP : NState} {o : List Sax}
    (h : Sim e w.pending.isSome nI nP) (ho : OpenPart w o)
    (hb : (feedAll e nP (o.map ISax.sax)).bad = false) :
    Sim e false (feedAll e nI (o.map ISax.sax)) (feedAll e nP (o.map ISax.sax)) := by
  rcases ho with ⟨hp, rfl⟩ | ⟨q, a, _, rfl⟩
  · simpa [hp, feedAll] using h
  · simp only [List.map_cons, List.map_nil, feedAll_cons, feedAll_nil] at hb ⊢
    exact h.open q a hb false

theorem feedAll_two (e : Env) (n : NState) (a b : Str) :
    feedAll e n [ISax.ws a, ISax.ws b] = (n.feed e (.ws a)).feed e (.ws b) := rfl

set_option maxHeartbeats 400000 in
theorem step_inv (e : Env) (m : NsMap) (isDt : Str → Bool) (indent : Option Str) (i : Str)
    (hi : indentOn indent = some i) (hW : W e i = true)
    (s : IState) (hinv : Inv e s) (ev : Ev) (w' : WState)
    (hstep : s.w.step m isDt ev = .ok w')
    (hbad : (normState e (w'.out.map ISax.sax)).bad = false) :
    ∃ s', s.step m isDt indent ev = .ok s' ∧ s'.w = w' ∧ Inv e s' := by
  obtain ⟨o, c, hout, hsh⟩ := step_shape m isDt s.w ev w' hstep
  have hsup := super_of_step hstep hout
  -- the plain reader state after the step
  have hP : normState e (w'.out.map ISax.sax)
      = feedAll e (feedAll e (normState e (s.w.out.map ISax.sax)) (o.map ISax.sax)) (c.map ISax.sax) := by
    rw [hout, List.map_append, List.map_append, normState_append, feedAll_append]
  have hbo : (feedAll e (normState e (s.w.out.map ISax.sax)) (o.map ISax.sax)).bad = false := by
    rw [hP] at hbad; exact feedAll_bad_mono e _ _ hbad
  cases ev with
  | attr q d =>
    obtain ⟨rfl, rfl, hp⟩ := hsh
    refine ⟨_, by simp only [IState.step]; exact hsup, rfl, ?_⟩
    have hw : w'.out = s.w.out := by simpa using hout
    constructor
    · simpa [hw, hp] using hinv.sim
    · intro h; simpa [hw, hp] using hinv.pend h
  | data d =>
    obtain ⟨ho, hc, hp⟩ := hsh
    refine ⟨_, by simp only [IState.step]; exact hsup, rfl, ?_⟩
    have hs1 := feed_open_part hinv.sim ho hbo
    constructor
    · simp only [hp, Option.isSome_none, List.map_append, ← List.append_assoc]
      rw [normState_append, normState_append, hP]
      rcases hc with rfl | ⟨t, rfl⟩
      · simpa [feedAll] using hs1
      · simp only [List.map_cons, List.map_nil, feedAll_cons, feedAll_nil]
        exact hs1.chars t
    · intro hpe
      obtain ⟨hpn, hpo⟩ := hinv.pend hpe
      refine ⟨hp, ?_⟩
      rcases ho with ⟨_, rfl⟩ | ⟨q, a, hq, _⟩
      · rw [hP]
        rcases hc with rfl | ⟨t, rfl⟩
        · simpa [feedAll] using hpo
        · simpa [feedAll, NState.feed] using hpo
      · rw [hpn] at hq; cases hq
  | start q =>
    obtain ⟨ho, rfl, hp⟩ := hsh
    have hs1 := feed_open_part hinv.sim ho hbo
    have hs2 : Sim e true (normState e (s.out ++ (o ++ []).map ISax.sax)) (normState e (w'.out.map ISax.sax)) := by
      rw [normState_append, hP]
      simpa [feedAll] using hs1.weaken (g' := true) (by intro h; cases h)
    by_cases hl : s.level = 0
    · simp only [IState.step, hsup, hi, hl, ne_eq, not_true_eq_false, if_false]
      refine ⟨_, rfl, rfl, ?_⟩
      constructor
      · simpa [hp] using hs2
      · intro h; cases h
    · simp only [IState.step, hsup, hi, hl, ne_eq, not_false_eq_true, if_true]
      refine ⟨_, rfl, rfl, ?_⟩
      constructor
      · simp only [IState.ignorableWs, hp, Option.isSome_some, List.append_assoc]
        rw [← List.append_assoc, normState_append]
        simp only [List.cons_append, List.nil_append, feedAll_cons, feedAll_nil]
        exact (hs2.ws _ (W_newline e) (fun _ => rfl)).ws _ (W_strMul e i _ hW) (fun _ => rfl)
      · intro h; cases h
  | «end» q =>
    obtain ⟨ho, hc, hp⟩ := hsh
    simp only [IState.step, hi]
    -- the state before `super().end_tag`
    generalize hs0 : (if s.pendingEnd = true then
        (({ s with level := s.level - 1 } : IState).ignorableWs ['\n']).ignorableWs (strMul i (s.level - 1))
        else { s with level := s.level - 1 }) = s0
    have hw0 : s0.w = s.w := by rw [← hs0]; split <;> rfl
    have hpe0 : s0.pendingEnd = s.pendingEnd := by rw [← hs0]; split <;> rfl
    have hl0 : s0.level = s.level - 1 := by rw [← hs0]; split <;> rfl
    have hsim0 : Sim e s.w.pending.isSome (normState e s0.out) (normState e (s.w.out.map ISax.sax)) := by
      rw [← hs0]
      by_cases hpe : s.pendingEnd = true
      · obtain ⟨_, hpo⟩ := hinv.pend hpe
        simp only [hpe, if_true, IState.ignorableWs, List.append_assoc]
        rw [normState_append]
        simp only [List.cons_append, List.nil_append, feedAll_cons, feedAll_nil]
        have hg : (normState e (s.w.out.map ISax.sax)).prevOpen = true → s.w.pending.isSome = true := by
          intro h; rw [hpo] at h; cases h
        exact (hinv.sim.ws _ (W_newline e) hg).ws _ (W_strMul e i _ hW) hg
      · simpa [hpe] using hinv.sim
    have hstep0 : s0.w.step m isDt (.end q) = .ok w' := by rw [hw0]; exact hstep
    have hout0 : w'.out = s0.w.out ++ (o ++ c) := by rw [hw0]; exact hout
    have hsup0 := super_of_step hstep0 hout0
    rw [hsup0]
    have hs1 := feed_open_part hsim0 ho hbo
    -- after the end tag and the tail
    have hbc : ∀ t, c = [Sax.close q] ∨ c = [Sax.close q, Sax.chars t] →
        ((feedAll e (normState e (s.w.out.map ISax.sax)) (o.map ISax.sax)).feed e (.sax (.close q))).bad = false := by
      intro t hc'
      rw [hP] at hbad
      rcases hc' with rfl | rfl
      · simpa [feedAll] using hbad
      · simp only [List.map_cons, List.map_nil, feedAll_cons, feedAll_nil] at hbad
        exact feed_bad_mono e _ _ hbad
    have hs2 : Sim e false (normState e (s0.out ++ (o ++ c).map ISax.sax)) (normState e (w'.out.map ISax.sax)) := by
      rw [normState_append, hP, List.map_append, feedAll_append]
      rcases hc with rfl | ⟨t, rfl⟩
      · simp only [List.map_cons, List.map_nil, feedAll_cons, feedAll_nil]
        exact hs1.close q (hbc [] (Or.inl rfl)) false
      · simp only [List.map_cons, List.map_nil, feedAll_cons, feedAll_nil]
        exact (hs1.close q (hbc t (Or.inr rfl)) false).chars t
    have hpo' : (normState e (w'.out.map ISax.sax)).prevOpen = false := by
      rw [hP]
      rcases hc with rfl | ⟨t, rfl⟩ <;> rfl
    by_cases hl : s0.level = 0
    · refine ⟨_, rfl, by simp [hl, IState.ignorableWs], ?_⟩
      constructor
      · simp only [hl, if_true, IState.ignorableWs, hp, Option.isSome_none]
        rw [normState_append]
        exact hs2.ws _ (W_newline e) (by intro h; rw [hpo'] at h; cases h)
      · intro _
        simp only [hl, if_true, IState.ignorableWs]
        exact ⟨hp, hpo'⟩
    · refine ⟨_, rfl, by simp [hl], ?_⟩
      constructor
      · simpa [hl, hp] using hs2
      · intro _
        simp only [hl, if_false]
        exact ⟨hp, hpo'⟩

end Xs.Backends

namespace Xs.Backends
open Py Xs.Bind

/-! ### whole runs -/

theorem eraseWs_append (xs ys : List ISax) : eraseWs (xs ++ ys) = eraseWs xs ++ eraseWs ys := by
  induction xs with
  | nil => rfl
  | cons x xs ih => cases x <;> simp [eraseWs, ih]

theorem eraseWs_map_sax (d : List Sax) : eraseWs (d.map ISax.sax) = d := by
  induction d with
  | nil => rfl
  | cons x xs ih => simp [eraseWs, ih]

theorem eraseWs_ws (c : Str) : eraseWs [ISax.ws c] = [] := rfl

theorem foldlM_cons_ok {α β : Type} (f : β → α → Except Err β) (b b' : β) (a : α) (l : List α)
    (h : f b a = .ok b') : (a :: l).foldlM f b = l.foldlM f b' := by
  simp [List.foldlM, h, bind, Except.bind]

theorem foldlM_cons_err {α β : Type} (f : β → α → Except Err β) (b : β) (a : α) (l : List α) (x : Err)
    (h : f b a = .error x) : (a :: l).foldlM f b = .error x := by
  simp [List.foldlM, h, bind, Except.bind]

theorem foldlM_nil_ok {α β : Type} (f : β → α → Except Err β) (b : β) :
    ([] : List α).foldlM f b = .ok b := rfl

/-- one event: the native writer makes the inherited calls plus `ignorableWhitespace` calls, and fails
exactly when the inherited handler fails -/
theorem step_erase (m : NsMap) (isDt : Str → Bool) (indent : Option Str) (s : IState)
    (h : eraseWs s.out = s.w.out) (ev : Ev) :
    match s.w.step m isDt ev with
    | .ok w' => ∃ s', s.step m isDt indent ev = .ok s' ∧ s'.w = w' ∧ eraseWs s'.out = w'.out
    | .error x => s.step m isDt indent ev = .error x := by
  cases hst : s.w.step m isDt ev with
  | error x =>
    have hsup := super_err (s := s) hst
    cases ev with
    | start q => simp only [IState.step, hsup]
    | attr q d => simp only [IState.step, hsup]
    | data d => simp only [IState.step, hsup]
    | «end» q =>
      simp only [IState.step]
      cases hi : indentOn indent with
      | none => simp only [hsup]
      | some i =>
        simp only []
        generalize hs0 : (if s.pendingEnd = true then
            (({ s with level := s.level - 1 } : IState).ignorableWs ['\n']).ignorableWs (strMul i (s.level - 1))
            else { s with level := s.level - 1 }) = s0
        have hw0 : s0.w = s.w := by rw [← hs0]; split <;> rfl
        have hst0 : s0.w.step m isDt (.end q) = .error x := by rw [hw0]; exact hst
        rw [super_err hst0]
  | ok w' =>
    obtain ⟨d, hd⟩ := step_out_append m isDt s.w ev w' hst
    have hsup := super_of_step hst hd
    have hE : eraseWs (s.out ++ d.map ISax.sax) = w'.out := by
      rw [eraseWs_append, eraseWs_map_sax, h, hd]
    cases ev with
    | attr q d => exact ⟨_, by simp only [IState.step]; exact hsup, rfl, hE⟩
    | data d => exact ⟨_, by simp only [IState.step]; exact hsup, rfl, hE⟩
    | start q =>
      simp only [IState.step, hsup]
      cases hi : indentOn indent with
      | none => exact ⟨_, rfl, rfl, hE⟩
      | some i =>
        simp only []
        by_cases hl : s.level = 0
        · simp only [hl, ne_eq, not_true_eq_false, if_false]
          exact ⟨_, rfl, rfl, hE⟩
        · simp only [hl, ne_eq, not_false_eq_true, if_true]
          refine ⟨_, rfl, rfl, ?_⟩
          simp only [IState.ignorableWs, eraseWs_append, eraseWs_ws, List.append_nil]
          rw [← eraseWs_append]; exact hE
    | «end» q =>
      simp only [IState.step]
      cases hi : indentOn indent with
      | none => exact ⟨_, hsup, rfl, hE⟩
      | some i =>
        simp only []
        generalize hs0 : (if s.pendingEnd = true then
            (({ s with level := s.level - 1 } : IState).ignorableWs ['\n']).ignorableWs (strMul i (s.level - 1))
            else { s with level := s.level - 1 }) = s0
        have hw0 : s0.w = s.w := by rw [← hs0]; split <;> rfl
        have he0 : eraseWs s0.out = s.w.out := by
          rw [← hs0]; split
          · simp only [IState.ignorableWs, eraseWs_append, eraseWs_ws, List.append_nil]; exact h
          · exact h
        have hst0 : s0.w.step m isDt (.end q) = .ok w' := by rw [hw0]; exact hst
        have hd0 : w'.out = s0.w.out ++ d := by rw [hw0]; exact hd
        rw [super_of_step hst0 hd0]
        have hE0 : eraseWs (s0.out ++ d.map ISax.sax) = w'.out := by
          rw [eraseWs_append, eraseWs_map_sax, he0, hd]
        simp only []
        split
        · refine ⟨_, rfl, rfl, ?_⟩
          simp only [IState.ignorableWs, eraseWs_append, eraseWs_ws, List.append_nil]
          rw [← eraseWs_append]; exact hE0
        · exact ⟨_, rfl, rfl, hE0⟩

theorem run_erase (m : NsMap) (isDt : Str → Bool) (indent : Option Str) (evs : List Ev) (s : IState)
    (h : eraseWs s.out = s.w.out) :
    match evs.foldlM (WState.step m isDt) s.w with
    | .ok wf => ∃ sf, evs.foldlM (IState.step m isDt indent) s = .ok sf ∧ sf.w = wf ∧ eraseWs sf.out = wf.out
    | .error x => evs.foldlM (IState.step m isDt indent) s = .error x := by
  induction evs generalizing s with
  | nil => exact ⟨s, rfl, rfl, h⟩
  | cons ev evs ih =>
    have h1 := step_erase m isDt indent s h ev
    cases hst : s.w.step m isDt ev with
    | error x =>
      rw [hst] at h1
      rw [foldlM_cons_err _ _ _ _ _ hst, foldlM_cons_err _ _ _ _ _ h1]
    | ok w1 =>
      rw [hst] at h1
      obtain ⟨s1, hs1, hw1, he1⟩ := h1
      rw [foldlM_cons_ok _ _ _ _ _ hst, foldlM_cons_ok _ _ _ _ _ hs1]
      have := ih s1 (by rw [he1, hw1])
      rw [hw1] at this
      exact this

theorem run_out_append (m : NsMap) (isDt : Str → Bool) (evs : List Ev) (w wf : WState)
    (h : evs.foldlM (WState.step m isDt) w = .ok wf) : ∃ d, wf.out = w.out ++ d := by
  induction evs generalizing w with
  | nil =>
    have : w = wf := by
      have h' : (Except.ok w : Except Err WState) = .ok wf := h
      exact Except.ok.inj h'
    exact ⟨[], by simp [this]⟩
  | cons ev evs ih =>
    cases hst : w.step m isDt ev with
    | error x => rw [foldlM_cons_err _ _ _ _ _ hst] at h; cases h
    | ok w1 =>
      rw [foldlM_cons_ok _ _ _ _ _ hst] at h
      obtain ⟨d1, hd1⟩ := step_out_append m isDt w ev w1 hst
      obtain ⟨d2, hd2⟩ := ih w1 h
      exact ⟨d1 ++ d2, by rw [hd2, hd1, List.append_assoc]⟩

theorem run_inv (e : Env) (m : NsMap) (isDt : Str → Bool) (indent : Option Str) (i : Str)
    (hi : indentOn indent = some i) (hW : W e i = true) (evs : List Ev) (s : IState) (hinv : Inv e s)
    (wf : WState) (hrun : evs.foldlM (WState.step m isDt) s.w = .ok wf)
    (hbad : (normState e (wf.out.map ISax.sax)).bad = false) :
    ∃ sf, evs.foldlM (IState.step m isDt indent) s = .ok sf ∧ sf.w = wf ∧ Inv e sf := by
  induction evs generalizing s with
  | nil =>
    have : s.w = wf := by
      have h' : (Except.ok s.w : Except Err WState) = .ok wf := hrun
      exact Except.ok.inj h'
    exact ⟨s, rfl, this, hinv⟩
  | cons ev evs ih =>
    cases hst : s.w.step m isDt ev with
    | error x => rw [foldlM_cons_err _ _ _ _ _ hst] at hrun; cases hrun
    | ok w1 =>
      rw [foldlM_cons_ok _ _ _ _ _ hst] at hrun
      obtain ⟨d, hd⟩ := run_out_append m isDt evs w1 wf hrun
      have hb1 : (normState e (w1.out.map ISax.sax)).bad = false := by
        rw [hd, List.map_append, normState_append] at hbad
        exact feedAll_bad_mono e _ _ hbad
      obtain ⟨s1, hs1, hw1, hinv1⟩ := step_inv e m isDt indent i hi hW s hinv ev w1 hst hb1
      rw [foldlM_cons_ok _ _ _ _ _ hs1]
      exact ih s1 hinv1 (by rw [hw1]; exact hrun)

theorem eventsSax_ok (m : NsMap) (isDt : Str → Bool) (evs : List Ev) (plain : List Sax)
    (h : eventsSax m isDt evs = .ok plain) :
    ∃ wf, evs.foldlM (WState.step m isDt) {} = .ok wf ∧ wf.out = plain := by
  unfold eventsSax at h
  cases hf : evs.foldlM (WState.step m isDt) {} with
  | error x => simp [hf, bind, Except.bind] at h
  | ok wf =>
    refine ⟨wf, rfl, ?_⟩
    simpa [hf, bind, Except.bind, pure, Except.pure] using h

theorem eventsSax_err (m : NsMap) (isDt : Str → Bool) (evs : List Ev) (x : Err)
    (h : eventsSax m isDt evs = .error x) : evs.foldlM (WState.step m isDt) {} = .error x := by
  unfold eventsSax at h
  cases hf : evs.foldlM (WState.step m isDt) {} with
  | error y => simpa [hf, bind, Except.bind] using h
  | ok wf => simp [hf, bind, Except.bind, pure, Except.pure] at h

theorem Inv.init (e : Env) : Inv e {} := ⟨Sim.refl e _ _, by intro h; cases h⟩

end Xs.Backends

namespace Xs.Backends
open Py Xs.Bind

/-! ### `etree.indent` only touches layout -/

theorem treeTail_setTail (t : Tree) (x : Option Str) : treeTail (treeSetTail t x) = x := by
  cases t; rfl

theorem setTail_setTail (t : Tree) (x y : Option Str) : treeSetTail (treeSetTail t x) y = treeSetTail t y := by
  cases t; rfl

theorem treeTail_stripLayout (e : Env) (t : Tree) : treeTail (stripLayout e t) = treeTail t := by
  cases t with
  | node q a ns tx kids tl => cases kids <;> simp [stripLayout, treeTail]

theorem stripLayout_setTail (e : Env) (t : Tree) (x : Option Str) :
    stripLayout e (treeSetTail t x) = treeSetTail (stripLayout e t) x := by
  cases t with
  | node q a ns tx kids tl => cases kids <;> simp [stripLayout, treeSetTail]

theorem treeTail_indentNode (e : Env) (sp : Str) (l : Nat) (t : Tree) :
    treeTail (indentNode e sp l t) = treeTail t := by
  cases t with
  | node q a ns tx kids tl => cases kids <;> simp [indentNode, treeTail]

theorem wsOnly_indentation (e : Env) (sp : Str) (l : Nat) (h : W e sp = true) :
    wsOnly e (some (indentation sp l)) = true := by
  have h1 := W_strMul e sp (l : Int) h
  have h2 : e.isSpace '\n' = true := by simpa [W] using W_newline e
  simp only [wsOnly, indentation, List.all_cons, Bool.and_eq_true]
  exact ⟨h2, by simpa [W] using h1⟩

mutual
theorem stripLayout_indentNode (e : Env) (sp : Str) (h : W e sp = true) (l : Nat) (t : Tree) :
    stripLayout e (indentNode e sp l t) = stripLayout e t := by
  match t with
  | .node q a ns tx [] tl => simp [indentNode]
  | .node q a ns tx (k :: ks) tl =>
    have hk := stripLayoutKids_indentKids e sp h l (k :: ks)
    simp only [indentNode]
    simp only [indentKids] at hk ⊢
    simp only [stripLayout]
    simp only [stripLayoutKids] at hk ⊢
    rw [hk]
    congr 1
    by_cases hw : wsOnly e tx = true
    · simp [hw, wsOnly_indentation e sp l h]
    · simp [hw]
theorem stripLayoutKids_indentKids (e : Env) (sp : Str) (h : W e sp = true) (l : Nat) (ks : List Tree) :
    stripLayoutKids e (indentKids e sp l ks) = stripLayoutKids e ks := by
  match ks with
  | [] => simp [indentKids]
  | k :: ks' =>
    have h1 := stripLayout_indentNode e sp h (l + 1) k
    have h2 := stripLayoutKids_indentKids e sp h l ks'
    simp only [indentKids, stripLayoutKids]
    rw [h2]
    congr 1
    rw [treeTail_indentNode]
    by_cases hw : wsOnly e (treeTail k) = true
    · simp only [hw, if_true]
      rw [stripLayout_setTail, h1, treeTail_setTail]
      have : wsOnly e (some (if ks'.isEmpty = true then indentation sp (l - 1) else indentation sp l)) = true := by
        split
        · exact wsOnly_indentation e sp _ h
        · exact wsOnly_indentation e sp _ h
      rw [this, treeTail_stripLayout, hw]
      simp [setTail_setTail]
    · simp only [hw]
      simp only [Bool.false_eq_true, if_false]
      rw [h1]
end

end Xs.Backends

namespace Xs.Backends
open Py Xs.Bind

/-! ### without indentation the native writer makes exactly the inherited calls -/

theorem step_flat (m : NsMap) (isDt : Str → Bool) (indent : Option Str) (hi : indentOn indent = none)
    (s s' : IState) (ev : Ev) (h : s.out = s.w.out.map ISax.sax) (hs : s.step m isDt indent ev = .ok s') :
    s'.out = s'.w.out.map ISax.sax := by
  have key : ∀ s1, s.super m isDt ev = .ok s1 → s1.out = s1.w.out.map ISax.sax := by
    intro s1 h1
    cases hst : s.w.step m isDt ev with
    | error x => rw [super_err hst] at h1; cases h1
    | ok w' =>
      obtain ⟨d, hd⟩ := step_out_append m isDt s.w ev w' hst
      rw [super_of_step hst hd] at h1
      cases h1
      simp [h, hd]
  cases ev with
  | attr q d => exact key s' (by simpa only [IState.step] using hs)
  | data d => exact key s' (by simpa only [IState.step] using hs)
  | «end» q => exact key s' (by simpa only [IState.step, hi] using hs)
  | start q =>
    simp only [IState.step, hi] at hs
    cases h1 : s.super m isDt (.start q) with
    | error x => rw [h1] at hs; cases hs
    | ok s1 =>
      rw [h1] at hs
      cases hs
      exact key _ h1

theorem run_flat (m : NsMap) (isDt : Str → Bool) (indent : Option Str) (hi : indentOn indent = none)
    (evs : List Ev) (s sf : IState) (h : s.out = s.w.out.map ISax.sax)
    (hs : evs.foldlM (IState.step m isDt indent) s = .ok sf) : sf.out = sf.w.out.map ISax.sax := by
  induction evs generalizing s with
  | nil =>
    have h' : (Except.ok s : Except Err IState) = .ok sf := hs
    cases h'; exact h
  | cons ev evs ih =>
    cases h1 : s.step m isDt indent ev with
    | error x => rw [foldlM_cons_err _ _ _ _ _ h1] at hs; cases hs
    | ok s1 =>
      rw [foldlM_cons_ok _ _ _ _ _ h1] at hs
      exact ih s1 (step_flat m isDt indent hi s s1 ev h h1) hs

theorem renderDoc_map_sax (d : Nat) (xs : List Sax) : renderDoc d (xs.map ISax.sax) = xs := by
  induction xs generalizing d with
  | nil => rfl
  | cons x xs ih => cases x <;> simp [renderDoc, ih]

end Xs.Backends
