/-
L6 — `DictEncoder.encode(value, var, wrapped)` once more, this time literally with its
`wrapped` flag and with enumeration members: every re-entry (`encode(val, var, wrapped)` for
the items of an array, `encode(value.value, var, wrapped)` for an `Enum` member, and
`encode(value, var, True)` under the wrapper key) passes the flag on, and the wrapper check is
made again at every entry.  `Dict/Encode.lean` folds the flag away (`encVar` → `encCore` →
`encItem`), which is only right because of the theorem `wrapper_once` (Props/C04Wrap.lean).

The value universe of this file is local: `Val` of the Bind layer has no enumeration members.
-/
import XsdataModel.Dict.Encode

namespace Xs.Dict
open Py Xs.Bind

/-- what `DictEncoder.encode` dispatches on -/
inductive DV
  | none
  | prim (p : PVal)
  /-- an `Enum` member with its `.value`; `mixin` = the member also is an `int` / `str`
  (`IntEnum`, `class E(str, Enum)`) and is caught by the primitive test before the `Enum` test -/
  | enum (mixin : Bool) (value : DV)
  | list (xs : List DV)
  /-- an instance `Item(v=i)` of a model class with the single element field `v: int` -/
  | model (i : Int)
deriving Repr

/-- `dict_factory(next_value(Item(v=i)))` -/
def itemJ (fac : Factory) (i : Int) : J := fac.apply [("v".toList, .num i)]

/-- `return self.dict_factory(((var.local_name, self.encode(value, var, True)),))` -/
def wrapJ (fac : Factory) (localName : Str) (inner : Except Err J) : Except Err J :=
  inner.map fun j => fac.apply [(localName, j)]

/-- `DictEncoder.encode(value, var, wrapped)` for a var with the given `wrapper` / `local_name`;
`fuel` bounds the number of nested re-entries.  Every case starts with the two tests every entry
makes: `if value is None: return None` and `if var.wrapper and not wrapped: …` -/
def encFlagsF (fac : Factory) (wrapper : Option Str) (localName : Str) : Nat → Bool → DV → Except Err J
  | 0, _, _ => .error (.unsupported "fuel")
  | _ + 1, _, .none => .ok .null
  | n + 1, wrapped, .model i =>
    if wrapper.isSome && !wrapped then wrapJ fac localName (encFlagsF fac wrapper localName n true (.model i))
    else .ok (itemJ fac i)                                               -- `is_model(value)`
  | n + 1, wrapped, .list xs =>
    if wrapper.isSome && !wrapped then wrapJ fac localName (encFlagsF fac wrapper localName n true (.list xs))
    else (xs.mapM (encFlagsF fac wrapper localName n wrapped)).map J.arr  -- `is_array(value)`
  | n + 1, wrapped, .prim p =>
    if wrapper.isSome && !wrapped then wrapJ fac localName (encFlagsF fac wrapper localName n true (.prim p))
    else .ok (encPrim p)                                                 -- primitives / `converter.serialize`
  | n + 1, wrapped, .enum true x =>
    if wrapper.isSome && !wrapped then wrapJ fac localName (encFlagsF fac wrapper localName n true (.enum true x))
    else
      -- `isinstance(value, (dict, int, float, str, bool))`: the member is returned as it is,
      -- a JSON library writes it as its primitive value
      (match x with
       | .prim p => .ok (encPrim p)
       | _ => .error (.unsupported "mixed-in enumeration over a non-primitive"))
  | n + 1, wrapped, .enum false x =>
    if wrapper.isSome && !wrapped then wrapJ fac localName (encFlagsF fac wrapper localName n true (.enum false x))
    else encFlagsF fac wrapper localName n wrapped x                     -- `encode(value.value, var, wrapped)`

end Xs.Dict
