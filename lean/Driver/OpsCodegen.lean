import Driver.Proto
import XsdataModel.Codegen.Graphs
import XsdataModel.Codegen.Toposort
import XsdataModel.Codegen.Packages
import XsdataModel.Codegen.Resolver
import XsdataModel.Codegen.Types
import XsdataModel.Codegen.SeqNum
import XsdataModel.Codegen.Cli
import XsdataModel.Codegen.Pipeline
import XsdataModel.Codegen.Circular
import XsdataModel.Codegen.Styles
import XsdataModel.Codegen.Cache
import XsdataModel.Codegen.Overrides
import XsdataModel.Codegen.CompoundName
open Lean Proto Py Xs.Codegen

namespace OpsCodegen

def strList (j : Json) : Except String (List Str) := do
  let a ← asArr j
  a.mapM asStr

def getStrList (j : Json) (k : String) : Except String (List Str) := do
  strList (j.getObjValD k)

/-- `[[key, [v, …]], …]` -/
def assocList (j : Json) : Except String (List (Str × List Str)) := do
  let a ← asArr j
  a.mapM (fun p => do
    match p with
    | .arr #[k, vs] => pure (← asStr k, ← strList vs)
    | _ => .error "expected [key, [values]]")

def strPairs (j : Json) : Except String (List (Str × Str)) := do
  let a ← asArr j
  a.mapM (fun p => do
    match p with
    | .arr #[k, v] => pure (← asStr k, ← asStr v)
    | _ => .error "expected [key, value]")

def optStr (j : Json) : Except String (Option Str) :=
  match j with
  | .null => .ok none
  | .str x => .ok (some x.toList)
  | _ => .error "expected string or null"

def classInfo (j : Json) : Except String ClassInfo := do
  pure { qname := ← getStr j "qname", name := ← getStr j "name", ns := ← getOptStr j "ns",
         deps := ← getStrList j "deps", depsAll := ← getStrList j "depsAll" }

def jAssign (r : List (Str × Option (Str × Str))) : Json :=
  jList (fun p => Json.arr #[jStr p.1,
    match p.2 with
    | some (pk, m) => Json.arr #[jStr pk, jStr m]
    | none => Json.null]) r

def pkgErr : PkgErr → Json
  | .keyError => err "KeyError"
  | .circular => err "CircularDependencyError"
  | .mixedNamespaces => err "CodegenError"

def jImport (i : Import) : Json := Json.arr #[jStr i.qname, jStr i.source, jOpt jStr i.alias]

def pathStep (j : Json) : Except String PathStep := do
  match j with
  | .arr #[t, i, mi, ma] => pure { tag := ← asStr t, id := ← asInt i, mi := ← asInt mi, ma := ← asInt ma }
  | _ => .error "expected [tag,id,min,max]"

def getOptInt (j : Json) (k : String) : Except String (Option Int) := asOptInt (j.getObjValD k)

def seqAttr (j : Json) : Except String SeqAttr := do
  let p ← getArr j "path"
  pure { skip := ← getBool j "skip", path := ← p.mapM pathStep,
         minOccurs := ← getInt j "min", maxOccurs := ← getInt j "max",
         sequence := ← getOptInt j "sequence", choice := ← getOptInt j "choice",
         group := ← getOptInt j "group" }

def resType (t : Str) : ResType :=
  match String.ofList t with
  | "wsdl" => .definition
  | "xsd" => .schema
  | "dtd" => .dtd
  | "xml" => .xml
  | "json" => .json
  | _ => .unknown

def optVal (kind : Str) (v : Json) : Except String (Option OptVal) :=
  match v with
  | .null => .ok none
  | _ =>
    match String.ofList kind with
    | "bool" => match v with
      | .bool b => .ok (some (.bool b))
      | _ => .error "expected bool"
    | "int" => (asInt v).map (fun i => some (.int i))
    | _ => (asStr v).map (fun x => some (.str x))

def jDescribe (o : GenOutput) : Json :=
  Json.mkObj ((describe o).map (fun kv => (String.ofList kv.1, jStr kv.2)))

def jOptDescribe : Option GenOutput → Json
  | some o => jDescribe o
  | none => Json.str "AttributeError"

/-- options given as `[[dest, kind, value|null], …]`; the option set to apply to `GeneratorOutput()` -/
def applyAll (kw : List (Dest × Option OptVal)) : Option GenOutput :=
  (kw.filterMap (fun kv => kv.2.map (fun v => (kv.1, v)))).foldlM (fun o kv => setField o kv.1 kv.2) defaultOutput

def run (op : String) (a : Json) : Option (Except String Json) :=
  match op with
  | "gen.scc" => some do
      let g ← assocList (a.getObjValD "edges")
      let vo ← getStrList a "vorder"
      pure <| match stronglyConnectedComponents g vo with
        | some comps => ok (jList (jList jStr) comps)
        | none => err "KeyError"
  | "gen.toposort" => some do
      let d ← assocList (a.getObjValD "data")
      pure <| match toposortFlatten d with
        | some r => ok (jList jStr r)
        | none => err "CircularDependencyError"
  | "gen.clusters" => some do
      let cs ← (← getArr a "classes").mapM classInfo
      let vo ← getStrList a "vorder"
      let package ← getStr a "package"
      let style ← getStr a "style"
      let nspkg ← (← getArr a "nspkg").mapM (fun p => do
        match p with
        | .arr #[k, v] => pure (← optStr k, ← asStr v)
        | _ => .error "expected [ns, package]")
      let nsPackage : Option Str → Str := fun ns => ((nspkg.find? (·.1 == ns)).map (·.2)).getD []
      let r := if String.ofList style == "clusters" then groupByStrongComponents package cs vo
               else groupByNamespaceClusters nsPackage cs vo
      pure <| match r with
        | .ok x => ok (jAssign x)
        | .error e => pkgErr e
  | "gen.layout" | "gen.e2e" => some do
      let cs ← (← getArr a "classes").mapM classInfo
      let vo ← getStrList a "vorder"
      let package ← getStr a "package"
      let style ← getStr a "style"
      let nspkg ← (← getArr a "nspkg").mapM (fun p => do
        match p with
        | .arr #[k, v] => pure (← optStr k, ← asStr v)
        | _ => .error "expected [ns, package]")
      let nsPackage : Option Str → Str := fun ns => ((nspkg.find? (·.1 == ns)).map (·.2)).getD []
      -- the styles without component search need the class locations and the package parts per namespace
      let locs ← (← getArr a "classes").mapM (fun c => do
        pure ({ qname := ← getStr c "qname", ns := ← getOptStr c "ns",
                location := (← getOptStr c "location").getD [] } : LocClass))
      let nsparts ← match a.getObjValD "nsparts" with
        | .arr ps => ps.toList.mapM (fun p => do
            match p with
            | .arr #[k, v] => pure (← optStr k, ← strList v)
            | _ => .error "expected [ns, parts]")
        | _ => pure []
      let nsParts : Option Str → List Str := fun ns => ((nsparts.find? (·.1 == ns)).map (·.2)).getD []
      let commonDir := match a.getObjValD "common_dir" with
        | .str x => x.toList
        | _ => []
      let r := match String.ofList style with
        | "clusters" => layoutClusters package cs vo
        | "namespaces" => layoutStyle (groupByNamespace nsParts) cs locs
        | "single-package" => layoutStyle (fun l => .ok (groupAllTogether package l)) cs locs
        | "filenames" => layoutStyle (groupByFilenames package commonDir) cs locs
        | _ => layoutNsClusters nsPackage cs vo
      pure <| match r with
        | .ok (x, ms) => ok (jObj [("assign", jAssign x),
            ("modules", jList (fun m => Json.arr #[jStr m.module, jList jStr m.classes, jList jStr m.imports]) ms)])
        | .error (.pkg e) => pkgErr e
        | .error (.res .duplicate) => err "CodegenError:duplicate"
        | .error (.res .circular) => err "CircularDependencyError"
        | .error (.res .unresolved) => err "CodegenError:unresolved"
        | .error .unassigned => err "CodegenError:unassigned"
  | "gen.resolver" => some do
      let reg ← strPairs (a.getObjValD "registry")
      let cs ← (← getArr a "classes").mapM (fun j => do
        pure ({ qname := ← getStr j "qname", deps := ← getStrList j "deps" } : ModClass))
      pure <| match resolverProcess reg cs with
        | .ok r => ok (jObj [("class_list", jList jStr r.classList),
                              ("imports", jList jImport r.imports),
                              ("sorted_imports", jList jImport r.sortedImports),
                              ("sorted_classes", jList jStr r.sortedClasses)])
        | .error .duplicate => err "CodegenError:duplicate"
        | .error .circular => err "CircularDependencyError"
        | .error .unresolved => err "CodegenError:unresolved"
  | "gen.sort_types" => some do
      let ts ← getStrList a "types"
      pure <| ok (jObj [("sorted", jList jStr (sortTypes ts)),
                        ("prio", jList jNat ((sortTypes ts).map typeKey))])
  | "gen.seqnum" => some do
      -- the base class holds the given `restrictions.sequence` values as they are;
      -- `process(target)` renumbers it first, then the target
      let attrs ← (← getArr a "attrs").mapM seqAttr
      let base ← (← getArr a "base").mapM asOptInt
      let baseClass : List SeqAttr := base.map (fun s => { sequence := s })
      let prepared := resetSequences (calculatePaths attrs)
      let out := match renumberChainFrom [] (if base.isEmpty then [prepared] else [baseClass, prepared]) with
        | [t] => seqOutput t
        | [_, t] => seqOutput t
        | _ => []
      pure <| ok (jList (fun r => Json.arr #[jInt r.1, jInt r.2.1, jOpt jInt r.2.2.1, jOpt jNat r.2.2.2]) out)
  | "gen.seqchain" => some do
      let chain ← (← getArr a "chain").mapM (fun c => do (← asArr c).mapM seqAttr)
      let out := (sequencePipelineChain chain).map seqOutput
      pure <| ok (jList (jList (fun r => Json.arr #[jInt r.1, jInt r.2.1, jOpt jInt r.2.2.1, jOpt jNat r.2.2.2])) out)
  | "gen.circular" => some do
      let g ← (← getArr a "classes").mapM (fun c => do
        let tys ← (← getArr c "types").mapM (fun t => do
          pure ({ target := ← getNat t "target", circular := ← getBool t "circular", own := ← getBool t "own" } : CType))
        pure ({ ref := ← getNat c "ref", types := tys } : CClass))
      let order ← (← getArr a "order").mapM (fun j => match j.getNat? with
        | .ok n => .ok n
        | .error _ => .error "expected nat")
      pure <| match detectCircular g order with
        | some g' => ok (jList (fun p => Json.arr #[jNat p.1, jList jBool p.2]) (circularFlags g'))
        | none => err "FUEL"
  | "gen.styles" => some do
      let cs ← (← getArr a "classes").mapM (fun c => do
        pure ({ qname := ← getStr c "qname", ns := ← getOptStr c "ns", location := ← getStr c "location" } : LocClass))
      let style ← getStr a "style"
      let package ← getStr a "package"
      let commonDir ← getStr a "common_dir"
      let nsparts ← (← getArr a "nsparts").mapM (fun p => do
        match p with
        | .arr #[k, v] => pure (← optStr k, ← strList v)
        | _ => .error "expected [ns, parts]")
      let nsParts : Option Str → List Str := fun ns => ((nsparts.find? (·.1 == ns)).map (·.2)).getD []
      let out := fun (r : List (Str × Str × Str)) =>
        ok (jList (fun t => Json.arr #[jStr t.1, Json.arr #[jStr t.2.1, jStr t.2.2]]) r)
      match String.ofList style with
      | "namespaces" => pure <| match groupByNamespace nsParts cs with
          | .ok r => out r
          | .error _ => err "IndexError"
      | "single-package" => pure <| out (groupAllTogether package cs)
      | "filenames" => pure <| match groupByFilenames package commonDir cs with
          | .ok r => out r
          | .error _ => err "ValueError"
      | st => .error s!"unknown style {st}"
  | "gen.cache" => some do
      let runs ← (← getArr a "runs").mapM (fun r => do
        pure (← getStrList r "uris", ← getStr r "package"))
      -- the mapped classes are abstracted to "which (uris, package) they were mapped from"
      let raw : List Str → Str → List Str := fun u p => u ++ [p]
      pure <| ok (jList (jList jStr) (runHistory true raw [] runs))
  | "gen.overrides" => some do
      let st ← (← getArr a "classes").mapM (fun c => do
        let attrs ← (← getArr c "attrs").mapM (fun x => do
          pure ({ name := ← getStr x "name", isAttribute := ← getBool x "attribute", ns := ← getOptStr x "ns",
                  minOccurs := ← getNat x "min", maxOccurs := ← getNat x "max", sig := ← getNat x "sig",
                  anyType := ← getBool x "any" } : OAttr))
        let base ← match c.getObjValD "base" with
          | .null => pure none
          | j => match j.getNat? with
            | .ok n => pure (some n)
            | .error _ => .error "bad base"
        pure ({ attrs := attrs, base := base } : OClass))
      let order ← (← getArr a "order").mapM (fun j => match j.getNat? with
        | .ok n => .ok n
        | .error _ => .error "expected nat")
      let clean ← strPairs (a.getObjValD "clean_uri")
      let cleanUri : Str → Str := fun u => ((clean.find? (·.1 == u)).map (·.2)).getD u
      let out := runOverrides cleanUri st order
      pure <| ok (jList (fun c => jList (fun x => Json.arr #[jStr x.name, jNat x.minOccurs, jNat x.maxOccurs]) c.attrs) out)
  | "gen.choose_name" => some do
      let cfg : CompoundCfg := { defaultName := ← getStr a "default_name", useSubstitutionGroups := ← getBool a "use_substitution_groups",
                                 forceDefaultName := ← getBool a "force_default_name", maxNameParts := ← getNat a "max_name_parts" }
      let names ← getStrList a "names"
      let subs ← getStrList a "substitutions"
      let reserved ← getStrList a "reserved"
      pure <| ok (jStr (chooseName cfg names subs (reserved.map alnum)))
  | "gen.process_order" => some do
      let us ← strPairs (a.getObjValD "uris")
      let classify : Str → ResType := fun u => ((us.find? (·.1 == u)).map (fun p => resType p.2)).getD .unknown
      pure <| ok (jList jStr (processOrder classify (us.map (·.1))))
  | "gen.config_routes" => some do
      let opts ← (← getArr a "options").mapM (fun p => do
        match p with
        | .arr #[d, k, v] => do
            let kind ← asStr k
            let name ← asStr d
            match Dest.parse name with
            | some dest => pure (dest, ← optVal kind v)
            | none => .error s!"unknown option destination {String.ofList name}"
        | _ => .error "expected [dest, kind, value]")
      -- API / config file: the constructors see the requested values
      let api := (applyAll opts).map construct
      -- CLI flags on top of an absent config file
      let cli := cliGenerate defaultOutput opts
      -- config file written from the API object, no flags
      let file := api.bind (fun o => cliGenerate (construct o) [])
      pure <| ok (jObj [("api", jOptDescribe api), ("cli", jOptDescribe cli), ("file", jOptDescribe file)])
  | "gen.names" => some do
      let q ← getStr a "qname"
      pure <| ok (jObj [("local", jStr (localName q)), ("slug", jStr (alnum (localName q)))])
  | _ => none

end OpsCodegen
