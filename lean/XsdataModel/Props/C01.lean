/- C01 — property theorems (only). -/
import XsdataModel.Bind.Write

namespace Props.C01
open Py Xs.Bind

end Props.C01
