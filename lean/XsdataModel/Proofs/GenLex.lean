/-
Lexical provenance of generated events: under `ctxLexOK Γ` and `valLexOK Γ v` every event
`EventGenerator.generate` yields carries a name the metadata prescribes (element, wrapper,
attribute, `xsi:nil` / `xsi:type`) or a string of the instance (`bevLex`).  For every universe
with `ctxLexOK` — C01's fragment predicates are not needed here.
-/
import XsdataModel.Spec.BindLex
import XsdataModel.Proofs.GenForest
import XsdataModel.Proofs.C01NSeq
import XsdataModel.Proofs.NatStr

namespace Proofs.GenLex
open Py Xs.Bind Spec.XmlNs Spec.Hyps Spec.BindLex Proofs.GenForest

/-! ### `next_value`: the pairs come from the element vars and the field values -/

/-- `c` comes from one of the pairs: the value itself or one of its items -/
def Src (vals : List (XmlVar × Val)) (c : XmlVar × Val) : Prop :=
  ∃ vv ∈ vals, c.1 = vv.1 ∧ (c.2 = vv.2 ∨ ∃ xs, vv.2 = .list xs ∧ c.2 ∈ xs)

theorem foldl_src (g : Bool × List (XmlVar × Val) → XmlVar × Val → Bool × List (XmlVar × Val))
    (hstep : ∀ st vv, ∀ c ∈ (g st vv).2, c ∈ st.2 ∨
      (c.1 = vv.1 ∧ (c.2 = vv.2 ∨ ∃ xs, vv.2 = .list xs ∧ c.2 ∈ xs))) :
    ∀ (vals : List (XmlVar × Val)) (st : Bool × List (XmlVar × Val)),
      ∀ c ∈ (vals.foldl g st).2, c ∈ st.2 ∨ Src vals c := by
  intro vals
  induction vals with
  | nil => intro st c hc; exact Or.inl hc
  | cons vv t ih =>
    intro st c hc
    rw [List.foldl_cons] at hc
    rcases ih (g st vv) c hc with h | ⟨w, hw, h⟩
    · rcases hstep st vv c h with h' | h'
      · exact Or.inl h'
      · exact Or.inr ⟨vv, by simp, h'⟩
    · exact Or.inr ⟨w, List.mem_cons_of_mem _ hw, h⟩

theorem roll_mem (vals : List (XmlVar × Val)) : ∀ (fuel j : Nat) (acc : List (XmlVar × Val)) (c : XmlVar × Val),
    c ∈ nextValue.roll Proofs.C01.emitOfN fuel j vals acc → c ∈ acc ∨ Src vals c := by
  intro fuel
  induction fuel with
  | zero => intro j acc c h; rw [nextValue.roll] at h; exact Or.inl h
  | succ f ih =>
    intro j acc c h
    rw [nextValue.roll] at h
    generalize hfold : List.foldl _ (false, ([] : List (XmlVar × Val))) vals = r at h
    have key : ∀ c ∈ r.2, c ∈ ([] : List (XmlVar × Val)) ∨ Src vals c := by
      rw [← hfold]
      refine foldl_src _ ?_ vals (false, [])
      intro st vv c hc
      obtain ⟨v, x⟩ := vv
      simp only [] at hc
      split at hc
      · rename_i x _ _ xs heq
        have hx : x = Val.list xs := by
          by_cases hcond : (v.listElement || !v.tokens) = true
          · simpa [hcond] using heq
          · simp [hcond] at heq
        split at hc
        · rename_i y hy
          rcases List.mem_append.mp hc with h' | h'
          · exact Or.inl h'
          · obtain ⟨rfl, _⟩ := Proofs.C01.mem_emitOfN h'
            exact Or.inr ⟨rfl, Or.inr ⟨xs, hx, List.mem_of_getElem? hy⟩⟩
        · exact Or.inl hc
      · split at hc
        · rcases List.mem_append.mp hc with h' | h'
          · exact Or.inl h'
          · obtain ⟨rfl, _⟩ := Proofs.C01.mem_emitOfN h'
            exact Or.inr ⟨rfl, Or.inl rfl⟩
        · exact Or.inl hc
    obtain ⟨rolling, out⟩ := r
    simp only [] at h
    split at h
    · rcases ih _ _ c h with h' | h'
      · rcases List.mem_append.mp h' with h'' | h''
        · exact Or.inl h''
        · rcases key c h'' with h3 | h3
          · cases h3
          · exact Or.inr h3
      · exact Or.inr h'
    · exact Or.inl h

theorem go_mem (fields : List (Str × Val)) (P : XmlVar → Val → Prop)
    (hP : ∀ var xs, P var (.list xs) → ∀ x ∈ xs, P var x)
    (hf : ∀ var x, getField fields var.name = .ok x → P var x) :
    ∀ (fuel : Nat) (rest : List XmlVar) (acc R : List (XmlVar × Val)),
      nextValue.go fields Proofs.C01.emitOfN fuel rest acc = .ok R →
      ∀ c ∈ R, c ∈ acc ∨ (c.1 ∈ rest ∧ P c.1 c.2) := by
  intro fuel
  induction fuel with
  | zero =>
    intro rest acc R h c hc
    rw [nextValue.go] at h
    cases h; exact Or.inl hc
  | succ f ih =>
    intro rest acc R h c hc
    cases rest with
    | nil => simp only [nextValue.go] at h; cases h; exact Or.inl hc
    | cons var tl =>
      simp only [nextValue.go] at h
      split at h
      · obtain ⟨v, hv, h⟩ := bind_ok h
        rcases ih tl _ R h c hc with h' | ⟨h1, h2⟩
        · rcases List.mem_append.mp h' with h'' | h''
          · exact Or.inl h''
          · obtain ⟨rfl, _⟩ := Proofs.C01.mem_emitOfN h''
            exact Or.inr ⟨by simp, hf _ _ hv⟩
        · exact Or.inr ⟨List.mem_cons_of_mem _ h1, h2⟩
      · rename_i sq _
        obtain ⟨vals, hvals, h⟩ := bind_ok h
        rcases ih _ _ R h c hc with h' | ⟨h1, h2⟩
        · rcases List.mem_append.mp h' with h'' | h''
          · exact Or.inl h''
          · rcases roll_mem _ _ _ _ _ h'' with h3 | ⟨vv, hvv, hc1, hc2⟩
            · cases h3
            · obtain ⟨w, hw, hwv⟩ := mapM_ok _ _ _ hvals vv hvv
              obtain ⟨x, hx, hwv⟩ := bind_ok hwv
              have hvv2 := pure_ok hwv
              subst hvv2
              refine Or.inr ⟨?_, ?_⟩
              · rw [hc1]; exact List.mem_of_mem_take hw
              · have hPx := hf _ _ hx
                rw [hc1]
                rcases hc2 with h4 | ⟨xs, h4, h5⟩
                · rw [h4]; exact hPx
                · simp only [] at h4; rw [h4] at hPx; exact hP _ xs hPx _ h5
        · exact Or.inr ⟨List.mem_of_mem_drop h1, h2⟩

theorem nextValue_mem (m : XmlMeta) (fields : List (Str × Val)) (P : XmlVar → Val → Prop)
    (hP : ∀ var xs, P var (.list xs) → ∀ x ∈ xs, P var x)
    (hf : ∀ var x, getField fields var.name = .ok x → P var x)
    (R : List (XmlVar × Val)) (h : nextValue m fields = .ok R) :
    ∀ c ∈ R, c.1 ∈ m.elementVars ∧ P c.1 c.2 := by
  intro c hc
  unfold nextValue at h
  rcases go_mem fields P hP hf _ _ _ R h c hc with h' | h'
  · cases h'
  · exact h'


/-! ### small facts -/

def AllLex (s : Bool) (evs : List Ev) : Prop := ∀ ev ∈ evs, bevLex s ev = true

theorem AllLex.nil {s : Bool} : AllLex s [] := by intro ev h; cases h

theorem AllLex.append {s : Bool} {a b : List Ev} (ha : AllLex s a) (hb : AllLex s b) : AllLex s (a ++ b) := by
  intro ev h
  rcases List.mem_append.mp h with h | h
  · exact ha ev h
  · exact hb ev h

theorem AllLex.cons {s : Bool} {ev : Ev} {r : List Ev} (h : bevLex s ev = true) (hr : AllLex s r) : AllLex s (ev :: r) := by
  intro x hx
  rcases List.mem_cons.mp hx with rfl | hx
  · exact h
  · exact hr x hx

theorem AllLex.flatten {s : Bool} {parts : List (List Ev)} (h : ∀ p ∈ parts, AllLex s p) : AllLex s parts.flatten := by
  intro ev hev
  obtain ⟨p, hp, hin⟩ := List.mem_flatten.mp hev
  exact h p hp ev hin

theorem mapM_lex {s : Bool} {α : Type} (f : α → Except Err (List Ev)) (xs : List α) (parts : List (List Ev))
    (h : xs.mapM f = .ok parts) (hf : ∀ x ∈ xs, ∀ r, f x = .ok r → AllLex s r) : AllLex s parts.flatten := by
  apply AllLex.flatten
  intro p hp
  obtain ⟨x, hx, hfx⟩ := mapM_ok f xs parts h p hp
  exact hf x hx p hfx

theorem digit_xml {c : Char} (h : Py.isDigitChar c = true) : isXmlChar c = true ∧ c ≠ '{' := by
  simp only [Py.isDigitChar, Bool.and_eq_true, decide_eq_true_eq] at h
  constructor
  · simp only [isXmlChar, inR, Bool.or_eq_true, Bool.and_eq_true, decide_eq_true_eq, beq_iff_eq]
    omega
  · intro hc; subst hc; simp at h

theorem natStr_xml (n : Nat) : xmlChars (natStr n) = true := by
  simp only [xmlChars, List.all_eq_true]
  intro c hc
  exact (digit_xml (Py.natStr_digits n c hc)).1

theorem intStr_lex (i : Int) : attrStrLex (intStr i) = true := by
  have hne := Py.natStr_ne_nil i.natAbs
  have hx := natStr_xml i.natAbs
  simp only [attrStrLex, Bool.and_eq_true, bne_iff_ne, ne_eq]
  unfold intStr
  split
  · refine ⟨?_, by simp⟩
    simp only [xmlChars, List.all_cons, Bool.and_eq_true]
    exact ⟨by decide, hx⟩
  · refine ⟨hx, ?_⟩
    cases hs : natStr i.natAbs with
    | nil => exact absurd hs hne
    | cons c t =>
      have := (digit_xml (Py.natStr_digits i.natAbs c (by rw [hs]; simp))).2
      simpa using this

theorem serPrim_lex (p : PVal) (h : ∀ s, p ≠ .str s) (hq : ∀ t, p ≠ .qname t) : attrStrLex (serPrim p) = true := by
  cases p with
  | str s => exact absurd rfl (h s)
  | qname t => exact absurd rfl (hq t)
  | int i => exact intStr_lex i
  | bool b => cases b <;> decide

theorem attrStrLex_xml {s : Str} (h : attrStrLex s = true) : xmlChars s = true := by
  simp only [attrStrLex, Bool.and_eq_true] at h; exact h.1

theorem listLex_mem (Γ : Ctx) : ∀ (xs : List Val), listLexOK Γ xs = true → ∀ x ∈ xs, valLexOK Γ x = true := by
  intro xs
  induction xs with
  | nil => intro _ x hx; cases hx
  | cons a r ih =>
    intro h x hx
    simp only [listLexOK, Bool.and_eq_true] at h
    rcases List.mem_cons.mp hx with rfl | hx
    · exact h.1
    · exact ih h.2 x hx

theorem fieldsLex_get (Γ : Ctx) : ∀ (fs : List (Str × Val)) (name : Str) (x : Val),
    fieldsLexOK Γ fs = true → getField fs name = .ok x → valLexOK Γ x = true := by
  intro fs
  induction fs with
  | nil => intro name x _ h; simp [getField] at h
  | cons a r ih =>
    obtain ⟨k, v⟩ := a
    intro name x h hg
    simp only [fieldsLexOK, Bool.and_eq_true] at h
    unfold getField at hg
    rw [List.find?_cons] at hg
    by_cases hk : k = name
    · simp [hk] at hg; rw [← hg]; exact h.1
    · simp only [hk, decide_false] at hg
      exact ih name x h.2 (by unfold getField; exact hg)

theorem getField_eq_look {fs : List (Str × Val)} {name : Str} {x : Val} (h : getField fs name = .ok x) :
    F1.look fs name = x := by
  unfold getField at h
  unfold F1.look
  split at h
  · rename_i k v hf; rw [hf]; simpa using h
  · cases h

theorem elemNameOK_of_type {t : QN} (h : typeNameLex t = true) : elemNameOK t = true := by
  unfold typeNameLex qnameTextOK at h
  unfold elemNameOK
  cases hc : clark t with
  | none => rw [hc] at h; cases h
  | some n =>
    obtain ⟨o, l⟩ := n
    rw [hc] at h
    cases o with
    | none => rfl
    | some u => simpa [nsPartOK] using h

theorem xsiNil_lex (s : Bool) : bevLex s (Ev.attr xsiNil (.prim (.str "true".toList))) = true := by
  cases s <;> decide +kernel

/-! ### the non-recursive parts of the generator -/

theorem encodePrimitive_dataLex (Γ : Ctx) (v : Val) (d : Data) (hv : valLexOK Γ v = true)
    (h : encodePrimitive v = .ok d) : dataLex d = true := by
  cases v with
  | none => simp [encodePrimitive] at h; subst h; rfl
  | prim p =>
    cases p with
    | str s => simp [encodePrimitive] at h; subst h; simpa [valLexOK, primLex, dataLex, pLexD] using hv
    | qname t => simp [valLexOK, primLex] at hv
    | int i => simp [encodePrimitive] at h; subst h; exact attrStrLex_xml (intStr_lex i)
    | bool b => simp [encodePrimitive] at h; subst h; cases b <;> decide
  | list xs =>
    simp only [encodePrimitive] at h
    obtain ⟨ds, hds, h⟩ := bind_ok h
    simp only [Except.ok.injEq] at h
    subst h
    simp only [dataLex, List.all_eq_true]
    intro d hd
    obtain ⟨x, hx, hfx⟩ := mapM_ok _ _ _ hds d hd
    have hxl := listLex_mem Γ xs (by simpa [valLexOK] using hv) x hx
    cases x with
    | none => simp at hfx; subst hfx; rfl
    | prim p =>
      cases p with
      | str s => simp at hfx; subst hfx; simpa [valLexOK, primLex, pLexD, itemLex] using hxl
      | qname t => simp [valLexOK, primLex] at hxl
      | int i => simp at hfx; subst hfx; exact attrStrLex_xml (intStr_lex i)
      | bool b => simp at hfx; subst hfx; cases b <;> decide
    | _ => simp at hfx
  | _ => simp [encodePrimitive] at h

theorem encodePrimitive_attrLex (Γ : Ctx) (v : Val) (d : Data) (hv : valLexOK Γ v = true)
    (ha : attrValLex v = true) (h : encodePrimitive v = .ok d) : attrDataLex d = true := by
  cases v with
  | none => simp [encodePrimitive] at h; subst h; rfl
  | prim p =>
    cases p with
    | str s => simp [encodePrimitive] at h; subst h; simpa [attrValLex, attrDataLex, pLexA] using ha
    | qname t => simp [valLexOK, primLex] at hv
    | int i => simp [encodePrimitive] at h; subst h; exact intStr_lex i
    | bool b => simp [encodePrimitive] at h; subst h; cases b <;> decide
  | list xs =>
    simp only [encodePrimitive] at h
    obtain ⟨ds, hds, h⟩ := bind_ok h
    simp only [Except.ok.injEq] at h
    subst h
    simp only [attrDataLex, List.all_eq_true]
    intro d hd
    obtain ⟨x, hx, hfx⟩ := mapM_ok _ _ _ hds d hd
    have hxl := listLex_mem Γ xs (by simpa [valLexOK] using hv) x hx
    simp only [attrValLex, List.all_eq_true] at ha
    have hxa := ha x hx
    cases x with
    | none => simp at hfx; subst hfx; rfl
    | prim p =>
      cases p with
      | str s => simp at hfx; subst hfx; simpa [pLexA, itemLex] using hxa
      | qname t => simp [valLexOK, primLex] at hxl
      | int i => simp at hfx; subst hfx; exact intStr_lex i
      | bool b => simp at hfx; subst hfx; cases b <;> decide
    | _ => simp at hfx
  | _ => simp [encodePrimitive] at h

theorem convertElement_lex (s : Bool) (Γ : Ctx) (var : VarCore) (v : Val) (evs : List Ev)
    (hq : elemNameOK var.qname = true) (hany : var.anyType = false) (hv : valLexOK Γ v = true)
    (h : convertElement var v = .ok evs) : AllLex s evs := by
  unfold convertElement at h
  obtain ⟨d, hd, h1⟩ := bind_ok h
  have := pure_ok h1
  rw [← this]
  have hdl := encodePrimitive_dataLex Γ v d hv hd
  refine AllLex.append (AllLex.append (AllLex.append (AllLex.cons hq AllLex.nil) ?_) ?_)
    (AllLex.cons hdl (AllLex.cons rfl AllLex.nil))
  · split
    · exact AllLex.cons (xsiNil_lex s) AllLex.nil
    · exact AllLex.nil
  · cases v with
    | prim p => simp [hany]; exact AllLex.nil
    | _ => exact AllLex.nil

theorem nextAttribute_lex (s : Bool) (Γ : Ctx) (cfg : SerCfg) (m : XmlMeta) (fields : List (Str × Val)) (nillable : Bool)
    (xt : Option QN) (evs : List Ev)
    (hm : m.attributeVars.all attrVarLex = true)
    (hvals : ∀ var ∈ m.attributeVars, attrValLex (F1.look fields var.name) = true)
    (hfs : fieldsLexOK Γ fields = true)
    (hxt : ∀ t, xt = some t → s = false ∧ typeNameLex t = true)
    (h : nextAttribute cfg m fields nillable xt = .ok evs) : AllLex s evs := by
  unfold nextAttribute at h
  obtain ⟨parts, hparts, h1⟩ := bind_ok h
  have := pure_ok h1
  rw [← this]
  refine AllLex.append (AllLex.append (AllLex.flatten ?_) ?_) ?_
  · intro p hp
    obtain ⟨var, hvar, hf⟩ := mapM_ok _ _ _ hparts p hp
    have hvl : attrVarLex var = true := List.all_eq_true.mp hm var hvar
    have hval := hvals var hvar
    by_cases ha : var.isAttribute = true
    · simp only [ha, if_true] at hf
      obtain ⟨value, hget, hf1⟩ := bind_ok hf
      rcases ite_cases hf1 with ⟨_, hf1⟩ | ⟨_, hf1⟩
      · rw [← pure_ok hf1]; exact AllLex.nil
      · obtain ⟨d, hd, hf2⟩ := bind_ok hf1
        rw [← pure_ok hf2]
        have hname : attrNameLex var.qname = true := by simpa [attrVarLex, ha] using hvl
        have hne : var.qname ≠ xsiType := by
          simp only [attrNameLex, Bool.and_eq_true, bne_iff_ne, ne_eq] at hname; exact hname.2
        rw [getField_eq_look hget] at hval
        have hdl := encodePrimitive_attrLex Γ value d (fieldsLex_get Γ _ _ _ hfs hget) hval hd
        exact AllLex.cons (by simp [bevLex, hne, hname, hdl]) AllLex.nil
    · simp only [ha, Bool.false_eq_true, if_false] at hf
      split at hf
      · rename_i k kv hfind
        rw [← pure_ok hf]
        have hl : F1.look fields var.name = .attrs kv := by simp [F1.look, hfind]
        rw [hl] at hval
        simp only [attrValLex, List.all_eq_true, Bool.and_eq_true] at hval
        intro ev hev
        obtain ⟨e, he, hev⟩ := List.mem_map.mp hev
        obtain ⟨hn, hs⟩ := hval e he
        have hne : e.1 ≠ xsiType := by
          simp only [attrNameLex, Bool.and_eq_true, bne_iff_ne, ne_eq] at hn; exact hn.2
        rw [← hev]
        simp [bevLex, hne, hn, attrDataLex, pLexA, hs]
      · cases hf
      · cases hf
      · rw [← pure_ok hf]; exact AllLex.nil
  · split
    · rename_i t
      split
      · exact AllLex.nil
      · exact AllLex.cons (by simp [bevLex, (hxt t rfl).1, (hxt t rfl).2]) AllLex.nil
    · exact AllLex.nil
  · split
    · exact AllLex.cons (xsiNil_lex s) AllLex.nil
    · exact AllLex.nil

/-! ### metadata looked up by the generator -/

theorem fetch_none {Γ : Ctx} {cls : ClassId} {pns : Option Str} {m : XmlMeta}
    (h : Γ.fetch cls pns none = .ok m) : ∃ ci, Γ.find cls = some ci ∧ ci.metaFor pns = some m := by
  unfold Ctx.fetch at h
  cases hf : Γ.find cls with
  | none => simp [hf] at h
  | some ci =>
    simp only [hf, Option.bind_some] at h
    cases hm : ci.metaFor pns with
    | none => simp [hm] at h
    | some m' =>
      simp only [hm, Except.ok.injEq] at h
      exact ⟨ci, rfl, by rw [← h, hm]⟩

theorem fetch_lex {Γ : Ctx} (hΓ : ctxLexOK Γ = true) {cls : ClassId} {pns : Option Str} {m : XmlMeta}
    (h : Γ.fetch cls pns none = .ok m) : metaLex m = true := by
  obtain ⟨ci, hfind, hmeta⟩ := fetch_none h
  obtain ⟨p, hp⟩ := Proofs.C01.metaFor_mem hmeta
  have hci : ci ∈ Γ.classes := List.mem_of_find?_eq_some hfind
  simp only [ctxLexOK, List.all_eq_true] at hΓ
  exact hΓ ci hci (p, m) hp

theorem fetch_attrs {Γ : Ctx} {cls : ClassId} {pns : Option Str} {m : XmlMeta} {fs : List (Str × Val)}
    (h : Γ.fetch cls pns none = .ok m) (ho : objAttrsLex Γ cls fs = true) :
    ∀ var ∈ m.attributeVars, attrValLex (F1.look fs var.name) = true := by
  obtain ⟨ci, hfind, hmeta⟩ := fetch_none h
  obtain ⟨p, hp⟩ := Proofs.C01.metaFor_mem hmeta
  simp only [objAttrsLex, hfind, List.all_eq_true] at ho
  exact ho (p, m) hp



/-! ### exactness facts -/

theorem exactItems_mem (ts : List TypeRef) : ∀ (xs : List Val), exactItems ts xs = true →
    ∀ x ∈ xs, exactItem ts x = true := by
  intro xs
  induction xs with
  | nil => intro _ x hx; cases hx
  | cons a r ih =>
    intro h x hx
    simp only [exactItems, Bool.and_eq_true] at h
    rcases List.mem_cons.mp hx with rfl | hx
    · exact h.1
    · exact ih h.2 x hx

theorem listExact_mem (Γ : Ctx) : ∀ (xs : List Val), listExactOK Γ xs = true → ∀ x ∈ xs, valExactOK Γ x = true := by
  intro xs
  induction xs with
  | nil => intro _ x hx; cases hx
  | cons a r ih =>
    intro h x hx
    simp only [listExactOK, Bool.and_eq_true] at h
    rcases List.mem_cons.mp hx with rfl | hx
    · exact h.1
    · exact ih h.2 x hx

theorem fieldsExact_get (Γ : Ctx) : ∀ (fs : List (Str × Val)) (name : Str) (x : Val),
    fieldsExactOK Γ fs = true → getField fs name = .ok x → valExactOK Γ x = true := by
  intro fs
  induction fs with
  | nil => intro name x _ h; simp [getField] at h
  | cons a r ih =>
    obtain ⟨k, v⟩ := a
    intro name x h hg
    simp only [fieldsExactOK, Bool.and_eq_true] at h
    unfold getField at hg
    rw [List.find?_cons] at hg
    by_cases hk : k = name
    · simp [hk] at hg; rw [← hg]; exact h.1
    · simp only [hk, decide_false] at hg
      exact ih name x h.2 (by unfold getField; exact hg)

theorem fetch_exact {Γ : Ctx} {cls : ClassId} {pns : Option Str} {m : XmlMeta} {fs : List (Str × Val)}
    (h : Γ.fetch cls pns none = .ok m) (ho : objExact Γ cls fs = true) :
    ∀ var ∈ m.elementVars, exactItem var.types (F1.look fs var.name) = true := by
  obtain ⟨ci, hfind, hmeta⟩ := fetch_none h
  obtain ⟨p, hp⟩ := Proofs.C01.metaFor_mem hmeta
  simp only [objExact, hfind, List.all_eq_true] at ho
  exact ho (p, m) hp

/-! ### the induction over the fuel -/

/-- what the strict variant additionally assumes about a value under a var with types `ts` -/
def Strict (s : Bool) (Γ : Ctx) (ts : List TypeRef) (v : Val) : Prop :=
  s = true → valExactOK Γ v = true ∧ exactItem ts v = true

/-- the mutually recursive generator functions emit lexically sound events (for one fuel value);
with `s`: and no `xsi:type` attribute -/
structure LexOK (s : Bool) (e : BEnv) (Γ : Ctx) (cfg : SerCfg) (fuel : Nat) : Prop where
  obj : ∀ v pns q nl xt evs, valLexOK Γ v = true →
    (∀ q', q = some q' → q'.isEmpty = false → elemNameOK q' = true) →
    (∀ t, xt = some t → s = false ∧ typeNameLex t = true) →
    (s = true → valExactOK Γ v = true) →
    genObj e Γ cfg fuel v pns q nl xt = .ok evs → AllLex s evs
  value : ∀ v var ns evs, valLexOK Γ v = true → varLex var = true → Strict s Γ var.types v →
    genValue e Γ cfg fuel v var ns = .ok evs → AllLex s evs
  anyType : ∀ v var ns evs, valLexOK Γ v = true → varLex var = true → Strict s Γ var.types v →
    genAnyType e Γ cfg fuel v var ns = .ok evs → AllLex s evs
  xsiElem : ∀ v cls (var : VarCore) ns evs, valLexOK Γ v = true → elemNameOK var.qname = true →
    (s = true → valExactOK Γ v = true ∧ var.types.contains (.cls cls) = true) →
    genXsiElement e Γ cfg fuel v cls var ns = .ok evs → AllLex s evs

theorem lexOK_zero (s : Bool) (e : BEnv) (Γ : Ctx) (cfg : SerCfg) : LexOK s e Γ cfg 0 := by
  refine ⟨?_, ?_, ?_, ?_⟩ <;> intros <;> rename_i h <;> simp [genObj, genValue, genAnyType, genXsiElement] at h

structure VarFacts (var : XmlVar) : Prop where
  name : elemNameOK var.qname = true
  wrapper : ∀ w, var.wrapperQName = some w → elemNameOK w = true
  mixed : var.mixed = false
  compound : var.isElements = false
  wildcard : var.isWildcard = false
  anyType : var.anyType = false

theorem varFacts {var : XmlVar} (h : varLex var = true) : VarFacts var := by
  simp only [varLex, Bool.and_eq_true, Bool.not_eq_true'] at h
  obtain ⟨⟨⟨⟨⟨h1, h2⟩, h3⟩, h4⟩, h5⟩, h6⟩ := h
  refine ⟨h1, ?_, h3, h4, h5, h6⟩
  intro w hw; rw [hw] at h2; exact h2

theorem Strict.item {s : Bool} {Γ : Ctx} {ts : List TypeRef} {xs : List Val} (h : Strict s Γ ts (.list xs))
    {x : Val} (hx : x ∈ xs) : Strict s Γ ts x := by
  intro hs
  obtain ⟨h1, h2⟩ := h hs
  exact ⟨listExact_mem Γ xs (by simpa [valExactOK] using h1) x hx,
    exactItems_mem ts xs (by simpa [exactItem] using h2) x hx⟩

theorem genObj_lex (s : Bool) (e : BEnv) (Γ : Ctx) (hΓ : ctxLexOK Γ = true) (cfg : SerCfg) (fuel : Nat)
    (ih : LexOK s e Γ cfg fuel) :
    ∀ v pns q nl xt evs, valLexOK Γ v = true →
    (∀ q', q = some q' → q'.isEmpty = false → elemNameOK q' = true) →
    (∀ t, xt = some t → s = false ∧ typeNameLex t = true) →
    (s = true → valExactOK Γ v = true) →
    genObj e Γ cfg (fuel + 1) v pns q nl xt = .ok evs → AllLex s evs := by
  intro v pns q nl xt evs hv hq hxt hex h
  cases v with
  | obj cls fields =>
    simp only [genObj] at h
    obtain ⟨m, hfetch, h⟩ := bind_ok h
    obtain ⟨attrs, hattrs, h⟩ := bind_ok h
    obtain ⟨vals, hvals, h⟩ := bind_ok h
    obtain ⟨body, hbody, h⟩ := bind_ok h
    have := pure_ok h
    rw [← this]
    have hml := fetch_lex hΓ hfetch
    simp only [valLexOK, Bool.and_eq_true] at hv
    obtain ⟨hoa, hfs⟩ := hv
    simp only [metaLex, Bool.and_eq_true] at hml
    obtain ⟨⟨⟨hmq, _⟩, hmel⟩, hmat⟩ := hml
    have hal := nextAttribute_lex s Γ cfg m fields _ xt attrs hmat (fetch_attrs hfetch hoa) hfs hxt hattrs
    have hvm := nextValue_mem m fields
      (fun var x => valLexOK Γ x = true ∧ (var ∈ m.elementVars → Strict s Γ var.types x))
      (by
        intro var xs hxs x hx
        exact ⟨listLex_mem Γ xs (by simpa [valLexOK] using hxs.1) x hx,
          fun hvar => (hxs.2 hvar).item hx⟩)
      (by
        intro var x hg
        refine ⟨fieldsLex_get Γ fields _ x hfs hg, ?_⟩
        intro hvar hs
        have hex' := hex hs
        simp only [valExactOK, Bool.and_eq_true] at hex'
        have := fetch_exact hfetch hex'.1 var hvar
        rw [getField_eq_look hg] at this
        exact ⟨fieldsExact_get Γ fields _ x hex'.2 hg, this⟩)
      vals hvals
    have hb : AllLex s body.flatten := by
      refine mapM_lex _ vals body hbody ?_
      intro x hx r hr
      obtain ⟨var, value⟩ := x
      obtain ⟨hvar, hval, hstrict⟩ := hvm _ hx
      have hvl : varLex var = true := List.all_eq_true.mp hmel var hvar
      simp only [] at hr
      obtain ⟨inner, hinner, hr⟩ := bind_ok hr
      have hi := ih.value _ _ _ _ hval hvl (hstrict hvar) hinner
      split at hr
      · rename_i w hw
        rw [← pure_ok hr]
        have hwn := (varFacts hvl).wrapper w hw
        exact AllLex.append (AllLex.append (AllLex.cons hwn AllLex.nil) hi) (AllLex.cons rfl AllLex.nil)
      · rw [← pure_ok hr]; exact hi
    refine AllLex.append (AllLex.append (AllLex.append (AllLex.cons ?_ AllLex.nil) hal) hb)
      (AllLex.cons rfl AllLex.nil)
    cases q with
    | none => exact hmq
    | some q' =>
      simp only [bevLex]
      split
      · exact hmq
      · rename_i hne; exact hq q' rfl (by simpa using hne)
  | _ => simp [genObj] at h

theorem genValue_lex (s : Bool) (e : BEnv) (Γ : Ctx) (cfg : SerCfg) (fuel : Nat) (ih : LexOK s e Γ cfg fuel) :
    ∀ v var ns evs, valLexOK Γ v = true → varLex var = true → Strict s Γ var.types v →
    genValue e Γ cfg (fuel + 1) v var ns = .ok evs → AllLex s evs := by
  intro v var ns evs hv hvar hst h
  have hf := varFacts hvar
  simp only [genValue] at h
  rcases ite_cases h with ⟨hm, h⟩ | ⟨_, h⟩
  · rw [hf.mixed] at hm; cases hm
  rcases ite_cases h with ⟨_, h⟩ | ⟨_, h⟩
  · obtain ⟨d, hd, h⟩ := bind_ok h
    rw [← pure_ok h]
    exact AllLex.cons (encodePrimitive_dataLex Γ v d hv hd) AllLex.nil
  rcases ite_cases h with ⟨_, h⟩ | ⟨_, h⟩
  · -- tokens
    have hce : ∀ val r, valLexOK Γ val = true → convertElement var.toVarCore val = .ok r → AllLex s r :=
      fun val r hval hr => convertElement_lex s Γ var.toVarCore val r hf.name hf.anyType hval hr
    rcases ite_cases h with ⟨_, h⟩ | ⟨_, h⟩
    · split at h
      · obtain ⟨parts, hparts, h⟩ := bind_ok h
        rw [← pure_ok h]
        refine mapM_lex _ _ _ hparts ?_
        intro val hval r hr
        exact hce val r (listLex_mem Γ _ (by simpa [valLexOK] using hv) val hval) hr
      · rcases ite_cases h with ⟨_, h⟩ | ⟨_, h⟩
        · cases h
        · exact hce _ _ hv h
      · rcases ite_cases h with ⟨_, h⟩ | ⟨_, h⟩
        · cases h
        · exact hce _ _ hv h
      · exact hce _ _ hv h
    · cases h; exact AllLex.nil
  rcases ite_cases h with ⟨hc, h⟩ | ⟨_, h⟩
  · rw [hf.compound] at hc; cases hc
  rcases ite_cases h with ⟨_, h⟩ | ⟨_, h⟩
  · split at h
    · obtain ⟨parts, hparts, h⟩ := bind_ok h
      rw [← pure_ok h]
      refine mapM_lex _ _ _ hparts ?_
      intro x hx r hr
      exact ih.value _ _ _ _ (listLex_mem Γ _ (by simpa [valLexOK] using hv) x hx) hvar (hst.item hx) hr
    · cases h; exact AllLex.nil
  · exact ih.anyType _ _ _ _ hv hvar hst h

theorem genAnyType_lex (s : Bool) (e : BEnv) (Γ : Ctx) (hΓ : ctxLexOK Γ = true) (cfg : SerCfg) (fuel : Nat)
    (ih : LexOK s e Γ cfg fuel) :
    ∀ v var ns evs, valLexOK Γ v = true → varLex var = true → Strict s Γ var.types v →
    genAnyType e Γ cfg (fuel + 1) v var ns = .ok evs → AllLex s evs := by
  intro v var ns evs hv hvar hst h
  have hf := varFacts hvar
  have prim : ∀ (w : Val), valLexOK Γ w = true →
      (if var.isElement = true then convertElement var.toVarCore w
       else do let d ← encodePrimitive w; pure [Ev.data d]) = .ok evs → AllLex s evs := by
    intro w hw h
    rcases ite_cases h with ⟨_, h⟩ | ⟨_, h⟩
    · exact convertElement_lex s Γ var.toVarCore w evs hf.name hf.anyType hw h
    · obtain ⟨d, hd, h⟩ := bind_ok h
      rw [← pure_ok h]
      exact AllLex.cons (encodePrimitive_dataLex Γ w d hw hd) AllLex.nil
  cases v with
  | any qname text tail attrs children => simp [valLexOK] at hv
  | derived qname value tp => simp [valLexOK] at hv
  | obj cls fields =>
    simp only [genAnyType] at h
    rcases ite_cases h with ⟨hw, h⟩ | ⟨_, h⟩
    · rw [hf.wildcard] at hw; cases hw
    rcases ite_cases h with ⟨_, h⟩ | ⟨_, h⟩
    · refine ih.xsiElem _ _ _ _ _ hv hf.name ?_ h
      intro hs
      obtain ⟨h1, h2⟩ := hst hs
      exact ⟨h1, by simpa [exactItem] using h2⟩
    · obtain ⟨m, hfetch, h⟩ := bind_ok h
      have hml := fetch_lex hΓ hfetch
      simp only [metaLex, Bool.and_eq_true] at hml
      obtain ⟨⟨⟨_, hmt⟩, _⟩, _⟩ := hml
      refine ih.obj _ _ _ _ _ _ hv ?_ (by intro t ht; cases ht) (fun hs => (hst hs).1) h
      intro q' hq' _
      rw [hq'] at hmt
      exact elemNameOK_of_type hmt
  | none => simp only [genAnyType] at h; exact prim _ hv h
  | prim p => simp only [genAnyType] at h; exact prim _ hv h
  | list xs => simp only [genAnyType] at h; exact prim _ hv h
  | attrs m => simp only [genAnyType] at h; exact prim _ hv h

theorem realXsiType_lex {q : QN} {target : Option QN} (h : ∀ t, target = some t → typeNameLex t = true) :
    ∀ t, realXsiType q target = some t → typeNameLex t = true := by
  intro t ht
  unfold realXsiType at ht
  split at ht
  · exact h t ht
  · cases ht

theorem genXsiElement_lex (s : Bool) (e : BEnv) (Γ : Ctx) (hΓ : ctxLexOK Γ = true) (cfg : SerCfg) (fuel : Nat)
    (ih : LexOK s e Γ cfg fuel) :
    ∀ v cls (var : VarCore) ns evs, valLexOK Γ v = true → elemNameOK var.qname = true →
    (s = true → valExactOK Γ v = true ∧ var.types.contains (.cls cls) = true) →
    genXsiElement e Γ cfg (fuel + 1) v cls var ns = .ok evs → AllLex s evs := by
  intro v cls var ns evs hv hq hst h
  have hqn : ∀ q', some var.qname = some q' → q'.isEmpty = false → elemNameOK q' = true := by
    intro q' hq' _; cases hq'; exact hq
  have target : ∀ m, Γ.fetch cls ns none = .ok m → var.types.contains (.cls cls) = false →
      ∀ t, realXsiType var.qname m.targetQName = some t → s = false ∧ typeNameLex t = true := by
    intro m hfetch hnc t ht
    have hml := fetch_lex hΓ hfetch
    simp only [metaLex, Bool.and_eq_true] at hml
    obtain ⟨⟨⟨_, hmt⟩, _⟩, _⟩ := hml
    refine ⟨?_, realXsiType_lex (by intro t ht; rw [ht] at hmt; exact hmt) t ht⟩
    cases s with
    | false => rfl
    | true => rw [(hst rfl).2] at hnc; cases hnc
  have targetQ : ∀ m, Γ.fetch cls ns none = .ok m → var.types.contains (.cls cls) = false →
      ∀ t, m.targetQName = some t → s = false ∧ typeNameLex t = true := by
    intro m hfetch hnc t ht
    have hml := fetch_lex hΓ hfetch
    simp only [metaLex, Bool.and_eq_true] at hml
    obtain ⟨⟨⟨_, hmt⟩, _⟩, _⟩ := hml
    rw [ht] at hmt
    refine ⟨?_, hmt⟩
    cases s with
    | false => rfl
    | true => rw [(hst rfl).2] at hnc; cases hnc
  simp only [genXsiElement] at h
  rcases ite_cases h with ⟨_, h⟩ | ⟨hnc, h⟩
  · obtain ⟨xt, hx, h⟩ := bind_ok h
    have := pure_ok hx
    subst this
    exact ih.obj _ _ _ _ _ _ hv hqn (by intro t ht; cases ht) (fun hs => (hst hs).1) h
  · have hnc' : var.types.contains (.cls cls) = false := by simpa using hnc
    split at h
    · rcases ite_cases h with ⟨_, h⟩ | ⟨_, h⟩
      · obtain ⟨m, hfetch, h⟩ := bind_ok h
        obtain ⟨xt, hx, h⟩ := bind_ok h
        have := pure_ok hx
        subst this
        exact ih.obj _ _ _ _ _ _ hv hqn (targetQ m hfetch hnc') (fun hs => (hst hs).1) h
      · obtain ⟨xt, hx, h⟩ := bind_ok h
        cases hx
    · obtain ⟨m, hfetch, h⟩ := bind_ok h
      obtain ⟨xt, hx, h⟩ := bind_ok h
      have := pure_ok hx
      subst this
      exact ih.obj _ _ _ _ _ _ hv hqn (target m hfetch hnc') (fun hs => (hst hs).1) h

theorem lexOK_all (s : Bool) (e : BEnv) (Γ : Ctx) (hΓ : ctxLexOK Γ = true) (cfg : SerCfg) :
    ∀ fuel, LexOK s e Γ cfg fuel := by
  intro fuel
  induction fuel with
  | zero => exact lexOK_zero s e Γ cfg
  | succ n ih =>
    exact ⟨genObj_lex s e Γ hΓ cfg n ih, genValue_lex s e Γ cfg n ih, genAnyType_lex s e Γ hΓ cfg n ih,
      genXsiElement_lex s e Γ hΓ cfg n ih⟩

/-- **lexical provenance**: with lexically sound metadata and instance, every generated event is
lexically sound; (`s`) if moreover every object sits in a field that declares its class, no
`xsi:type` attribute is generated.  For every universe — no fragment hypothesis. -/
theorem generate_lex (s : Bool) (e : BEnv) (Γ : Ctx) (cfg : SerCfg) (v : Val) (evs : List Ev)
    (hΓ : ctxLexOK Γ = true) (hv : valLexOK Γ v = true) (hex : s = true → valExactOK Γ v = true)
    (h : generate e Γ cfg v = .ok evs) : AllLex s evs := by
  unfold generate at h
  have key : ∀ w, valLexOK Γ w = true → (s = true → valExactOK Γ w = true) →
      genObj e Γ cfg (4 * w.size + 8) w none none false none = .ok evs → AllLex s evs :=
    fun w hw hx hg => (lexOK_all s e Γ hΓ cfg _).obj _ _ _ _ _ _ hw (by intro q' hq'; cases hq')
      (by intro t ht; cases ht) hx hg
  cases v with
  | derived qname value tp => simp [valLexOK] at hv
  | any a b c d f => simp [valLexOK] at hv
  | obj cls fields => exact key _ hv hex h
  | none => exact key _ hv hex h
  | prim p => exact key _ hv hex h
  | list xs => exact key _ hv hex h
  | attrs m => exact key _ hv hex h

end Proofs.GenLex
