"""C01 — XML round-trip: parsing what was serialized gives back the same object."""
import json
import random

import bindgen as G
import bindlib as B
from framework import Corr, Oracle

PROP_ID = "C01"
DESIGN_REF = "6/C01"

from bindcases import *  # noqa: F401,F403
from bindcases import _UNIS  # noqa: F401

CORRS = [
    Corr("bind.generate", gen_generate, impl_generate, compare=cmp_skip_unsupported,
         describe="EventGenerator.generate vs model on generated class universes and instances"),
    Corr("bind.parse", gen_parse, impl_parse, compare=cmp_parse, classify=classify_parse,
         describe="NodeParser(EventsHandler) vs model on real documents and single-point faults"),
    Corr("bind.roundtrip", gen_roundtrip, impl_roundtrip, compare=cmp_parse, classify=classify_rt,
         describe="real serialize({native,lxml}) + parse({native,lxml}) vs model generate+write+parse"),
]


# ------------------------------------------------------------------ oracle
def oracle_roundtrip(a):
    u = uni_of(a)
    obj = u.from_val(a["value"])
    for writer in ("native", "lxml"):
        try:
            xml = G.real_serialize(u, obj, writer=writer, ignore_default_attributes=a.get("ignore_default_attributes", False))
        except Exception as e:  # noqa: BLE001
            return f"serialize ({writer}) raised {type(e).__name__}: {e}"
        for handler in ("native", "lxml"):
            r = G.real_parse_bytes(u, a["clazz"], xml.encode(), handler=handler)
            if "ok" not in r:
                return f"{writer}/{handler}: parse of own output failed with {r['err']}"
            if r["ok"]["value"] != a["value"]:
                return f"{writer}/{handler}: round trip changed the object"
    return None


ORACLES = []
FINDINGS = {}
TRUSTED = [
    "metadata (XmlMeta/XmlVar) is exported from the real XmlContext.build and is an input of the model (builders.py is not modelled here)",
    "primitive converters restricted to str/int/bool/QName in this layer",
    "expat/lxml tokenisers and writers only through the end-to-end op bind.roundtrip",
]
ASSUMPTIONS = []
LEVEL_TEXT = "pending"
LEVEL_NOTE = "pending"
NOT_CLAIMED = "binding-layer model and correspondence are in place; the property theorems are not finished yet"
