/-
Helper lemmas for C06 "acceptance": every XSD-valid lexical form of xs:date /
xs:time / xs:dateTime (`Spec/XsdDate.lean`) is parsed by the model of
`from_string` into the components XSD assigns.  Core Lean only.
-/
import XsdataModel.Proofs.DatesFormatParse
import XsdataModel.Proofs.Timeline
import XsdataModel.Spec.XsdDate

namespace Proofs.DatesAccept
open Py Xs.Dates Xs.Spec Proofs.DatesFormatParse
open Xs.Conv (AllDigits charVal AllXsdSpace Tight strip_xsd_pad)

/-! ### the two digit vocabularies agree -/

/-- a decidable way to show `AllDigits` of a literal -/
theorem allDigits_of_all {s : Str} (h : s.all isAsciiDigit = true) : AllDigits s := by
  intro c hc; exact List.all_eq_true.1 h c hc

theorem allD_of {s : Str} (h : AllDigits s) : AllD s := h

theorem digitsNat_eq_dval (s : Str) : digitsNat s = dval s := rfl

theorem charVal_lt {c : Char} (h : isAsciiDigit c = true) : charVal c < 10 := by
  simp [isAsciiDigit, charVal] at *; omega

theorem dch_charVal {c : Char} (h : isAsciiDigit c = true) : dch (charVal c) = c := by
  unfold dch charVal
  have : 48 + (c.toNat - 48) = c.toNat := by simp [isAsciiDigit] at h; omega
  rw [this]; exact Char.ofNat_toNat c

theorem zpad2 : ∀ n, n < 100 → zpad n 2 = [dch (n / 10), dch (n % 10)] := by decide

theorem twoDigits_zpad {s : Str} {n : Nat} (h : TwoDigits s n) : s = zpad n 2 ∧ n < 100 := by
  obtain ⟨a, b, rfl, ha, hb, rfl⟩ := h
  have h1 := charVal_lt ha
  have h2 := charVal_lt hb
  have hn : charVal a * 10 + charVal b < 100 := by omega
  refine ⟨?_, hn⟩
  rw [zpad2 _ hn]
  have e1 : (charVal a * 10 + charVal b) / 10 = charVal a := by omega
  have e2 : (charVal a * 10 + charVal b) % 10 = charVal b := by omega
  rw [e1, e2, dch_charVal ha, dch_charVal hb]

/-! ### a digit string is the zero-padded print of its value -/

theorem dval_nil : dval [] = 0 := rfl

theorem dval_single (c : Char) : dval [c] = charVal c := by
  simp [dval, digitsVal, charVal]

theorem nstr_small (n : Nat) (h : n < 10) : nstr n = [dch n] := by
  rw [nstr]; simp [h]

theorem nstr_big (n : Nat) (h : ¬ n < 10) : nstr n = nstr (n / 10) ++ [dch (n % 10)] := by
  rw [nstr]; simp [h]

/-- a digit string without a leading zero is the decimal print of its value -/
theorem nstr_dval : ∀ (k : Nat) (ds : Str), ds.length = k → AllD ds → ds ≠ [] →
    ds.head? ≠ some '0' → nstr (dval ds) = ds ∧ dval ds ≠ 0 := by
  intro k
  induction k with
  | zero => intro ds hl _ hne; cases ds <;> simp_all
  | succ k ih =>
    intro ds hl hd hne hh
    obtain ⟨r, z, rfl⟩ := Xs.Conv.exists_last ds hne
    rw [AllD_append] at hd
    have hz : isAsciiDigit z = true := hd.2 z (by simp)
    have hzv := charVal_lt hz
    rw [dval_append_single]
    have hcv : z.toNat - 48 = charVal z := rfl
    rw [hcv]
    cases r with
    | nil =>
      simp only [List.nil_append, List.head?_cons] at hh
      have hz0 : charVal z ≠ 0 := by
        intro h0
        apply hh
        have := dch_charVal hz
        rw [h0] at this
        rw [← this]; rfl
      rw [dval_nil]
      simp only [Nat.zero_mul, Nat.zero_add, List.nil_append]
      exact ⟨by rw [nstr_small _ hzv, dch_charVal hz], hz0⟩
    | cons a r' =>
      have hl' : (a :: r').length = k := by simp at hl ⊢; omega
      have hh' : (a :: r').head? ≠ some '0' := by simpa using hh
      obtain ⟨h1, h2⟩ := ih (a :: r') hl' hd.1 (by simp) hh'
      have hbig : ¬ dval (a :: r') * 10 + charVal z < 10 := by omega
      have e1 : (dval (a :: r') * 10 + charVal z) / 10 = dval (a :: r') := by omega
      have e2 : (dval (a :: r') * 10 + charVal z) % 10 = charVal z := by omega
      refine ⟨?_, by omega⟩
      rw [nstr_big _ hbig, e1, e2, h1, dch_charVal hz]

theorem dval_zero_cons (t : Str) : dval ('0' :: t) = dval t := by
  have := dval_replicate0 1 t
  simpa using this

/-- padding the value of a digit string to the width of the string gives the string back -/
theorem zpad_dval_self (ds : Str) (hd : AllD ds) (hne : ds ≠ []) : zpad (dval ds) ds.length = ds := by
  induction ds with
  | nil => exact absurd rfl hne
  | cons c t ih =>
    rw [AllD_cons] at hd
    by_cases hc : c = '0'
    · subst hc
      cases t with
      | nil => decide
      | cons b t' =>
        have ih' := ih hd.2 (by simp)
        rw [dval_zero_cons]
        rw [zpad_eq] at ih' ⊢
        have hlen : ((List.replicate ((b :: t').length - (nstr (dval (b :: t'))).length) '0' ++
            nstr (dval (b :: t'))).length) = (b :: t').length := by rw [ih']
        simp only [List.length_append, List.length_replicate] at hlen
        have hle : (nstr (dval (b :: t'))).length ≤ (b :: t').length := by omega
        have : ('0' :: b :: t').length - (nstr (dval (b :: t'))).length
            = ((b :: t').length - (nstr (dval (b :: t'))).length) + 1 := by
          simp only [List.length_cons] at hle ⊢; omega
        rw [this, List.replicate_succ, List.cons_append, ih']
    · have hh : (c :: t).head? ≠ some '0' := by simpa using hc
      obtain ⟨h1, _⟩ := nstr_dval _ (c :: t) rfl (AllD_cons.2 hd) (by simp) hh
      rw [zpad_eq, h1]; simp

/-- the digits of an XSD year fragment are the `:04d` print of their value -/
theorem zpad_dval4 (ds : Str) (hd : AllD ds) (h4 : 4 ≤ ds.length)
    (hlead : 4 < ds.length → ds.head? ≠ some '0') : zpad (dval ds) 4 = ds := by
  have hne : ds ≠ [] := by intro h; subst h; simp at h4
  by_cases h : ds.length = 4
  · have := zpad_dval_self ds hd hne
    rwa [h] at this
  · have hh := hlead (by omega)
    obtain ⟨h1, _⟩ := nstr_dval _ ds rfl hd hne hh
    rw [zpad_eq, h1]
    have : 4 - ds.length = 0 := by omega
    rw [this]; simp

theorem dval_lt_pow (s : Str) (h : AllD s) : dval s < 10 ^ s.length := by
  induction s with
  | nil => simp [dval_nil]
  | cons c t ih =>
    rw [AllD_cons] at h
    have hc := charVal_lt h.1
    have e : dval (c :: t) = charVal c * 10 ^ t.length + dval t := by
      unfold dval
      rw [List.map_cons, Xs.Conv.digitsVal_cons]; simp [charVal]
    have := ih h.2
    rw [e, List.length_cons, Nat.pow_succ]
    have h9 : charVal c * 10 ^ t.length ≤ 9 * 10 ^ t.length := Nat.mul_le_mul_right _ (by omega)
    omega

theorem fracNs_lt (fr : Str) (h : AllD fr) (hl : fr.length ≤ 9) : fracNs fr < 1000000000 := by
  unfold fracNs
  rw [digitsNat_eq_dval]
  have h1 := dval_lt_pow fr h
  have h2 : 10 ^ fr.length * 10 ^ (9 - fr.length) = 1000000000 := by
    rw [← Nat.pow_add]
    have : fr.length + (9 - fr.length) = 9 := by omega
    rw [this]
  have h3 : 0 < 10 ^ (9 - fr.length) := Nat.pow_pos (by decide)
  calc dval fr * 10 ^ (9 - fr.length) < 10 ^ fr.length * 10 ^ (9 - fr.length) :=
        Nat.mul_lt_mul_of_pos_right h1 h3
    _ = 1000000000 := h2

theorem fracNs_zeros (fr : Str) (h : ∀ c ∈ fr, c = '0') : fracNs fr = 0 := by
  have : fr = List.replicate fr.length '0' := List.eq_replicate_iff.2 ⟨rfl, h⟩
  unfold fracNs
  rw [digitsNat_eq_dval, this]
  have := dval_replicate0 fr.length []
  simp only [List.append_nil] at this
  rw [this, dval_nil]; simp

theorem allD_zeros (fr : Str) (h : ∀ c ∈ fr, c = '0') : AllD fr := by
  intro c hc; rw [h c hc]; rfl

/-! ### fragments against the scanner -/

theorem parseYear_frag (e : Env) {v : Str} {i : Nat} {ys r : Str} {y : Int} (hy : YearFrag ys y)
    (hr : NoDigitHead e r) (h : Sfx v i (ys ++ r)) :
    parseYear e ⟨v, i⟩ = some (y, ⟨v, i + ys.length⟩) := by
  obtain ⟨neg, ds, rfl, hd, h4, hlead, rfl⟩ := hy
  have hz := zpad_dval4 ds hd h4 hlead
  rw [digitsNat_eq_dval]
  cases neg with
  | false =>
    simp only [Bool.false_eq_true, if_false, List.nil_append] at h ⊢
    rw [← hz] at h
    have := parseYear_nonneg e hr h
    rw [hz] at this
    exact this
  | true =>
    simp only [if_true, List.cons_append, List.nil_append, List.length_cons] at h ⊢
    rw [← hz] at h
    have := parseYear_neg e hr h
    rw [hz] at this
    rw [this]
    congr 3; omega

theorem offHead_nil : OffHead [] := by intro c hc; simp at hc

theorem offHead_frag {zs : Str} {o : Option Int} (hz : TzFrag zs o) : OffHead zs := by
  intro c hc
  rcases hz with ⟨rfl, _⟩ | ⟨rfl, _⟩ | ⟨sg, hs, ms, h, m, hsg, _, _, _, rfl, _⟩
  · simp at hc
  · simp at hc; exact Or.inl hc.symm
  · simp at hc; subst hc
    rcases hsg with rfl | rfl
    · exact Or.inr (Or.inr rfl)
    · exact Or.inr (Or.inl rfl)

theorem parseOffset_frag (e : Env) {v : Str} {i : Nat} {zs : Str} {o : Option Int} (hz : TzFrag zs o)
    (h : Sfx v i zs) : parseOffset e ⟨v, i⟩ = some (o, ⟨v, v.length⟩) := by
  rcases hz with ⟨rfl, rfl⟩ | ⟨rfl, rfl⟩ | ⟨sg, hs, ms, hh, mm, hsg, h1, h2, hrange, rfl, rfl⟩
  · exact parseOffset_none e h
  · exact parseOffset_Z e h
  · obtain ⟨rfl, hh100⟩ := twoDigits_zpad h1
    obtain ⟨rfl, mm100⟩ := twoDigits_zpad h2
    have hc : sg = '-' ∨ sg = '+' := hsg.symm
    have mm59 : mm ≤ 59 := by omega
    rw [parseOffset_signed e sg hc hh100 mm59 (by omega) (by simpa using h)]
    rcases hsg with rfl | rfl
    · have : ('+' : Char) ≠ '-' := by decide
      simp only [this, if_false]
      congr 3
      simp only [Int.ofNat_eq_natCast]; omega
    · simp only [if_true]
      congr 3
      simp only [Int.ofNat_eq_natCast]; omega

/-- `%H:%M:%S%z` on two-digit fields, an optional run of at most nine fraction
digits and a timezone fragment -/
theorem parseLoop_time_digits (e : Env) {v : Str} {i : Nat} (H M S : Nat) (fr zs : Str)
    (o : Option Int) (hH : H < 100) (hM : M < 100) (hS : S < 100) (hfr : AllD fr)
    (hl : fr.length ≤ 9) (hz : TzFrag zs o)
    (h : Sfx v i (zpad H 2 ++ ':' :: (zpad M 2 ++ ':' :: (zpad S 2 ++
      ((if fr = [] then [] else '.' :: fr) ++ zs))))) :
    parseLoop e Tables.fmtTime ⟨v, i⟩ =
      some [some (H : Int), some (M : Int), some (S : Int), some ((fracNs fr : Nat) : Int), o] := by
  have h1 := h.adv_zpad2 hH
  have h2 := h1.adv1
  have h3 := h2.adv_zpad2 hM
  have h4 := h3.adv1
  have h5 := h4.adv_zpad2 hS
  have hoff := offHead_frag hz
  by_cases hf : fr = []
  · subst hf
    simp only [if_true, List.nil_append] at h5
    have hp := parseFrac_none e hoff h5
    have hzz := parseOffset_frag e hz h5
    have hfn : fracNs [] = 0 := by simp [fracNs, digitsNat_eq_dval, dval_nil]
    simp [Tables.fmtTime, parseLoop, parseVar_H, parseVar_M, parseVar_S, parseVar_z,
      parseDigits_ok e hH h, skip_ok h1, parseDigits_ok e hM h2, skip_ok h3,
      parseDigits_ok e hS h4, hp, hzz, hfn]
  · simp only [hf, if_false, List.cons_append] at h5
    have hp := parseFrac_some e hfr hf hl hoff h5
    have h6 : Sfx v (i + 2 + 1 + 2 + 1 + 2 + 1 + fr.length) zs := by
      have := (h5.adv1).adv
      exact this
    have hzz := parseOffset_frag e hz h6
    have hfn : fracNs fr = dval fr * 10 ^ (9 - fr.length) := by simp [fracNs, digitsNat_eq_dval]
    simp [Tables.fmtTime, parseLoop, parseVar_H, parseVar_M, parseVar_S, parseVar_z,
      parseDigits_ok e hH h, skip_ok h1, parseDigits_ok e hM h2, skip_ok h3,
      parseDigits_ok e hS h4, hp, hzz, hfn]

/-- normal form of a time body: three two-digit fields and the fraction digits -/
theorem timeBody_form {body : Str} {h mi sec : Nat} {fr : Str} (hb : TimeBody body h mi sec fr) :
    body = zpad h 2 ++ ':' :: (zpad mi 2 ++ ':' :: (zpad sec 2 ++ (if fr = [] then [] else '.' :: fr))) ∧
    h < 100 ∧ mi < 100 ∧ sec < 100 ∧ AllD fr ∧
    validateTime h mi sec (if fr.length ≤ 9 then fracNs fr else 0) = true := by
  rcases hb with ⟨hs, ms, ss, ⟨hh, hh23⟩, ⟨hm, hm59⟩, ⟨w, hw, hs59, hfr, rfl⟩, rfl⟩ |
    ⟨rfl, rfl, rfl, hz, rfl⟩
  · obtain ⟨rfl, _⟩ := twoDigits_zpad hh
    obtain ⟨rfl, _⟩ := twoDigits_zpad hm
    obtain ⟨rfl, _⟩ := twoDigits_zpad hw
    refine ⟨rfl, by omega, by omega, by omega, hfr, ?_⟩
    split
    · rename_i hl
      have := fracNs_lt fr hfr hl
      simp [validateTime]; omega
    · simp [validateTime]; omega
  · have e24 : zpad 24 2 = ['2', '4'] := by decide
    have e00 : zpad 0 2 = ['0', '0'] := by decide
    refine ⟨by rw [e24, e00]; rfl, by decide, by decide, by decide, allD_zeros fr hz, ?_⟩
    rw [fracNs_zeros fr hz]; simp [validateTime]

theorem parseLoop_timeFrag (e : Env) {v : Str} {i : Nat} {body zs : Str} {h mi sec : Nat} {fr : Str}
    {o : Option Int} (hb : TimeBody body h mi sec fr) (hl : fr.length ≤ 9) (hz : TzFrag zs o)
    (hs : Sfx v i (body ++ zs)) :
    parseLoop e Tables.fmtTime ⟨v, i⟩ =
      some [some (h : Int), some (mi : Int), some (sec : Int), some ((fracNs fr : Nat) : Int), o] := by
  obtain ⟨rfl, h1, h2, h3, h4, _⟩ := timeBody_form hb
  exact parseLoop_time_digits e h mi sec fr zs o h1 h2 h3 h4 hl hz (by simpa using hs)

/-- the `%Y-%m-%d` prefix on an XSD year fragment and two-digit month and day -/
theorem parseLoop_datePart_frag (e : Env) {v : Str} {i : Nat} (restFmt : Str) {ys : Str} {y : Int}
    (hy : YearFrag ys y) (m d : Nat) (r : Str) (hm : m < 100) (hd : d < 100)
    (h : Sfx v i (ys ++ '-' :: (zpad m 2 ++ '-' :: (zpad d 2 ++ r)))) :
    ∃ j, Sfx v j r ∧
      parseLoop e ('%' :: 'Y' :: '-' :: '%' :: 'm' :: '-' :: '%' :: 'd' :: restFmt) ⟨v, i⟩ =
        (parseLoop e restFmt ⟨v, j⟩).map
          ([some y, some (m : Int), some (d : Int)] ++ ·) := by
  have h1 := h.adv
  have h2 := h1.adv1
  have h3 := h2.adv_zpad2 hm
  have h4 := h3.adv1
  have h5 := h4.adv_zpad2 hd
  refine ⟨_, h5, ?_⟩
  simp [parseLoop, parseVar_Y, parseVar_m, parseVar_d,
    parseYear_frag e hy (noDigitHead_dash e _) h, skip_ok h1, parseDigits_ok e hm h2,
    skip_ok h3, parseDigits_ok e hd h4]
  cases parseLoop e restFmt ⟨v, _⟩ <;> simp

/-! ### validators -/

theorem monthlen_daysInMonth (y : Int) (m : Nat) (h1 : 1 ≤ m) (h2 : m ≤ 12) :
    monthlen y m = some (daysInMonth y m) := by
  have := Proofs.Timeline.monthlen_cases y (m : Int) (by omega) (by omega)
  simp only [Int.toNat_natCast] at this
  rw [this]
  unfold daysInMonth
  have hleap : isLeap y = true ↔ ¬ (y % 4 ≠ 0 ∨ (y % 100 = 0 ∧ y % 400 ≠ 0)) := by
    rw [Proofs.Timeline.isLeap_iff]; omega
  by_cases hm2 : m = 2
  · simp only [hm2, if_true]
    by_cases hl : isLeap y = true
    · have := hleap.1 hl
      simp [hl, this]
    · have hn : ¬ ¬ (y % 4 ≠ 0 ∨ (y % 100 = 0 ∧ y % 400 ≠ 0)) := fun h => hl (hleap.2 h)
      have := Classical.not_not.1 hn
      simp [hl, this]
  · have hm2' : (m : Int) ≠ 2 := by omega
    simp only [hm2, hm2', if_false]
    by_cases h30 : m = 4 ∨ m = 6 ∨ m = 9 ∨ m = 11
    · have : (m : Int) = 4 ∨ (m : Int) = 6 ∨ (m : Int) = 9 ∨ (m : Int) = 11 := by omega
      simp [h30, this]
    · have : ¬ ((m : Int) = 4 ∨ (m : Int) = 6 ∨ (m : Int) = 9 ∨ (m : Int) = 11) := by omega
      simp [h30, this]

theorem validateDate_spec (y : Int) (m d : Nat) (h1 : 1 ≤ m) (h2 : m ≤ 12) (h3 : 1 ≤ d)
    (h4 : d ≤ daysInMonth y m) : validateDate y m d = true := by
  unfold validateDate
  have hm : (1 ≤ (m : Int) && (m : Int) ≤ 12) = true := by simp; omega
  simp only [hm, Bool.not_true, Bool.false_eq_true, if_false, Int.toNat_natCast,
    monthlen_daysInMonth y m h1 h2]
  simp; omega

/-! ### white space: the lexical forms are tight -/

/-- first character is no white space: a digit or `-` -/
def HeadOK (s : Str) : Prop := ∃ a r, s = a :: r ∧ (isAsciiDigit a = true ∨ a = '-')
/-- last character is no white space: a digit or `Z` -/
def LastOK (s : Str) : Prop := ∃ r z, s = r ++ [z] ∧ (isAsciiDigit z = true ∨ z = 'Z')

theorem tight_of (e : Env) {s : Str} (h1 : HeadOK s) (h2 : LastOK s) : Tight e.isSpace s := by
  obtain ⟨a, r, rfl, ha⟩ := h1
  obtain ⟨r', z, hz, hzz⟩ := h2
  refine Or.inr ⟨⟨a, r, rfl, ?_⟩, ⟨r', z, hz, ?_⟩⟩
  · rcases ha with ha | rfl
    · exact not_space_of_digit e ha
    · rfl
  · rcases hzz with hz | rfl
    · exact not_space_of_digit e hz
    · rfl

theorem HeadOK.append {s : Str} (h : HeadOK s) (t : Str) : HeadOK (s ++ t) := by
  obtain ⟨a, r, rfl, ha⟩ := h; exact ⟨a, r ++ t, rfl, ha⟩

theorem LastOK.prepend {t : Str} (h : LastOK t) (s : Str) : LastOK (s ++ t) := by
  obtain ⟨r, z, rfl, hz⟩ := h; exact ⟨s ++ r, z, by simp, hz⟩

theorem LastOK.cons {t : Str} (h : LastOK t) (c : Char) : LastOK (c :: t) := h.prepend [c]

theorem lastOK_digits {s : Str} (h : AllD s) (hne : s ≠ []) : LastOK s := by
  obtain ⟨r, z, rfl⟩ := Xs.Conv.exists_last s hne
  exact ⟨r, z, rfl, Or.inl (h z (by simp))⟩

theorem lastOK_zpad (n w : Nat) : LastOK (zpad n w) := lastOK_digits (zpad_AllD n w) (zpad_ne_nil n w)

theorem headOK_zpad (n w : Nat) : HeadOK (zpad n w) := by
  cases h : zpad n w with
  | nil => exact absurd h (zpad_ne_nil n w)
  | cons a r => exact ⟨a, r, rfl, Or.inl (zpad_AllD n w a (by rw [h]; simp))⟩

theorem headOK_year {ys : Str} {y : Int} (h : YearFrag ys y) : HeadOK ys := by
  obtain ⟨neg, ds, rfl, hd, h4, _, _⟩ := h
  cases neg with
  | true => exact ⟨'-', ds, rfl, Or.inr rfl⟩
  | false =>
    cases ds with
    | nil => simp at h4
    | cons a r => exact ⟨a, r, rfl, Or.inl (hd a (by simp))⟩

theorem lastOK_year {ys : Str} {y : Int} (h : YearFrag ys y) : LastOK ys := by
  obtain ⟨neg, ds, rfl, hd, h4, _, _⟩ := h
  have hne : ds ≠ [] := by intro h; subst h; simp at h4
  exact (lastOK_digits hd hne).prepend _

theorem lastOK_tz {zs : Str} {o : Option Int} (h : TzFrag zs o) : zs = [] ∨ LastOK zs := by
  rcases h with ⟨rfl, _⟩ | ⟨rfl, _⟩ | ⟨sg, hs, ms, hh, mm, _, _, h2, _, rfl, _⟩
  · exact Or.inl rfl
  · exact Or.inr ⟨[], 'Z', rfl, Or.inr rfl⟩
  · obtain ⟨rfl, _⟩ := twoDigits_zpad h2
    exact Or.inr (((lastOK_zpad mm 2).cons ':').prepend hs |>.cons sg)

theorem lastOK_with_tz {s zs : Str} {o : Option Int} (hs : LastOK s) (h : TzFrag zs o) :
    LastOK (s ++ zs) := by
  rcases lastOK_tz h with rfl | h'
  · simpa using hs
  · exact h'.prepend s

theorem lastOK_timeBody {body : Str} {h mi sec : Nat} {fr : Str} (hb : TimeBody body h mi sec fr) :
    LastOK body ∧ HeadOK body := by
  obtain ⟨rfl, _, _, _, hfr, _⟩ := timeBody_form hb
  refine ⟨?_, (headOK_zpad h 2).append _⟩
  by_cases hf : fr = []
  · subst hf
    simp only [if_true, List.append_nil]
    exact (((lastOK_zpad sec 2).cons ':').prepend (zpad mi 2) |>.cons ':').prepend (zpad h 2)
  · simp only [hf, if_false]
    exact ((((lastOK_digits hfr hf).cons '.').prepend (zpad sec 2) |>.cons ':').prepend (zpad mi 2)
      |>.cons ':').prepend (zpad h 2)

end Proofs.DatesAccept
