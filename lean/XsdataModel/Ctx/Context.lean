/-
L7 — `XmlContext` as a sequential state machine.

`State` = the three mutable slots of an `XmlContext` (`cache`, `xsi_cache`,
`sys_modules`).  `step U w s op` runs one public method against the state in
world `w` and returns the new state and the observable result.  The code is
followed statement by statement: the cache is keyed by `(class, parent_ns)`
(repair of C14-F1), the index
is rebuilt when `len(sys.modules)` differs from the stamp (since 556b985 into a
local dict that is then assigned to `xsi_cache` — sequentially the same state
transition as the former clear-and-refill; the difference only shows in the
interleaved model `Ctx/Conc.lean`), `local_names_match` removes unbuildable classes from the
published index (`find_type_by_fields` iterates over snapshots since 7df03d4).
-/
import XsdataModel.Ctx.Universe
import XsdataModel.Ctx.Serialize

namespace Xs.Ctx
open Py

structure State where
  /-- `self.cache : dict[tuple[type, str | None], XmlMeta]`, insertion ordered -/
  cache : List ((ClassId × Option Str) × Meta)
  /-- `self.xsi_cache : defaultdict(list)` -/
  xsi : List (Str × List ClassId)
  /-- `self.sys_modules` -/
  sysModules : Nat
  deriving DecidableEq, Repr

/-- a freshly constructed `XmlContext()` -/
def State.init : State := ⟨[], [], 0⟩

inductive Out
  | gotMeta (m : Meta)
  | gotTypes (l : List ClassId)
  | gotType (o : Option ClassId)
  | gotBool (b : Bool)
  | done
  | gotNames (l : List Str)
  | raised (e : Err)
  deriving DecidableEq, Repr

/-- `dict[k] = v` -/
def dictSet {κ ν} [DecidableEq κ] (d : List (κ × ν)) (k : κ) (v : ν) : List (κ × ν) :=
  match d with
  | [] => [(k, v)]
  | (k', v') :: rest => if k' = k then (k, v) :: rest else (k', v') :: dictSet rest k v

/-- `XmlContext.build(clazz, parent_ns)` -/
def doBuild (U : Universe) (s : State) (c : ClassId) (pns : Option Str) : State × Except Err Meta :=
  match s.cache.lookup (c, pns) with
  | some m => (s, .ok m)
  | none =>
    match pureBuild U c pns with
    | .ok m => ({ s with cache := dictSet s.cache (c, pns) m }, .ok m)
    | .error e => (s, .error e)

/-- `XmlContext.build_xsi_cache()` -/
def doBuildXsi (U : Universe) (w : World) (s : State) : State :=
  if w.mods + 1 = s.sysModules then s
  else { s with xsi := pureIndex U w.loaded, sysModules := w.mods + 1 }

/-- `XmlContext.find_types(qname)` -/
def doFindTypes (U : Universe) (w : World) (s : State) (q : Str) : State × List ClassId :=
  if isDataType q then (s, [])
  else
    let s' := doBuildXsi U w s
    (s', (s'.xsi.lookup q).getD [])

/-- `XmlContext.find_type(qname)`: `types[-1] if types else None` -/
def doFindType (U : Universe) (w : World) (s : State) (q : Str) : State × Option ClassId :=
  let (s', l) := doFindTypes U w s q
  (s', l.getLast?)

/-- `XmlContext.find_subclass(clazz, qname)` -/
def doFindSubclass (U : Universe) (w : World) (s : State) (c : ClassId) (q : Str) : State × Option ClassId :=
  let (s', l) := doFindTypes U w s q
  (s', pickSubclass U c l)

/-- `XmlContext.fetch(clazz, parent_ns, xsi_type)` -/
def doFetch (U : Universe) (w : World) (s : State) (c : ClassId) (pns xsi : Option Str) :
    State × Except Err Meta :=
  match doBuild U s c pns with
  | (s1, .error e) => (s1, .error e)
  | (s1, .ok m) =>
    if truthy xsi && m.targetQName != xsi then
      match doFindSubclass U w s1 c (xsi.getD []) with
      | (s2, some sub) => doBuild U s2 sub pns
      | (s2, none) => (s2, .ok m)
    else (s1, .ok m)

/-- `XmlContext.local_names_match(names, clazz)` -/
def doLocalNamesMatch (U : Universe) (s : State) (names : List Str) (c : ClassId) : State × Except Err Bool :=
  match doBuild U s c none with
  | (s1, .ok m) => (s1, .ok (namesMatch names m))
  | (s1, .error _) =>
    -- except (XmlContextError, NameError, TypeError): drop the class from the index
    match indexKey U c with
    | none => (s1, .ok false)
    | some k =>
      match s1.xsi.lookup k with
      | none => (s1, .ok false)
      | some l =>
        -- `with suppress(ValueError): self.xsi_cache[target_qname].remove(clazz)`
        ({ s1 with xsi := dictSet s1.xsi k (l.erase c) }, .ok false)

abbrev Choice := ClassId × (Nat × Str)

/-- the inner `for clazz in tuple(types)` of `find_type_by_fields` (since 7df03d4
over a *snapshot* of the list, so that `local_names_match` removing a class from
the live list does not disturb the iteration) -/
def scanTypes (U : Universe) (names : List Str) :
    List ClassId → State → List Choice → State × Except Err (List Choice)
  | [], s, acc => (s, .ok acc)
  | c :: rest, s, acc =>
    match doLocalNamesMatch U s names c with
    | (s1, .error e) => (s1, .error e)
    | (s1, .ok false) => scanTypes U names rest s1 acc
    | (s1, .ok true) =>
      -- get_field_diff(clazz): meta = self.build(clazz)
      match doBuild U s1 c none, U.get? c with
      | (s2, .ok m), some d => scanTypes U names rest s2 (acc ++ [(c, (fieldDiff names m, d.name))])
      | (s2, .error e), _ => (s2, .error e)
      | (s2, _), none => (s2, .error .index)

/-- the outer `for types in self.xsi_cache.values()`; the snapshot of a list is
taken when the loop reaches it -/
def scanKeys (U : Universe) (names : List Str) :
    List Str → State → List Choice → State × Except Err (List Choice)
  | [], s, acc => (s, .ok acc)
  | k :: ks, s, acc =>
    match scanTypes U names ((s.xsi.lookup k).getD []) s acc with
    | (s1, .error e) => (s1, .error e)
    | (s1, .ok acc1) => scanKeys U names ks s1 acc1

/-- `XmlContext.find_type_by_fields(field_names)` -/
def doFindTypeByFields (U : Universe) (w : World) (s : State) (names : List Str) :
    State × Except Err (Option ClassId) :=
  let s0 := doBuildXsi U w s
  match scanKeys U names (s0.xsi.map (·.1)) s0 [] with
  | (s1, .error e) => (s1, .error e)
  | (s1, .ok choices) => (s1, .ok ((bestChoice choices).map (·.1)))

/-- `EventGenerator.generate` against a shared context: the START qnames in document order -/
def serialize (U : Universe) (s : State) (toks : List Tok) : State × Except Err (List Str) :=
  serWalk U (fun s c p => doBuild U s c p) toks s [] []

inductive Op
  | build (c : ClassId) (pns : Option Str)
  | fetch (c : ClassId) (pns xsi : Option Str)
  | findTypes (q : Str)
  | findType (q : Str)
  | findSubclass (c : ClassId) (q : Str)
  | findTypeByFields (names : List Str)
  | localNamesMatch (names : List Str) (c : ClassId)
  | buildXsiCache
  | reset
  | serialize (toks : List Tok)
  deriving DecidableEq, Repr

def outMeta : Except Err Meta → Out
  | .ok m => .gotMeta m
  | .error e => .raised e

/-- one public call on a (shared) context -/
def step (U : Universe) (w : World) (s : State) : Op → State × Out
  | .build c pns => let (s', r) := doBuild U s c pns; (s', outMeta r)
  | .fetch c pns xsi => let (s', r) := doFetch U w s c pns xsi; (s', outMeta r)
  | .findTypes q => let (s', l) := doFindTypes U w s q; (s', .gotTypes l)
  | .findType q => let (s', o) := doFindType U w s q; (s', .gotType o)
  | .findSubclass c q => let (s', o) := doFindSubclass U w s c q; (s', .gotType o)
  | .findTypeByFields names =>
    match doFindTypeByFields U w s names with
    | (s', .ok o) => (s', .gotType o)
    | (s', .error e) => (s', .raised e)
  | .localNamesMatch names c =>
    match doLocalNamesMatch U s names c with
    | (s', .ok b) => (s', .gotBool b)
    | (s', .error e) => (s', .raised e)
  | .buildXsiCache => (doBuildXsi U w s, .done)
  | .reset => (State.init, .done)
  | .serialize toks =>
    match serialize U s toks with
    | (s', .ok l) => (s', .gotNames l)
    | (s', .error e) => (s', .raised e)

/-- run a history of calls (each in the world current at that time) on one instance -/
def run (U : Universe) (s : State) : List (World × Op) → State
  | [] => s
  | (w, op) :: rest => run U (step U w s op).1 rest

/-- the results of every call of a history on one shared instance -/
def runOuts (U : Universe) (s : State) : List (World × Op) → List Out
  | [] => []
  | (w, op) :: rest => (step U w s op).2 :: runOuts U (step U w s op).1 rest

/-- the result of one call on a fresh instance -/
def fresh (U : Universe) (w : World) (op : Op) : Out := (step U w State.init op).2

end Xs.Ctx
