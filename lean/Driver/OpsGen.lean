import Driver.Proto
import XsdataModel.Gen.Occurs
import XsdataModel.Gen.DtdNs
import XsdataModel.Gen.DtdElem
open Lean Proto Py Xs.Gen

namespace OpsGen

def fld (j : Json) (k : String) : Json := j.getObjValD k

def dNat (j : Json) : Except String Nat :=
  match j.getNat? with
  | .ok n => .ok n
  | .error _ => .error s!"expected nat: {j.compress}"

def dKind (j : Json) : Except String PKind :=
  match j with
  | .str "s" => .ok .s | .str "c" => .ok .c | .str "a" => .ok .a | .str "g" => .ok .g
  | _ => .error "bad path kind"

def dPathE (j : Json) : Except String PathE :=
  match j with
  | .arr #[k, i, mn, mx] => do pure ⟨← dKind k, ← dNat i, ← dNat mn, ← dNat mx⟩
  | _ => .error "bad path entry"

def dSite (j : Json) : Except String Site := do
  let path ← (← asArr (fld j "path")).mapM dPathE
  let choice ← match fld j "choice" with
    | .null => pure none
    | x => (asInt x).map some
  let sq ← match fld j "sequence" with
    | .null => pure none
    | x => (dNat x).map some
  pure { name := ← asStr (fld j "name"), index := ← dNat (fld j "index"), min := ← dNat (fld j "min"),
         max := ← dNat (fld j "max"), path, choice, sequence := sq }

def jSite (s : Site) : Json :=
  jObj [("name", jStr s.name), ("index", jNat s.index), ("min", jNat s.min), ("max", jNat s.max),
        ("path", jList (fun (e : PathE) => Json.arr #[Json.str (match e.kind with | .s => "s" | .c => "c" | .a => "a" | .g => "g"),
            jNat e.id, jNat e.min, jNat e.max]) s.path),
        ("choice", jOpt jInt s.choice), ("sequence", jOpt jNat s.sequence)]

partial def dParticle (j : Json) : Except String Particle :=
  match j.getObjVal? "elem", j.getObjVal? "seq", j.getObjVal? "choice" with
  | .ok (.arr #[n, mn, mx]), _, _ => do pure (.elem (← asStr n) (← dNat mn) (← dNat mx))
  | _, .ok (.arr #[mn, mx, ps]), _ => do
      let ps ← (← asArr ps).mapM dParticle
      pure (.seq (← dNat mn) (← dNat mx) ps)
  | _, _, .ok (.arr #[mn, mx, ps]) => do
      let ps ← (← asArr ps).mapM dParticle
      pure (.choice (← dNat mn) (← dNat mx) ps)
  | _, _, _ => .error s!"bad particle {j.compress}"

def dOccur (j : Json) : Except String Occur :=
  match j with
  | .str "once" => .ok .once | .str "opt" => .ok .opt | .str "mult" => .ok .mult | .str "plus" => .ok .plus
  | _ => .error "bad occur"

partial def dContent (j : Json) : Except String DtdContent :=
  let opt (x : Json) : Except String (Option DtdContent) :=
    match x with
    | .null => pure none
    | y => (dContent y).map some
  match j.getObjVal? "pcdata", j.getObjVal? "element", j.getObjVal? "seq", j.getObjVal? "or" with
  | .ok o, _, _, _ => do pure (.pcdata (← dOccur o))
  | _, .ok (.arr #[n, o]), _, _ => do pure (.element (← asStr n) (← dOccur o))
  | _, _, .ok (.arr #[o, l, r]), _ => do pure (.seq (← dOccur o) (← opt l) (← opt r))
  | _, _, _, .ok (.arr #[o, l, r]) => do pure (.or (← dOccur o) (← opt l) (← opt r))
  | _, _, _, _ => .error s!"bad dtd content {j.compress}"

def sitesArg (a : Json) : Except String (List Site) := do
  (← asArr (fld a "sites")).mapM dSite

def okSites (ss : List Site) : Json := ok (jList jSite ss)

def run (op : String) (a : Json) : Option (Except String Json) :=
  match op with
  | "gen.calc_paths" => some do pure <| ok (jList jSite (calculatePaths (← sitesArg a)))
  | "gen.effective" => some do pure <| okSites (effectiveChoice (← sitesArg a))
  | "gen.merge" => some do pure <| ok (jList jSite (mergeDuplicates (← sitesArg a)))
  | "gen.occurs" => some do pure <| okSites (occurs (← sitesArg a))
  | "gen.xsd_sites" => some do pure <| ok (jList jSite (sites (← dParticle (fld a "particle"))))
  | "gen.xsd_occurs" => some do pure <| okSites (occurs (sites (← dParticle (fld a "particle"))))
  | "gen.dtd_sites" => some do pure <| ok (jList jSite (dtdSites (← dContent (fld a "content"))))
  | "gen.dtd_occurs" | "gen.dtd_fields" => some do pure <| okSites (occurs (dtdSites (← dContent (fld a "content"))))
  | "gen.dtd_elem" => some do
      let t ← match fld a "type" with
        | .str "undefined" => pure DtdElemType.undefined
        | .str "empty" => pure DtdElemType.empty
        | .str "any" => pure DtdElemType.any
        | .str "mixed" => pure DtdElemType.mixed
        | .str "element" => pure DtdElemType.element
        | _ => .error "bad element type"
      let c ← match fld a "content" with
        | .null => pure none
        | j => (dContent j).map some
      pure <| ok (match dtdClassFields t c with
        | .plain fs => jObj [("plain", jList (fun (s : Site) => Json.arr #[jStr s.name, jNat s.min, jNat s.max]) fs)]
        | .mixedWildcard cs => jObj [("mixed", jList jStr cs)]
        | .anyTypeWildcard => jObj [("any_extension", Json.bool true)])
  | "gen.dtd_nsmap" => some do
      let dOpt (j : Json) : Except String (Option Str) := match j with
        | .null => pure none
        | x => (asStr x).map some
      let attrs ← (← asArr (fld a "attrs")).mapM (fun j => do
        pure ({ pfx := ← dOpt (fld j "prefix"), name := ← asStr (fld j "name"), defaultValue := ← dOpt (fld j "default_value") } : DAttr))
      let base ← (← asArr (fld a "base")).mapM (fun j => match j with
        | .arr #[k, v] => do pure (← dOpt k, ← asStr v)
        | _ => .error "base pair")
      let (m, rest) := buildNsMap base (← dOpt (fld a "prefix")) attrs
      pure <| ok (jObj [("ns_map", jList (fun (k, v) => Json.arr #[jOpt jStr k, jStr v]) m),
        ("attrs", jList (fun (x : DAttr) => Json.arr #[jOpt jStr x.pfx, jStr x.name]) rest)])
  | _ => none

end OpsGen
