import Driver.Proto
import XsdataModel.Backends.Chunks
open Lean Proto Py Xs.Backends

namespace OpsChunks

def dTok (j : Json) : Except String CTok :=
  match j with
  | .arr #[.str "s", .str q] => .ok (.tag false q.toList)
  | .arr #[.str "e", .str q] => .ok (.tag true q.toList)
  | .arr #[.str "c", .str s] => .ok (.chars s.toList)
  | _ => .error "bad token"

def run (op : String) (a : Json) : Option (Except String Json) :=
  match op with
  | "c09.tails" => some do
      let chunks ← asArr (a.getObjValD "chunks")
      let chunks ← chunks.mapM (fun c => do let ts ← asArr c; ts.mapM dTok)
      pure (ok (jList (jOpt jStr) (deferredReads (fun _ => none) chunks)))
  | _ => none

end OpsChunks
