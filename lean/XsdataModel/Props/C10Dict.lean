/- C10, dictionary / JSON decoder half: unknown keys in `DictDecoder.bind_dataclass`
   and in `bind_best_dataclass`.  Property theorems (only). -/
import XsdataModel.DictDec.Keys
import XsdataModel.Proofs.C10Dict

namespace Props.C10
open Py Xs.Bind Xs.DictDec Proofs.C10 Proofs.C10Dict

/-! ## 7. unknown keys of a JSON object -/

/-- **dict_unknown_policy**: a key for which `find_var` finds no var, at any position of
the object and whatever its value looks like, is skipped when
`fail_on_unknown_properties` is off and raises `ParserError` when it is on — once the keys
before it are bound (an earlier failure keeps its own error).  For every value binder `bv`. -/
theorem dict_unknown_policy {α : Type} (bv : DVar → Str → JShape → Except Err α) (cfg : ParserConfig)
    {vars : List DVar} {k : Str} {v : JShape} (hk : findVar vars k v = none)
    (pre post : List (Str × JShape)) :
    bindPairs bv cfg vars (pre ++ (k, v) :: post) =
      if cfg.failOnUnknownProperties then thenFail (bindPairs bv cfg vars pre) (.parser "Unknown property")
      else bindPairs bv cfg vars (pre ++ post) := by
  unfold bindPairs
  split
  · next h =>
    apply foldlM_insert_fail
    intro b
    simp [bindStep, hk, h]
  · next h =>
    apply foldlM_insert_noop
    intro b
    simp [bindStep, hk, h]

/-- **dict_unknown_skipped** (flag off) -/
theorem dict_unknown_skipped {α : Type} (bv : DVar → Str → JShape → Except Err α) {cfg : ParserConfig}
    (hc : cfg.failOnUnknownProperties = false)
    {vars : List DVar} {k : Str} {v : JShape} (hk : findVar vars k v = none)
    (pre post : List (Str × JShape)) :
    bindPairs bv cfg vars (pre ++ (k, v) :: post) = bindPairs bv cfg vars (pre ++ post) := by
  rw [dict_unknown_policy bv cfg hk]; simp [hc]

/-- **dict_unknown_strict** (flag on, the default) -/
theorem dict_unknown_strict {α : Type} (bv : DVar → Str → JShape → Except Err α) {cfg : ParserConfig}
    (hc : cfg.failOnUnknownProperties = true)
    {vars : List DVar} {k : Str} {v : JShape} (hk : findVar vars k v = none)
    (pre post : List (Str × JShape)) {p : List (Str × α)} (hpre : bindPairs bv cfg vars pre = .ok p) :
    bindPairs bv cfg vars (pre ++ (k, v) :: post) = .error (.parser "Unknown property") := by
  rw [dict_unknown_policy bv cfg hk]; simp [hc, hpre, thenFail]

/-- vars `qname: str`, `type: str`, `items: list` and the derived-element key set of the code -/
def exVars : List DVar :=
  [⟨"qname".toList, "qname".toList, none, false, true⟩, ⟨"type".toList, "type".toList, none, false, true⟩,
   ⟨"items".toList, "item".toList, some "items".toList, true, true⟩]
def exDerived : List Str := ["qname".toList, "type".toList, "value".toList]

/- non-vacuity: `zz` is unknown; `item` with a scalar is unknown as well (shape mismatch);
the wrapper key `items` is known when its member `item` is an array -/
example : findVar exVars "zz".toList .scalar = none ∧ findVar exVars "item".toList .scalar = none
    ∧ (findVar exVars "items".toList (.object [("item".toList, true)])).isSome = true := by decide

/-- Full-strength form on `bind_dataclass` as a whole. -/
def DictUnknownInvariant : Prop :=
  ∀ (bv : DVar → Str → JShape → Except Err Unit) (cfg : ParserConfig) (derivedKeys : List Str) (vars : List DVar)
    (k : Str) (v : JShape), findVar vars k v = none → cfg.failOnUnknownProperties = false →
    ∀ pre post : List (Str × JShape),
      bindDataclass bv cfg derivedKeys vars (pre ++ (k, v) :: post) = bindDataclass bv cfg derivedKeys vars (pre ++ post)

/-- **dict_unknown_invariant_false**: `{"qname": …, "type": …}` for a class with fields `qname`
and `type`; the unknown key `value` completes the derived-element key set and the object is
decoded as a `DerivedElement` instead (known finding `C10-dict-derived-keys`). -/
theorem dict_unknown_invariant_false : ¬ DictUnknownInvariant := by
  intro h
  have h := h (fun _ _ _ => .ok ()) { failOnUnknownProperties := false } exDerived exVars "value".toList (.object [])
    (by decide) rfl [("qname".toList, .scalar), ("type".toList, .scalar)] []
  have h1 : bindDataclass (fun _ _ _ => Except.ok ()) { failOnUnknownProperties := false } exDerived exVars
      ([("qname".toList, JShape.scalar), ("type".toList, JShape.scalar)] ++ [("value".toList, JShape.object [])])
      = .ok .derived := by rfl
  have h2 : bindDataclass (fun _ _ _ => Except.ok ()) { failOnUnknownProperties := false } exDerived exVars
      ([("qname".toList, JShape.scalar), ("type".toList, JShape.scalar)] ++ [])
      = .ok (.plain [("qname".toList, ()), ("type".toList, ())]) := by rfl
  rw [h1, h2] at h
  cases h

/-- **dict_unknown_invariant_partial**: it holds when the derived-element shortcut is out of
the way: the new key is not one of `derived_keys` and the object was not derived-shaped. -/
theorem dict_unknown_invariant_partial {α : Type} (bv : DVar → Str → JShape → Except Err α) {cfg : ParserConfig}
    (hc : cfg.failOnUnknownProperties = false) {derivedKeys : List Str}
    {vars : List DVar} {k : Str} {v : JShape} (hk : findVar vars k v = none)
    {pre post : List (Str × JShape)}
    (hd : derivedKeys.contains k = false)
    (hd0 : keySetEq ((pre ++ post).map (·.1)) derivedKeys = false) :
    bindDataclass bv cfg derivedKeys vars (pre ++ (k, v) :: post)
      = bindDataclass bv cfg derivedKeys vars (pre ++ post) := by
  have hd1 := keySetEq_insert_false v pre post hd
  simp only [bindDataclass, hd0, hd1, dict_unknown_skipped bv hc hk]

/-- **dict_unknown_strict_dataclass_partial**: strict mode, same side condition. -/
theorem dict_unknown_strict_dataclass_partial {α : Type} (bv : DVar → Str → JShape → Except Err α)
    {cfg : ParserConfig} (hc : cfg.failOnUnknownProperties = true) {derivedKeys : List Str}
    {vars : List DVar} {k : Str} {v : JShape} (hk : findVar vars k v = none)
    {pre post : List (Str × JShape)} (hd : derivedKeys.contains k = false)
    {p : List (Str × α)} (hpre : bindPairs bv cfg vars pre = .ok p) :
    bindDataclass bv cfg derivedKeys vars (pre ++ (k, v) :: post) = .error (.parser "Unknown property") := by
  have hd1 := keySetEq_insert_false v pre post hd
  simp only [bindDataclass, hd1, dict_unknown_strict bv hc hk pre post hpre]
  rfl

example : exDerived.contains "zz".toList = false
    ∧ keySetEq ([("qname".toList, JShape.scalar)].map (·.1)) exDerived = false := by decide

/-! ## 8. unknown keys of a nested object decoded by `bind_best_dataclass` -/

/-- **best_unknown_key_fails**: a field whose declared class has subclasses (or a union /
compound / wildcard field) decodes a nested object through `bind_best_dataclass`; there a
key that no candidate class declares excludes every candidate (`local_names_match`) and the
decoder raises `ParserError` — `fail_on_unknown_properties` is never consulted. -/
theorem best_unknown_key_fails {keys : List Str} {k : Str} (hk : keys.contains k = true)
    {cands : List Cand} (hc : cands.all (fun c => !c.localNames.contains k) = true) :
    bindBest keys cands = .error (.parser "Failed to bind object") := by
  have hstep : ∀ c ∈ cands, bestStep keys none c = none := by
    intro c hcm
    have hcn : c.localNames.contains k = false := by
      have := List.all_eq_true.mp hc c hcm; simpa using this
    have : localNamesMatch keys c.localNames = false := by
      simp only [localNamesMatch, List.all_eq_false]
      exact ⟨k, by simpa using hk, by rw [hcn]; simp⟩
    simp [bestStep, this]
  have : cands.foldl (bestStep keys) none = none := by
    clear hc
    induction cands with
    | nil => rfl
    | cons c cs ih =>
      rw [List.foldl_cons, hstep c (List.mem_cons_self ..)]
      exact ih (fun c' h' => hstep c' (List.mem_cons_of_mem _ h'))
  simp [bindBest, this]

/-- candidates `Base(x)`, `Sub(x, y)`; both attempts succeed on `{"x": …}` -/
def exCands : List Cand := [⟨"Base".toList, [['x']], some 2⟩, ⟨"Sub".toList, [['x'], ['y']], some 2⟩]

example : [['x'], ['z']].contains ['z'] = true ∧ exCands.all (fun c => !c.localNames.contains ['z']) = true := by
  decide

/-- Full-strength form: an unknown key added to the nested object is ignored (the flag-off
behaviour of `bind_dataclass`), i.e. the selected class does not change. -/
def BestUnknownInvariant : Prop :=
  ∀ (keys : List Str) (k : Str) (cands : List Cand),
    cands.all (fun c => !c.localNames.contains k) = true →
    bindBest (keys ++ [k]) cands = bindBest keys cands

/-- **best_unknown_invariant_false**: `{"x": "1"}` binds to `Base`, `{"x": "1", "z": 2}` raises
(known finding `C10-dict-best-rejects-unknown`). -/
theorem best_unknown_invariant_false : ¬ BestUnknownInvariant := by
  intro h
  have h := h [['x']] ['z'] exCands (by decide)
  have h1 : bindBest ([['x']] ++ [['z']]) exCands = .error (.parser "Failed to bind object") := by rfl
  have h2 : bindBest [['x']] exCands = .ok "Base".toList := by rfl
  rw [h1, h2] at h
  cases h

/-- **best_known_keys_partial**: keys that every matching candidate declares do not disturb
the selection: with only known keys the matching candidates are those for the smaller key set
that also declare the new key. -/
theorem best_known_keys_partial (keys : List Str) (k : Str) (cands : List Cand)
    (hall : cands.all (fun c => c.localNames.contains k) = true) :
    bindBest (keys ++ [k]) cands = bindBest keys cands := by
  have hstep : ∀ c ∈ cands, ∀ acc, bestStep (keys ++ [k]) acc c = bestStep keys acc c := by
    intro c hcm acc
    have hcn : c.localNames.contains k = true := List.all_eq_true.mp hall c hcm
    have : localNamesMatch (keys ++ [k]) c.localNames = localNamesMatch keys c.localNames := by
      simp only [localNamesMatch, List.all_append, List.all_cons, List.all_nil, hcn, Bool.and_true]
    simp [bestStep, this]
  have : ∀ acc, cands.foldl (bestStep (keys ++ [k])) acc = cands.foldl (bestStep keys) acc := by
    clear hall
    induction cands with
    | nil => intro acc; rfl
    | cons c cs ih =>
      intro acc
      rw [List.foldl_cons, List.foldl_cons, hstep c (List.mem_cons_self ..)]
      exact ih (fun c' h' => hstep c' (List.mem_cons_of_mem _ h')) _
  simp [bindBest, this]

example : exCands.all (fun c => c.localNames.contains ['x']) = true := by decide

end Props.C10
