/- C10, dictionary / JSON decoder half: unknown keys in `DictDecoder.bind_dataclass`
   and in `bind_best_dataclass`.  Property theorems (only). -/
import XsdataModel.DictDec.Keys
import XsdataModel.Proofs.C10Dict

namespace Props.C10
open Py Xs.Bind Xs.DictDec Proofs.C10 Proofs.C10Dict

/-! ## 7. unknown keys of a JSON object -/

/-- **dict_unknown_policy**: a key for which `find_var` finds no var, at any position of
the object and whatever its value looks like, is skipped when
`fail_on_unknown_properties` is off and raises `ParserError` when it is on — once the keys
before it are bound (an earlier failure keeps its own error).  For every value binder `bv`. -/
theorem dict_unknown_policy {α : Type} (bv : DVar → Str → JShape → Except Err α) (cfg : ParserConfig)
    {vars : List DVar} {k : Str} {v : JShape} (hk : findVar vars k v = none)
    (pre post : List (Str × JShape)) :
    bindPairs bv cfg vars (pre ++ (k, v) :: post) =
      if cfg.failOnUnknownProperties then thenFail (bindPairs bv cfg vars pre) (.parser "Unknown property")
      else bindPairs bv cfg vars (pre ++ post) := by
  unfold bindPairs
  split
  · next h =>
    apply foldlM_insert_fail
    intro b
    simp [bindStep, hk, h]
  · next h =>
    apply foldlM_insert_noop
    intro b
    simp [bindStep, hk, h]

/-- **dict_unknown_skipped** (flag off) -/
theorem dict_unknown_skipped {α : Type} (bv : DVar → Str → JShape → Except Err α) {cfg : ParserConfig}
    (hc : cfg.failOnUnknownProperties = false)
    {vars : List DVar} {k : Str} {v : JShape} (hk : findVar vars k v = none)
    (pre post : List (Str × JShape)) :
    bindPairs bv cfg vars (pre ++ (k, v) :: post) = bindPairs bv cfg vars (pre ++ post) := by
  rw [dict_unknown_policy bv cfg hk]; simp [hc]

/-- **dict_unknown_strict** (flag on, the default) -/
theorem dict_unknown_strict {α : Type} (bv : DVar → Str → JShape → Except Err α) {cfg : ParserConfig}
    (hc : cfg.failOnUnknownProperties = true)
    {vars : List DVar} {k : Str} {v : JShape} (hk : findVar vars k v = none)
    (pre post : List (Str × JShape)) {p : List (Str × α)} (hpre : bindPairs bv cfg vars pre = .ok p) :
    bindPairs bv cfg vars (pre ++ (k, v) :: post) = .error (.parser "Unknown property") := by
  rw [dict_unknown_policy bv cfg hk]; simp [hc, hpre, thenFail]

/-- vars `qname: str`, `type: str`, `items: list` and the derived-element key set of the code -/
def exVars : List DVar :=
  [⟨"qname".toList, "qname".toList, none, false, false, true⟩, ⟨"type".toList, "type".toList, none, false, false, true⟩,
   ⟨"items".toList, "item".toList, some "items".toList, true, true, true⟩]
def exDerived : List Str := ["qname".toList, "type".toList, "value".toList]

/- non-vacuity: `zz` is unknown; `item` with a scalar is unknown as well (shape mismatch);
the wrapper key `items` is known when its member `item` is an array -/
example : findVar exVars "zz".toList .scalar = none ∧ findVar exVars "item".toList .scalar = none
    ∧ (findVar exVars "items".toList (.object [("item".toList, true)])).isSome = true := by decide

/-- Full-strength form on `bind_dataclass` as a whole. -/
def DictUnknownInvariant : Prop :=
  ∀ (bv : DVar → Str → JShape → Except Err Unit) (cfg : ParserConfig) (derivedKeys : List Str) (vars : List DVar)
    (k : Str) (v : JShape), findVar vars k v = none → cfg.failOnUnknownProperties = false →
    ∀ pre post : List (Str × JShape),
      bindDataclass bv cfg derivedKeys vars (pre ++ (k, v) :: post) = bindDataclass bv cfg derivedKeys vars (pre ++ post)

/-- **dict_unknown_invariant_false**: `{"qname": …, "type": …}` for a class with fields `qname`
and `type`; the unknown key `value` completes the derived-element key set and the object is
decoded as a `DerivedElement` instead (known finding `C10-dict-derived-keys`). -/
theorem dict_unknown_invariant_false : ¬ DictUnknownInvariant := by
  intro h
  have h := h (fun _ _ _ => .ok ()) { failOnUnknownProperties := false } exDerived exVars "value".toList (.object [])
    (by decide) rfl [("qname".toList, .scalar), ("type".toList, .scalar)] []
  have h1 : bindDataclass (fun _ _ _ => Except.ok ()) { failOnUnknownProperties := false } exDerived exVars
      ([("qname".toList, JShape.scalar), ("type".toList, JShape.scalar)] ++ [("value".toList, JShape.object [])])
      = .ok .derived := by rfl
  have h2 : bindDataclass (fun _ _ _ => Except.ok ()) { failOnUnknownProperties := false } exDerived exVars
      ([("qname".toList, JShape.scalar), ("type".toList, JShape.scalar)] ++ [])
      = .ok (.plain [("qname".toList, ()), ("type".toList, ())]) := by rfl
  rw [h1, h2] at h
  cases h

/-- **dict_unknown_invariant_partial**: it holds when the derived-element shortcut is out of
the way: the new key is not one of `derived_keys` and the object was not derived-shaped. -/
theorem dict_unknown_invariant_partial {α : Type} (bv : DVar → Str → JShape → Except Err α) {cfg : ParserConfig}
    (hc : cfg.failOnUnknownProperties = false) {derivedKeys : List Str}
    {vars : List DVar} {k : Str} {v : JShape} (hk : findVar vars k v = none)
    {pre post : List (Str × JShape)}
    (hd : derivedKeys.contains k = false)
    (hd0 : keySetEq ((pre ++ post).map (·.1)) derivedKeys = false) :
    bindDataclass bv cfg derivedKeys vars (pre ++ (k, v) :: post)
      = bindDataclass bv cfg derivedKeys vars (pre ++ post) := by
  have hd1 := keySetEq_insert_false v pre post hd
  simp only [bindDataclass, hd0, hd1, dict_unknown_skipped bv hc hk]

/-- **dict_unknown_strict_dataclass_partial**: strict mode, same side condition. -/
theorem dict_unknown_strict_dataclass_partial {α : Type} (bv : DVar → Str → JShape → Except Err α)
    {cfg : ParserConfig} (hc : cfg.failOnUnknownProperties = true) {derivedKeys : List Str}
    {vars : List DVar} {k : Str} {v : JShape} (hk : findVar vars k v = none)
    {pre post : List (Str × JShape)} (hd : derivedKeys.contains k = false)
    {p : List (Str × α)} (hpre : bindPairs bv cfg vars pre = .ok p) :
    bindDataclass bv cfg derivedKeys vars (pre ++ (k, v) :: post) = .error (.parser "Unknown property") := by
  have hd1 := keySetEq_insert_false v pre post hd
  simp only [bindDataclass, hd1, dict_unknown_strict bv hc hk pre post hpre]
  rfl

example : exDerived.contains "zz".toList = false
    ∧ keySetEq ([("qname".toList, JShape.scalar)].map (·.1)) exDerived = false := by decide

/-! ## 8. unknown keys of a nested object decoded by `bind_best_dataclass` -/

/-- **best_unknown_key_strict**: a field whose declared class has subclasses (or a union /
compound / wildcard field) decodes a nested object through `bind_best_dataclass`; with
`fail_on_unknown_properties` on, a key that no candidate class declares excludes every
candidate (`local_names_match`) and the decoder raises `ParserError`. -/
theorem best_unknown_key_strict {cfg : ParserConfig} (hcfg : cfg.failOnUnknownProperties = true)
    {keys : List Str} {k : Str} (hk : keys.contains k = true)
    {cands : List Cand} (hc : cands.all (fun c => !c.localNames.contains k) = true) :
    bindBest cfg keys cands = .error (.parser "Failed to bind object") := by
  have hstep : ∀ c ∈ cands, bestStep keys none c = none := by
    intro c hcm
    have hcn : c.localNames.contains k = false := by
      have := List.all_eq_true.mp hc c hcm; simpa using this
    have : localNamesMatch keys c.localNames = false := by
      simp only [localNamesMatch, List.all_eq_false]
      exact ⟨k, by simpa using hk, by rw [hcn]; simp⟩
    simp [bestStep, this]
  have : cands.foldl (bestStep keys) none = none := by
    clear hc
    induction cands with
    | nil => rfl
    | cons c cs ih =>
      rw [List.foldl_cons, hstep c (List.mem_cons_self ..)]
      exact ih (fun c' h' => hstep c' (List.mem_cons_of_mem _ h'))
  simp [bindBest, bestKeys, hcfg, this]

/-- candidates `Base(x)`, `Sub(x, y)`; both attempts succeed on `{"x": …}` -/
def exCands : List Cand := [⟨"Base".toList, [['x']], some 2⟩, ⟨"Sub".toList, [['x'], ['y']], some 2⟩]

example : [['x'], ['z']].contains ['z'] = true ∧ exCands.all (fun c => !c.localNames.contains ['z']) = true := by
  decide

/-- **best_unknown_key_ignored** (formerly the false `BestUnknownInvariant`, known finding
`C10-dict-best-rejects-unknown`, repaired): with `fail_on_unknown_properties` off a key that no
candidate class declares is ignored — the selected class is the one selected without it, at
whatever position the key stands. -/
theorem best_unknown_key_ignored {cfg : ParserConfig} (hcfg : cfg.failOnUnknownProperties = false)
    (pre post : List Str) (k : Str) (cands : List Cand)
    (hc : cands.all (fun c => !c.localNames.contains k) = true) :
    bindBest cfg (pre ++ k :: post) cands = bindBest cfg (pre ++ post) cands := by
  have hk : cands.any (fun c => c.localNames.contains k) = false := by
    rw [List.any_eq_false]
    intro c hcm
    have := List.all_eq_true.mp hc c hcm
    simpa using this
  have : bestKeys cfg (pre ++ k :: post) cands = bestKeys cfg (pre ++ post) cands := by
    simp only [bestKeys, hcfg, Bool.false_eq_true, if_false, List.filter_append, List.filter_cons, hk]
  simp [bindBest, this]

example : bindBest { failOnUnknownProperties := false } [['x'], ['z']] exCands = .ok "Base".toList
    ∧ bindBest { failOnUnknownProperties := true } [['x'], ['z']] exCands = .error (.parser "Failed to bind object") :=
  ⟨by rfl, by rfl⟩

/-- **best_known_keys**: keys that every candidate declares do not disturb the selection,
under either setting of the flag. -/
theorem best_known_keys (cfg : ParserConfig) (keys : List Str) (k : Str) (cands : List Cand)
    (hall : cands.all (fun c => c.localNames.contains k) = true) :
    bindBest cfg (keys ++ [k]) cands = bindBest cfg keys cands := by
  have hstep : ∀ c ∈ cands, localNamesMatch (bestKeys cfg (keys ++ [k]) cands) c.localNames
      = localNamesMatch (bestKeys cfg keys cands) c.localNames := by
    intro c hcm
    have hcn : c.localNames.contains k = true := List.all_eq_true.mp hall c hcm
    unfold bestKeys
    split
    · simp only [localNamesMatch, List.all_append, List.all_cons, List.all_nil, hcn, Bool.and_true]
    · simp only [localNamesMatch, List.filter_append, List.all_append, List.filter_cons, List.filter_nil]
      have hk : k ∈ c.localNames := by simpa using hcn
      split <;> simp [hk]
  simp only [bindBest, foldl_bestStep_congr cands hstep]

example : exCands.all (fun c => c.localNames.contains ['x']) = true := by decide


/-! ## 9. the strict conversion setting of `bind_best_dataclass` stays with the candidates -/

/-- **best_match_config_local**: whatever items (conversions, best-match bindings, over any
number of documents) a decoder works through, its own configuration afterwards is the one
the caller passed, and every item is treated exactly as if it were the first: the outcome
list is the item-wise outcome under the caller's configuration. -/
theorem best_match_config_local (cfg : ParserConfig) (ws : List Work) :
    (workAll cfg ws).2 = cfg ∧ (workAll cfg ws).1 = ws.map (fun w => (workStep cfg w).1) := by
  induction ws with
  | nil => exact ⟨rfl, rfl⟩
  | cons w ws ih =>
    have hstep : (workStep cfg w).2 = cfg := by cases w <;> rfl
    simp only [workAll, hstep, List.map_cons]
    exact ⟨ih.1, by rw [ih.2]⟩

/-- **convert_after_best_lenient**: with `fail_on_converter_warnings` off an unconvertible
scalar is kept with a warning wherever it comes — before or after best-match fields, in the
same or a later document of the same decoder. -/
theorem convert_after_best_lenient {cfg : ParserConfig} (hc : cfg.failOnConverterWarnings = false)
    (pre post : List Work) :
    (workAll cfg (pre ++ .convert true :: post)).1[pre.length]? = some (.ok .warned) := by
  rw [(best_match_config_local cfg _).2]
  simp [workStep, hc]

/-- **best_lenient_binds**: with `fail_on_converter_warnings` off a nested object is bound
whenever some candidate class declares its (known) keys and binds it under the caller's own
lenient configuration — unconvertible values inside it no longer make the decoder raise. -/
theorem best_lenient_binds {cfg : ParserConfig} (hc : cfg.failOnConverterWarnings = false)
    (keys : List Str) (cands : List CandC)
    (h : (cands.map (·.under cfg)).any (fun c =>
      localNamesMatch (bestKeys cfg keys (cands.map (·.under cfg))) c.localNames && c.attempt.isSome) = true) :
    ∃ c, (workStep cfg (.best keys cands)).1 = .ok (.chose c) := by
  have hl : ∃ c, bindBest cfg keys (cands.map (·.under cfg)) = .ok c := by
    have := foldl_bestStep_isSome (bestKeys cfg keys (cands.map (·.under cfg))) (cands.map (·.under cfg)) none
      (by simpa using h)
    unfold bindBest
    cases hf : (cands.map (·.under cfg)).foldl (bestStep (bestKeys cfg keys (cands.map (·.under cfg)))) none with
    | none => simp [hf] at this
    | some p => exact ⟨p.1, rfl⟩
  obtain ⟨c, hl⟩ := hl
  simp only [workStep]
  cases hs : bindBest cfg keys (cands.map (·.under (candidateConfig cfg))) with
  | ok c' => exact ⟨c', rfl⟩
  | error err => exact ⟨c, by simp [hc, hl]⟩

/- non-vacuity: `{"n": "many"}` for `Base(n: int)`: the strict attempt raises, the lenient one keeps the string -/
example : (workStep { failOnConverterWarnings := false }
      (.best [['n']] [⟨"Base".toList, [['n']], fun c => if c.failOnConverterWarnings then none else some 2⟩])).1
    = .ok (.chose "Base".toList)
  ∧ (workStep { failOnConverterWarnings := true }
      (.best [['n']] [⟨"Base".toList, [['n']], fun c => if c.failOnConverterWarnings then none else some 2⟩])).1
    = .error (.parser "Failed to bind object") := ⟨by rfl, by rfl⟩

/- non-vacuity: a best-match item followed by a failing conversion, lenient configuration -/
example : (workAll { failOnConverterWarnings := false }
      [.best [['x']] [⟨"Base".toList, [['x']], fun c => if c.failOnConverterWarnings then some 2 else some 3⟩], .convert true]).1
    = [.ok (.chose "Base".toList), .ok .warned] := by rfl

end Props.C10
