/-
C15 — helper lemmas for the JSON/dict decoder model (`Fault/Dict.lean`) after the repairs
of the follow-up round: whatever the decoder ends in is a value or a parser-side error
(`Clean`), for every universe, configuration, target and loaded JSON value.
-/
import XsdataModel.Proofs.C15NoLeak
import XsdataModel.Fault.Dict

namespace Proofs.C15
open Py Xs.Bind Xs.Fault

/-! ### `converter.serialize`: the only thing it leaks is the `TypeError` of `str.join` -/

/-- the errors of `converter.serialize` on loaded JSON -/
def serErr : Err → Bool
  | .converter => true
  | .leaked s => s == "TypeError"
  | _ => false

def SerOk {α} (r : Except Err α) : Prop := ∀ err, r = .error err → serErr err = true

mutual
theorem serializeJ_serOk : ∀ j : J, SerOk (serializeJ j)
  | .null | .bool _ | .int _ | .float _ | .str _ => by unfold serializeJ; intro err h; cases h
  | .obj _ => by unfold serializeJ; intro err h; cases h; rfl
  | .arr xs => by
    have ih := serializeJs_serOk xs
    unfold serializeJ
    intro err h
    split at h
    · rename_i err' heq; cases h; exact ih _ heq
    · split at h
      · cases h; rfl
      · cases h
theorem serializeJs_serOk : ∀ xs : List J, SerOk (serializeJs xs)
  | [] => by unfold serializeJs; intro err h; cases h
  | x :: xs => by
    have h1 := serializeJ_serOk x
    have h2 := serializeJs_serOk xs
    unfold serializeJs
    intro err h
    split at h
    · rename_i err' heq; cases h; exact h1 _ heq
    · split at h
      · rename_i err' heq; cases h; exact h2 _ heq
      · cases h
end

theorem SerOk.clean_of_ne {α} {r : Except Err α} (hs : SerOk r)
    (hne : r = .error (.leaked "TypeError") → False) : Clean r := by
  cases hr : r with
  | ok v => rfl
  | error err =>
    have := hs err hr
    cases err <;> simp [serErr] at this
    · rfl
    · subst this; exact absurd hr hne

theorem dictOf_clean (j : J) : Clean (dictOf j) := by
  unfold dictOf
  split <;> clean_leaf

theorem findTypeJ_clean (Γ : Ctx) (j : J) : Clean (findTypeJ Γ j) := by
  unfold findTypeJ
  split <;> clean_leaf

/-- `bind_text`: the `TypeError` of `serialize` is translated, everything else was clean already -/
theorem bindTextJ_clean (e : BEnv) (cfg : ParserConfig) (var : XmlVar) (j : J) : Clean (bindTextJ e cfg var j) := by
  unfold bindTextJ
  have hs := serializeJ_serOk j
  clean_descend
  all_goals exact SerOk.clean_of_ne hs ‹_›

macro_rules | `(tactic| clean_leaf) => `(tactic| exact dictOf_clean _)
macro_rules | `(tactic| clean_leaf) => `(tactic| exact findTypeJ_clean _ _)
macro_rules | `(tactic| clean_leaf) => `(tactic| exact bindTextJ_clean _ _ _ _)

/-- `bind_best_dataclass` swallows everything its candidates raise -/
theorem bindBest_clean (e : BEnv) (Γ : Ctx) (cfg : ParserConfig) (fuel : Nat) (kvs : List (Str × J)) (cs : List ClassId) :
    Clean (bindBest e Γ cfg fuel kvs cs) := by
  cases fuel with
  | zero => unfold bindBest; rfl
  | succ n =>
    unfold bindBest
    clean_descend

macro_rules | `(tactic| clean_leaf) => `(tactic| exact bindBest_clean _ _ _ _ _ _)

/-! ### `find_var`: what a match tells about the value -/

/-- a var found through the wrapper key comes with an object that holds the field's key -/
theorem findVar_spec (vars : List XmlVar) (key : Str) (value : J) (var : XmlVar)
    (h : findVar vars key value = some var) :
    var.localName = key ∨
      ∃ inner v, value = .obj inner ∧ J.get inner var.localName = some v := by
  unfold findVar at h
  obtain ⟨a, _, hf⟩ := List.exists_of_findSome?_eq_some h
  dsimp only at hf
  split at hf
  · rename_i hk
    split at hf
    · cases hf; exact .inl hk
    · cases hf
  · split at hf
    · split at hf
      · rename_i inner
        split at hf
        · rename_i v hv
          split at hf
          · cases hf; exact .inr ⟨inner, v, rfl, hv⟩
          · cases hf
        · cases hf
      · cases hf
    · cases hf


/-- the two functions that recurse through each other, by induction on the fuel -/
theorem bind_clean (e : BEnv) (Γ : Ctx) : ∀ fuel : Nat,
    (∀ cfg data c, Clean (bindDataclass e Γ cfg fuel data c)) ∧
    (∀ cfg m var v r, Clean (bindValue e Γ cfg fuel m var v r))
  | 0 => ⟨fun _ _ _ => by unfold bindDataclass; rfl, fun _ _ _ _ _ => by unfold bindValue; rfl⟩
  | n + 1 => by
    have ⟨ihD, ihV⟩ := bind_clean e Γ n
    constructor
    · intro cfg data c
      have h1 := fun d c => ihD cfg d c
      have h2 := fun m var v r => ihV cfg m var v r
      unfold bindDataclass
      cases data with
      | obj kvs =>
        dsimp only
        split
        · exact h1 _ _
        · split
          · rfl
          · rename_i m hm
            apply Clean.bind
            · apply Clean.foldlM
              intro params kv
              split
              · split <;> clean_leaf
              · rename_i var hfind
                have hspec := findVar_spec _ _ _ _ hfind
                split
                · rename_i hc
                  simp only [Bool.and_eq_true, decide_eq_true_eq] at hc
                  rcases hspec with hk | ⟨inner, v, hv, hg⟩
                  · exact absurd hk hc.2
                  · rw [hv]
                    simp only [hg]
                    repeat' (first
                      | clean_leaf
                      | exact h2 _ _ _ _
                      | apply Clean.bind
                      | intro _
                      | split
                      | dsimp only)
                · repeat' (first
                    | clean_leaf
                    | exact h2 _ _ _ _
                    | apply Clean.bind
                    | intro _
                    | split
                    | dsimp only)
            · intro params; exact classFactory_clean _ _ _
      | _ => rfl
    · intro cfg m var v r
      have h1 := fun d c => ihD cfg d c
      have h2 := fun m var v r => ihV cfg m var v r
      have hc : ∀ var kvs, Clean (bindComplexWith (bindBest e Γ cfg n) (bindDataclass e Γ cfg n) Γ var kvs) := by
        intro var kvs
        unfold bindComplexWith
        repeat' (first
          | clean_leaf
          | exact h1 _ _
          | split
          | dsimp only)
      unfold bindValue
      repeat' (first
        | clean_leaf
        | exact h1 _ _
        | exact h2 _ _ _ _
        | exact hc _ _
        | apply Clean.bind
        | apply Clean.map
        | apply Clean.mapM
        | intro _
        | split
        | dsimp only)

theorem bindAll_clean (e : BEnv) (Γ : Ctx) (cfg : ParserConfig) (fuel : Nat) (c : ClassId) (data : J) :
    Clean (bindAll e Γ cfg fuel c data) := by
  have h1 := fun d c => (bind_clean e Γ fuel).1 cfg d c
  unfold bindAll
  split
  · exact Clean.bind (Clean.mapM _ (fun x => h1 x c) _) (fun _ => Clean.pure _)
  · exact h1 _ _

theorem decode_clean (e : BEnv) (Γ : Ctx) (cfg : ParserConfig) (fuel : Nat) (c : ClassId) (listOf : Bool) (data : J) :
    Clean (decode e Γ cfg fuel c listOf data) := by
  have h1 := fun d c => (bind_clean e Γ fuel).1 cfg d c
  unfold decode
  repeat' (first
    | clean_leaf
    | exact h1 _ _
    | apply Clean.bind
    | apply Clean.mapM
    | intro _
    | split
    | dsimp only)

theorem decodeAuto_clean (e : BEnv) (Γ : Ctx) (cfg : ParserConfig) (fuel : Nat) (data : J) :
    Clean (decodeAuto e Γ cfg fuel data) := by
  unfold decodeAuto
  split
  · rfl
  · dsimp only
    split
    · split
      · rfl
      · exact bindAll_clean _ _ _ _ _ _
    · rfl

theorem parseJson_clean (e : BEnv) (Γ : Ctx) (cfg : ParserConfig) (fuel : Nat) (c : ClassId) (listOf : Bool) (l : Loaded) :
    Clean (parseJson e Γ cfg fuel c listOf l) := by
  cases l <;> first | exact decode_clean _ _ _ _ _ _ _ | rfl

theorem parseJsonAuto_clean (e : BEnv) (Γ : Ctx) (cfg : ParserConfig) (fuel : Nat) (l : Loaded) :
    Clean (parseJsonAuto e Γ cfg fuel l) := by
  cases l <;> first | exact decodeAuto_clean _ _ _ _ _ | rfl

end Proofs.C15
