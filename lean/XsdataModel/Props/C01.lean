/- C01 — property theorems (only).

XML round trip at the binding layer: `EventGenerator.generate`, the abstract
writer (events → SAX calls → ElementTree infoset, `Bind/Write.lean`) and
`NodeParser` compose to the identity on fragment F1 (`Bind/F1.lean`).

* `bind_generate_F1` : the round trip, for every
  F1 universe, every F1 instance, both settings of `ignoreDefaultAttributes`,
  all 8 parser configurations, every `Env`; no converter warning is issued.
* `bind_generate_anyNamespaces` : the same without the namespace agreement condition of `ctxF1`
  (every combination of class and field namespaces; holds since repair `c01g-01`).
* `bind_generate_anyInstance` : the full-strength statement without the value-level exclusions is
  false of the model; each excluded region has a concrete witness that is replayed on the real code
  (`known_findings.json`).
-/
import XsdataModel.Proofs.C01Main

namespace Props.C01
open Py Xs.Bind Xs.Bind.F1

/-! ### the round trip on fragment F1 -/

/-- **C01, fragment F1.**  For a universe `Γ` in fragment F1 and an instance `v` of class `c`
in fragment F1: the event generator succeeds, the abstract writer turns its events into one
document tree, and parsing that tree into class `c` gives back `v` with no warning. -/
theorem bind_generate_F1 (e : BEnv) (Γ : Ctx) (cfg : SerCfg) (pcfg : ParserConfig) (c : ClassId) (v : Val)
    (hΓ : ctxF1 Γ = true) (hv : valF1 e Γ c v = true) :
    ∃ evs t, generate e Γ cfg v = .ok evs ∧ eventsTree (isDatatype Γ) evs = .ok t ∧
      parseRoot e Γ pcfg c t = .ok (v, 0) :=
  Proofs.C01.roundtrip_F1 e Γ cfg pcfg c v hΓ hv

/-! #### a concrete universe and instance satisfying the hypotheses -/

def s (x : String) : Str := x.toList

/-- a var with the flags every var of the fragment has -/
def mkVar (index : Nat) (name qname : String) (kind : VarKind) (types : List TypeRef)
    (clazz : Option ClassId := none) (required : Bool := false) (listElement : Bool := false)
    (default : DefaultV := .none) (namespaces : List Str := []) : XmlVar :=
  { index := index, name := s name, localName := s name, qname := s qname, wrapperQName := none,
    types := types, clazz := clazz, init := true, mixed := false, tokens := false, format := none,
    anyType := false, processContents := s "strict", required := required, nillable := false,
    sequence := none, listElement := listElement, default := default, namespaces := namespaces,
    kind := kind, isClazzUnion := false, elements := [], wildcards := [] }

def mkMeta (clazz qname : String) (text : Option XmlVar) (elements attributes : List XmlVar) : XmlMeta :=
  { clazz := s clazz, qname := s qname, targetQName := some (s qname), nillable := false,
    text := text, choices := [], elements := elements.map (fun v => (v.qname, [v])), wildcards := [],
    attributes := attributes.map (fun v => (v.qname, v)), anyAttributes := [], wrappers := [] }

def e0 : BEnv := ⟨Env.ascii, fun _ => true, fun _ => true⟩

def xsString : String := "{http://www.w3.org/2001/XMLSchema}string"

def leafId : XmlVar := mkVar 1 "id" "id" .attribute [.prim .int] (required := true)
def leafText : XmlVar := mkVar 2 "value" "value" .text [.prim .str] (default := .val (.str []))
def leafMeta (q : String) : XmlMeta := mkMeta "Leaf" q (some leafText) [] [leafId]

def leafInfo : ClassInfo :=
  { id := s "Leaf", metas := [(none, leafMeta "Leaf"), (some (s "urn:a"), leafMeta "{urn:a}Leaf")],
    mro := [s "Leaf"], bases := [],
    fields := [⟨s "id", true, none⟩, ⟨s "value", true, some (.prim (.str []))⟩] }

def rootLang : XmlVar := mkVar 1 "lang" "lang" .attribute [.prim .str]
def rootN : XmlVar := mkVar 2 "n" "n" .attribute [.prim .int] (default := .val (.int 7))
def rootTitle : XmlVar := mkVar 3 "title" "{urn:a}title" .element [.prim .str] (required := true)
  (namespaces := [s "urn:a"])
def rootTags : XmlVar := mkVar 4 "tags" "{urn:a}tags" .element [.prim .int] (listElement := true)
  (default := .listFactory) (namespaces := [s "urn:a"])
def rootItem : XmlVar := mkVar 5 "item" "{urn:a}item" .element [.cls (s "Leaf")]
  (clazz := some (s "Leaf")) (listElement := true) (default := .listFactory) (namespaces := [s "urn:a"])
def rootOpt : XmlVar := mkVar 6 "opt" "{urn:a}opt" .element [.cls (s "Leaf")]
  (clazz := some (s "Leaf")) (namespaces := [s "urn:a"])
def rootFlag : XmlVar := mkVar 7 "flag" "flag" .element [.prim .bool] (default := .val (.bool true))

def rootMeta : XmlMeta :=
  mkMeta "Root" "{urn:a}Root" none [rootTitle, rootTags, rootItem, rootOpt, rootFlag] [rootLang, rootN]

def rootInfo : ClassInfo :=
  { id := s "Root", metas := [(none, rootMeta), (some (s "urn:a"), rootMeta)], mro := [s "Root"],
    bases := [],
    fields := [⟨s "title", true, none⟩, ⟨s "lang", true, some .none⟩, ⟨s "n", true, some (.prim (.int 7))⟩,
      ⟨s "tags", true, some (.list [])⟩, ⟨s "item", true, some (.list [])⟩, ⟨s "opt", true, some .none⟩,
      ⟨s "flag", true, some (.prim (.bool true))⟩] }

/-- a two-class universe: `Root` (namespace `urn:a`: two attributes, a required `str` element, a
list of `int` elements, a list of `Leaf` and an optional `Leaf`, a `bool` element in no namespace
with a default) and `Leaf` (no namespace of its own: a required `int` attribute and a text var) -/
def Γ2 : Ctx :=
  { classes := [leafInfo, rootInfo], xsiIndex := [], datatypes := [(s xsString, some .str)] }

def leafVal (i : Int) (t : String) : Val :=
  .obj (s "Leaf") [(s "id", .prim (.int i)), (s "value", .prim (.str (s t)))]

def v2 : Val := .obj (s "Root")
  [(s "title", .prim (.str [])), (s "lang", .prim (.str (s "{en}"))), (s "n", .prim (.int 7)),
   (s "tags", .list [.prim (.int 1), .prim (.int (-20))]),
   (s "item", .list [leafVal 1 " x y ", leafVal (-2) ""]), (s "opt", .none),
   (s "flag", .prim (.bool false))]

example : ctxF1 Γ2 = true := by decide
example : valF1 e0 Γ2 (s "Root") v2 = true := by decide

/-- the theorem applied to the concrete instance, with default attributes suppressed and the
strictest parser configuration -/
example : ∃ evs t, generate e0 Γ2 ⟨true⟩ v2 = .ok evs ∧ eventsTree (isDatatype Γ2) evs = .ok t ∧
    parseRoot e0 Γ2 ⟨true, true, true⟩ (s "Root") t = .ok (v2, 0) :=
  bind_generate_F1 e0 Γ2 ⟨true⟩ ⟨true, true, true⟩ (s "Root") v2 (by decide) (by decide)

/-! ### full strength, values: false of the model (and of the code) -/

/-- the round trip for every type-correct instance (`instF1`: like `valF1` without the three
value-level exclusions) -/
def bind_generate_anyInstance : Prop :=
  ∀ (e : BEnv) (Γ : Ctx) (cfg : SerCfg) (pcfg : ParserConfig) (c : ClassId) (v : Val),
    ctxF1 Γ = true → instF1 Γ c v = true →
    ∃ evs t, generate e Γ cfg v = .ok evs ∧ eventsTree (isDatatype Γ) evs = .ok t ∧
      parseRoot e Γ pcfg c t = .ok (v, 0)

def rootOnly (elements attributes : List XmlVar) (text : Option XmlVar) (fields : List FieldInfo) : Ctx :=
  { classes := [{ id := s "Root", metas := [(none, mkMeta "Root" "Root" text elements attributes)],
                  mro := [s "Root"], bases := [], fields := fields }],
    xsiIndex := [], datatypes := [(s xsString, some .str)] }

def evsOf (Γ : Ctx) (v : Val) : List Ev :=
  match generate e0 Γ {} v with
  | .ok evs => evs
  | .error _ => []

def treeOf (Γ : Ctx) (v : Val) : Tree :=
  match eventsTree (isDatatype Γ) (evsOf Γ v) with
  | .ok t => t
  | .error _ => .node [] [] [] none [] none

/-- witness 1: `a: str = "ed"` as an element; the instance `Root(a="")` -/
def Γw1 : Ctx := rootOnly [mkVar 1 "a" "a" .element [.prim .str] (default := .val (.str (s "ed")))] [] none
  [⟨s "a", true, some (.prim (.str (s "ed")))⟩]
def w1 : Val := .obj (s "Root") [(s "a", .prim (.str []))]

/-- an empty `str` in an element whose field default is not `None` comes back as the default:
`<a/>` has text `None`, and `ParserUtils.parse_value(None, …)` returns the var default -/
theorem empty_str_default_witness :
    ctxF1 Γw1 = true ∧ instF1 Γw1 (s "Root") w1 = true ∧
    generate e0 Γw1 {} w1 = .ok (evsOf Γw1 w1) ∧
    eventsTree (isDatatype Γw1) (evsOf Γw1 w1) = .ok (treeOf Γw1 w1) ∧
    treeOf Γw1 w1 = .node (s "Root") [] [] none [.node (s "a") [] [] none [] none] none ∧
    parseRoot e0 Γw1 {} (s "Root") (treeOf Γw1 w1) =
      .ok (.obj (s "Root") [(s "a", .prim (.str (s "ed")))], 0) :=
  ⟨by decide, by decide, rfl, rfl, rfl, rfl⟩

/-- witness 2: `a: Optional[str] = None` as an attribute holding the Clark name of a builtin datatype -/
def Γw2 : Ctx := rootOnly [] [mkVar 1 "a" "a" .attribute [.prim .str]] none [⟨s "a", true, some .none⟩]
def w2 : Val := .obj (s "Root") [(s "a", .prim (.str (s xsString)))]

/-- a `str` attribute value that names a builtin datatype in Clark notation is taken for a QName
by the writer (`is_xsi_type`) and written as a prefixed name -/
theorem attr_datatype_witness :
    ctxF1 Γw2 = true ∧ instF1 Γw2 (s "Root") w2 = true ∧
    generate e0 Γw2 {} w2 = .ok (evsOf Γw2 w2) ∧
    eventsTree (isDatatype Γw2) (evsOf Γw2 w2) = .ok (treeOf Γw2 w2) ∧
    parseRoot e0 Γw2 {} (s "Root") (treeOf Γw2 w2) =
      .ok (.obj (s "Root") [(s "a", .prim (.str (s "xs:string")))], 0) :=
  ⟨by decide, by decide, rfl, rfl, rfl⟩

/-- witness 3: a text var `value: Optional[str] = None` holding `""` -/
def Γw3 : Ctx := rootOnly [] [] (some (mkVar 1 "value" "value" .text [.prim .str]))
  [⟨s "value", true, some .none⟩]
def w3 : Val := .obj (s "Root") [(s "value", .prim (.str []))]

/-- an empty text comes back as the field default (`None`): XML cannot tell them apart -/
theorem empty_text_witness :
    ctxF1 Γw3 = true ∧ instF1 Γw3 (s "Root") w3 = true ∧
    generate e0 Γw3 {} w3 = .ok (evsOf Γw3 w3) ∧
    eventsTree (isDatatype Γw3) (evsOf Γw3 w3) = .ok (treeOf Γw3 w3) ∧
    parseRoot e0 Γw3 {} (s "Root") (treeOf Γw3 w3) = .ok (.obj (s "Root") [(s "value", .none)], 0) :=
  ⟨by decide, by decide, rfl, rfl, rfl⟩

theorem bind_generate_anyInstance_false : ¬ bind_generate_anyInstance := by
  intro h
  obtain ⟨h1, h2, hg, ht, _, hp⟩ := empty_str_default_witness
  obtain ⟨evs, t, hg', ht', hp'⟩ := h e0 Γw1 {} {} (s "Root") w1 h1 h2
  rw [hg] at hg'; cases hg'
  rw [ht] at ht'; cases ht'
  rw [hp] at hp'
  simp [w1, s] at hp'

/-! ### full strength, namespaces: holds since `convert_dataclass` hands `meta.namespace` down
(repair `c01g-01`; before, the serializer handed down the namespace of the element name and the
chain below was a counterexample: `C01-ns-chain`) -/

/-- **C01, fragment F1 for every combination of class and field namespaces**: no requirement that the
classes of grandchildren have the same metadata under two parent namespaces (`ctxF1G false` is
`ctxF1` without `nsAgree`). -/
theorem bind_generate_anyNamespaces (e : BEnv) (Γ : Ctx) (cfg : SerCfg) (pcfg : ParserConfig) (c : ClassId)
    (v : Val) (hΓ : ctxF1G false Γ = true) (hv : valF1 e Γ c v = true) :
    ∃ evs t, generate e Γ cfg v = .ok evs ∧ eventsTree (isDatatype Γ) evs = .ok t ∧
      parseRoot e Γ pcfg c t = .ok (v, 0) :=
  Proofs.C01.roundtrip_F1G e Γ cfg pcfg c v hΓ hv

def w4Z (q : String) : XmlVar := mkVar 1 "z" q .element [.prim .str]
def w4LeafInfo : ClassInfo :=
  { id := s "Leaf",
    metas := [(none, mkMeta "Leaf" "Leaf" none [w4Z "z"] []),
              (some (s "urn:a"), mkMeta "Leaf" "{urn:a}Leaf" none [w4Z "{urn:a}z"] []),
              (some (s "urn:b"), mkMeta "Leaf" "{urn:b}Leaf" none [w4Z "{urn:b}z"] [])],
    mro := [s "Leaf"], bases := [], fields := [⟨s "z", true, some .none⟩] }
def w4Y : XmlVar := mkVar 1 "y" "{urn:b}y" .element [.cls (s "Leaf")] (clazz := some (s "Leaf"))
def w4MidMeta : XmlMeta := mkMeta "Mid" "{urn:b}Mid" none [w4Y] []
def w4MidInfo : ClassInfo :=
  { id := s "Mid", metas := [(none, w4MidMeta), (some (s "urn:a"), w4MidMeta), (some (s "urn:b"), w4MidMeta)],
    mro := [s "Mid"], bases := [], fields := [⟨s "y", true, some .none⟩] }
def w4X : XmlVar := mkVar 1 "x" "{urn:a}x" .element [.cls (s "Mid")] (clazz := some (s "Mid"))
def w4RootMeta : XmlMeta := mkMeta "Root" "{urn:a}Root" none [w4X] []
def w4RootInfo : ClassInfo :=
  { id := s "Root", metas := [(none, w4RootMeta), (some (s "urn:a"), w4RootMeta), (some (s "urn:b"), w4RootMeta)],
    mro := [s "Root"], bases := [], fields := [⟨s "x", true, some .none⟩] }

/-- witness 4: `Root` (namespace `urn:a`) → `x: Mid` (namespace `urn:b`) → `y: Leaf` (no namespace of
its own) → `z: str` -/
def Γw4 : Ctx := { classes := [w4LeafInfo, w4MidInfo, w4RootInfo], xsiIndex := [], datatypes := [] }
def w4 : Val := .obj (s "Root") [(s "x", .obj (s "Mid") [(s "y", .obj (s "Leaf") [(s "z", .prim (.str (s "t")))])])]

/-- the former counterexample: the serializer and the parser both build `Leaf` under the namespace
of the class `Mid` (`urn:b`); `z` is written as `{urn:b}z` and found -/
theorem ns_chain_repaired :
    ctxF1G false Γw4 = true ∧ ctxF1 Γw4 = false ∧ valF1 e0 Γw4 (s "Root") w4 = true ∧
    generate e0 Γw4 {} w4 = .ok (evsOf Γw4 w4) ∧
    eventsTree (isDatatype Γw4) (evsOf Γw4 w4) = .ok (treeOf Γw4 w4) ∧
    treeOf Γw4 w4 = .node (s "{urn:a}Root") [] [] none [.node (s "{urn:a}x") [] [] none
      [.node (s "{urn:b}y") [] [] none [.node (s "{urn:b}z") [] [] (some (s "t")) [] none] none] none] none :=
  ⟨by decide, by decide, by decide, rfl, rfl, rfl⟩

example : ∃ evs t, generate e0 Γw4 {} w4 = .ok evs ∧ eventsTree (isDatatype Γw4) evs = .ok t ∧
    parseRoot e0 Γw4 {} (s "Root") t = .ok (w4, 0) :=
  bind_generate_anyNamespaces e0 Γw4 {} {} (s "Root") w4 (by decide) (by decide)

end Props.C01
