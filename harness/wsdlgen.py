"""C17 support: WSDL 1.1 documents from a small abstract spec, records of the
parsed `Definitions` (the input of the Lean model), the real `DefinitionsMapper`
run on such records with a canonical JSON rendering of the classes it yields,
and an independent reading of what WSDL 1.1 prescribes for the wire format.

spec = {
  "tns": str, "xns": str (target namespace of the schema), "schema": "inline"|"import",
  "root_prefix": "wsdl"|None   (prefix of the WSDL namespace; None = default namespace),
  "bstyle": None|"document"|"rpc", "transport": str|None, "location": str,
  "pt": str, "binding": str, "extra_binding_ext": [[qname-ish, {attr: value}]...],
  "ops": [op...]
}
op = {"name", "ostyle": None|"document"|"rpc", "action": None|str, "body_ns": None|str,
      "in": msg, "out": msg, "in_sel"/"out_sel": None|[part names] (soap:body parts=), "in_headers": [hdr], "out_headers": [hdr]
      (a hdr may name the operation's own input/output message: header and body parts of one message),
      "faults": [{"name", "msg": msg}]}
msg = {"name", "parts": [{"name", "kind": "element"|"type", "ref": str}]}
hdr = {"msg": msg, "part": str}

refs: element refs "E..." are global elements with an anonymous complex type,
type refs "T..." are complex types, "S..." simple types (enumeration),
"R..." restricted simple types, "xsd:string"/"xsd:int" builtins.
"""
from __future__ import annotations

import random
from xml.sax.saxutils import quoteattr

SOAP_HTTP = "http://schemas.xmlsoap.org/soap/http"
WSDL_NS = "http://schemas.xmlsoap.org/wsdl/"
WSDL_SOAP_NS = "http://schemas.xmlsoap.org/wsdl/soap/"
ENV_NS = "http://schemas.xmlsoap.org/soap/envelope/"
XSD_NS = "http://www.w3.org/2001/XMLSchema"


# ----------------------------------------------------------------------------
# rendering
# ----------------------------------------------------------------------------
def all_messages(spec):
    seen = {}
    for op in spec["ops"]:
        for m in [op.get("in"), op.get("out")] + [h["msg"] for h in op.get("in_headers", []) + op.get("out_headers", [])] + [f["msg"] for f in op.get("faults", [])]:
            if m is not None and m["name"] not in seen:
                seen[m["name"]] = m
    return list(seen.values())


def all_refs(spec):
    refs = []
    for m in all_messages(spec):
        for p in m["parts"]:
            if p.get("ref") and p["ref"] not in refs:
                refs.append(p["ref"])
    return refs


def schemas_of(spec):
    """the xs:schema elements of the definition: [{"ns", "form", "attr_form"}] (form defaults: None = not
    declared).  Without spec["schemas"]: the single qualified schema of the earlier rounds."""
    return spec.get("schemas") or [{"ns": spec["xns"], "form": "qualified", "attr_form": None}]


def schema_index(spec, ref):
    """which schema declares the element / type `ref` (stable, spread over all schemas)"""
    over = spec.get("ref_schema") or {}
    if ref in over:
        return over[ref]
    return sum(map(ord, ref)) % len(schemas_of(spec))


def ref_ns(spec, ref):
    return schemas_of(spec)[schema_index(spec, ref)]["ns"]


def ref_prefix(spec, ref):
    i = schema_index(spec, ref)
    return "ty" if i == 0 else f"ty{i}"


def child_ns(spec, ref, name="a"):
    """namespace of the local child element `name` of `ref`: its own form= if it has one (child `n` when the
    schema has "n_form"), else the schema's elementFormDefault; qualified only if that says so (XSD 3.3.2)"""
    sch = schemas_of(spec)[schema_index(spec, ref)]
    form = sch.get("n_form") if name == "n" and sch.get("n_form") else sch.get("form")
    return sch["ns"] if form == "qualified" else None


def attr_ns(spec, ref):
    sch = schemas_of(spec)[schema_index(spec, ref)]
    return sch["ns"] if sch.get("attr_form") == "qualified" else None


def schema_text(spec, idx):
    out = []
    x = "xsd"
    sch = schemas_of(spec)[idx]
    head = f'<{x}:schema xmlns:{x}="{XSD_NS}" targetNamespace={quoteattr(sch["ns"])}'
    if sch.get("form") is not None:
        head += f' elementFormDefault="{sch["form"]}"'
    if sch.get("attr_form") is not None:
        head += f' attributeFormDefault="{sch["attr_form"]}"'
    out.append(head + ">")
    nform = f' form="{sch["n_form"]}"' if sch.get("n_form") else ""
    for r in all_refs(spec):
        if r.startswith("xsd:") or schema_index(spec, r) != idx:
            continue
        if r.startswith("E"):
            out.append(
                f'<{x}:element name="{r}"><{x}:complexType><{x}:sequence>'
                f'<{x}:element name="a" type="{x}:string"/><{x}:element name="n" type="{x}:int" minOccurs="0"{nform}/>'
                f'</{x}:sequence><{x}:attribute name="k" type="{x}:string"/></{x}:complexType></{x}:element>'
            )
        elif r.startswith("T"):
            out.append(
                f'<{x}:complexType name="{r}"><{x}:sequence>'
                f'<{x}:element name="a" type="{x}:string"/>'
                f"</{x}:sequence></{x}:complexType>"
            )
        elif r.startswith("S"):
            out.append(
                f'<{x}:simpleType name="{r}"><{x}:restriction base="{x}:string">'
                f'<{x}:enumeration value="red"/><{x}:enumeration value="green"/></{x}:restriction></{x}:simpleType>'
            )
        elif r.startswith("R"):
            out.append(f'<{x}:simpleType name="{r}"><{x}:restriction base="{x}:int"><{x}:maxInclusive value="500"/></{x}:restriction></{x}:simpleType>')
        else:
            raise ValueError(r)
    out.append(f"</{x}:schema>")
    return "\n".join(out)


def part_text(w, p, spec):
    if p["kind"] == "element":
        return f'<{w}part name="{p["name"]}" element="{ref_prefix(spec, p["ref"])}:{p["ref"]}"/>'
    if p["kind"] == "type":
        ref = p["ref"] if p["ref"].startswith("xsd:") else ref_prefix(spec, p["ref"]) + ":" + p["ref"]
        return f'<{w}part name="{p["name"]}" type="{ref}"/>'
    return f'<{w}part name="{p["name"]}"/>'


def render(spec) -> dict:
    """spec -> {file name: text}; entry is svc.wsdl"""
    pre = spec.get("root_prefix")
    w = f"{pre}:" if pre else ""
    xmlns_w = f'xmlns:{pre}="{WSDL_NS}"' if pre else f'xmlns="{WSDL_NS}"'
    o = []
    o.append(
        f'<{w}definitions {xmlns_w} xmlns:soap="{WSDL_SOAP_NS}" xmlns:tns={quoteattr(spec["tns"])} '
        + "".join(f'xmlns:{"ty" if i == 0 else f"ty{i}"}={quoteattr(sc["ns"])} ' for i, sc in enumerate(schemas_of(spec)))
        + f'xmlns:xsd="{XSD_NS}" targetNamespace={quoteattr(spec["tns"])} name="Svc">'
    )
    files = {}
    n = len(schemas_of(spec))
    if spec.get("schema") == "import":
        # one file (and so one SchemaParser) per schema
        imports = ""
        for i, sc in enumerate(schemas_of(spec)):
            name = "types.xsd" if i == 0 else f"types{i}.xsd"
            files[name] = schema_text(spec, i)
            imports += f'<xsd:import namespace={quoteattr(sc["ns"])} schemaLocation="{name}"/>'
        o.append(f"<{w}types><xsd:schema>{imports}</xsd:schema></{w}types>")
    else:
        # every schema inline, in order: they are all read by the parser instance that reads the WSDL
        o.append(f"<{w}types>" + "\n".join(schema_text(spec, i) for i in range(n)) + f"</{w}types>")
    for m in all_messages(spec):
        o.append(f'<{w}message name="{m["name"]}">' + "".join(part_text(w, p, spec) for p in m["parts"]) + f"</{w}message>")
    o.append(f'<{w}portType name="{spec["pt"]}">')
    for op in spec["ops"]:
        o.append(f'<{w}operation name="{op["name"]}">')
        if op.get("in") is not None:
            o.append(f'<{w}input message="tns:{op["in"]["name"]}"/>')
        if op.get("out") is not None:
            o.append(f'<{w}output message="tns:{op["out"]["name"]}"/>')
        for f in op.get("faults", []):
            o.append(f'<{w}fault name="{f["name"]}" message="tns:{f["msg"]["name"]}"/>')
        o.append(f"</{w}operation>")
    o.append(f"</{w}portType>")
    o.append(f'<{w}binding name="{spec["binding"]}" type="tns:{spec["pt"]}">')
    sb = "<soap:binding"
    if spec.get("transport") is not None:
        sb += f" transport={quoteattr(spec['transport'])}"
    if spec.get("bstyle") is not None:
        sb += f" style={quoteattr(spec['bstyle'])}"
    o.append(sb + "/>")
    for q, attrs in spec.get("extra_binding_ext", []):
        o.append(f"<{q}" + "".join(f" {k}={quoteattr(v)}" for k, v in attrs.items()) + "/>")

    def bmsg(tag, op, headers, sel):
        s = f"<{w}{tag}>"
        for h in headers:
            s += f'<soap:header message="tns:{h["msg"]["name"]}" part="{h["part"]}" use="literal"/>'
        s += '<soap:body use="literal"'
        if op.get("body_ns") is not None:
            s += f" namespace={quoteattr(op['body_ns'])}"
        if sel is not None:
            s += f' parts="{" ".join(sel)}"'
        s += "/>"
        return s + f"</{w}{tag}>"

    for op in spec["ops"]:
        o.append(f'<{w}operation name="{op["name"]}">')
        so = "<soap:operation"
        if op.get("action") is not None:
            so += f" soapAction={quoteattr(op['action'])}"
        if op.get("ostyle") is not None:
            so += f" style={quoteattr(op['ostyle'])}"
        o.append(so + "/>")
        if op.get("in") is not None:
            o.append(bmsg("input", op, op.get("in_headers", []), op.get("in_sel")))
        if op.get("out") is not None:
            o.append(bmsg("output", op, op.get("out_headers", []), op.get("out_sel")))
        for f in op.get("faults", []):
            o.append(f'<{w}fault name="{f["name"]}"><soap:fault name="{f["name"]}" use="literal"/></{w}fault>')
        o.append(f"</{w}operation>")
    o.append(f"</{w}binding>")
    o.append(f'<{w}service name="Svc"><{w}port name="Port" binding="tns:{spec["binding"]}">')
    if spec.get("location") is not None:
        o.append(f"<soap:address location={quoteattr(spec['location'])}/>")
    o.append(f"</{w}port></{w}service>")
    o.append(f"</{w}definitions>")
    files["svc.wsdl"] = "\n".join(o)
    return files


# ----------------------------------------------------------------------------
# random specs
# ----------------------------------------------------------------------------
def effective_style(spec, op):
    return op.get("ostyle") or spec.get("bstyle") or "document"


# part names that are prefixes / suffixes / infixes / superstrings of each other: selection by
# `part=` / `parts=` must be by equality with a token, never by substring
NESTED_NAMES = ["request", "requestHeader", "req", "Header", "questH", "st", "requestHeaderExt", "re"]


def gen_parts(rng, tag, kinds, n, simple_ok, names=None):
    parts = []
    for i in range(n):
        kind = rng.choice(kinds)
        if kind == "element":
            ref = f"E{tag}{i}"
        else:
            r = rng.random()
            if r < 0.35:
                ref = rng.choice(["xsd:string", "xsd:int"])
            elif r < 0.8 or not simple_ok:
                ref = f"T{tag}{i}"
            else:
                ref = rng.choice(["S", "R"]) + f"{tag}{i}"
        parts.append({"name": names[i] if names else f"p{tag}{i}", "kind": kind, "ref": ref})
    return parts


def split_message(rng, op, direction):
    """bind some parts of the operation's own message to soap:header (part=) and a subset of
    the rest to soap:body (parts= with one or several tokens); a part may stay unbound"""
    msg = op["in" if direction == "in" else "out"]
    parts = msg["parts"]
    idx = list(range(len(parts)))
    rng.shuffle(idx)
    nh = rng.randint(1, min(2, len(parts) - 1))
    hdr = sorted(idx[:nh])
    rest = sorted(idx[nh:])
    body = [i for i in rest if rng.random() < 0.8] or rest[:1]
    for i in hdr:
        # header parts are given by element (WSDL 1.1 3.7)
        if parts[i]["kind"] != "element":
            parts[i]["kind"], parts[i]["ref"] = "element", "EH" + parts[i]["ref"].replace(":", "")
    hs = [{"msg": msg, "part": parts[i]["name"]} for i in hdr]
    sel = [parts[i]["name"] for i in body]
    if direction == "in":
        op["in_headers"], op["in_sel"] = hs, sel
    else:
        op["out_headers"], op["out_sel"] = hs, sel


FORMS = [None, "qualified", "unqualified"]


def gen_schemas(rng, xns):
    """1-3 schemas with every combination of declared / undeclared form defaults; the first keeps `xns`"""
    n = rng.choice([1, 1, 2, 2, 2, 3])
    nss = [xns, xns.rstrip("/") + "/b", "urn:third"][:n]
    out = []
    for ns in nss:
        out.append({"ns": ns, "form": rng.choice(FORMS + ["qualified"]), "attr_form": rng.choice(FORMS + [None]),
                    "n_form": rng.choice([None, None, "qualified", "unqualified"])})
    return out


def gen_spec(rng: random.Random, nops=None, simple_ok=True, conventional=None, oneway=0.0) -> dict:
    """A definition in the supported fragment: 1-4 operations x document/rpc x
    element/type parts x optional headers/faults x inline/imported schema."""
    tns = rng.choice(["urn:t", "http://example.com/svc", "urn:a:b"])
    xns = tns if rng.random() < 0.5 else rng.choice(["urn:types", "http://example.com/types"])
    bstyle = rng.choice([None, "document", "rpc"])
    spec = {
        "tns": tns,
        "xns": xns,
        "schemas": gen_schemas(rng, xns),
        "schema": rng.choice(["inline", "import"]),
        "root_prefix": rng.choice([None, "wsdl"]),
        "bstyle": bstyle,
        "transport": SOAP_HTTP,
        "location": rng.choice(["http://localhost:8080/svc", "https://example.com/a?b=1&c=2"]),
        "pt": rng.choice(["Pt", "Calc"]),
        "binding": "Bind",
        "ops": [],
    }
    n = nops or rng.randint(1, 4)
    for k in range(n):
        name = ["opA", "opB", "opC", "opD"][k]
        ostyle = rng.choice([None, None, "document", "rpc"])
        style = ostyle or bstyle or "document"
        if style == "rpc":
            kinds = ["type"] if rng.random() < 0.8 else ["type", "element"]
        else:
            kinds = ["element"] if rng.random() < 0.7 else ["element", "type"]
        conv = rng.random() < 0.6 if conventional is None else conventional
        nested = rng.random() < 0.45
        nin = rng.choice([1, 1, 2, 3] if style == "rpc" else [1, 1, 1, 2])
        nout = rng.choice([1, 1, 2] if style == "rpc" else [1, 1, 1, 2])
        if nested:
            nin, nout = rng.randint(2, 4), rng.randint(1, 3)
        in_names = rng.sample(NESTED_NAMES, nin) if nested else None
        out_names = rng.sample(NESTED_NAMES, nout) if nested else None
        op = {
            "name": name,
            "ostyle": ostyle,
            "action": rng.choice([None, "", f"{tns}/{name}", f"urn:act:{name}"]),
            "body_ns": rng.choice([tns, "urn:body"]) if style == "rpc" else rng.choice([None, None, tns]),
            "in": {"name": f"{name}In" if not conv else name, "parts": gen_parts(rng, f"{k}i", kinds, nin, simple_ok, in_names)},
            "out": {"name": f"{name}Out" if not conv else f"{name}Response", "parts": gen_parts(rng, f"{k}o", kinds, nout, simple_ok, out_names)},
            "in_sel": None,
            "out_sel": None,
            "in_headers": [],
            "out_headers": [],
            "faults": [],
        }
        if rng.random() < oneway:
            op["out"] = None
        if rng.random() < 0.35:
            hm = {"name": f"{name}Hdr", "parts": gen_parts(rng, f"{k}h", ["element"], rng.choice([1, 2]), simple_ok)}
            op["in_headers"] = [{"msg": hm, "part": p["name"]} for p in hm["parts"][: rng.choice([1, 2])]]
            if op["out"] is not None and rng.random() < 0.4:
                op["out_headers"] = [{"msg": hm, "part": hm["parts"][0]["name"]}]
        if op["out"] is not None and rng.random() < 0.45:
            for j in range(rng.choice([1, 1, 2])):
                fm = {"name": f"{name}Fault{j}", "parts": [{"name": "fault", "kind": "element", "ref": f"EF{k}{j}"}]}
                op["faults"].append({"name": f"F{k}{j}", "msg": fm})
        if style != "rpc" and len(op["in"]["parts"]) > 1 and rng.random() < 0.5:
            r = rng.random()
            if r < 0.4:
                op["in_sel"] = [op["in"]["parts"][-1]["name"]]
            elif r < 0.6:
                # several tokens, not in message order
                op["in_sel"] = [p["name"] for p in reversed(op["in"]["parts"][1:])] if len(op["in"]["parts"]) > 2 else [op["in"]["parts"][0]["name"]]
            else:
                # header and body parts of the same message
                split_message(rng, op, "in")
        if style != "rpc" and op["out"] is not None and len(op["out"]["parts"]) > 1 and rng.random() < 0.35:
            if rng.random() < 0.5:
                op["out_sel"] = [op["out"]["parts"][0]["name"]]
            else:
                split_message(rng, op, "out")
        spec["ops"].append(op)
    return spec


# ----------------------------------------------------------------------------
# Definitions <-> record
# ----------------------------------------------------------------------------
def parse_definitions(text: str, location="file:///svc.wsdl"):
    from xsdata.codegen.parsers.definitions import DefinitionsParser
    from xsdata.models.wsdl import Definitions

    parser = DefinitionsParser(target_namespace=None, location=location)
    return parser.from_bytes(text.encode(), Definitions)


def _ns(m):
    return [[k, v] for k, v in m.items()]


def _exts(el):
    from xsdata.formats.dataclass.models.generics import AnyElement

    return [{"qname": e.qname, "attrs": [[k, v] for k, v in e.attributes.items()]} for e in el.extended if isinstance(e, AnyElement)]


def defs_to_record(d) -> dict:
    def ptm(m):
        return None if m is None else {"message": m.message, "ns_map": _ns(m.ns_map), "location": m.location}

    def bm(m):
        return None if m is None else {"ext": _exts(m), "ns_map": _ns(m.ns_map), "location": m.location}

    return {
        "target_namespace": d.target_namespace,
        "messages": [
            {
                "name": m.name,
                "ns_map": _ns(m.ns_map),
                "parts": [{"name": p.name, "type": p.type, "element": p.element, "ns_map": _ns(p.ns_map)} for p in m.parts],
            }
            for m in d.messages
        ],
        "port_types": [
            {
                "name": pt.name,
                "operations": [{"name": o.name, "input": ptm(o.input), "output": ptm(o.output), "faults": [ptm(f) for f in o.faults]} for o in pt.operations],
            }
            for pt in d.port_types
        ],
        "bindings": [
            {
                "name": b.name,
                "type": b.type,
                "ext": _exts(b),
                "operations": [
                    {"name": o.name, "ext": _exts(o), "input": bm(o.input), "output": bm(o.output), "ns_map": _ns(o.ns_map), "location": o.location}
                    for o in b.operations
                ],
            }
            for b in d.bindings
        ],
        "services": [{"ports": [{"name": p.name, "binding": p.binding, "ext": _exts(p)} for p in s.ports]} for s in d.services],
    }


def record_to_defs(r):
    from xsdata.formats.dataclass.models.generics import AnyElement
    from xsdata.models import wsdl as W

    def ns(x):
        return {k: v for k, v in x}

    def exts(xs):
        return [AnyElement(qname=e["qname"], attributes={k: v for k, v in e["attrs"]}) for e in xs]

    def with_ns(obj, m):
        obj.ns_map = ns(m)
        return obj

    def ptm(m):
        if m is None:
            return None
        return with_ns(W.PortTypeMessage(name=None, message=m["message"], location=m["location"]), m["ns_map"])

    def bm(m):
        if m is None:
            return None
        return with_ns(W.BindingMessage(name=None, extended=exts(m["ext"]), location=m["location"]), m["ns_map"])

    d = W.Definitions(name="Svc", target_namespace=r["target_namespace"])
    for m in r["messages"]:
        parts = [with_ns(W.Part(name=p["name"], type=p["type"], element=p["element"]), p["ns_map"]) for p in m["parts"]]
        d.messages.append(with_ns(W.Message(name=m["name"], parts=parts), m["ns_map"]))
    for pt in r["port_types"]:
        ops = [W.PortTypeOperation(name=o["name"], input=ptm(o["input"]), output=ptm(o["output"]), faults=[ptm(f) for f in o["faults"]]) for o in pt["operations"]]
        d.port_types.append(W.PortType(name=pt["name"], operations=ops))
    for b in r["bindings"]:
        ops = [
            with_ns(W.BindingOperation(name=o["name"], extended=exts(o["ext"]), input=bm(o["input"]), output=bm(o["output"]), location=o["location"]), o["ns_map"])
            for o in b["operations"]
        ]
        d.bindings.append(W.Binding(name=b["name"], type=b["type"], extended=exts(b["ext"]), operations=ops))
    for s in r["services"]:
        d.services.append(W.Service(name="Svc", ports=[W.ServicePort(name=p["name"], binding=p["binding"], extended=exts(p["ext"])) for p in s["ports"]]))
    return d


# ----------------------------------------------------------------------------
# the real mapper, canonical output
# ----------------------------------------------------------------------------
def canon_attr(a, names):
    t = a.types[0]
    return {
        "name": a.name,
        "tag": a.tag,
        "namespace": a.namespace,
        "default": a.default,
        "ntypes": len(a.types),
        "type": t.qname,
        "forward": bool(t.forward),
        "native": bool(t.native),
        "ref": names.get(t.reference, "?") if t.reference else None,
        "min": a.restrictions.min_occurs,
        "max": a.restrictions.max_occurs,
    }


def canon_class(c, names):
    return {
        "qname": c.qname,
        "meta_name": c.meta_name,
        "tag": c.tag,
        "status": int(c.status),
        "namespace": c.namespace,
        "location": c.location,
        "ns_map": sorted(([k, v] for k, v in c.ns_map.items()), key=lambda kv: (kv[0] is not None, kv[0] or "")),
        "attrs": [canon_attr(a, names) for a in c.attrs],
        "inner": [canon_class(i, names) for i in c.inner],
    }


def real_map(record):
    from xsdata.codegen.mappers.definitions import DefinitionsMapper

    d = record_to_defs(record)
    classes = DefinitionsMapper.map(d)
    names = {id(c): c.qname for c in classes}
    out = [canon_class(c, names) for c in classes]
    # shared state: mapping the same Definitions object again must give the same classes
    # (the envelope classes share `ns_map` dicts with the WSDL elements)
    again = DefinitionsMapper.map(d)
    names2 = {id(c): c.qname for c in again}
    if [canon_class(c, names2) for c in again] != out:
        raise StatefulMapping("second DefinitionsMapper.map on the same Definitions differs")
    return out


class StatefulMapping(Exception):
    pass
