/-
C15 — concrete data for the `example`s and counterexample theorems of `Props/C15.lean`:
a one-class universe as `XmlContext.build` exports it, and faulty documents.

```python
@dataclass
class Root:
    x: int = field(metadata={"type": "Element"})
    a: Optional[str] = field(default=None, metadata={"type": "Attribute"})
```
-/
import XsdataModel.Bind.Parse

namespace Proofs.C15.Witness
open Py Xs.Bind

/-- an environment whose `is_ncname` rejects the empty string (as the real one does) -/
def env : BEnv := ⟨Env.ascii, fun s => !s.isEmpty && s.all (fun c => c.isAlphanum || c = '_'), fun s => !s.isEmpty⟩

/-- an environment that violates the hypothesis of `no_leak_parse` -/
def envBad : BEnv := ⟨Env.ascii, fun _ => true, fun _ => true⟩

def varX : XmlVar :=
  { index := 1, name := ['x'], localName := ['x'], qname := ['x'], wrapperQName := none,
    types := [.prim .int], clazz := none, init := true, mixed := false, tokens := false, format := none,
    anyType := false, processContents := "strict".toList, required := true, nillable := false,
    sequence := none, listElement := false, default := .none, namespaces := [], kind := .element,
    isClazzUnion := false, elements := [], wildcards := [] }

def varA : XmlVar :=
  { varX with index := 2, name := ['a'], localName := ['a'], qname := ['a'], types := [.prim .str],
              required := false, kind := .attribute }

def metaRoot : XmlMeta :=
  { clazz := "Root".toList, qname := "Root".toList, targetQName := some "Root".toList, nillable := false,
    text := none, choices := [], elements := [(['x'], [varX])], wildcards := [],
    attributes := [(['a'], varA)], anyAttributes := [], wrappers := [] }

def ctx : Ctx :=
  { classes := [{ id := "Root".toList, metas := [(none, metaRoot)], mro := ["Root".toList], bases := [],
                  fields := [⟨['x'], true, none⟩, ⟨['a'], true, some .none⟩] }],
    xsiIndex := [("Root".toList, ["Root".toList])],
    datatypes := [] }

def el (q : String) (attrs : List (QN × Str)) (text : Option String) (kids : List Tree) : Tree :=
  .node q.toList attrs [] (text.map String.toList) kids none

/-- `<Root a="v"><x>12</x></Root>` -/
def docValid : Tree := el "Root" [(['a'], ['v'])] none [el "x" [] (some "12") []]
/-- `<Root/>` : the required element is missing -/
def docMissing : Tree := el "Root" [] none []
/-- `<Root><x>12</x><y/></Root>` : an element the class does not know -/
def docUnknown : Tree := el "Root" [] none [el "x" [] (some "12") [], el "y" [] none []]
/-- `<Root><x>12<z/></x></Root>` : a child below a primitive field -/
def docNested : Tree := el "Root" [] none [el "x" [] (some "12") [el "z" [] none []]]
/-- `<Root xsi:type="p:T"/>` with `p` undeclared -/
def docBadXsi : Tree := el "Root" [(xsiType, "p:T".toList)] none []
/-- `<Root><x>12x</x></Root>` : a mistyped value -/
def docMistyped : Tree := el "Root" [] none [el "x" [] (some "12x") []]
/-- `<Root xsi:type=":"/>` -/
def docColon : Tree := el "Root" [(xsiType, [':'])] none []

def strict : ParserConfig := { failOnConverterWarnings := true }

end Proofs.C15.Witness
