"""C17 — WSDL generation yields usable SOAP bindings.

Model (lean/XsdataModel/Wsdl): DefinitionsMapper over a record model of the parsed
Definitions, detect_lazy_namespace, Config.from_service, Client.prepare_headers /
prepare_payload / send as the sequence of calls on serializer, transport and parser,
DefaultTransport.handle_response.  Correspondence: the real mapper on records of
WSDL documents parsed by the real DefinitionsParser (plus mutated records), the real
handler on a real ClassContainer, the real Client with recording stand-ins.
Oracles: the property read off the WSDL *spec* (not the record, not the model): the
real pipeline end to end, a request through the real Client with a recording
transport, the posted payload read back with lxml, canned responses (incl. a SOAP
fault) parsed into the output class."""
from __future__ import annotations

import copy
import dataclasses
import enum
import json
import os
import random
import typing

import logging

import wsdlgen as G
from framework import Corr, Oracle, err, ok

logging.getLogger("xsdata").setLevel(logging.ERROR)

PROP_ID = "C17"
DESIGN_REF = "6/C17"
LEVEL_TEXT = "partial"
LEVEL_NOTE = (
    "proof for the modelled cores (DefinitionsMapper, the late namespace decision, Config.from_service, "
    "Client.prepare_headers/prepare_payload/send, DefaultTransport.handle_response) and, tied to C01's writer and "
    "parser model, for the request document: the envelope class family (Envelope/Header/Body/Fault/detail) is "
    "modelled down to the XmlMeta the binding layer sees (rendering + XmlMetaBuilder, compared with the real "
    "generated classes) and request_document_shape proves that a request written and read back has exactly the "
    "prescribed Header/Body children. Payload classes (the schema half: SchemaMapper and class processing other "
    "than the late namespace decision) enter as arbitrary classes of C01's fragment F1; the code is as repaired by "
    "repo-patches/c17c-01, c17c-02 (pending); one finding (rpc response wrapper name) stays listed"
)
TRUSTED = [
    "DefinitionsParser/XmlParser populate Definitions (ns_map, location, QName-valued wildcard attributes) as recorded by harness/wsdlgen.defs_to_record; the model starts from that record",
    "harness/standin_render.StandinGenerator stands in for service.jinja2/class.jinja2 (jinja2 is not installed)",
    "requests.Response.raise_for_status raises exactly for 400 <= status < 600 (requests is not installed; a fake Response with that behaviour is used)",
    "str.title()/str.split() are modelled for ASCII (extension element names, parts= lists)",
]
ASSUMPTIONS = [
    "supported fragment = WSDL 1.1, one service/port per SOAP 1.1 binding, request-response operations, literal use, parts given by element or by a named type",
    "SOAPAction is sent iff the soapAction attribute is a non-empty string (as coded; SOAP 1.1 6.1.1 would ask for an empty-valued header when it is empty)",
    "a document-style part declared by type has no wire name prescribed by WSDL 1.1 (the body *is* of that type); the property's reading 'typed parts -> part name' is used, namespace unchecked",
    "the rpc response wrapper is named <operation>Response (WS-I BP 1.1 R2729; WSDL 1.1 3.5 read literally says <operation>); either is accepted by the full-strength statement",
    "names are non-empty strings; split_qname('') (IndexError in the code) is outside the model",
    "Wsdl/Binding.lean names vars and classes by their XML names (python identifiers are C07's subject); the real export is renamed accordingly by harness/wsdlbind.py",
]
RULE = "hand-picked (upstream fixtures, every branch), bounded-exhaustive decision tables, seeded random specs parsed by the real DefinitionsParser, mutated (dangling/malformed) records; non-trivial = reaches a non-default branch (see distribution)"

SOAP = G.SOAP_HTTP
ENV = G.ENV_NS
FIXTURES = "/repo/tests/fixtures"


def n_cases(tier, quick, thorough):
    return quick if tier == "quick" else thorough


# ======================================================================
# wsdl.map
# ======================================================================
def impl_map(a):
    from xsdata.codegen.exceptions import CodegenError

    try:
        return ok(G.real_map(a["defs"]))
    except CodegenError:
        return err("CodegenError")
    except (RuntimeError, AttributeError, ValueError) as e:
        return err(type(e).__name__)
    except Exception as e:  # noqa: BLE001
        return err("LEAK:" + type(e).__name__)


def record_of(spec):
    files = G.render(spec)
    return G.defs_to_record(G.parse_definitions(files["svc.wsdl"]))


def fixture_records():
    out = []
    for rel in ("hello/hello.wsdl", "calculator/services.wsdl"):
        p = os.path.join(FIXTURES, rel)
        if os.path.exists(p):
            try:
                out.append(G.defs_to_record(G.parse_definitions(open(p, encoding="utf-8").read(), location="file://" + p)))
            except Exception:  # noqa: BLE001
                pass
    return out


def hand_specs():
    """one spec per branch of the mapper"""
    base = {
        "tns": "urn:t", "xns": "urn:types", "schema": "inline", "root_prefix": None, "bstyle": "document",
        "transport": SOAP, "location": "http://localhost/svc", "pt": "Pt", "binding": "Bind", "ops": [],
    }

    def op(name, **kw):
        o = {
            "name": name, "ostyle": None, "action": f"urn:t/{name}", "body_ns": None,
            "in": {"name": f"{name}In", "parts": [{"name": "parameters", "kind": "element", "ref": f"E{name}"}]},
            "out": {"name": f"{name}Out", "parts": [{"name": "parameters", "kind": "element", "ref": f"E{name}R"}]},
            "in_sel": None, "in_headers": [], "out_headers": [], "faults": [],
        }
        o.update(kw)
        return o

    specs = []
    s = copy.deepcopy(base)
    s["ops"] = [op("add"), op("sub", action=""), op("mul", action=None), op("div", ostyle="document")]
    specs.append(s)
    s = copy.deepcopy(base)
    s["bstyle"] = "rpc"
    s["ops"] = [
        op("getA", body_ns="urn:t", **{"in": {"name": "getA", "parts": [{"name": "arg0", "kind": "type", "ref": "xsd:string"}, {"name": "arg1", "kind": "type", "ref": "TRec"}]},
                                       "out": {"name": "getAResponse", "parts": [{"name": "return", "kind": "type", "ref": "xsd:int"}]}}),
        op("getB", body_ns="urn:body", ostyle="document"),
    ]
    specs.append(s)
    s = copy.deepcopy(base)
    s["bstyle"] = None
    hm = {"name": "Hdr", "parts": [{"name": "h1", "kind": "element", "ref": "EH1"}, {"name": "h2", "kind": "element", "ref": "EH2"}]}
    fm1 = {"name": "F1", "parts": [{"name": "fault", "kind": "element", "ref": "EF1"}]}
    fm2 = {"name": "F2", "parts": [{"name": "fault", "kind": "element", "ref": "EF2"}]}
    s["ops"] = [
        op("a", in_headers=[{"msg": hm, "part": "h1"}, {"msg": hm, "part": "h2"}], out_headers=[{"msg": hm, "part": "h2"}], faults=[{"name": "F1", "msg": fm1}, {"name": "F2", "msg": fm2}]),
        op("b", ostyle="rpc", body_ns="urn:t", faults=[{"name": "F1", "msg": fm1}],
           **{"in": {"name": "bIn", "parts": [{"name": "x", "kind": "type", "ref": "Scolor"}, {"name": "y", "kind": "type", "ref": "Rsmall"}]},
              "out": {"name": "bOut", "parts": [{"name": "r", "kind": "type", "ref": "TRec"}]}}),
        op("c", in_sel=["p2"], **{"in": {"name": "cIn", "parts": [{"name": "p1", "kind": "element", "ref": "Ec1"}, {"name": "p2", "kind": "type", "ref": "TRec"}, {"name": "p3", "kind": "none", "ref": None}]}}),
    ]
    specs.append(s)
    s = copy.deepcopy(base)
    s["transport"] = "http://schemas.xmlsoap.org/soap/smtp"
    s["root_prefix"] = "wsdl"
    s["schema"] = "import"
    s["extra_binding_ext"] = [["tns:policy", {"URI": "#p", "id": "x", "kind": "", "ab": "1", "ba": "2"}]]
    s["ops"] = [op("a")]
    specs.append(s)
    s = copy.deepcopy(base)
    s["transport"] = None
    s["location"] = None
    s["ops"] = [op("a", out=None), op("b")]
    specs.append(s)
    # header and body parts of one message, names containing one another, several tokens
    s = copy.deepcopy(base)
    m1 = {"name": "echoIn", "parts": [{"name": "request", "kind": "element", "ref": "Eecho"}, {"name": "requestHeader", "kind": "element", "ref": "Ecred"}]}
    m2 = {"name": "multiIn", "parts": [{"name": "re", "kind": "element", "ref": "Em0"}, {"name": "req", "kind": "element", "ref": "Em1"}, {"name": "request", "kind": "element", "ref": "Em2"},
                                       {"name": "requestHeader", "kind": "element", "ref": "Em3"}, {"name": "Header", "kind": "element", "ref": "Em4"}]}
    m3 = {"name": "multiOut", "parts": [{"name": "st", "kind": "element", "ref": "Eo0"}, {"name": "status", "kind": "element", "ref": "Eo1"}]}
    s["ops"] = [
        op("echo", in_sel=["request"], in_headers=[{"msg": m1, "part": "requestHeader"}], **{"in": m1}),
        op("multi", in_sel=["request", "re"], in_headers=[{"msg": m2, "part": "requestHeader"}, {"msg": m2, "part": "req"}], out_sel=["status"], **{"in": m2, "out": m3}),
    ]
    specs.append(s)
    # several inline schemas: a qualified one first, then schemas that declare no form default (XSD default:
    # unqualified local elements / attributes), then an explicitly unqualified one
    s = copy.deepcopy(base)
    s["schemas"] = [{"ns": "urn:types", "form": "qualified", "attr_form": "qualified", "n_form": "unqualified"},
                    {"ns": "urn:types/b", "form": None, "attr_form": None},
                    {"ns": "urn:third", "form": "unqualified", "attr_form": None, "n_form": "qualified"}]
    s["ref_schema"] = {"Eqa": 0, "EqaR": 1, "Eqb": 1, "EqbR": 2, "EH9": 0, "EF9": 1, "TRec9": 1}
    hm9 = {"name": "Hdr9", "parts": [{"name": "h", "kind": "element", "ref": "EH9"}]}
    fm9 = {"name": "F9", "parts": [{"name": "fault", "kind": "element", "ref": "EF9"}]}
    s["ops"] = [
        op("qa", in_headers=[{"msg": hm9, "part": "h"}], faults=[{"name": "F9", "msg": fm9}]),
        op("qb", ostyle="rpc", body_ns="urn:t",
           **{"in": {"name": "qb", "parts": [{"name": "rec", "kind": "type", "ref": "TRec9"}, {"name": "e", "kind": "element", "ref": "Eqb"}]},
              "out": {"name": "qbResponse", "parts": [{"name": "e", "kind": "element", "ref": "EqbR"}]}}),
    ]
    specs.append(s)
    return specs


def mutate_record(rng, rec):
    """malformed / unusual Definitions: dangling references, missing pieces, duplicates"""
    r = copy.deepcopy(rec)
    k = rng.randrange(16)
    b = r["bindings"][0] if r["bindings"] else None
    pt = r["port_types"][0] if r["port_types"] else None
    try:
        if k == 0 and r["messages"]:
            del r["messages"][rng.randrange(len(r["messages"]))]
        elif k == 1:
            r["services"][0]["ports"][0]["binding"] = rng.choice(["tns:Nope", "Bind", "x:Bind", ":Bind", "Bind:"])
        elif k == 2 and b:
            b["type"] = rng.choice(["tns:Nope", pt["name"], "zz:" + pt["name"]])
        elif k == 3 and pt:
            del pt["operations"][rng.randrange(len(pt["operations"]))]
        elif k == 4 and b:
            o = rng.choice(b["operations"])
            m = o[rng.choice(["input", "output"])]
            if m:
                m["ext"] = [e for e in m["ext"] if not e["qname"].endswith("body")]
        elif k == 5 and pt:
            rng.choice(pt["operations"])[rng.choice(["input", "output"])] = None
        elif k == 6 and b:
            o = copy.deepcopy(rng.choice(b["operations"]))
            o["ext"] = [{"qname": "{x}operation", "attrs": [["soapAction", "dup"], ["style", rng.choice(["rpc", "document"])]]}]
            b["operations"].insert(rng.randrange(len(b["operations"]) + 1), o)
        elif k == 7 and b:
            rng.choice(b["operations"])[rng.choice(["input", "output"])] = None
        elif k == 8:
            r["target_namespace"] = rng.choice([None, ""])
        elif k == 9 and r["messages"]:
            m = rng.choice(r["messages"])
            if m["parts"]:
                p = rng.choice(m["parts"])
                c = rng.randrange(6)
                if c == 0:
                    p["element"], p["type"] = None, None
                elif c == 1:
                    p["element"], p["type"] = "", p["element"] or p["type"]
                elif c == 2:
                    p["element"], p["type"] = p["element"] or p["type"], p["type"] or "xsd:string"
                elif c == 3:
                    p["ns_map"] = [[None, "urn:default"]] + [x for x in p["ns_map"] if x[0] not in (None, "ty")]
                    ref = (p["element"] or p["type"]).split(":")[-1]
                    if p["element"]:
                        p["element"] = ref
                    else:
                        p["type"] = ref
                elif c == 4:
                    p["ns_map"] = [[k, v] for k, v in {**{k: v for k, v in p["ns_map"]}, "extra": "urn:extra", "ty": "urn:shadow"}.items()]
                else:
                    p["element"] = ":" + (p["element"] or "x")
        elif k == 10 and b:
            o = rng.choice(b["operations"])
            m = o["input"] or o["output"]
            if m:
                for e in m["ext"]:
                    if e["qname"].endswith("body"):
                        e["attrs"] = [x for x in e["attrs"] if x[0] != "parts"] + [["parts", rng.choice(["", "  ", "nope", "p0i0  p0i1", "\tparameters\n x"])]]
        elif k == 11 and b:
            o = rng.choice(b["operations"])
            m = o["input"] or o["output"]
            if m and r["messages"]:
                name = rng.choice(r["messages"])["name"]
                m["ext"].insert(rng.randrange(len(m["ext"]) + 1), {"qname": "{http://schemas.xmlsoap.org/wsdl/soap/}" + rng.choice(["header", "HEADER", "headerFault", "body"]),
                                                                  "attrs": [["message", rng.choice(["{urn:t}" + name, name, "{urn:t}Nope"])]] + rng.choice([[], [["part", "h1"]], [["part", ""]]])})
        elif k == 12:
            p = copy.deepcopy(r["services"][0]["ports"][0])
            p["ext"] = [{"qname": "{s}address", "attrs": [["location", "http://second/"], ["{urn:q}transport", rng.choice([SOAP, "x"])]]}]
            r["services"].append({"ports": [p]})
        elif k == 13 and pt:
            o = rng.choice(pt["operations"])
            o["faults"].append({"message": rng.choice(["tns:Nope", r["messages"][0]["name"] if r["messages"] else "x"]), "ns_map": [], "location": "l"})
        elif k == 14 and b:
            b["ext"].append({"qname": "{p}x", "attrs": [[rng.choice(["style", "{q}style", "verb", "stylE", "abcde"]), rng.choice(["", "rpc", "document", "v"])]]})
        elif k == 15 and pt:
            o = rng.choice(pt["operations"])
            m = o["input"] or o["output"]
            if m:
                m["message"] = rng.choice([m["message"].split(":")[-1], "zz:" + m["message"].split(":")[-1], m["message"] + ":"])
                m["ns_map"] = [[None, "urn:dflt"]] + [x for x in m["ns_map"] if x[0] is not None]
    except (IndexError, KeyError, ValueError, AttributeError, TypeError):
        pass  # the record was already too damaged for this mutation
    return r


def gen_map(rng, tier):
    for r in fixture_records():
        yield {"defs": r}
    for s in hand_specs():
        r = record_of(s)
        yield {"defs": r}
        for _ in range(6):
            yield {"defs": mutate_record(rng, r)}
    for i in range(n_cases(tier, 110, 7000)):
        s = G.gen_spec(rng, oneway=0.1)
        if rng.random() < 0.2:
            s["transport"] = rng.choice([None, "http://other", SOAP + "/"])
        r = record_of(s)
        yield {"defs": r}
        if rng.random() < 0.6:
            yield {"defs": mutate_record(rng, r)}
        if rng.random() < 0.2:
            yield {"defs": mutate_record(rng, mutate_record(rng, r))}


def impl_wf(a):
    """there is no `wf` in the code: the implementation side says whether mapping succeeded"""
    return ok("ok" in impl_map(a))


def compare_wf(model, impl, a):
    # model: wfDefinitions d; the theorem generation_succeeds says wf -> success
    return (not model.get("ok")) or impl.get("ok") is True


def classify_map(a, o):
    if "err" in o:
        return "err:" + o["err"]
    cl = o["ok"]
    tags = []
    d = a["defs"]
    nops = sum(1 for c in cl if c["tag"] == "BindingOperation")
    if nops == 0:
        return "no-operations"
    if any(c["tag"] == "Element" for c in cl):
        tags.append("rpc")
    if any(c["tag"] == "BindingMessage" and not any(x["tag"] == "Element" for x in cl) for c in cl):
        tags.append("doc")
    if any(i["qname"].endswith("Header") for c in cl for i in c["inner"]):
        tags.append("hdr")
    if any(j["inner"] for c in cl for i in c["inner"] for j in i["inner"]):
        tags.append("detail")
    if any(at["namespace"] == "##lazy" for c in cl for i in [c] + c["inner"] for at in i["attrs"]):
        tags.append("lazy")
    if any(c["meta_name"] and c["namespace"] is None for c in cl):
        tags.append("nons")
    return "+".join(tags)


def nontrivial_map(a, o):
    return True


# ======================================================================
# wsdl.envmeta — the envelope class family as binding metadata (C17 <-> C01)
# ======================================================================
_FAMILY_CACHE: dict = {}


def families_of(spec):
    """run the real pipeline once per spec; per (operation, direction): the raw mapper class of the
    envelope, the TypeInfo records, and the real exported XmlMeta family of the generated classes"""
    import codegen_run as CG
    import wsdlbind as WB
    from xsdata.codegen.mappers.definitions import DefinitionsMapper

    key = json.dumps(spec, sort_keys=True)
    if key in _FAMILY_CACHE:
        return _FAMILY_CACHE[key]
    out = {}
    files = G.render(spec)
    g = CG.run_pipeline(files, entry=["svc.wsdl"])
    try:
        if g.error is not None:
            out["error"] = f"{type(g.error).__name__}: {g.error}"
        else:
            d = G.parse_definitions(files["svc.wsdl"])
            classes = DefinitionsMapper.map(d)
            names = {id(c): c.qname for c in classes}
            raw = {c.qname: G.canon_class(c, names) for c in classes if c.meta_name}
            services = {}
            for mod in g.modules.values():
                for k, v in vars(mod).items():
                    if isinstance(v, type) and hasattr(v, "input") and not dataclasses.is_dataclass(v):
                        services[k.lower()] = v
            for i, op in enumerate(spec["ops"]):
                svc = services.get((spec["pt"] + op["name"]).lower())
                for direction, sfx in (("in", "input"), ("out", "output")):
                    if op.get(direction) is None or svc is None:
                        continue
                    env_id = f"{{{spec['tns']}}}{spec['pt']}_{op['name']}_{sfx}"
                    env_json = raw.get(env_id)
                    env_cls = getattr(svc, sfx, None)
                    if env_json is None or env_cls is None:
                        out[(i, direction)] = {"error": "no envelope"}
                        continue
                    pns = [None, ENV]
                    for x in [sc["ns"] for sc in G.schemas_of(spec)] + [spec["tns"], op.get("body_ns")]:
                        if x and x not in pns:
                            pns.append(x)
                    try:
                        family = WB.Family(env_cls, env_id, pns)
                        fam = family.export()
                        types = WB.type_infos(g, env_json, spec)
                        rec = {"env": env_json, "types": types, "real": fam, "pns": pns}
                        out[(i, direction)] = rec
                    except Exception as e:  # noqa: BLE001
                        out[(i, direction)] = {"error": f"{type(e).__name__}: {e}"}
                        continue
                    # a fully populated instance, its canonical value and the names of the document the real
                    # serializer writes for it
                    try:
                        from xsdata.formats.dataclass.serializers import XmlSerializer

                        inst = fill(env_cls, Counter())
                        rec["payload"] = family.export_payload()
                        rec["value"] = family.to_val(inst)
                        rec["shape"] = WB.xml_names(XmlSerializer().render(inst))
                    except Exception as e:  # noqa: BLE001
                        rec["value_error"] = f"{type(e).__name__}: {e}"
    finally:
        g.close()
    if len(_FAMILY_CACHE) > 400:
        _FAMILY_CACHE.clear()
    _FAMILY_CACHE[key] = out
    return out


def typify(rng, spec):
    """turn some body parts given by element into parts given by a complex or builtin type
    (late namespace decision, native types) — not the parts bound to headers or faults"""
    for op in spec["ops"]:
        bound = {h["part"] for h in op.get("in_headers", []) + op.get("out_headers", []) if h["msg"]["name"] in (op["in"]["name"], (op.get("out") or {}).get("name"))}
        for m in (op["in"], op.get("out")):
            if m is None:
                continue
            for p in m["parts"]:
                if p["kind"] == "element" and p["name"] not in bound and rng.random() < 0.5:
                    p["kind"] = "type"
                    p["ref"] = rng.choice(["T" + p["ref"][1:], "T" + p["ref"][1:], "xsd:string", "xsd:int"])
    return spec


def family_specs(rng, tier):
    specs = [s for s in hand_specs() if in_fragment(s)]
    for _ in range(n_cases(tier, 45, 500)):
        s = G.gen_spec(rng, nops=rng.choice([1, 2, 3]), simple_ok=rng.random() < 0.3)
        if rng.random() < 0.3:
            s = typify(rng, s)
        specs.append(s)
    return specs


def gen_envmeta(rng, tier):
    specs = family_specs(rng, tier)
    for spec in specs:
        fams = families_of(spec)
        for k, v in fams.items():
            if k == "error" or "error" in v:
                continue
            yield {"spec": spec, "op": k[0], "dir": k[1], "env": v["env"], "types": v["types"], "pns": v["pns"]}


def impl_envmeta(a):
    fams = families_of(a["spec"])
    v = fams.get((a["op"], a["dir"]))
    if v is None or "error" in v:
        return err("HARNESS:" + str(fams.get("error") or (v or {}).get("error")))
    if any(t["kind"] != "complex" for t in a["types"]):
        # simple types / enumerations / missing types: copy_attribute_properties etc. are not in this model
        return err("unsupported")
    return ok(v["real"])


def gen_reqshape(rng, tier):
    import wsdlbind as WB

    specs = family_specs(rng, tier)
    dts = WB.datatypes()
    for spec in specs:
        fams = families_of(spec)
        for k, v in fams.items():
            if k == "error" or "error" in v or "value" not in v:
                continue
            yield {"spec": spec, "op": k[0], "dir": k[1], "env": v["env"], "types": v["types"], "pns": v["pns"],
                   "payload": v["payload"], "datatypes": dts, "value": v["value"]}


def impl_reqshape(a):
    fams = families_of(a["spec"])
    v = fams.get((a["op"], a["dir"]))
    if v is None or "shape" not in v:
        return err("HARNESS:" + str((v or {}).get("value_error") or (v or {}).get("error")))
    if any(t["kind"] != "complex" for t in a["types"]):
        return err("unsupported")
    return ok({"shape": v["shape"]})


def canon_reqshape(o):
    # the hypotheses' truth value and the parse-back flag are reported in the distribution, the names are compared
    if isinstance(o, dict) and "ok" in o:
        return {"ok": {"shape": o["ok"]["shape"]}}
    return o


def compare_reqshape(m, i, a):
    if "ok" in i and "ok" in m:
        # where the theorem's hypotheses hold the model must also parse its own document back
        if m["ok"]["f1"] and not m["ok"]["parsed_back"]:
            return False
        return m["ok"]["shape"] == i["ok"]["shape"]
    return m == i


def classify_envmeta(a, o):
    if "err" in o:
        return "err:" + o["err"]
    spec, op = a["spec"], a["spec"]["ops"][a["op"]]
    tags = [G.effective_style(spec, op), a["dir"]]
    if any(c["id"].endswith("/Header") for c in o["ok"]):
        tags.append("hdr")
    if any(c["id"].endswith("/detail") for c in o["ok"]):
        tags.append("detail")
    if any(at["namespace"] == "##lazy" for i in a["env"]["inner"] for at in i["attrs"]):
        tags.append("typed")
    return "+".join(tags)


# ======================================================================
# wsdl.config
# ======================================================================
KEYS = ["style", "transport", "location", "soapAction", "verb", "{urn:q}style", "{urn:q}required", "abcde", "edcba", "URI", "x"]
VALS = ["", "rpc", "document", SOAP, "http://h/", "urn:a", "v"]


def rand_exts(rng, n):
    out = []
    for _ in range(n):
        attrs = {}
        for _ in range(rng.randint(0, 3)):
            attrs[rng.choice(KEYS)] = rng.choice(VALS)
        out.append({"qname": "{urn:e}" + rng.choice(["binding", "operation", "address", "policy"]), "attrs": [[k, v] for k, v in attrs.items()]})
    return out


def gen_config(rng, tier):
    yield {"binding": [{"qname": "{s}binding", "attrs": [["transport", SOAP], ["style", "rpc"]]}], "port": [{"qname": "{s}address", "attrs": [["location", "http://x"]]}],
           "operation": [{"qname": "{s}operation", "attrs": [["soapAction", ""], ["style", "document"]]}]}
    yield {"binding": [], "port": [], "operation": []}
    # precedence table: every subset of {binding, port, operation} defining style
    for m in range(8):
        for empty in (False, True):
            yield {
                "binding": [{"qname": "{s}b", "attrs": [["style", "B"]]}] if m & 1 else [],
                "port": [{"qname": "{s}p", "attrs": [["style", "" if empty else "P"]]}] if m & 2 else [],
                "operation": [{"qname": "{s}o", "attrs": [["style", "" if empty else "O"]]}] if m & 4 else [],
            }
    for _ in range(n_cases(tier, 300, 30000)):
        yield {"binding": rand_exts(rng, rng.randint(0, 3)), "port": rand_exts(rng, rng.randint(0, 2)), "operation": rand_exts(rng, rng.randint(0, 2))}


def _exts(xs):
    from xsdata.formats.dataclass.models.generics import AnyElement

    return [AnyElement(qname=e["qname"], attributes=dict(map(tuple, e["attrs"]))) for e in xs]


def impl_config(a):
    import itertools

    from xsdata.codegen.mappers.definitions import DefinitionsMapper as M
    from xsdata.models.enums import DataType

    config = M.attributes(itertools.chain(_exts(a["binding"]), _exts(a["port"])))
    cfg = config.copy()
    cfg.update(M.attributes(iter(_exts(a["operation"]))))
    # the comprehension at the top of map_binding_operation
    attrs = [M.build_attr(key, str(DataType.STRING), native=True, default=cfg[key]) for key in sorted(cfg.keys(), key=len) if cfg[key]]
    # cross-check that comprehension against the real method on a one-operation definition
    return ok({
        "config": [[k, v] for k, v in cfg.items()],
        "attrs": [G.canon_attr(x, {}) for x in attrs],
        "style": cfg.get("style", "document"),
        "namespace": M.operation_namespace(cfg),
    })


# ======================================================================
# wsdl.parts
# ======================================================================
NSMAPS = [
    [["ty", "urn:types"], ["xsd", G.XSD_NS]],
    [[None, "urn:default"], ["xsd", G.XSD_NS]],
    [["xs", G.XSD_NS], ["ty", ""]],
    [],
]


def _dedupe(pairs):
    return [[k, v] for k, v in {k: v for k, v in pairs}.items()]


def gen_parts(rng, tier):
    refs = [None, "", "ty:E", "E", "xsd:string", "xs:int", "zz:T", ":T", "T:", "ty:a:b", ":"]
    for e in refs:
        for t in refs:
            for nm in NSMAPS:
                if rng.random() < (0.5 if tier == "quick" else 1.0):
                    yield {"parts": [{"name": "p", "type": t, "element": e, "ns_map": nm}], "ns_map": [["a", "b"]]}
    for _ in range(n_cases(tier, 150, 30000)):
        parts = [{"name": f"p{i}", "type": rng.choice(refs), "element": rng.choice(refs), "ns_map": _dedupe(rng.choice(NSMAPS) + rng.choice([[], [["k", "v"]], [["ty", "urn:over"]]]))} for i in range(rng.randint(0, 4))]
        yield {"parts": parts, "ns_map": rng.choice(NSMAPS)}


def impl_parts(a):
    from xsdata.codegen.mappers.definitions import DefinitionsMapper as M
    from xsdata.models import wsdl as W

    parts = []
    for p in a["parts"]:
        x = W.Part(name=p["name"], type=p["type"], element=p["element"])
        x.ns_map = {k: v for k, v in p["ns_map"]}
        parts.append(x)
    m = {k: v for k, v in a["ns_map"]}
    try:
        attrs = list(M.build_parts_attributes(parts, m))
    except ValueError:
        return err("ValueError")
    except Exception as e:  # noqa: BLE001
        return err("LEAK:" + type(e).__name__)
    return ok({"attrs": [G.canon_attr(x, {}) for x in attrs], "ns_map": sorted(([k, v] for k, v in m.items()), key=lambda kv: (kv[0] is not None, kv[0] or ""))})


# ======================================================================
# wsdl.lazy
# ======================================================================
KINDS = ["absent", "enumeration", "simple", "abstract_element", "complex"]


def gen_lazy(rng, tier):
    nss = [None, "", "urn:s", "##lazy"]
    for k in KINDS:
        for an in [None, "", "urn:a", "##lazy", "##Lazy", "##lazy "]:
            for sn in nss:
                for tn in nss:
                    yield {"kind": k, "attr_ns": an, "source_ns": sn, "target_ns": tn}


def impl_lazy(a):
    from xsdata.codegen.container import ClassContainer
    from xsdata.codegen.handlers import ProcessAttributeTypes
    from xsdata.codegen.models import Attr, AttrType, Class, Restrictions
    from xsdata.models.config import GeneratorConfig
    from xsdata.models.enums import DataType, Tag

    q = "{urn:x}Src"
    container = ClassContainer(GeneratorConfig())
    target = Class(qname="{urn:t}Body", tag=Tag.BINDING_MESSAGE, location="l", namespace=a["target_ns"])
    attr = Attr(tag=Tag.ELEMENT, name="p", namespace=a["attr_ns"], types=[AttrType(qname=q)], restrictions=Restrictions())
    target.attrs.append(attr)
    container.add(target)
    kind = a["kind"]

    def mk(tag, name, t=DataType.STRING):
        return Attr(tag=tag, name=name, types=[AttrType(qname=str(t), native=True)], restrictions=Restrictions())

    if kind != "absent":
        if kind == "complex":
            src = Class(qname=q, tag=Tag.COMPLEX_TYPE, location="l", namespace=a["source_ns"], attrs=[mk(Tag.ELEMENT, "a")])
        elif kind == "simple":
            src = Class(qname=q, tag=Tag.SIMPLE_TYPE, location="l", namespace=a["source_ns"], attrs=[mk(Tag.RESTRICTION, "value", DataType.INT)])
        elif kind == "enumeration":
            src = Class(qname=q, tag=Tag.SIMPLE_TYPE, location="l", namespace=a["source_ns"], attrs=[mk(Tag.ENUMERATION, "red"), mk(Tag.ENUMERATION, "green")])
        else:
            src = Class(qname=q, tag=Tag.ELEMENT, location="l", namespace=a["source_ns"], abstract=True, attrs=[mk(Tag.ELEMENT, "a")])
        container.add(src)
    ProcessAttributeTypes(container).process_dependency_type(target, attr, attr.types[0])
    removed = not any(x is attr for x in target.attrs)
    return ok({"removed": True} if removed else {"removed": False, "namespace": attr.namespace})


# ======================================================================
# client.*
# ======================================================================
def gen_client_config(rng, tier):
    fields = ["style", "location", "transport", "soap_action", "input", "output", "encoding", "soapAction", "timeout"]
    vals = [None, "", "document", "rpc", SOAP, "http://h", "In", "Out", "utf-8"]
    yield {"obj": [["style", "rpc"], ["location", "http://h"], ["transport", SOAP], ["input", "In"], ["output", "Out"]], "kwargs": []}
    yield {"obj": [["style", "rpc"], ["location", "http://h"], ["transport", SOAP], ["soap_action", "a"], ["input", "In"], ["output", "Out"]], "kwargs": [["location", "http://other"], ["soap_action", None], ["encoding", "utf-8"]]}
    for _ in range(n_cases(tier, 200, 20000)):
        o = {rng.choice(fields): rng.choice(vals) for _ in range(rng.randint(0, 7))}
        k = {rng.choice(fields): rng.choice(vals) for _ in range(rng.randint(0, 4))}
        yield {"obj": [[a, b] for a, b in o.items()], "kwargs": [[a, b] for a, b in k.items()]}


def impl_client_config(a):
    from xsdata.formats.dataclass.client import Config

    obj = type("Svc", (), {k: v for k, v in a["obj"]})
    try:
        cfg = Config.from_service(obj, **{k: v for k, v in a["kwargs"]})
    except Exception as e:  # noqa: BLE001
        return err("LEAK:" + type(e).__name__)
    return ok([[f.name, getattr(cfg, f.name)] for f in dataclasses.fields(cfg)])


HDR_KEYS = ["content-type", "Content-Type", "SOAPAction", "soapaction", "Authorization", "X-A", "Accept"]


def rand_headers(rng):
    h = {}
    for _ in range(rng.randint(0, 4)):
        h[rng.choice(HDR_KEYS)] = rng.choice(["", "text/xml", "application/soap+xml", "v1", "urn:x"])
    return [[k, v] for k, v in h.items()]


def rand_config(rng):
    return {
        "style": rng.choice(["document", "rpc", None]),
        "location": rng.choice(["http://h/svc", None, ""]),
        "transport": rng.choice([SOAP] * 10 + [None, "", "http://other", SOAP + "/", SOAP.upper()]),
        "soap_action": rng.choice([None, "", "urn:a", "http://t/Add"]),
        "input": "In",
        "output": rng.choice(["Out", None]),
        "encoding": rng.choice([None, None, "", "utf-8", "latin-1"]),
    }


def gen_client_headers(rng, tier):
    for t in [SOAP, None, "", "http://other"]:
        for act in [None, "", "urn:a"]:
            for h in [[], [["content-type", "x"]], [["SOAPAction", "user"]], [["X-A", "1"], ["SOAPAction", "user"], ["content-type", "y"], ["Content-Type", "z"]]]:
                c = {"style": "document", "location": "l", "transport": t, "soap_action": act, "input": "In", "output": "Out", "encoding": None}
                yield {"config": c, "headers": h}
    for _ in range(n_cases(tier, 200, 20000)):
        yield {"config": rand_config(rng), "headers": rand_headers(rng)}


@dataclasses.dataclass
class In:
    x: str = "1"


@dataclasses.dataclass
class Out:
    y: str = "2"


@dataclasses.dataclass
class Other:
    z: str = "3"


CLS = {"In": In, "Out": Out, "Other": Other, None: None}


def real_config(c):
    from xsdata.formats.dataclass.client import Config

    return Config(style=c["style"], location=c["location"], transport=c["transport"], soap_action=c["soap_action"],
                  input=CLS[c["input"]], output=CLS[c["output"]], encoding=c["encoding"])


def impl_client_headers(a):
    from xsdata.exceptions import ClientValueError
    from xsdata.formats.dataclass.client import Client

    client = Client(real_config(a["config"]), transport=object())
    h = {k: v for k, v in a["headers"]}
    before = dict(h)
    try:
        r = client.prepare_headers(h)
    except ClientValueError:
        return err("ClientValueError")
    except Exception as e:  # noqa: BLE001
        return err("LEAK:" + type(e).__name__)
    if h != before or list(h) != list(before):
        return err("MUTATED-INPUT")
    # shared state: the same client asked again (also with its own previous result) answers the same
    if client.prepare_headers(h) != r or client.prepare_headers(dict(r)) != r:
        return err("STATEFUL")
    return ok([[k, v] for k, v in r.items()])


class Recorder:
    """recording serializer + parser + transport"""

    def __init__(self, response):
        from xsdata.formats.dataclass.context import XmlContext

        self.events = []
        self.context = XmlContext()
        self.response = response

    # serializer
    def render(self, obj):
        self.events.append({"ev": "render", "id": getattr(obj, "x", getattr(obj, "z", "?"))})
        return "R(" + str(getattr(obj, "x", getattr(obj, "z", "?"))) + ")"

    # transport
    def post(self, url, data, headers):
        if isinstance(data, bytes):
            enc = self._enc
            text = data.decode(enc)
        else:
            enc, text = None, data
        self.events.append({"ev": "post", "url": url, "data": text, "encoding": enc, "headers": [[k, v] for k, v in headers.items()]})
        return self.response.encode()

    def get(self, url, params, headers):
        raise AssertionError("GET")

    # parser
    def from_bytes(self, source, clazz=None):
        self.events.append({"ev": "parse", "response": source.decode(), "cls": clazz.__name__ if clazz else None})
        return ("parsed", source)


def gen_client_send(rng, tier):
    reqs = [{"kind": "instance", "cls": "In", "id": "i1"}, {"kind": "dict", "id": "d1"}, {"kind": "instance", "cls": "Other", "id": "o1"}]
    for t in [SOAP, "http://other", None]:
        for r in reqs:
            for enc in [None, "", "utf-8"]:
                c = {"style": "document", "location": "http://h/svc", "transport": t, "soap_action": "urn:a", "input": "In", "output": "Out", "encoding": enc}
                yield {"config": c, "headers": [["X-A", "1"]], "request": r, "response": "<r/>"}
    for _ in range(n_cases(tier, 200, 20000)):
        r = dict(rng.choice(reqs + reqs[:2]))
        r["id"] = rng.choice(["a", "b", "ü", ""])
        yield {"config": rand_config(rng), "headers": rand_headers(rng), "request": r, "response": rng.choice(["<r/>", "", "<Envelope/>"])}


def impl_client_send(a):
    from xsdata.exceptions import ClientValueError
    from xsdata.formats.dataclass.client import Client
    from xsdata.formats.dataclass.parsers import DictDecoder

    rec = Recorder(a["response"])
    cfg = real_config(a["config"])
    rec._enc = cfg.encoding
    client = Client(cfg, transport=rec, parser=rec, serializer=rec)
    client.parser = rec  # Client builds its own XmlParser when a serializer is given
    r = a["request"]
    if r["kind"] == "dict":
        obj = {"x": r["id"]}
        orig = DictDecoder.decode

        def decode(self, data, clazz=None):
            rec.events.append({"ev": "decode", "id": data.get("x"), "cls": clazz.__name__ if clazz else None})
            return orig(self, data, clazz)

        DictDecoder.decode = decode
    else:
        obj = In(x=r["id"]) if r["cls"] == "In" else Other(z=r["id"])
        orig = None
    try:
        res = client.send(obj, {k: v for k, v in a["headers"]})
    except ClientValueError:
        return {"err": "ClientValueError", "events": rec.events}
    except Exception as e:  # noqa: BLE001
        return {"err": "LEAK:" + type(e).__name__, "events": rec.events}
    finally:
        if orig is not None:
            DictDecoder.decode = orig
    if res != ("parsed", a["response"].encode()):
        return {"err": "WRONG-RESULT", "events": rec.events}
    # shared state: a second send of the same request through the same client makes the same calls
    first = list(rec.events)
    try:
        if r["kind"] == "dict":
            DictDecoder.decode = decode
        client.send(obj, {k: v for k, v in a["headers"]})
    except Exception:  # noqa: BLE001
        return {"err": "STATEFUL", "events": rec.events}
    finally:
        if orig is not None:
            DictDecoder.decode = orig
    if rec.events[len(first):] != first:
        return {"err": "STATEFUL", "events": rec.events}
    return ok({"events": first})


# ---------------------------------------------------------------- transport
class HTTPError(Exception):
    pass


class FakeResponse:
    def __init__(self, status, content):
        self.status_code = status
        self.content = content

    def raise_for_status(self):
        if 400 <= self.status_code < 600:
            raise HTTPError(self.status_code)


def gen_transport(rng, tier):
    for s in [100, 199, 200, 201, 204, 301, 302, 399, 400, 401, 403, 404, 499, 500, 501, 502, 503, 599, 600, 0]:
        yield {"status": s}
    for _ in range(n_cases(tier, 60, 600)):
        yield {"status": rng.randint(0, 700)}


def impl_transport(a):
    from xsdata.formats.dataclass.transports import DefaultTransport

    calls = []

    class Session:
        def post(self, url, data=None, headers=None, timeout=None, **kw):
            calls.append(["post", url, data, [[k, v] for k, v in headers.items()], timeout, sorted(kw)])
            return FakeResponse(a["status"], b"body")

    t = DefaultTransport(timeout=3.5, session=Session())
    try:
        r = t.post("http://u", data="D", headers={"h": "v"})
    except HTTPError:
        return err("HTTPError")
    except Exception as e:  # noqa: BLE001
        return err("LEAK:" + type(e).__name__)
    if calls != [["post", "http://u", "D", [["h", "v"]], 3.5, []]]:
        return err("WRONG-CALL")
    return ok(r.decode())


# ======================================================================
# schema.forms — per-schema state of the (Definitions/Schema) parser
# ======================================================================
FORM_VALUES = [None, "qualified", "unqualified", "", "Qualified"]


def gen_schema_forms(rng, tier):
    # every ordered pair of (elementFormDefault, attributeFormDefault) declarations x every own form
    for f1 in FORM_VALUES:
        for f2 in FORM_VALUES:
            a1 = [[k, v] for k, v in (("elementFormDefault", f1), ("attributeFormDefault", f2)) if v is not None]
            for g1 in FORM_VALUES[:4]:
                a2 = [[k, v] for k, v in (("targetNamespace", "urn:b"), ("elementFormDefault", g1)) if v is not None]
                yield {"schemas": [{"attrs": a1, "elements": [None, "qualified", "unqualified"], "attributes": [None, "unqualified"]},
                                   {"attrs": a2, "elements": [None, "qualified"], "attributes": [None, "qualified"]},
                                   {"attrs": [], "elements": [None], "attributes": [None]}]}
    for _ in range(n_cases(tier, 150, 5000)):
        docs = []
        for _ in range(rng.randint(1, 4)):
            attrs = {}
            for k in ("elementFormDefault", "attributeFormDefault", "defaultAttributes", "targetNamespace"):
                if rng.random() < 0.5:
                    attrs[k] = rng.choice(FORM_VALUES[1:] if k.endswith("FormDefault") else ["tns:grp", "urn:x", ""])
            docs.append({"attrs": [[k, v] for k, v in attrs.items()],
                         "elements": [rng.choice(FORM_VALUES[:3]) for _ in range(rng.randint(0, 3))],
                         "attributes": [rng.choice(FORM_VALUES[:3]) for _ in range(rng.randint(0, 2))]})
        yield {"schemas": docs}


def impl_schema_forms(a):
    """one parser instance (DefinitionsParser, as for a WSDL document) meets the schemas in order"""
    from xsdata.codegen.parsers.definitions import DefinitionsParser
    from xsdata.models import xsd
    from xsdata.models.enums import FormType

    parser = DefinitionsParser(location="file:///svc.wsdl")

    def decl(cls, hook, own):
        obj = cls(name="x", form=FormType(own) if own is not None else None)
        try:
            hook(obj)
        except ValueError:
            return "ValueError"
        return {"form": obj.form.value if obj.form is not None else None}

    out = []
    for doc in a["schemas"]:
        parser.start_schema({k: v for k, v in doc["attrs"]})
        out.append({
            "element_form": parser.element_form,
            "attribute_form": parser.attribute_form,
            "default_attributes": parser.default_attributes,
            "elements": [decl(xsd.Element, parser.end_element, f) for f in doc["elements"]],
            "attributes": [decl(xsd.Attribute, parser.end_attribute, f) for f in doc["attributes"]],
        })
    return ok(out)


def classify_schema_forms(a, o):
    docs = a["schemas"]
    decl = ["Y" if any(k == "elementFormDefault" for k, _ in d["attrs"]) else "n" for d in docs]
    return "declares:" + "".join(decl)


# ======================================================================
# oracles: the property on the implementation alone
# ======================================================================
def user_simple(ref):
    return bool(ref) and ref[0] in "SR" and not ref.startswith("xsd:")


def op_uses_simple_typed_part(spec, op):
    msgs = [op.get("in"), op.get("out")]
    return any(p["kind"] == "type" and user_simple(p["ref"]) for m in msgs if m for p in m["parts"])


def rpc_unconventional_output(spec, op):
    return G.effective_style(spec, op) == "rpc" and op.get("out") is not None and op["out"]["name"] != op["name"] + "Response"


RPC_OUT_TAG = "[rpc-out] "


def covered_spec(a, msg):
    """C17-rpc-output-wrapper-name and nothing else.  The two spec oracles emit a message that STARTS with
    RPC_OUT_TAG only after they have established the exact failure the unchanged code shows (see
    `rpc_out_known_mapper` / `rpc_out_known_error`): the response wrapper of an rpc operation whose output message
    is not called <op>Response is named after that message (right namespace, right place), so that the conformant
    <op>Response document is rejected as an unknown Body property while the same document with the wrapper renamed
    to the message name is accepted -- and every other check on that operation has passed.  Any other failure of
    an rpc operation (wrong wrapper namespace, no wrapper, missing Fault, request side, a response that fails to
    parse for another reason ...) carries no tag and is reported."""
    spec = a["spec"]
    if msg.startswith(RPC_OUT_TAG) and any(rpc_unconventional_output(spec, op) for op in spec["ops"]):
        return "C17-rpc-output-wrapper-name"
    return None


def rpc_out_known_mapper(spec, op, got, want_body):
    """the mapper-level shape of the finding: exactly one Body entry, in the prescribed (soap:body) namespace,
    named after the output message instead of <op>Response"""
    return (
        rpc_unconventional_output(spec, op)
        and len(want_body) == 1
        and got == [(op["out"]["name"], want_body[0][1])]
    )


def rpc_out_known_error(spec, op, e):
    """the end-to-end shape of the finding: the parser rejects the conformant wrapper element (and only it) as an
    unknown property of the output Body"""
    if not rpc_unconventional_output(spec, op):
        return False
    if type(e).__name__ != "ParserError":
        return False
    text = str(e)
    wrapper = qn(op.get("body_ns"), op["name"] + "Response")
    return "Unknown property" in text and text.rstrip().endswith(":" + wrapper)


def in_fragment(spec):
    """the property's quantifier: SOAP 1.1 over HTTP, request-response, parts by element or type"""
    if spec.get("transport") != SOAP or not spec.get("location"):
        return False
    for op in spec["ops"]:
        if op.get("in") is None or op.get("out") is None:
            return False
        for m in [op["in"], op["out"]]:
            if any(p["kind"] not in ("element", "type") for p in m["parts"]):
                return False
    return True


def selected(op, direction="in"):
    """WSDL 1.1 3.5: `parts=` is a list of part *names* (nmtokens): a part is in the body iff its
    name equals one of the tokens; no list = all parts. Message order is kept."""
    parts = op["in" if direction == "in" else "out"]["parts"]
    sel = op.get("in_sel" if direction == "in" else "out_sel")
    if sel:
        tokens = set(sel)
        parts = [p for p in parts if any(p["name"] == t for t in tokens)]
    return parts


def prescribed_body(spec, op, direction):
    """[(local name, namespace or ANY)] of the children of soap:Body that WSDL 1.1 3.5 prescribes"""
    style = G.effective_style(spec, op)
    if style == "rpc":
        name = op["name"] if direction == "in" else op["name"] + "Response"
        return [(name, op.get("body_ns"))]
    parts = selected(op, direction)
    return [(p["ref"], G.ref_ns(spec, p["ref"])) if p["kind"] == "element" else (p["name"], "*") for p in parts]


def prescribed_headers(spec, op, direction):
    out = []
    for h in op.get("in_headers" if direction == "in" else "out_headers", []):
        # soap:header part= names exactly one part of the message (equality, WSDL 1.1 3.7)
        for p in h["msg"]["parts"]:
            if p["name"] == h["part"]:
                out.append((p["ref"], G.ref_ns(spec, p["ref"])))
    return out


# ---- mapper-level oracle -------------------------------------------------
def check_mapper(a):
    """what the WSDL prescribes, compared with what the real mapper builds from the
    document parsed by the real parser"""
    spec = a["spec"]
    if not in_fragment(spec):
        return None
    from xsdata.codegen.mappers.definitions import DefinitionsMapper

    files = G.render(spec)
    try:
        d = G.parse_definitions(files["svc.wsdl"])
        classes = DefinitionsMapper.map(d)
    except Exception as e:  # noqa: BLE001
        return f"mapping a definition of the supported fragment failed: {type(e).__name__}: {e}"
    by = {c.qname: c for c in classes}

    def check_op(op):
        known_op = []
        base = f"{{{spec['tns']}}}{spec['pt']}_{op['name']}"
        svc = by.get(base)
        if svc is None or svc.tag != "BindingOperation":
            return f"no service class {base}"
        consts = {x.name: x.default for x in svc.attrs if x.default is not None}
        want = {"location": spec["location"], "transport": spec["transport"]}
        st = op.get("ostyle") or spec.get("bstyle")
        if st:
            want["style"] = st
        if op.get("action"):
            want["soapAction"] = op["action"]
        if consts != want:
            return f"service class {base}: constants {consts} != {want}"
        refs = [(x.name, x.types[0].qname) for x in svc.attrs if x.default is None]
        if refs != [("input", base + "_input"), ("output", base + "_output")]:
            return f"service class {base}: input/output {refs}"
        for direction, sfx in (("in", "_input"), ("out", "_output")):
            env = by.get(base + sfx)
            if env is None or env.meta_name != "Envelope" or env.namespace != ENV:
                return f"{base + sfx}: not a SOAP 1.1 Envelope class ({env and env.meta_name}, {env and env.namespace})"
            inner = {i.name: i for i in env.inner}
            hdrs = prescribed_headers(spec, op, direction)
            names = [x.name for x in env.attrs]
            if names != (["Header"] if hdrs else []) + ["Body"]:
                return f"{base + sfx}: envelope children {names}"
            if any(x.namespace is not None for x in env.attrs):
                return f"{base + sfx}: Header/Body not in the envelope namespace"
            # a request must carry its headers; a response may be a bare fault (Header optional, Body required)
            want_min = [0 if (direction == "out" and n != "Body") else None for n in names]
            if [x.restrictions.min_occurs for x in env.attrs] != want_min:
                return f"{base + sfx}: occurrence of envelope children {[(x.name, x.restrictions.min_occurs) for x in env.attrs]}"
            if hdrs:
                got = [(x.name, x.namespace) for x in inner["Header"].attrs]
                if got != hdrs:
                    return f"{base + sfx}: header entries {got} != {hdrs}"
            body = inner["Body"]
            want_body = prescribed_body(spec, op, direction)
            got = [(x.name, x.namespace) for x in body.attrs if x.name != "Fault"]
            if direction == "out" and rpc_out_known_mapper(spec, op, got, want_body):
                # the listed finding, and exactly it; the remaining checks on this operation still run
                known_op.append(f"{RPC_OUT_TAG}{base + sfx}: rpc response wrapper {got} != {want_body}")
            elif len(got) != len(want_body) or any(g[0] != w[0] or (w[1] != "*" and g[1] != w[1]) for g, w in zip(got, want_body)):
                return f"{base + sfx}: body entries {got} != {want_body}"
            if G.effective_style(spec, op) == "rpc":
                # the wrapper is of the message's type: a class named after the message, in the WSDL's namespace,
                # whose entries are the parts (all of them: rpc bodies ignore parts=) in message order
                m = op["in"] if direction == "in" else op["out"]
                battrs = [x for x in body.attrs if x.name != "Fault"]
                mq = f"{{{spec['tns']}}}{m['name']}"
                if [x.types[0].qname for x in battrs] != [mq]:
                    return f"{base + sfx}: rpc wrapper type {[x.types[0].qname for x in battrs]} != {[mq]}"
                mc = by.get(mq)
                if mc is None:
                    return f"{base + sfx}: no class for the rpc message {mq}"
                gotp = [(x.name, x.types[0].qname) for x in mc.attrs]
                wantp = [((p["ref"] if p["kind"] == "element" else p["name"]),
                          (f"{{{G.XSD_NS}}}{p['ref'][4:]}" if p["ref"].startswith("xsd:") else f"{{{G.ref_ns(spec, p['ref'])}}}{p['ref']}")) for p in m["parts"]]
                if gotp != wantp:
                    return f"{base + sfx}: rpc part accessors {gotp} != {wantp}"
            if direction == "out":
                fa = [x for x in body.attrs if x.name == "Fault"]
                if len(fa) != 1 or fa[0].namespace != ENV or body.attrs[-1] is not fa[0]:
                    return f"{base + sfx}: no soap Fault entry in Body"
                if any(x.restrictions.min_occurs != 0 for x in body.attrs):
                    return f"{base + sfx}: Body entries of a response must be optional (fault or result)"
                fault = next(i for i in body.inner if i.name == "Fault")
                fnames = [(x.name, x.namespace, x.restrictions.min_occurs) for x in fault.attrs]
                if fnames != [("faultcode", "", None), ("faultstring", "", None), ("faultactor", "", 0), ("detail", "", 0)]:
                    return f"{base + sfx}: Fault children {fnames}"
                want_detail = [(f["msg"]["parts"][0]["ref"], G.ref_ns(spec, f["msg"]["parts"][0]["ref"]), 0) for f in op.get("faults", [])]
                got_detail = [(x.name, x.namespace, x.restrictions.min_occurs) for i in fault.inner for x in i.attrs]
                if got_detail != want_detail:
                    return f"{base + sfx}: fault detail entries {got_detail} != {want_detail}"
            else:
                if any(x.restrictions.min_occurs is not None for x in body.attrs):
                    return f"{base + sfx}: request Body entries must be required"
        return known_op[0] if known_op else None

    known = None
    for op in spec["ops"]:
        msg = check_op(op)
        if msg:
            if covered_spec({"spec": {**spec, "ops": [op]}}, msg) is None:
                return msg
            known = known or msg
    return known


# ---- end-to-end oracle ---------------------------------------------------
class Counter:
    def __init__(self):
        self.n = 100
        self.leaves = []

    def text(self):
        self.n += 1
        v = f"v{self.n}"
        self.leaves.append(v)
        return v

    def num(self):
        self.n += 1
        self.leaves.append(str(self.n))
        return self.n


def fill(cls, cnt, hints_cache={}):
    """an instance of a generated dataclass with every field set"""
    import sys

    mod = sys.modules[cls.__module__]
    ns = dict(vars(mod))
    outer = cls.__qualname__.split(".")[0]
    ns[outer] = getattr(mod, outer)
    hints = typing.get_type_hints(cls, globalns=ns, localns=ns)
    kw = {}
    for f in dataclasses.fields(cls):
        if not f.init:
            continue
        kw[f.name] = fill_type(hints[f.name], cnt)
    return cls(**kw)


def fill_type(tp, cnt):
    origin = typing.get_origin(tp)
    args = [x for x in typing.get_args(tp) if x is not type(None)]
    if origin in (typing.Union, getattr(__import__("types"), "UnionType")):
        return fill_type(args[0], cnt)
    if origin in (list, tuple):
        return [fill_type(args[0], cnt)]
    if tp is str:
        return cnt.text()
    if tp is int:
        return cnt.num()
    if isinstance(tp, type) and issubclass(tp, enum.Enum):
        m = list(tp)[0]
        cnt.leaves.append(str(m.value))
        return m
    if dataclasses.is_dataclass(tp):
        return fill(tp, cnt)
    raise TypeError(f"cannot build a value of {tp!r}")


class RecordingTransport:
    def __init__(self, response):
        self.calls = []
        self.response = response

    def post(self, url, data, headers):
        self.calls.append((url, data, dict(headers)))
        return self.response

    def get(self, url, params, headers):
        raise AssertionError("unexpected GET")


def leaf_texts(el):
    out = []
    for x in el.iter():
        if len(x) == 0 and x.text is not None:
            out.append(x.text)
        out.extend(x.attrib.values())
    return out


def payload_forms(spec, op, root):
    """the local children / attributes of every element or typed part in the posted payload carry the
    namespace their own schema prescribes: qualified iff that schema declares the form default
    `qualified`, whatever the other schemas of the definition declare"""
    from lxml import etree

    refs = {r: r for r in G.all_refs(spec) if r.startswith("E")}
    typed = {}
    for p in op["in"]["parts"]:  # part names are only unique within a message
        if p["kind"] == "type" and (p.get("ref") or "").startswith("T"):
            typed[p["name"]] = p["ref"]
    for el in root.iter():
        q = etree.QName(el)
        ref = None
        if el is root or (el.getparent() is root and q.namespace == ENV):
            continue  # soap:Envelope / soap:Header / soap:Body themselves
        if q.localname in refs and q.namespace == G.ref_ns(spec, q.localname):
            ref = q.localname
        elif q.localname in typed and q.namespace in (None, ENV):
            ref = typed[q.localname]
        if ref is None:
            continue
        for c in el:
            want = G.child_ns(spec, ref, etree.QName(c).localname)
            if etree.QName(c).namespace != want:
                return f"[forms] child {c.tag} of {el.tag}: schema {G.ref_ns(spec, ref)} declares elementFormDefault={G.schemas_of(spec)[G.schema_index(spec, ref)].get('form')!r}, so its local elements are in namespace {want!r}"
        wanta = G.attr_ns(spec, ref)
        for k in el.attrib:
            if etree.QName(k).namespace != wanta:
                return f"[forms] attribute {k} of {el.tag}: attributeFormDefault of its schema gives namespace {wanta!r}"
    return None


def qn(ns, name):
    return f"{{{ns}}}{name}" if ns else name


def child_content_xml(prefix_ns, name, ns, values):
    """`<name xmlns=ns><a>..</a><n>..</n></name>` for an element ref (fields a, n qualified)"""
    return f'<x:{name} xmlns:x="{ns}"><x:a>{values[0]}</x:a><x:n>{values[1]}</x:n></x:{name}>'


def canned_response(spec, op, fault=None, fault_with_header=False, wrapper=None):
    """a response envelope written from the WSDL alone; returns (bytes, leaves).
    `wrapper` overrides the name of the rpc wrapper element (default: the conformant <op>Response)"""
    leaves = []
    n = [500]

    def val():
        n[0] += 1
        leaves.append(f"r{n[0]}")
        return f"r{n[0]}"

    def num():
        n[0] += 1
        leaves.append(str(n[0]))
        return str(n[0])

    def child(ref, name, content):
        # a local element is namespace-qualified only if ITS schema declares elementFormDefault="qualified"
        cns = G.child_ns(spec, ref, name)
        return f'<c:{name} xmlns:c="{cns}">{content}</c:{name}>' if cns else f'<{name} xmlns="">{content}</{name}>'

    def elem(ref):
        ans = G.attr_ns(spec, ref)
        k = val()
        attr = f' xmlns:k="{ans}" k:k="{k}"' if ans else f' k="{k}"'
        return f'<x:{ref} xmlns:x="{G.ref_ns(spec, ref)}"{attr}>{child(ref, "a", val())}{child(ref, "n", num())}</x:{ref}>'

    def typed(name, ref, ns_decl):
        if ref == "xsd:string":
            inner = val()
        elif ref == "xsd:int":
            inner = num()
        elif ref.startswith("T"):
            inner = child(ref, "a", val())
        elif ref.startswith("S"):
            leaves.append("green")
            inner = "green"
        else:
            inner = num()
        return f"<{name}{ns_decl}>{inner}</{name}>"

    hdr = ""
    hs = prescribed_headers(spec, op, "out")
    if hs and (fault is None or fault_with_header):
        hdr = "<e:Header>" + "".join(elem(r) for r, _ in hs) + "</e:Header>"
    if fault is not None:
        leaves.extend(["e:Server", "boom", "urn:actor"])
        detail = ""
        if fault:
            detail = "<detail>" + elem(fault) + "</detail>"
        body = f"<e:Fault><faultcode>e:Server</faultcode><faultstring>boom</faultstring><faultactor>urn:actor</faultactor>{detail}</e:Fault>"
    elif G.effective_style(spec, op) == "rpc":
        w = wrapper or (op["name"] + "Response")
        inner = "".join(elem(p["ref"]) if p["kind"] == "element" else typed(p["name"], p["ref"], ' xmlns=""') for p in op["out"]["parts"])
        body = f'<w:{w} xmlns:w="{op["body_ns"]}">{inner}</w:{w}>'
    else:
        body = "".join(elem(p["ref"]) if p["kind"] == "element" else None for p in selected(op, "out"))
    xml = f'<e:Envelope xmlns:e="{ENV}">{hdr}<e:Body>{body}</e:Body></e:Envelope>'
    return xml.encode(), leaves


def object_leaves(obj):
    out = []
    if obj is None:
        return out
    if dataclasses.is_dataclass(obj):
        for f in dataclasses.fields(obj):
            out.extend(object_leaves(getattr(obj, f.name)))
    elif isinstance(obj, (list, tuple)):
        for x in obj:
            out.extend(object_leaves(x))
    elif isinstance(obj, enum.Enum):
        out.append(str(obj.value))
    else:
        out.append(str(obj))
    return out


def doc_typed_parts(spec, op, direction):
    parts = selected(op, direction)
    return G.effective_style(spec, op) != "rpc" and any(p["kind"] == "type" for p in parts)


def check_e2e(a):
    spec = a["spec"]
    if not in_fragment(spec):
        return None
    import codegen_run as CG
    from lxml import etree
    from xsdata.formats.dataclass.client import Client
    from xsdata.formats.dataclass.serializers import XmlSerializer

    files = G.render(spec)
    g = CG.run_pipeline(files, entry=["svc.wsdl"])
    try:
        if g.error is not None:
            return f"generation failed: {type(g.error).__name__}: {g.error}"
        services = {}
        for mod in g.modules.values():
            for k, v in vars(mod).items():
                if isinstance(v, type) and hasattr(v, "input") and not dataclasses.is_dataclass(v):
                    services[k.lower()] = v
        def check_op(op):
            key = (spec["pt"] + op["name"]).lower()
            svc = services.get(key)
            if svc is None:
                return f"no service class for operation {op['name']} (have {sorted(services)})"
            # ---- service description
            st = G.effective_style(spec, op)
            if getattr(svc, "style", "document") != st:
                return f"{svc.__name__}.style = {getattr(svc, 'style', None)!r}, binding says {st!r}"
            if getattr(svc, "location", None) != spec["location"]:
                return f"{svc.__name__}.location = {getattr(svc, 'location', None)!r} != {spec['location']!r}"
            if getattr(svc, "transport", None) != spec["transport"]:
                return f"{svc.__name__}.transport = {getattr(svc, 'transport', None)!r}"
            if (getattr(svc, "soap_action", None) or None) != (op.get("action") or None):
                return f"{svc.__name__}.soap_action = {getattr(svc, 'soap_action', None)!r} != {op.get('action')!r}"
            if not (dataclasses.is_dataclass(svc.input) and dataclasses.is_dataclass(svc.output)):
                return f"{svc.__name__}: input/output are not envelope classes"
            # ---- request
            cnt = Counter()
            try:
                req = fill(svc.input, cnt)
            except Exception as e:  # noqa: BLE001
                return f"cannot instantiate {svc.input.__name__}: {type(e).__name__}: {e}"
            resp, rleaves = canned_response(spec, op) if not doc_typed_parts(spec, op, "out") else (None, None)
            client = Client.from_service(svc)
            tr = RecordingTransport(resp if resp is not None else b"")
            client.transport = tr
            user = {"X-Trace": "1"}
            result = None
            known_op = None
            try:
                result = client.send(req, headers=user)
            except Exception as e:  # noqa: BLE001
                if not tr.calls:
                    return f"client.send raised before posting: {type(e).__name__}: {e}"
                if resp is not None:
                    if rpc_out_known_error(spec, op, e):
                        # the listed finding -- provided the rest of this operation (request side, the response
                        # with the wrapper the code expects, faults) checks below; reported last
                        known_op = f"{RPC_OUT_TAG}response with wrapper <{op['name']}Response> not parsed: {type(e).__name__}: {e}"
                    else:
                        return f"client.send could not parse the response of {op['name']}: {type(e).__name__}: {e}"
            if len(tr.calls) != 1:
                return f"{len(tr.calls)} posts"
            url, data, headers = tr.calls[0]
            if url != spec["location"]:
                return f"posted to {url!r} != {spec['location']!r}"
            want_h = {"X-Trace": "1", "content-type": "text/xml"}
            if op.get("action"):
                want_h["SOAPAction"] = op["action"]
            if headers != want_h:
                return f"posted headers {headers} != {want_h}"
            if user != {"X-Trace": "1"}:
                return "the caller's headers dict was modified"
            expect = XmlSerializer().render(req)
            if data != expect:
                return "posted payload differs from XmlSerializer().render(request)"
            # ---- independent reading of the payload
            root = etree.fromstring(data.encode() if isinstance(data, str) else data)
            if root.tag != qn(ENV, "Envelope"):
                return f"payload root {root.tag}"
            kids = [c.tag for c in root]
            hs = prescribed_headers(spec, op, "in")
            if kids != ([qn(ENV, "Header")] if hs else []) + [qn(ENV, "Body")]:
                return f"envelope children {kids}"
            if hs:
                got = [c.tag for c in root[0]]
                if got != [qn(ns, n) for n, ns in hs]:
                    return f"header entries {got} != {hs}"
            body = root[-1]
            want_b = prescribed_body(spec, op, "in")
            got = [c.tag for c in body]
            if len(got) != len(want_b) or any((etree.QName(g).localname != w[0]) or (w[1] != "*" and (etree.QName(g).namespace or None) != (w[1] or None)) for g, w in zip(got, want_b)):
                if any("##lazy" in g_ for g_ in got):
                    return f"[lazy] body entries {got}"
                return f"body entries {got} != {want_b}"
            if st == "rpc":
                acc = [c.tag for c in body[0]]
                want_acc = [qn(G.ref_ns(spec, p["ref"]), p["ref"]) if p["kind"] == "element" else p["name"] for p in op["in"]["parts"]]
                if acc != want_acc:
                    if any("##lazy" in x for x in acc):
                        return f"[lazy] rpc part accessors {acc} != {want_acc}"
                    return f"rpc part accessors {acc} != {want_acc}"
            msgf = payload_forms(spec, op, root)
            if msgf:
                return msgf
            if sorted(leaf_texts(root)) != sorted(cnt.leaves):
                return f"payload values {sorted(leaf_texts(root))} != request values {sorted(cnt.leaves)}"
            # ---- response
            if resp is not None:
                if known_op:
                    # what the unchanged code does instead: it takes the wrapper named after the output message;
                    # everything else about the response must be as for any other operation
                    alt, rleaves = canned_response(spec, op, wrapper=op["out"]["name"])
                    tr.response = alt
                    try:
                        result = client.send(req)
                    except Exception as e:  # noqa: BLE001
                        return f"rpc response of {op['name']} parsed neither with wrapper <{op['name']}Response> nor <{op['out']['name']}>: {type(e).__name__}: {e}"
                if not isinstance(result, svc.output):
                    return f"send returned {type(result).__name__}, not {svc.output.__name__}"
                if sorted(object_leaves(result)) != sorted(rleaves):
                    return f"parsed response carries {sorted(object_leaves(result))}, sent {sorted(rleaves)}"
                if getattr(result.body, "fault", None) is not None:
                    return "fault set on a normal response"
                # ---- faults
                refs = [None] + [f["msg"]["parts"][0]["ref"] for f in op.get("faults", [])]
                for fr in refs:
                    fx, fleaves = canned_response(spec, op, fault=fr or "")
                    tr.response = fx
                    try:
                        res2 = client.send(req)
                    except Exception as e:  # noqa: BLE001
                        if op.get("out_headers"):
                            # does the same fault parse when the server repeats the output headers?
                            tr.response, _ = canned_response(spec, op, fault=fr or "", fault_with_header=True)
                            try:
                                client.send(req)
                                return f"[fault-header] SOAP fault response without soap:Header not parsed: {type(e).__name__}: {e}"
                            except Exception:  # noqa: BLE001
                                pass
                        return f"SOAP fault response not parsed: {type(e).__name__}: {e}"
                    f = getattr(res2.body, "fault", None)
                    if f is None or f.faultcode != "e:Server" or f.faultstring != "boom" or f.faultactor != "urn:actor":
                        return f"SOAP fault not returned: {f!r}"
                    if sorted(object_leaves(res2)) != sorted(fleaves):
                        return f"fault detail lost: {sorted(object_leaves(res2))} != {sorted(fleaves)}"
            return known_op

        # every operation is judged; a failure that falls under a known finding does not hide
        # a different failure of another operation of the same definition
        known = None
        for src in g.sources().values():
            if "##lazy" in src:
                known = "[lazy] generated code carries the internal marker '##lazy' as an XML namespace"
        for op in spec["ops"]:
            msg = check_op(op)
            if msg:
                if covered_spec({"spec": {**spec, "ops": [op]}}, msg) is None:
                    return msg
                known = known or msg
        if known:
            return known
        return None
    finally:
        g.close()


def gen_specs(rng, tier):
    for s in hand_specs():
        yield {"spec": s}
    for _ in range(n_cases(tier, 120, 1500)):
        yield {"spec": G.gen_spec(rng)}


def gen_specs_small(rng, tier):
    for s in hand_specs():
        yield {"spec": s}
    for _ in range(n_cases(tier, 60, 600)):
        yield {"spec": G.gen_spec(rng, nops=rng.choice([1, 2]))}


# ---- client oracles -------------------------------------------------------
def check_headers(a):
    from xsdata.exceptions import ClientValueError
    from xsdata.formats.dataclass.client import Client

    c = a["config"]
    client = Client(real_config(c), transport=object())
    h = {k: v for k, v in a["headers"]}
    given = dict(h)
    try:
        r = client.prepare_headers(given)
    except ClientValueError:
        return None if c["transport"] != SOAP else "ClientValueError for the SOAP-over-HTTP transport"
    except Exception as e:  # noqa: BLE001
        return f"{type(e).__name__} leaked"
    if given != h or list(given) != list(h):
        return f"prepare_headers modified the caller's headers {h} -> {given}"
    if c["transport"] != SOAP:
        return f"headers prepared for unsupported transport {c['transport']!r}"
    want = dict(h)
    want["content-type"] = "text/xml"
    if c["soap_action"]:
        want["SOAPAction"] = c["soap_action"]
    if r != want:
        return f"prepare_headers({h}) = {r}, expected {want}"
    return None


def check_send(a):
    c = a["config"]
    out = impl_client_send(a)
    evs = out.get("events") if "err" in out else out["ok"]["events"]
    posts = [e for e in evs if e["ev"] == "post"]
    r = a["request"]
    valid = (r["kind"] == "dict" or r.get("cls") == c["input"]) and c["transport"] == SOAP
    if not valid:
        if posts:
            return f"posted although the request is invalid: {posts}"
        if out.get("err") != "ClientValueError":
            return f"expected ClientValueError, got {out}"
        return None
    if "err" in out:
        return f"send failed: {out['err']}"
    if len(posts) != 1:
        return f"{len(posts)} posts"
    p = posts[0]
    want = {k: v for k, v in a["headers"]}
    want["content-type"] = "text/xml"
    if c["soap_action"]:
        want["SOAPAction"] = c["soap_action"]
    if p["url"] != c["location"] or p["data"] != f"R({r['id']})" or dict(map(tuple, p["headers"])) != want or (p["encoding"] or None) != (c["encoding"] or None):
        return f"posted {p}, expected url={c['location']!r} data=R({r['id']}) headers={want}"
    if evs[-1] != {"ev": "parse", "response": a["response"], "cls": c["output"]}:
        return f"response not parsed into the output class: {evs[-1]}"
    return None


def check_transport(a):
    out = impl_transport(a)
    s = a["status"]
    if s in (200, 500):
        return None if out == ok("body") else f"status {s}: {out} (a SOAP fault arrives with 500 and must reach the parser)"
    if 400 <= s < 600:
        return None if out == err("HTTPError") else f"status {s}: {out}, expected HTTPError"
    return None if out == ok("body") else f"status {s}: {out}"


def check_config(a):
    """explicit keyword arguments win (also None); everything else comes from the service class"""
    out = impl_client_config(a)
    if "err" in out:
        # Config(**params) cannot fail: every field is always passed
        return f"Config.from_service raised {out['err']}"
    obj = {k: v for k, v in a["obj"]}
    kw = {k: v for k, v in a["kwargs"]}
    for name, val in out["ok"]:
        want = kw[name] if name in kw else obj.get(name)
        if val != want:
            return f"Config.{name} = {val!r}, expected {want!r} (service class {obj}, kwargs {kw})"
    names = [n for n, _ in out["ok"]]
    if names != ["style", "location", "transport", "soap_action", "input", "output", "encoding"]:
        return f"Config fields {names}"
    return None


ORACLES = [
    Oracle("config_override", gen_client_config, check_config, from_ops=("client.config",)),
    Oracle("client_headers", gen_client_headers, check_headers, from_ops=("client.headers",)),
    Oracle("client_send", gen_client_send, check_send, from_ops=("client.send",)),
    Oracle("transport_status", gen_transport, check_transport, from_ops=("transport.handle",)),
    Oracle("mapper_prescribed", gen_specs, check_mapper, covered=covered_spec),
    Oracle("end_to_end", gen_specs_small, check_e2e, covered=covered_spec),
]

CORRS = [
    Corr("wsdl.map", gen_map, impl_map, nontrivial=nontrivial_map, classify=classify_map,
         describe="DefinitionsMapper.map on records of parsed/mutated Definitions"),
    Corr("wsdl.wf", gen_map, impl_wf, compare=compare_wf, classify=lambda a, o: "maps" if o.get("ok") else "fails",
         describe="hypothesis of generation_succeeds (wfDefinitions) vs success of the real mapper: wf implies success"),
    Corr("wsdl.envmeta", gen_envmeta, impl_envmeta, classify=classify_envmeta,
         describe="envelope class family (Envelope/Header/Body/Fault/detail) as XmlMeta: mapper class + model of rendering/XmlMetaBuilder vs the real generated classes built by XmlContext"),
    Corr("wsdl.reqshape", gen_reqshape, impl_reqshape, compare=compare_reqshape,
         classify=lambda a, o: ("err:" + o["err"]) if "err" in o else classify_envmeta(a, {"ok": [{"id": "/" + i["qname"].rsplit("}", 1)[-1]} for i in a["env"]["inner"]] + [{"id": "/detail"} for i in a["env"]["inner"] for j in i["inner"] if j["inner"]]}),
         describe="theorem request_document_shape on the real code: element names (full depth) of the document the real XmlSerializer writes for a fully populated envelope instance vs generate+abstract writer on envelopeCtx(model family + real payload classes)"),
    Corr("wsdl.config", gen_config, impl_config,
         classify=lambda a, o: "style@" + "".join(l[0] for l in ("binding", "port", "operation") if any(k.split("}")[-1] == "style" for e in a[l] for k, _ in e["attrs"])) or "style@none",
         describe="attributes()/config precedence, service constants, operation_namespace"),
    Corr("wsdl.parts", gen_parts, impl_parts,
         classify=lambda a, o: "err:" + o["err"] if "err" in o else "+".join(sorted({("native" if x["native"] else "lazy" if x["namespace"] == "##lazy" else "element") for x in o["ok"]["attrs"]} | ({"skipped"} if len(o["ok"]["attrs"]) < len(a["parts"]) else set()))) or "empty",
         describe="build_parts_attributes"),
    Corr("wsdl.lazy", gen_lazy, impl_lazy, classify=lambda a, o: a["kind"] + ("+lazy" if a["attr_ns"] == "##lazy" else ""),
         describe="process_dependency_type / detect_lazy_namespace on a real container"),
    Corr("client.config", gen_client_config, impl_client_config, describe="Config.from_service"),
    Corr("client.headers", gen_client_headers, impl_client_headers,
         classify=lambda a, o: ("soap" if a["config"]["transport"] == SOAP else "other") + ("+action" if a["config"]["soap_action"] else ""),
         describe="Client.prepare_headers"),
    Corr("client.send", gen_client_send, impl_client_send,
         classify=lambda a, o: a["request"]["kind"] + ":" + (o.get("err") or "ok"), describe="Client.send call sequence"),
    Corr("schema.forms", gen_schema_forms, impl_schema_forms, classify=classify_schema_forms,
         describe="SchemaParser.start_schema / end_element / end_attribute on ONE parser instance over a sequence of inline schemas"),
    Corr("transport.handle", gen_transport, impl_transport, describe="DefaultTransport.post/handle_response"),
]


# ======================================================================
# known findings
# ======================================================================
def finding_rpc_out():
    s = copy.deepcopy(hand_specs()[1])
    s["ops"] = [s["ops"][0]]
    s["ops"][0]["out"]["name"] = "getAOut"
    msg = check_e2e({"spec": s})
    return (bool(msg) and msg.startswith(RPC_OUT_TAG) and covered_spec({"spec": s}, msg) == "C17-rpc-output-wrapper-name", msg or "no violation")


FINDINGS = {
    "C17-rpc-output-wrapper-name": finding_rpc_out,
}
