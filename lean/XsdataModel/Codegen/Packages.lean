/-
`xsdata/codegen/handlers/designate_class_packages.py` — the two structure
styles that go through sets: `group_by_strong_components` (clusters) and
`group_by_namespace_clusters`, plus `group_by_namespace` and
`group_all_together` for completeness.

What a class contributes is abstracted to `ClassInfo`: its qname, its `name`
(`local_name(qname)`), its target namespace, `dependencies()` and
`list(set(dependencies(True)))` — the latter two as lists *in the order the
interpreter's set iteration produced* (explicit parameter).
-/
import XsdataModel.Codegen.Graphs
import XsdataModel.Codegen.Toposort

namespace Xs.Codegen
open Py

structure ClassInfo where
  qname : Str
  name : Str
  ns : Option Str
  /-- `set(obj.dependencies())` in some order -/
  deps : List Str
  /-- `list(set(obj.dependencies(True)))` -/
  depsAll : List Str
deriving Repr

inductive PkgErr where
  | keyError            -- `edges[v]` / `container.first(qname)`
  | circular            -- toposort `CircularDependencyError`
  | mixedNamespaces     -- `CodegenError("Found strongly connected types from different namespaces")`
deriving Repr, DecidableEq

/-- `container.first(qname)` (the container holds one class per qname at this stage) -/
def firstClass (cs : List ClassInfo) (q : Str) : Option ClassInfo := cs.find? (·.qname == q)

/-- `strongly_connected_classes`: `edges = {obj.qname: list(set(obj.dependencies(True)))}` -/
def classEdges (cs : List ClassInfo) : Graph := cs.map (fun c => (c.qname, c.depsAll))

/-- all-or-nothing: the values if every element is `some` -/
def allSome {α} : List (Option α) → Option (List α)
  | [] => some []
  | none :: _ => none
  | some a :: rest => (allSome rest).map (a :: ·)

/-- the dict `edges` of `sort_classes`: qname ↦ `set(first(qname).dependencies()) ∩ qnames`;
`none` = `container.first` raised `KeyError` -/
def groupEdges (cs : List ClassInfo) (qnames : List Str) : Option Deps :=
  allSome (qnames.map (fun q =>
    (firstClass cs q).map (fun c => (q, c.deps.filter (qnames.contains ·)))))

/-- `sort_classes(qnames)`; `qnames` is the component in set iteration order -/
def sortClasses (cs : List ClassInfo) (qnames : List Str) : Except PkgErr (List ClassInfo) :=
  match groupEdges cs qnames with
  | none => .error PkgErr.keyError
  | some edges =>
    match toposortFlatten edges with
    | none => .error PkgErr.circular
    | some order =>
      match allSome (order.map (firstClass cs)) with
      | some classes => .ok classes
      | none => .error PkgErr.keyError

/-- One `(qname, package, module)` triple per `assign` call target, most recent first. -/
abbrev Assignments := List (Str × Str × Str)

def assign (classes : List ClassInfo) (package module : Str) (acc : Assignments) : Assignments :=
  classes.foldl (fun acc c => (c.qname, package, module) :: acc) acc

/-- the final `(package, module)` of every class in container order (`none` = never assigned) -/
def finalAssignment (cs : List ClassInfo) (acc : Assignments) : List (Str × Option (Str × Str)) :=
  cs.map (fun c => (c.qname, List.lookup c.qname acc))

/-- one iteration of the loop shared by `group_by_strong_components` and
`group_by_namespace_clusters`: sort the component, derive `(package, module)`
from the sorted classes, assign. -/
def groupStep (target : List ClassInfo → Except PkgErr (Str × Str)) (cs : List ClassInfo)
    (acc : Assignments) (group : List Str) : Except PkgErr Assignments :=
  match sortClasses cs group with
  | .error e => .error e
  | .ok classes =>
    match target classes with
    | .error e => .error e
    | .ok pm => .ok (assign classes pm.1 pm.2 acc)

def assignGroups (target : List ClassInfo → Except PkgErr (Str × Str)) (cs : List ClassInfo)
    (comps : List (List Str)) : Except PkgErr Assignments :=
  comps.foldlM (groupStep target cs) []

/-- clusters: `module = classes[0].name`, the configured package -/
def clusterTarget (package : Str) : List ClassInfo → Except PkgErr (Str × Str)
  | c0 :: _ => .ok (package, c0.name)
  | [] => .error PkgErr.keyError   -- `classes[0]` IndexError; components are never empty

/-- namespace clusters: all classes of the component must share the namespace -/
def nsClusterTarget (nsPackage : Option Str → Str) : List ClassInfo → Except PkgErr (Str × Str)
  | c0 :: rest =>
    if rest.any (fun c => c.ns != c0.ns) then .error PkgErr.mixedNamespaces
    else .ok (nsPackage c0.ns, c0.name)
  | [] => .error PkgErr.keyError

/-- `group_by_strong_components` given the already computed components -/
def assignClusters (package : Str) (cs : List ClassInfo) (comps : List (List Str)) :
    Except PkgErr Assignments := assignGroups (clusterTarget package) cs comps

/-- `group_by_namespace_clusters` given the components; `nsPackage ns` stands for
`".".join(combine_ns_package(ns))` (pure string function of the configuration). -/
def assignNsClusters (nsPackage : Option Str → Str) (cs : List ClassInfo)
    (comps : List (List Str)) : Except PkgErr Assignments :=
  assignGroups (nsClusterTarget nsPackage) cs comps

/-- `group_by_strong_components` with the dict `edges` of `strongly_connected_classes`
given explicitly (its order and the order of every `list(set(deps))` are arbitrary).
The component generator is lazy: a component is sorted and assigned as soon as it
is yielded, so an error raised while handling a yielded component precedes a later
`KeyError` of the depth-first search. -/
def groupByStrongComponentsG (package : Str) (cs : List ClassInfo) (edges : Graph)
    (vorder : List Str) : Except PkgErr (List (Str × Option (Str × Str))) :=
  let st := sccRun edges vorder
  match assignClusters package cs st.out with
  | .error e => .error e
  | .ok acc => if st.err then .error PkgErr.keyError else .ok (finalAssignment cs acc)

/-- `group_by_strong_components` -/
def groupByStrongComponents (package : Str) (cs : List ClassInfo) (vorder : List Str) :
    Except PkgErr (List (Str × Option (Str × Str))) :=
  groupByStrongComponentsG package cs (classEdges cs) vorder

def groupByNamespaceClustersG (nsPackage : Option Str → Str) (cs : List ClassInfo) (edges : Graph)
    (vorder : List Str) : Except PkgErr (List (Str × Option (Str × Str))) :=
  let st := sccRun edges vorder
  match assignNsClusters nsPackage cs st.out with
  | .error e => .error e
  | .ok acc => if st.err then .error PkgErr.keyError else .ok (finalAssignment cs acc)

/-- `group_by_namespace_clusters` -/
def groupByNamespaceClusters (nsPackage : Option Str → Str) (cs : List ClassInfo)
    (vorder : List Str) : Except PkgErr (List (Str × Option (Str × Str))) :=
  groupByNamespaceClustersG nsPackage cs (classEdges cs) vorder

end Xs.Codegen
