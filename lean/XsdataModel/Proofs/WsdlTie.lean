/- C17 ↔ C01: the document an F1 value is written as, with its element names exposed
(`roundtrip_F1_tree` is `Proofs.C01.roundtrip_F1` with the tree named), and the lookup of
the envelope family's metadata in `envelopeCtx`. -/
import XsdataModel.Proofs.C01Main
import XsdataModel.Wsdl.Binding

namespace Proofs.C01
open Py Xs.Bind Xs.Bind.F1

/-! ## names in a document tree -/

abbrev tq := Xs.Wsdl.docName
abbrev tkids := Xs.Wsdl.docKids

theorem childItems_eq (v : Val) : Xs.Wsdl.childItems v = itemsOf v := by
  cases v <;> rfl

theorem treeOfN_tq (Γ : Ctx) (cfg : SerCfg) (M : NsMap) (n : Nat) (pns : Option Str) (q : QN) (v : Val) :
    tq (treeOfN Γ cfg M n pns q v) = q := by
  cases n with
  | zero => simp [treeOfN, emptyTree, tq, Xs.Wsdl.docName]
  | succ n =>
    cases v with
    | obj c fields =>
      simp only [treeOfN]
      cases metaOf Γ c pns with
      | none => simp [emptyTree, tq, Xs.Wsdl.docName]
      | some m =>
        simp only
        cases hmt : m.text <;> simp [tq, Xs.Wsdl.docName]
    | _ => simp [treeOfN, emptyTree, tq, Xs.Wsdl.docName]

theorem itemTree_tq (Γ : Ctx) (cfg : SerCfg) (M : NsMap) (n : Nat) (pns : Option Str) (var : XmlVar) (y : Val) :
    tq (itemTree M (treeOfN Γ cfg M n pns) var y) = var.qname := by
  cases y <;> simp only [itemTree] <;> first | rfl | exact treeOfN_tq ..

open Xs.Wsdl (presentQNames)

theorem treeOfN_kids (Γ : Ctx) (cfg : SerCfg) (M : NsMap) (n : Nat) (pns : Option Str) (q : QN)
    (c : ClassId) (fields : List (Str × Val)) {m : XmlMeta} (hm : metaOf Γ c pns = some m) (ht : m.text = none) :
    (tkids (treeOfN Γ cfg M (n + 1) pns q (.obj c fields))).map tq = presentQNames m fields := by
  rw [treeOfN_obj Γ cfg M n pns q c fields hm, ht]
  simp only [tkids, Xs.Wsdl.docKids, presentQNames, childItems_eq, List.map_flatMap, List.map_map]
  congr 1
  funext var
  apply List.map_congr_left
  intro y _
  exact itemTree_tq Γ cfg M n (targetUri m.qname) var y

/-- the subtree an object-valued, single (not list) element var is written as -/
theorem treeOfN_kid_obj (Γ : Ctx) (cfg : SerCfg) (M : NsMap) (n : Nat) (pns : Option Str) (q : QN)
    (c : ClassId) (fields : List (Str × Val)) {m : XmlMeta} (hm : metaOf Γ c pns = some m) (ht : m.text = none)
    (var : XmlVar) (hv : var ∈ m.elementVars) (c' : ClassId) (f' : List (Str × Val))
    (hval : look fields var.name = .obj c' f') :
    treeOfN Γ cfg M n (targetUri m.qname) var.qname (.obj c' f')
      ∈ tkids (treeOfN Γ cfg M (n + 1) pns q (.obj c fields)) := by
  rw [treeOfN_obj Γ cfg M n pns q c fields hm, ht]
  simp only [tkids, Xs.Wsdl.docKids, List.mem_flatMap, List.mem_map]
  exact ⟨var, hv, .obj c' f', by simp [hval, itemsOf], by simp [itemTree]⟩

/-! ## the round trip with the document named -/

/-- fragment F1: generate, write, read back, parse — and the document is `treeOfN … v` -/
theorem roundtrip_F1_tree (e : BEnv) (Γ : Ctx) (cfg : SerCfg) (pcfg : ParserConfig) (c : ClassId)
    (fields : List (Str × Val)) (hΓ : ctxF1 Γ = true) (hv : valF1 e Γ c (.obj c fields) = true) :
    ∃ evs m n, generate e Γ cfg (.obj c fields) = .ok evs ∧ metaOf Γ c none = some m ∧
      (Val.obj c fields).size = n + 1 ∧
      eventsTree (isDatatype Γ) evs
        = .ok (treeOfN Γ cfg (prefixMap (collectUris evs)) (n + 1) none m.qname (.obj c fields)) ∧
      parseRoot e Γ pcfg c
        (treeOfN Γ cfg (prefixMap (collectUris evs)) (n + 1) none m.qname (.obj c fields)) = .ok (.obj c fields, 0) := by
  unfold valF1 valObjN at hv
  obtain ⟨n, hn⟩ : ∃ n, (Val.obj c fields).size = n + 1 :=
    ⟨(Val.obj c fields).size - 1, by simp [Val.size]; omega⟩
  rw [hn] at hv
  obtain ⟨m, hm⟩ : ∃ m, metaOf Γ c none = some m := by
    simp only [valObjG] at hv
    cases hf : Γ.find c with
    | none => simp [hf] at hv
    | some ci =>
      cases hmf : ci.metaFor none with
      | none => simp [hf, hmf] at hv
      | some m => exact ⟨m, by simp [metaOf, hf, hmf]⟩
  have hgenEq : generate e Γ cfg (.obj c fields) =
      genObj e Γ cfg (4 * (Val.obj c fields).size + 8) (.obj c fields) none none false none := rfl
  have key := fun M => main_all e Γ cfg pcfg M (ns := true) hΓ (n + 1) (.obj c fields) c none none m.qname
    (4 * (Val.obj c fields).size + 8) m hm rfl hv (by omega)
  obtain ⟨evs, _, _, _, hgen0, _⟩ := key []
  obtain ⟨evs', a, text, kids, hgen, htree, hsub, hplain, hxt, hxn, hparse⟩ :=
    key (prefixMap (collectUris evs))
  have hevs : evs' = evs := by rw [hgen0] at hgen; cases hgen; rfl
  subst hevs
  refine ⟨evs', m, n, by rw [hgenEq]; exact hgen, hm, hn, ?_, ?_⟩
  · have hfold := hsub.2 {} rfl (fun _ => rfl)
    simp only [eventsTree, eventsSax, hfold, bind, Except.bind, pure, Except.pure, afterW,
      WState.flush, List.nil_append, saxTree_root _ _ hplain]
  · rw [htree] at hparse ⊢
    have hfetch : Γ.fetch c none none = .ok m := by
      simp only [metaOf] at hm
      simp [Ctx.fetch, hm]
    simp [parseRoot, xsiTypeOf_none e a _ hxt, xsiNilOf_none a hxn, hfetch, hparse, bind, Except.bind,
      pure, Except.pure]

end Proofs.C01

namespace Xs.Wsdl
open Py Xs.Bind Xs.Bind.F1

/-! ## looking up the envelope family in `envelopeCtx` -/

theorem optionMapM_mem {α β : Type} (f : α → Option β) : ∀ (l : List α) (r : List β), l.mapM f = some r →
    ∀ x ∈ l, ∃ y ∈ r, f x = some y
  | [], r, h, x, hx => by cases hx
  | a :: l, r, h, x, hx => by
    rw [List.mapM_cons] at h
    cases hfa : f a with
    | none => simp [hfa] at h
    | some b =>
      cases hl : l.mapM f with
      | none => simp [hfa, hl] at h
      | some bs =>
        simp only [hfa, hl, Option.pure_def, Option.bind_eq_bind, Option.bind_some, Option.some.injEq] at h
        subst h
        rcases List.mem_cons.1 hx with rfl | hx
        · exact ⟨b, List.mem_cons_self, hfa⟩
        · obtain ⟨y, hy, hfy⟩ := optionMapM_mem f l bs hl x hx
          exact ⟨y, List.mem_cons_of_mem _ hy, hfy⟩

theorem find_of_nodup_ids : ∀ (l : List ClassInfo), (l.map (·.id)).Nodup → ∀ ci ∈ l,
    l.find? (·.id = ci.id) = some ci
  | [], _, ci, h => by cases h
  | c :: l, hnd, ci, h => by
    simp only [List.map_cons, List.nodup_cons] at hnd
    rcases List.mem_cons.1 h with rfl | h
    · simp
    · have hne : c.id ≠ ci.id := by
        intro heq
        exact hnd.1 (heq ▸ List.mem_map_of_mem (f := (·.id)) h)
      simp only [List.find?_cons, hne, decide_false]
      exact find_of_nodup_ids l hnd.2 ci h

/-- the metas of a class info built for the parent namespaces `pnss` -/
theorem classInfo_spec (types : List TypeInfo) (pnss : List (Option Str)) (c : Cls) (cid : Str) (g : Bool)
    (rns : Option Str) (ci : ClassInfo) (h : classInfo types pnss c cid g rns = some ci) :
    ci.id = cid ∧ ∀ p ∈ pnss, ∃ m, classMeta types c cid g rns p = some m ∧ ci.metaFor p = some m := by
  unfold classInfo at h
  simp only [Option.pure_def, Option.bind_eq_bind] at h
  obtain ⟨metas, hm, h2⟩ := Option.bind_eq_some_iff.1 h
  · simp only [Option.some.injEq] at h2
    subst h2
    refine ⟨rfl, ?_⟩
    intro p hp
    -- every entry of `metas` is `(q, classMeta q)`
    have hall : ∀ (l : List (Option Str)) (r : List (Option Str × XmlMeta)),
        l.mapM (fun p => (classMeta types c cid g rns p).map (fun m => (p, m))) = some r →
        ∀ e ∈ r, classMeta types c cid g rns e.1 = some e.2 := by
      intro l
      induction l with
      | nil => intro r h e he; simp at h; subst h; cases he
      | cons a l ih =>
        intro r h e he
        rw [List.mapM_cons] at h
        cases hfa : classMeta types c cid g rns a with
        | none => simp [hfa] at h
        | some b =>
          cases hl : l.mapM (fun p => (classMeta types c cid g rns p).map (fun m => (p, m))) with
          | none => simp [hfa, hl] at h
          | some bs =>
            simp only [hfa, hl, Option.map_some, Option.pure_def, Option.bind_eq_bind, Option.bind_some,
              Option.some.injEq] at h
            subst h
            rcases List.mem_cons.1 he with rfl | he
            · exact hfa
            · exact ih bs hl e he
    obtain ⟨y, hy, hfy⟩ := optionMapM_mem _ pnss metas hm p hp
    cases hcm : classMeta types c cid g rns p with
    | none => simp [hcm] at hfy
    | some m =>
      refine ⟨m, rfl, ?_⟩
      simp only [ClassInfo.metaFor]
      cases hf : metas.find? (·.1 = p) with
      | none =>
        have := List.find?_eq_none.1 hf y hy
        simp [hcm] at hfy
        subst hfy
        simp at this
      | some e =>
        have he := List.mem_of_find?_eq_some hf
        have hk : e.1 = p := by simpa using List.find?_some hf
        have := hall pnss metas hm e he
        rw [hk, hcm] at this
        obtain ⟨e1, e2⟩ := e
        simp only at hk this
        simp only [Option.some.injEq] at this
        subst this
        rfl

/-- unfolding one level of `familyInfos` -/
theorem familyInfos_spec (types : List TypeInfo) (pnss : List (Option Str)) (n : Nat) (c : Cls) (cid : Str)
    (g : Bool) (rns : Option Str) (fam : List ClassInfo)
    (h : familyInfos types pnss (n + 1) c cid g rns = some fam) :
    ∃ ci rest, fam = ci :: rest ∧ classInfo types pnss c cid g rns = some ci ∧
      ∀ i ∈ c.inner, ∃ fi, familyInfos types pnss n i (childId cid i.name) false
          (match c.ns with | some x => some x | none => rns) = some fi ∧ ∀ x ∈ fi, x ∈ rest := by
  unfold familyInfos at h
  simp only [Option.pure_def, Option.bind_eq_bind] at h
  obtain ⟨ci, hci, h2⟩ := Option.bind_eq_some_iff.1 h
  obtain ⟨lists, hin, h3⟩ := Option.bind_eq_some_iff.1 h2
  simp only [Option.some.injEq] at h3
  subst h3
  refine ⟨ci, lists.flatten, rfl, hci, ?_⟩
  intro i hi
  obtain ⟨fi, hfi, hfe⟩ := optionMapM_mem _ c.inner lists hin i hi
  exact ⟨fi, hfe, fun x hx => List.mem_flatten.2 ⟨fi, hfi, hx⟩⟩

theorem classMeta_text (types : List TypeInfo) (c : Cls) (cid : Str) (g : Bool) (rns pns : Option Str)
    (m : XmlMeta) (h : classMeta types c cid g rns pns = some m) : m.text = none ∧ m.clazz = cid := by
  unfold classMeta at h
  simp only [Option.pure_def, Option.bind_eq_bind] at h
  obtain ⟨vars, _, h2⟩ := Option.bind_eq_some_iff.1 h
  simp only [Option.some.injEq] at h2
  subst h2
  exact ⟨rfl, rfl⟩

/-- the envelope's own metadata in the context -/
theorem envelopeCtx_env (types : List TypeInfo) (pnss : List (Option Str)) (env : Cls)
    (payload : List ClassInfo) (dts : List (QN × Option PT)) (Γ : Ctx)
    (h : envelopeCtx types pnss env payload dts = some Γ) (hp : none ∈ pnss) :
    ∃ em, classMeta types env env.qname true none none = some em ∧ metaOf Γ env.qname none = some em := by
  unfold envelopeCtx at h
  simp only [Option.pure_def, Option.bind_eq_bind] at h
  obtain ⟨fam, hf, h2⟩ := Option.bind_eq_some_iff.1 h
  · simp only [Option.some.injEq] at h2
    subst h2
    unfold envelopeClasses at hf
    obtain ⟨ci, rest, rfl, hci, _⟩ := familyInfos_spec types pnss 4 env env.qname true none fam hf
    obtain ⟨hid, hmetas⟩ := classInfo_spec _ _ _ _ _ _ _ hci
    obtain ⟨em, hem, hmf⟩ := hmetas none hp
    refine ⟨em, hem, ?_⟩
    simp [metaOf, Ctx.find, hid, hmf]

/-- the metadata of a direct inner class (`Header`, `Body`) in the context -/
theorem envelopeCtx_inner (types : List TypeInfo) (pnss : List (Option Str)) (env : Cls)
    (payload : List ClassInfo) (dts : List (QN × Option PT)) (Γ : Ctx)
    (h : envelopeCtx types pnss env payload dts = some Γ) (hids : (Γ.classes.map (·.id)).Nodup)
    (b : Cls) (hb : b ∈ env.inner) (p : Option Str) (hp : p ∈ pnss) :
    ∃ bm, classMeta types b (childId env.qname b.name) false
        (match env.ns with | some x => some x | none => none) p = some bm ∧
      metaOf Γ (childId env.qname b.name) p = some bm := by
  unfold envelopeCtx at h
  simp only [Option.pure_def, Option.bind_eq_bind] at h
  obtain ⟨fam, hf, h2⟩ := Option.bind_eq_some_iff.1 h
  · simp only [Option.some.injEq] at h2
    subst h2
    unfold envelopeClasses at hf
    obtain ⟨ci, rest, rfl, hci, hin⟩ := familyInfos_spec types pnss 4 env env.qname true none fam hf
    obtain ⟨fi, hfi, hsub⟩ := hin b hb
    obtain ⟨cib, restb, rfl, hcib, _⟩ := familyInfos_spec types pnss 3 b _ false _ fi hfi
    obtain ⟨hid, hmetas⟩ := classInfo_spec _ _ _ _ _ _ _ hcib
    obtain ⟨bm, hbm, hmf⟩ := hmetas p hp
    refine ⟨bm, hbm, ?_⟩
    have hmem : cib ∈ (ci :: rest) ++ payload :=
      List.mem_append_left _ (List.mem_cons_of_mem _ (hsub cib List.mem_cons_self))
    have hfind := find_of_nodup_ids _ hids cib hmem
    rw [hid] at hfind
    simp only [metaOf, Ctx.find]
    rw [hfind]
    simpa using hmf

end Xs.Wsdl
