/-
L1 — xsdata/models/datatype.py : XmlPeriod._parse_period, XmlDuration._parse_interval,
and the exact comparison key `_timeline` with `dates.days_from_civil`.
-/
import XsdataModel.Lex.Dates

namespace Xs.Dates
open Py

/-! ### XmlPeriod -/

structure TimePeriod where
  year : Option Int
  month : Option Int
  day : Option Int
  offset : Option Int
deriving DecidableEq, Repr

/-- `value[:end]` for a possibly negative `end` -/
def sliceTo (s : Str) (e : Int) : Str :=
  if e ≥ 0 then s.take e.toNat else s.take (s.length - (-e).toNat)

/-- `XmlPeriod._parse_period(value)` (`value` already stripped by `__init__`) -/
def parsePeriod (e : Env) (value : Str) : Option TimePeriod :=
  let r : Option TimePeriod :=
    if startsWith value ['-', '-', '-'] then
      match parseDateArgs e value Tables.fmtGDay with
      | some [some d, o] => some ⟨none, none, some d, o⟩
      | _ => none
    else if startsWith value ['-', '-'] then
      let value := if slice value 4 6 = ['-', '-'] && (value.length = 6 || value.length = 7 || value.length = 12)
        then value.take 4 ++ value.drop 6 else value
      if value.length = 4 || value.length = 5 || value.length = 10 then
        match parseDateArgs e value Tables.fmtGMonth with
        | some [some m, o] => some ⟨none, some m, none, o⟩
        | _ => none
      else
        match parseDateArgs e value Tables.fmtGMonthDay with
        | some [some m, some d, o] => some ⟨none, some m, some d, o⟩
        | _ => none
    else
      let end0 : Int := Int.ofNat value.length
      let end1 := if (findChar value ':').isSome then end0 - 6 else end0
      let head := sliceTo value end1
      let ym : Bool := match rfindChar head '-' with
        | some i => decide (i > 3)
        | none => false
      if ym then
        match parseDateArgs e value Tables.fmtGYearMonth with
        | some [some y, some m, o] => some ⟨some y, some m, none, o⟩
        | _ => none
      else
        match parseDateArgs e value Tables.fmtGYear with
        | some [some y, o] => some ⟨some y, none, none, o⟩
        | _ => none
  match r with
  | none => none
  | some p => if validateDate 0 (p.month.getD 1) (p.day.getD 1) then some p else none

/-- `XmlPeriod(value)` -/
def XmlPeriod.ofString (e : Env) (s : Str) : Option (Str × TimePeriod) :=
  let v := e.strip s
  (parsePeriod e v).map (v, ·)

/-! ### XmlDuration -/

/-- seconds are kept as the matched text; the harness compares `float(text)` -/
structure TimeInterval where
  negative : Bool
  years : Option Int
  months : Option Int
  days : Option Int
  hours : Option Int
  minutes : Option Int
  seconds : Option Str
deriving DecidableEq, Repr

/-- `\d` under `re.ASCII`: `[0-9]` (the environment is not consulted) -/
def reDigit (_e : Env) (c : Char) : Bool := isAsciiDigit c

/-- maximal run of `\d` -/
def digitRun (e : Env) (s : Str) : Str × Str := (s.takeWhile (reDigit e), s.dropWhile (reDigit e))

/-- `(?:(\d+)X)?` : group value and rest. Greedy `\d+` followed by a non-digit
letter never profits from backtracking, so the maximal run decides. -/
def optGroup (e : Env) (s : Str) (x : Char) : Option Str × Str :=
  let (ds, rest) := digitRun e s
  match ds, rest with
  | [], _ => (none, s)
  | _, c :: rest' => if c = x then (some ds, rest') else (none, s)
  | _, [] => (none, s)

/-- `(?:(\d+(.\d+)?)S)?` -/
def optSeconds (e : Env) (s : Str) : Option Str × Str :=
  let (d1, r1) := digitRun e s
  if d1.isEmpty then (none, s) else
  -- first alternative: `\.` then digits then `S`
  let alt1 : Option (Str × Str) :=
    match r1 with
    | c :: r2 =>
      if c ≠ '.' then none else
      let (d2, r3) := digitRun e r2
      if d2.isEmpty then none else
      match r3 with
      | 'S' :: r4 => some (d1 ++ [c] ++ d2, r4)
      | _ => none
    | [] => none
  match alt1 with
  | some (v, r) => (some v, r)
  | none =>
    match r1 with
    | 'S' :: r2 => (some d1, r2)
    | _ => (none, s)

/-- `$` : end of string or just before a final newline -/
def atEnd (s : Str) : Bool := s = [] || s = ['\n']

/-- the date part and the optional time part after `P`; alternatives are tried
in the regex engine's priority order (time group present first, then absent) -/
def matchBody (e : Env) (s : Str) : Option (Option Str × Option Str × Option Str × Option Str × Option Str × Option Str) :=
  let (y, s1) := optGroup e s 'Y'
  let (mo, s2) := optGroup e s1 'M'
  let (d, s3) := optGroup e s2 'D'
  let withT : Option (Option Str × Option Str × Option Str) :=
    match s3 with
    | 'T' :: t0 =>
      let (h, t1) := optGroup e t0 'H'
      let (mi, t2) := optGroup e t1 'M'
      let (sec, t3) := optSeconds e t2
      if atEnd t3 then some (h, mi, sec) else none
    | _ => none
  match withT with
  | some (h, mi, sec) => some (y, mo, d, h, mi, sec)
  | none => if atEnd s3 then some (y, mo, d, none, none, none) else none

/-- is the text accepted by `float()`: digits, one of `. e E _` between two digit runs
(always true of what the escaped pattern matches; kept because the code calls `float`) -/
def floatOk (e : Env) (s : Str) : Bool :=
  let (d1, r) := digitRun e s
  if d1.isEmpty then false else
  match r with
  | [] => true
  | c :: r2 =>
    let (d2, r3) := digitRun e r2
    (c = '.' || c = 'e' || c = 'E' || c = '_') && !d2.isEmpty && r3.isEmpty

/-- `int(group) if group else None` for a `\d+` group -/
def groupInt (e : Env) (g : Option Str) : Option Int :=
  match g with
  | none => none
  | some ds => e.pyInt ds

/-- `XmlDuration._parse_interval(value)`; `none` = `ValueError` -/
def parseInterval (e : Env) (value : Str) : Option TimeInterval :=
  if value.length < 3 || value.getLast? = some 'T' then none else
  -- `^([-]?)P`
  let neg : Bool := value.head? == some '-'
  let s1 := if neg then value.tail else value
  match s1 with
  | 'P' :: body =>
    match matchBody e body with
    | none => none
    | some (y, mo, d, h, mi, sec) =>
      match sec with
      | some t => if floatOk e t then
          some ⟨neg, groupInt e y, groupInt e mo, groupInt e d, groupInt e h, groupInt e mi, some t⟩
        else none
      | none => some ⟨neg, groupInt e y, groupInt e mo, groupInt e d, groupInt e h, groupInt e mi, none⟩
  | _ => none

/-- `XmlDuration(value)` for a `str` value: strips, then parses -/
def XmlDuration.ofString (e : Env) (s : Str) : Option (Str × TimeInterval) :=
  let v := e.strip s
  (parseInterval e v).map (v, ·)

/-! ### exact comparison key -/

/-- `dates.days_from_civil` (Python floor division) -/
def daysFromCivil (year month day : Int) : Int :=
  let y := if month ≤ 2 then year - 1 else year
  let m := if month ≤ 2 then month + 12 else month
  365 * y + pyDiv y 4 - pyDiv y 100 + pyDiv y 400 + pyDiv (153 * (m - 3) + 2) 5 + day - 1

/-- `_timeline` of an `XmlDateTime` -/
def XmlDateTime.timeline (v : XmlDateTime) : Int :=
  let days := daysFromCivil v.year v.month v.day
  let minutes := (days * 24 + v.hour) * 60 + v.minute - v.offset.getD 0
  (minutes * 60 + v.second) * 1000000000 + v.frac

/-- `_timeline` of an `XmlTime` -/
def XmlTime.timeline (v : XmlTime) : Int :=
  let minutes := ((0 : Int) * 24 + v.hour) * 60 + v.minute - v.offset.getD 0
  (minutes * 60 + v.second) * 1000000000 + v.frac

/-- `hash(n)` of a Python int on a 64-bit CPython: sign · (|n| mod (2⁶¹ − 1)), and −1 ↦ −2 -/
def pyHashInt (n : Int) : Int :=
  let m : Int := Int.ofNat (n.natAbs % 2305843009213693951)
  let h := if n < 0 then -m else m
  if h = -1 then -2 else h

/-- `XmlDateTime.__hash__` / `XmlTime.__hash__`: `hash(_timeline(self))` -/
def XmlDateTime.hash (v : XmlDateTime) : Int := pyHashInt v.timeline
def XmlTime.hash (v : XmlTime) : Int := pyHashInt v.timeline

/-- `_cmp(a, b, op)` for the six operators, on the key -/
inductive CmpOp | eq | ne | lt | le | gt | ge
deriving DecidableEq, Repr

def CmpOp.apply (op : CmpOp) (a b : Int) : Bool :=
  match op with
  | .eq => decide (a = b) | .ne => decide (a ≠ b) | .lt => decide (a < b) | .le => decide (a ≤ b)
  | .gt => decide (b < a) | .ge => decide (b ≤ a)

end Xs.Dates
