"""C08 — all back-ends agree: native / lxml writers and the tree serializer give the
same infoset; native / lxml handlers give the same object from every kind of source."""
import copy
import json
import random
import re

import bindgen as G
import bindlib as B
import c08_docs as D
from framework import Corr, Oracle

PROP_ID = "C08"
DESIGN_REF = "6/C08"

from bindcases import *  # noqa: F401,F403
from bindcases import _UNIS  # noqa: F401

XSI_TYPE = "{http://www.w3.org/2001/XMLSchema-instance}type"
INDENTS = [None, None, "  ", "  ", "\t", " ", "", "    "]

_EMPTY = None


def empty_universe():
    global _EMPTY
    if _EMPTY is None:
        _EMPTY = B.Universe({"classes": []})
        from xsdata.formats.dataclass.models.generics import AnyElement

        _EMPTY.classes["AnyElement"] = AnyElement
    return _EMPTY


def fresh_registry():
    """Drop the class universes of the previous correspondence op.  XmlContext walks every live
    dataclass when it builds its xsi index, so keeping thousands of generated universes alive makes every
    later parser construction slower (quadratic over a thorough run).  `uni_of` re-creates a universe
    from its description when a later stage (oracle search, replay) needs it again."""
    import gc

    for u in list(_UNIS.values()):
        if u is not _EMPTY:
            u.close()
    _UNIS.clear()
    gc.collect()


def uni_or_empty(a):
    return uni_of(a) if a.get("desc") else empty_universe()


# ============================================================================
# (a) writers
# ============================================================================
def gen_writers(rng, tier, keep=False):
    if not keep:
        fresh_registry()
    for _ in range(n_cases(tier, 80, 900)):
        u, desc, ctx = new_universe(rng)
        for _ in range(5):
            try:
                obj = G.gen_instance(rng, u, "Root")
            except Exception:  # noqa: BLE001
                continue
            yield {"ctx": ctx, "value": u.to_val(obj), "ignore_default_attributes": rng.random() < 0.3,
                   "indent": rng.choice(INDENTS), "desc": desc, "_uni": u.modname}


def canon_tree_out(o):
    if isinstance(o, dict) and "ok" in o and isinstance(o["ok"], dict) and "q" in o["ok"]:
        return {"ok": D.resolve_prefixes(o["ok"])}
    return o


def impl_native_tree(a):
    u = uni_of(a)
    return D.real_infoset(u, u.from_val(a["value"]), "native", indent=a["indent"],
                          ignore_default_attributes=a.get("ignore_default_attributes", False), xml_declaration=True)


def impl_lxml_tree(a):
    u = uni_of(a)
    obj = u.from_val(a["value"])
    kw = dict(indent=a["indent"], ignore_default_attributes=a.get("ignore_default_attributes", False))
    return {"writer": D.real_infoset(u, obj, "lxml", **kw), "tree": D.real_infoset(u, obj, "tree", **kw)}


def cmp_tree(mo, io, a):
    if unsupported(mo):
        return True
    return canon_tree_out(mo) == canon_tree_out(io)


def cmp_lxml_tree(mo, io, a):
    if unsupported(mo):
        return True
    m = canon_tree_out(mo)
    return m == canon_tree_out(io["writer"]) and m == canon_tree_out(io["tree"])


def classify_writers(a, o):
    o = o.get("writer", o) if isinstance(o, dict) else o
    ind = "indent" if a.get("indent") else "flat"
    if "ok" in o:
        return ind + (":mixed" if D.has_mixed(o["ok"]) else ":plain")
    return ind + ":" + str(o.get("err"))


def gen_indent(rng, tier):
    fresh_registry()
    for u, ctx, desc, tree, kind in documents(rng, tier, n_cases(tier, 25, 400), 3):
        for sp in rng.sample(["  ", "\t", "", " ", "--", "\n", " \t"], 2):
            yield {"tree": tree, "space": sp, "_kind": kind}


def impl_indent(a):
    from lxml import etree

    root = etree.fromstring(G.tree_xml(a["tree"]))
    etree.indent(root, a["space"])
    return {"ok": D.lxml_tree_json(root)}


def drop_ns(o):
    def go(n):
        return {"q": n["q"], "a": n["a"], "t": n["t"] or None, "c": [go(c) for c in n["c"]], "tl": n["tl"] or None}

    return {"ok": go(o["ok"])} if isinstance(o, dict) and "ok" in o else o


def gen_decl(rng, tier):
    for on in (True, False):
        for v in ("1.0", "1.1"):
            for enc in ("UTF-8", "utf-8", "ISO-8859-1", "US-ASCII"):
                yield {"on": on, "version": v, "encoding": enc}


def impl_decl(a):
    from xsdata.formats.dataclass.serializers import XmlSerializer
    from xsdata.formats.dataclass.serializers.config import SerializerConfig
    from xsdata.formats.dataclass.serializers.writers import LxmlEventWriter, XmlEventWriter

    u = empty_universe()
    outs = []
    for w in (XmlEventWriter, LxmlEventWriter):
        cfg = SerializerConfig(xml_version=a["version"], encoding=a["encoding"], xml_declaration=a["on"])
        s = XmlSerializer(config=cfg, writer=w).render(u.classes["AnyElement"](qname="r"))
        i = s.index("<AnyElement")
        outs.append(s[:i])
    if outs[0] != outs[1]:
        return {"err": "HARNESS:writers differ " + repr(outs)}
    return {"ok": outs[0]}


# ============================================================================
# (b) handlers
# ============================================================================
def random_stores(rng, d, top_allowed=False):
    d["s"] = rng.choice(["passed"] * 5 + (["top", "empty"] if top_allowed else []))
    for c in d["c"]:
        random_stores(rng, c, True)


def gen_dtrees(rng, tier, n_uni, per_uni):
    fresh_registry()
    for u, ctx, desc, tree, kind in documents(rng, tier, n_uni, per_uni, mutate=False):
        yield D.plain_dtree(tree)
        for _ in range(2):
            yield D.layout(rng, tree, allow_default=True)


def gen_pump(rng, tier):
    for d in gen_dtrees(rng, tier, n_cases(tier, 50, 600), 3):
        if rng.random() < 0.5:
            random_stores(rng, d)
        yield {"doc": D.dtree_strip(d), "_print": d}


def impl_pump(a):
    return D.real_pump(a["_print"], "bytes")


def gen_iterwalk(rng, tier):
    wk = D.well_known()
    for d in gen_dtrees(rng, tier, n_cases(tier, 50, 600), 3):
        if rng.random() < 0.3:
            random_stores(rng, d)
        yield {"doc": D.dtree_strip(d), "well_known": wk, "_print": d}


def impl_iterwalk(a):
    el = D.real_pump(a["_print"], "et")
    tr = D.real_pump(a["_print"], "et_tree")
    if el != tr:
        return {"err": "HARNESS:ElementTree tree and element sources differ"}
    return el


def impl_tree_serializer(a):
    u = uni_of(a)
    return D.real_infoset(u, u.from_val(a["value"]), "tree", indent=a["indent"],
                          ignore_default_attributes=a.get("ignore_default_attributes", False))


def impl_lxml_writer(a):
    u = uni_of(a)
    obj = u.from_val(a["value"])
    decl = a.get("xml_declaration", True)
    try:
        text = D.real_write(u, obj, "lxml", indent=a["indent"], xml_declaration=decl,
                            ignore_default_attributes=a.get("ignore_default_attributes", False))
    except Exception as e:  # noqa: BLE001
        return B.classify_exc(e)
    from lxml import etree

    i = text.index("?>\n") + 3 if text.startswith("<?xml") else 0
    return {"ok": {"declaration": text[:i], "tree": D.lxml_tree_json(etree.fromstring(text[i:].encode("utf-8")))}}


def gen_lxml_writer(rng, tier):
    for a in gen_writers(rng, tier):
        a["xml_declaration"] = rng.random() < 0.7
        yield a


def cmp_lxml_writer(mo, io, a):
    if unsupported(mo):
        return True
    if "ok" in mo and "ok" in io:
        return (mo["ok"]["declaration"] == io["ok"]["declaration"]
                and D.resolve_prefixes(mo["ok"]["tree"]) == D.resolve_prefixes(io["ok"]["tree"]))
    return mo == io


def gen_hsource(rng, tier):
    import os
    import tempfile

    texts = ["<r/>", "<a>é名</a>", "", "<?xml version='1.0'?><r>x</r>"]
    for t in texts:
        yield {"kind": "str", "text": t, "encoded": list(t.encode()), "bytes": [], "path": ""}
        yield {"kind": "bytes", "text": "", "encoded": [], "bytes": list(t.encode()), "path": ""}
        yield {"kind": "file", "text": "", "encoded": [], "bytes": list(t.encode()), "path": ""}
    import pathlib

    for name in ("a.xml", "sub/../b.xml", "./c d.xml"):
        raw = os.path.join(tempfile.gettempdir(), name)
        # `str(path.resolve())` is pathlib's: the model starts from the resolved name
        yield {"kind": "path", "text": "", "encoded": [], "bytes": [], "path": str(pathlib.Path(raw).resolve()), "raw_path": raw}
    yield {"kind": "et_tree", "text": "", "encoded": [], "bytes": [], "path": ""}
    yield {"kind": "et_element", "text": "", "encoded": [], "bytes": [], "path": ""}


def impl_hsource(a):
    return D.real_hsource(a["kind"], a["text"], bytes(a["bytes"]), a.get("raw_path") or a["path"] or None)



NATIVE_KINDS = ["str", "bytes", "file", "path", "missing_path", "et_tree", "et_element"]


def gen_native_parse(rng, tier):
    wk = D.well_known()
    for d in gen_dtrees(rng, tier, n_cases(tier, 25, 120), 3):
        if rng.random() < 0.4:
            random_stores(rng, d)
        data = D.print_dtree(d).encode()
        for kind in NATIVE_KINDS:
            yield {"doc": D.dtree_strip(d), "well_known": wk, "kind": kind, "bytes": list(data),
                   "path": "/tmp/c08-doc.xml", "_print": d}


def impl_native_parse(a):
    return D.real_native_parse(a["_print"], a["kind"], "/nonexistent//tmp/c08-doc.xml")


def gen_inscope(rng, tier):
    for d in gen_dtrees(rng, tier, n_cases(tier, 50, 600), 3):
        yield {"doc": D.dtree_strip(d), "_print": d}


def impl_inscope(a):
    return D.real_inscope(a["_print"])


def strip_private(o):
    return o




# ============================================================================
# oracles: the property on the real implementation only
# ============================================================================
def inject_cr(rng, v):
    """put a carriage return into some str values"""
    if isinstance(v, dict):
        if "str" in v and isinstance(v["str"], str) and rng.random() < 0.25:
            s = v["str"]
            i = rng.randint(0, len(s))
            return {"str": s[:i] + "\r" + s[i:]}
        return {k: inject_cr(rng, x) for k, x in v.items()}
    if isinstance(v, list):
        return [inject_cr(rng, x) for x in v]
    return v


def desc_namespaces(desc):
    """the namespaces a universe writes names in (classes, fields)"""
    out = []
    for c in desc["classes"]:
        for ns in [(c.get("meta") or {}).get("namespace")] + [f.get("metadata", {}).get("namespace") for f in c["fields"]]:
            if ns and not ns.startswith("##") and ns not in out:
                out.append(ns)
    return out


USER_PREFIXES = ["d", "p1", "ns7", "x-y", "_u"]


def user_ns_map(rng, desc):
    """a user prefix map for render(obj, ns_map) — the rarely used corners of `clean_prefixes`: the default
    namespace under the None or the "" key, before or after a prefix for the same URI, several prefixes
    for one URI, a default for another URI, unused prefixes, empty values"""
    uris = desc_namespaces(desc) or ["urn:unused"]
    ns = rng.choice(uris)
    other = rng.choice(uris + ["urn:other"])
    p, q = rng.sample(USER_PREFIXES, 2)
    dflt = rng.choice([None, ""])
    family = [
        [[p, ns]],
        [[dflt, ns]],
        [[dflt, ns], [p, ns]],
        [[p, ns], [dflt, ns]],
        [[p, ns], [q, ns]],
        [[p, ns], [q, ns], [dflt, ns]],
        [[p, ns], [dflt, other]],
        [[dflt, other], [p, ns]],
        [[p, other], [q, ns], ["", ns], [None, ns]],
        [[None, ns], ["", other], [p, ns]],
        [[p, ""], [q, ns]],
        [[p, "urn:unused"], [dflt, ns]],
        [[u_p, u] for u_p, u in zip(USER_PREFIXES, uris)] + [[dflt, uris[-1]]],
    ]
    return rng.choice(family)


def gen_user_maps(rng, tier):
    """user prefix maps for `clean_prefixes`: every map of up to 3 entries over keys {None, "", "d", "p1"} and
    values {NS, OTHER, ""}, then the family of `user_ns_map` on random universes"""
    import itertools

    keys = [None, "", "d", "p1"]
    vals = ["urn:a", "urn:b", ""]
    for n in range(0, 4):
        for ks in itertools.permutations(keys, n):
            for vs in itertools.product(vals, repeat=n):
                yield {"ns_map": [[k, v] for k, v in zip(ks, vs)]}
    for _ in range(n_cases(tier, 100, 2000)):
        desc, _ = D.qualified_attr_universe(rng)
        yield {"ns_map": user_ns_map(rng, desc)}


def impl_user_map(a):
    from xsdata.utils import namespaces

    d = {k: v for k, v in a["ns_map"]}
    m = namespaces.clean_prefixes(d) if d else {}
    return {"ok": [[k, v] for k, v in m.items()]}


def gen_qualified_attrs(rng, tier):
    """objects with namespace-qualified attributes, rendered with a user prefix map"""
    for _ in range(n_cases(tier, 25, 300)):
        desc, build = D.qualified_attr_universe(rng)
        try:
            u = B.Universe(desc)
        except Exception:  # noqa: BLE001
            continue
        _UNIS[u.modname] = u
        for _ in range(6):
            yield {"value": u.to_val(build(u, rng)), "ignore_default_attributes": rng.random() < 0.2,
                   "indent": rng.choice([None, None, "  "]), "ns_map": user_ns_map(rng, desc), "desc": desc, "_uni": u.modname}


def gen_writers_oracle(rng, tier):
    fresh_registry()
    yield from gen_qualified_attrs(rng, tier)
    for a in gen_writers(rng, tier, keep=True):
        a = dict(a)
        if rng.random() < 0.08:
            a["value"] = inject_cr(rng, a["value"])
        r = rng.random()
        if r < 0.45:
            a["ns_map"] = user_ns_map(rng, a["desc"])
        if rng.random() < 0.15:
            a["schema_location"] = rng.choice(["urn:a a.xsd", "http://example.com/ns s.xsd urn:b b.xsd"])
        if rng.random() < 0.1:
            a["no_namespace_schema_location"] = "local.xsd"
        yield a


def oracle_writers(a):
    u = uni_of(a)
    try:
        obj = u.from_val(a["value"])
    except Exception:  # noqa: BLE001
        return None
    kw = dict(indent=a.get("indent"), ignore_default_attributes=a.get("ignore_default_attributes", False),
              ns_map=a.get("ns_map"), schema_location=a.get("schema_location"),
              no_namespace_schema_location=a.get("no_namespace_schema_location"))
    outs = {b: D.real_infoset(u, obj, b, **kw) for b in ("native", "lxml", "tree")}
    canon = {}
    for b, o in outs.items():
        if "ok" in o:
            t = D.resolve_prefixes(o["ok"])
            if a.get("indent"):
                t = D.strip_layout(t)
            t = dict(t)
            t["tl"] = None
            canon[b] = {"ok": t}
        else:
            canon[b] = o
    if canon["native"] != canon["lxml"]:
        return "native and lxml writers differ: " + first_diff(canon["native"], canon["lxml"])
    if canon["tree"] != canon["lxml"]:
        return "tree serializer and lxml writer differ: " + first_diff(canon["tree"], canon["lxml"])
    return None


def first_diff(x, y, path="$"):
    if type(x) != type(y):
        return f"{path}: {json.dumps(x, ensure_ascii=False)[:80]} vs {json.dumps(y, ensure_ascii=False)[:80]}"
    if isinstance(x, dict):
        for k in sorted(set(x) | set(y)):
            if x.get(k) != y.get(k):
                return first_diff(x.get(k), y.get(k), f"{path}.{k}")
    if isinstance(x, list):
        if len(x) != len(y):
            return f"{path}: lengths {len(x)} vs {len(y)}"
        for i, (p, q) in enumerate(zip(x, y)):
            if p != q:
                return first_diff(p, q, f"{path}[{i}]")
    return f"{path}: {json.dumps(x, ensure_ascii=False)[:80]} vs {json.dumps(y, ensure_ascii=False)[:80]}"


def covered_writers(a, msg):
    return None


NOISES = [[], [], [], [], [], [], [], ["between"], ["prolog"], ["text_c"], ["tail_c"], ["text_pi"], ["tail_pi"], ["between", "prolog"],
          ["text_m"], ["tail_m"], ["text_m", "tail_m", "between"], ["text_pi", "tail_c"], ["text_c", "tail_pi", "between"]]
CHAR_NOISE = {"text_c", "tail_c", "text_pi", "tail_pi", "text_m", "tail_m"}


def default_ok(desc, tree):
    """a default namespace may be introduced: nothing in the document is read as a QName"""
    if '"qname"' in json.dumps(desc):
        return False

    def go(n):
        if any(k == XSI_TYPE or ":" in v for k, v in n["a"]) or ":" in (n["t"] or ""):
            return False
        return all(go(c) for c in n["c"])

    return go(tree)


def clean_tree(xml: str):
    """the document's infoset read by lxml with comments and PIs removed at parse time"""
    from lxml import etree

    root = etree.fromstring(xml.encode(), etree.XMLParser(remove_comments=True, remove_pis=True))
    return D.lxml_tree_json(root)


def union_documents(rng, tier, n_uni, per_uni):
    """documents of universes whose Root has element fields typed as a union of model classes, with nested
    attributed children (UnionNode records the events and replays them for every candidate class)"""
    for _ in range(n_uni):
        desc, build = D.union_universe(rng)
        try:
            u = B.Universe(desc)
            ctx = u.export_ctx()
        except Exception:  # noqa: BLE001
            continue
        _UNIS[u.modname] = u
        for _ in range(per_uni):
            try:
                xml = G.real_serialize(u, build(u, rng), writer=rng.choice(["native", "lxml"]))
                tree = G.xml_tree(xml.encode())
            except Exception:  # noqa: BLE001
                continue
            yield u, ctx, desc, tree, "valid"
            if rng.random() < 0.5:
                kind, t2 = G.mutate_tree(rng, tree)
                yield u, ctx, desc, t2, kind


def all_documents(rng, tier):
    yield from union_documents(rng, tier, n_cases(tier, 20, 150), 3)
    yield from documents(rng, tier, n_cases(tier, 60, 450), 3, mutate=True)


def gen_handlers(rng, tier, for_corr=False):
    fresh_registry()
    for u, ctx, desc, tree, kind in all_documents(rng, tier):
        lay = rng.random()
        try:
            d = D.plain_dtree(tree) if lay < 0.3 else D.layout(rng, tree, allow_default=default_ok(desc, tree))
        except ValueError:
            continue
        noise = rng.choice(NOISES)
        sub = random.Random(rng.random())
        xml = D.print_dtree(d, sub if rng.random() < 0.8 else None, set(noise), decl=rng.random() < 0.3)
        if for_corr:
            yield {"ctx": ctx, "tree": clean_tree(xml), "xml": xml, "clazz": "Root", "config": rng.choice(CONFIGS),
                   "noise": noise, "kind": kind, "desc": desc, "_uni": u.modname}
            continue
        yield {"xml": xml, "clazz": "Root", "config": rng.choice(CONFIGS), "noise": noise, "kind": kind,
               "desc": desc, "_uni": u.modname}


def gen_parse_all(rng, tier):
    return gen_handlers(rng, tier, for_corr=True)


def impl_parse_all(a):
    u = uni_of(a)
    xml, clazz, cfg = a["xml"], a["clazz"], a.get("config") or {}
    res = {}
    for h, kinds in D.SOURCES.items():
        for k in kinds:
            res[f"{h}/{k}"] = D.real_parse(u, clazz, xml, h, k, cfg)[0]
    ref = res["native/bytes"]
    ev = None
    if "ok" in ref:
        _, en, mn = D.real_events(u, clazz, xml, "native", "bytes", cfg)
        _, el, ml = D.real_events(u, clazz, xml, "lxml", "bytes", cfg)
        ev = en == el and mn == ml
    return {"results": res, "events_equal": ev, "et_excluded": prefix_sensitive([ref, res["lxml/bytes"]], xml)}


def cmp_parse_all(mo, io, a):
    if "results" not in io:
        return False
    ref = io["results"]["native/bytes"]
    noise = set(a.get("noise") or [])
    for k, r in io["results"].items():
        if k.startswith("native/et_") and io["et_excluded"]:
            continue
        if r != ref:
            return False
    if io["events_equal"] is False:
        return False
    if unsupported(mo):
        return True
    if a.get("kind") == "inject_known":
        # a known class injected under a parent of another namespace is bound with the metadata the shared
        # XmlContext cached first (subject of C14); the model builds it per parent namespace. Only the
        # agreement of the back-ends is checked on these documents.
        return True
    return mo == ref


def classify_parse_all(a, o):
    r = o.get("results", {}).get("native/bytes", {})
    kind = "valid" if a.get("kind") == "valid" else "fault"
    return f"{kind}:{'+'.join(a.get('noise') or []) or 'clean'}:{'ok' if 'ok' in r else r.get('err')}"


def adapt_handlers(op, a):
    if op == "c08.lxml_text":
        return adapt_lxml_text(op, a)
    if op == "bind.parse":
        return {k: a[k] for k in ("xml", "clazz", "config", "noise", "kind", "desc", "_uni")}
    if op in ("c08.pump", "c08.iterwalk", "c08.inscope"):
        return {"xml": D.print_dtree(a["_print"]), "clazz": "AnyElement", "config": {}, "noise": [], "kind": "valid", "desc": None}
    return None


def prefix_sensitive(results, xml):
    from lxml import etree

    if '"qname"' in json.dumps(results):
        return True
    try:
        # comments and PIs removed at parse time: character data they split ("ns0<!---->:n1") is one text again
        root = etree.fromstring(xml.encode(), etree.XMLParser(remove_comments=True, remove_pis=True))
    except etree.XMLSyntaxError:
        return True
    for el in root.iter():
        if not isinstance(el.tag, str):
            continue
        if el.get(XSI_TYPE) is not None:
            return True
        if any(":" in v for v in el.attrib.values()) or ":" in (el.text or ""):
            return True
    return False


def oracle_handlers(a):
    u = uni_or_empty(a)
    xml, clazz, cfg = a["xml"], a["clazz"], a.get("config") or {}
    res = {}
    for h, kinds in D.SOURCES.items():
        for k in kinds:
            res[(h, k)] = D.real_parse(u, clazz, xml, h, k, cfg)[0]
    ref = res[("native", "bytes")]
    sensitive = prefix_sensitive([ref, res[("lxml", "bytes")]], xml)
    for (h, k), r in res.items():
        if k.startswith("et_") and sensitive:
            continue  # ElementTree has dropped the prefixes the content refers to (inherent)
        if r != ref:
            return f"{h}/{k} differs from native/bytes: " + first_diff(r, ref)
    # the native handler keeps the in-scope maps itself (bbc0c4d), so the recorded streams agree below
    # skipped, wrapper and union nodes too: every document that parses is compared
    if "ok" in ref:
        rn, en, mn = D.real_events(u, clazz, xml, "native", "bytes", cfg)
        rl, el, ml = D.real_events(u, clazz, xml, "lxml", "bytes", cfg)
        if en != el:
            return "recorded event streams differ: " + first_diff(en, el)
        if mn != ml:
            return f"recorded prefix maps differ: {mn} vs {ml}"
    return None


def covered_handlers(a, msg):
    return None  # no listed finding of the handlers is left


# ------------------------------------------------------------------ get_text / get_tail
def gen_lxml_text(rng, tier):
    """content sequences with comments / PIs as nodes: every sequence of up to 4 items over
    {text, comment, PI, empty element, element with text} (adjacent nodes, leading and trailing ones,
    nothing but nodes …), then random nested ones"""
    import itertools

    atoms = [{"t": "ab"}, {"m": "c"}, {"m": "pi"}, {"e": []}, {"e": [{"t": "x"}]}]
    for n in range(0, 5):
        for seq in itertools.product(range(len(atoms)), repeat=n):
            items = []
            for i, k in enumerate(seq):
                it = copy.deepcopy(atoms[k])
                if "t" in it:
                    it["t"] = "t%d" % i
                items.append(it)
            # adjacent text items are one run for any parser: merge them
            merged = []
            for it in items:
                if "t" in it and merged and "t" in merged[-1]:
                    merged[-1] = {"t": merged[-1]["t"] + it["t"]}
                else:
                    merged.append(it)
            for rc in (False, True):
                yield {"items": merged, "remove_comments": rc}

    def rand_items(depth):
        out = []
        for _ in range(rng.randint(0, 6)):
            r = rng.random()
            if r < 0.3:
                if not (out and "t" in out[-1]):
                    out.append({"t": rng.choice(["a", " ", "x<y", "é名", "\n  ", "1 2"])})
            elif r < 0.7:
                out.append({"m": rng.choice(["c", "pi"])})
            elif depth < 3:
                out.append({"e": rand_items(depth + 1)})
        return out

    for _ in range(n_cases(tier, 300, 6000)):
        yield {"items": rand_items(0), "remove_comments": rng.random() < 0.5}


def impl_lxml_text(a):
    return D.real_lxml_text(a["items"], a["remove_comments"])


def classify_lxml_text(a, o):
    def adj(items):
        r = any("m" in x and "m" in y for x, y in zip(items, items[1:]))
        return r or any(adj(x["e"]) for x in items if "e" in x)

    return ("adjacent-nodes" if adj(a["items"]) else "single-nodes") + (":no-comments" if a["remove_comments"] else ":tree")


def adapt_lxml_text(op, a):
    return {"xml": "<AnyElement>" + D.print_ctree(a["items"]) + "</AnyElement>", "clazz": "AnyElement", "config": {},
            "noise": [], "kind": "valid", "desc": None}


# ------------------------------------------------------------------ UnionNode under the lxml handler
def gen_union_record(rng, tier):
    """nested elements with attributes below a union element: all shapes of up to 3 elements, then random"""
    names = ["a", "b", "start", "stop"]
    ats = [[], [["x", "1"]], [["x", "1"], ["y", "a b"]], [["k", ""]]]

    def leaf(i, j):
        return {"q": names[i % len(names)], "a": [list(kv) for kv in ats[j]], "c": []}

    for j in range(len(ats)):
        for k in range(len(ats)):
            yield {"tree": {"c": [leaf(0, j)]}}
            yield {"tree": {"c": [leaf(0, j), leaf(1, k)]}}
            yield {"tree": {"c": [{**leaf(2, j), "c": [leaf(1, k)]}]}}
            yield {"tree": {"c": [{**leaf(2, j), "c": [leaf(1, k), leaf(0, j)]}, leaf(3, k)]}}

    def rand(depth):
        n = {"q": rng.choice(names), "a": [list(kv) for kv in rng.choice(ats)], "c": []}
        if depth < 3:
            n["c"] = [rand(depth + 1) for _ in range(rng.choice([0, 0, 1, 2]))]
        return n

    for _ in range(n_cases(tier, 150, 3000)):
        yield {"tree": {"c": [rand(0) for _ in range(rng.randint(0, 3))]}}



def impl_union_record(a):
    return D.real_union_record(a["tree"])


ORACLES = [
    Oracle("writers_agree", gen_writers_oracle, oracle_writers, covered=covered_writers,
           from_ops=("c08.native_tree", "c08.lxml_tree", "c08.tree_serializer", "c08.lxml_writer")),
    Oracle("handlers_agree", gen_handlers, oracle_handlers, covered=covered_handlers,
           from_ops=("c08.lxml_text", "bind.parse", "c08.pump", "c08.iterwalk", "c08.inscope"), adapt=adapt_handlers),
]


CORRS = [
    Corr("c08.native_tree", gen_writers, impl_native_tree, compare=cmp_tree, classify=classify_writers,
         describe="XmlSerializer(XmlEventWriter, indent) output re-read by lxml vs model (EventGenerator + EventHandler + indentation bookkeeping + reader)"),
    Corr("c08.lxml_tree", gen_writers, impl_lxml_tree, compare=cmp_lxml_tree, classify=classify_writers,
         describe="XmlSerializer(LxmlEventWriter, indent) re-read and TreeSerializer tree vs model (eventsTree + etree.indent as tree transformation)"),
    Corr("c08.tree_serializer", gen_writers, impl_tree_serializer, compare=cmp_tree, classify=classify_writers,
         describe="TreeSerializer(config).render(obj) vs the model of serializers/tree.py + LxmlTreeBuilder.build"),
    Corr("c08.lxml_writer", gen_lxml_writer, impl_lxml_writer, compare=cmp_lxml_writer,
         describe="XmlSerializer(LxmlEventWriter).render: declaration text and printed tree vs model"),
    Corr("c08.native_parse", gen_native_parse, impl_native_parse, classify=lambda a, o: a["kind"],
         describe="XmlParser(XmlEventHandler) with recording start/end/register_namespace: from_string / from_bytes / from_path / "
                  "parse(file object | ElementTree | Element) and a path that cannot be opened vs model nativeParse over the World "
                  "of the document (toHSource, nativeContext, iterwalk, pump)"),
    Corr("c08.hsource", gen_hsource, impl_hsource,
         describe="PushParser.from_string/from_bytes/from_path/parse: the source handler.parse receives vs model toHSource"),
    Corr("c08.indent", gen_indent, impl_indent, canon=drop_ns, describe="lxml.etree.indent vs the modelled tree transformation"),
    Corr("c08.decl", gen_decl, impl_decl, describe="XmlWriter.start_document"),
    Corr("bind.parse", gen_parse_all, impl_parse_all, compare=cmp_parse_all, classify=classify_parse_all,
         describe="XmlParser x {native, lxml} x {bytes, str, path, file, lxml tree/element, ET tree/element} on documents with "
                  "random declaration layouts and lexical variation: all equal and equal to the model's parse of the infoset; "
                  "RecordParser event streams of both handlers equal"),
    Corr("ns.clean", gen_user_maps, impl_user_map,
         describe="clean_prefixes as XmlSerializer.write / TreeSerializer.render call it, on all user maps of up to 3 entries over "
                  "the keys None, '', 'd', 'p1' (every order) and on the user-map family of the writers oracle, vs model serializerNsMap"),
    Corr("c08.union_record", lambda rng, tier: ({"toks": D.union_tokens(a["tree"]), **a} for a in gen_union_record(rng, tier)),
         impl_union_record,
         describe="a real UnionNode fed by the lxml handler's loop (live element.attrib views, element.clear() at every end) "
                  "vs model unionRecord: the recorded start events keep the document's attributes"),
    Corr("c08.lxml_text", gen_lxml_text, impl_lxml_text, classify=classify_lxml_text,
         describe="get_text / get_tail of the lxml handler on the tree libxml2 builds (comments and PIs as nodes, or comments "
                  "dropped as by iterparse) vs model view + joinTails; all content sequences up to 4 items, then random nested"),
    Corr("c08.pump", gen_pump, impl_pump,
         describe="XmlEventHandler.parse(bytes) on a stub parser (random node-map plans) vs model toks+pump"),
    Corr("c08.iterwalk", gen_iterwalk, impl_iterwalk,
         describe="XmlEventHandler.parse(ElementTree element) (iterwalk/load_prefix) vs model"),
    Corr("c08.inscope", gen_inscope, impl_inscope,
         describe="LxmlEventHandler (element.nsmap) vs the in-scope specification of the model"),
]


# ============================================================================
# known findings (replayed on the real code)
# ============================================================================
def _any():
    from xsdata.formats.dataclass.models.generics import AnyElement

    return AnyElement




FINDINGS = {}

TRUSTED = [
    "expat / libxml2 tokenisers, lxml's ElementTreeContentHandler, etree.tostring and XMLGenerator's text output are external: "
    "they enter through the correspondence ops (documents re-read by lxml) and the oracles only",
    "lxml's element.nsmap is assumed to be the in-scope namespace bindings (checked by op c08.inscope)",
    "lxml.etree.indent is compiled code: modelled as a tree transformation and checked by op c08.indent",
    "metadata (XmlMeta/XmlVar) is exported from the real XmlContext.build and is an input of the model",
]
ASSUMPTIONS = [
    "ElementTree sources have lost the document's prefixes; QName-valued content, xsi:type and prefixed-looking values are "
    "excluded from the comparison for those sources (inherent, documented upstream)",
    "from_string encodes as UTF-8; documents declaring another encoding are outside the str source",
]
LEVEL_TEXT = "proof for the Python glue of the back-ends (indentation bookkeeping, prefix-map reconstruction); agreement with the C back-ends by correspondence"
LEVEL_NOTE = (
    "native_nsmap_inscope holds at full strength for all documents of the model (the handler keeps the in-scope maps itself); "
    "indent_ws_only holds at full strength too (mixed content included) since the native writer writes no indentation right "
    "after character data; indent_writers_agree ties the native text to the lxml tree up to layout for every indent"
)
