/-
C01 helper lemmas, part 5: reading the decidable side conditions of fragment F1
and the pieces of the main induction that do not need the induction hypothesis
(`parseNode` on an element node, `class_factory`, `convert_dataclass` unfolded).
-/
import XsdataModel.Proofs.C01Kids

namespace Proofs.C01
open Py Xs.Bind Xs.Bind.F1

/-! ### reading the decidable side conditions -/

structure MetaFacts (ns : Bool) (Γ : Ctx) (ci : ClassInfo) (m : XmlMeta) : Prop where
  clazz : m.clazz = ci.id
  nillable : m.nillable = false
  qne : m.qname ≠ []
  wild : m.wildcards = []
  choices : m.choices = []
  anyAttrs : m.anyAttributes = []
  wrappers : m.wrappers = []
  attrs : ∀ var ∈ m.attributeVars, attrVarOK m ci var = true
  attrNodup : (m.attributeVars.map (·.qname)).Nodup
  body : match m.text with
    | none => ∀ var ∈ m.elementVars, elemVarOK ns Γ m ci var = true
    | some tv => m.elementVars = [tv] ∧ textVarOK ci tv = true
  idxNodup : (m.elementVars.map (·.index)).Nodup
  nameNodup : ((m.attributeVars ++ m.elementVars).map (·.name)).Nodup
  fieldNodup : (ci.fields.map (·.name)).Nodup
  covered : ∀ f ∈ ci.fields, ∃ var ∈ m.attributeVars ++ m.elementVars, var.name = f.name

theorem metaFacts_of {ns : Bool} {Γ : Ctx} {ci : ClassInfo} {m : XmlMeta} (h : metaF1 ns Γ ci m = true) :
    MetaFacts ns Γ ci m := by
  simp only [metaF1, Bool.and_eq_true, decide_eq_true_eq, Bool.not_eq_true', List.isEmpty_iff,
    List.all_eq_true, List.any_eq_true] at h
  obtain ⟨⟨⟨⟨⟨⟨⟨⟨⟨⟨⟨⟨⟨h1, h2⟩, h3⟩, h4⟩, h5⟩, h6⟩, h7⟩, h8⟩, h9⟩, h10⟩, h11⟩, h12⟩, h13⟩, h14⟩ := h
  refine ⟨h1, h2, ?_, h4, h5, h6, h7, h8, h9, ?_, h11, h12, h13, ?_⟩
  · intro hq; simp [hq] at h3
  · cases ht : m.text with
    | none => simpa [ht] using h10
    | some tv => simpa [ht] using h10
  · intro f hf
    obtain ⟨var, hv, hn⟩ := h14 f hf
    exact ⟨var, hv, by simpa using hn⟩

theorem metaFor_mem {ci : ClassInfo} {pns : Option Str} {m : XmlMeta}
    (h : ci.metaFor pns = some m) : ∃ p, (p, m) ∈ ci.metas := by
  unfold ClassInfo.metaFor at h
  split at h
  · rename_i p m' hf
    cases h
    exact ⟨p, List.mem_of_find?_eq_some hf⟩
  · cases hm : ci.metas with
    | nil => simp [hm] at h
    | cons a t =>
      simp [hm] at h
      exact ⟨a.1, by rw [← h]; simp⟩

theorem ctx_metaFacts {ns : Bool} {Γ : Ctx} (hΓ : ctxF1G ns Γ = true) {c : ClassId} {ci : ClassInfo}
    (hfind : Γ.find c = some ci) {pns : Option Str} {m : XmlMeta}
    (hm : ci.metaFor pns = some m) : MetaFacts ns Γ ci m := by
  have hci : ci ∈ Γ.classes := List.mem_of_find?_eq_some hfind
  obtain ⟨p, hp⟩ := metaFor_mem hm
  simp only [ctxF1G, List.all_eq_true, Bool.and_eq_true] at hΓ
  exact metaFacts_of ((hΓ ci hci).2 (p, m) hp)

theorem find_id {Γ : Ctx} {c : ClassId} {ci : ClassInfo} (h : Γ.find c = some ci) : ci.id = c := by
  have := List.find?_some h
  simpa using this


/-- pointwise relation between two lists -/
inductive All2 {α β : Type} (R : α → β → Prop) : List α → List β → Prop
  | nil : All2 R [] []
  | cons {a b l l'} : R a b → All2 R l l' → All2 R (a :: l) (b :: l')

theorem mapM_exists {α β ε : Type} (f : α → Except ε β) (R : α → β → Prop) (l : List α)
    (h : ∀ x ∈ l, ∃ y, f x = .ok y ∧ R x y) : ∃ ys, l.mapM f = .ok ys ∧ All2 R l ys := by
  induction l with
  | nil => exact ⟨[], rfl, All2.nil⟩
  | cons a t ih =>
    obtain ⟨y, hy, hr⟩ := h a (by simp)
    obtain ⟨ys, hys, hrs⟩ := ih (fun x hx => h x (by simp [hx]))
    refine ⟨y :: ys, ?_, All2.cons hr hrs⟩
    rw [List.mapM_cons, hy, hys]; rfl

theorem BodyW_forall₂ {M : NsMap} {isDt : Str → Bool} {α : Type} (fs : α → List Sax) :
    ∀ (l : List α) (ys : List (List Ev)),
      All2 (fun x evs => BodyW M isDt evs (fs x)) l ys →
      BodyW M isDt ys.flatten (l.flatMap fs) := by
  intro l ys h
  induction h with
  | nil => exact BodyW_nil M isDt
  | cons h1 _ ih =>
    simp only [List.flatten_cons, List.flatMap_cons]
    exact h1.append ih

theorem attrParams_get_none (cfg : SerCfg) (fields : List (Str × Val)) {k : Str} :
    ∀ vars : List XmlVar, k ∉ vars.map (·.name) → (attrParams cfg vars fields).get k = none := by
  intro vars
  induction vars with
  | nil => intro _; rfl
  | cons v t ih =>
    intro hk
    simp only [List.map_cons, List.mem_cons, not_or] at hk
    simp only [attrParams, List.filterMap_cons]
    cases attrOf cfg fields v with
    | none => exact ih hk.2
    | some p =>
      simp only [Option.map_some]
      rw [Params.get_cons]
      simp only [Ne.symm hk.1, if_false]
      exact ih hk.2

theorem attrParams_get (cfg : SerCfg) (fields : List (Str × Val)) :
    ∀ vars : List XmlVar, (vars.map (·.name)).Nodup → ∀ var ∈ vars,
      (attrParams cfg vars fields).get var.name = (attrOf cfg fields var).map Val.prim := by
  intro vars
  induction vars with
  | nil => intro _ var hv; cases hv
  | cons v t ih =>
    intro hnd var hvar
    simp only [List.map_cons, List.nodup_cons] at hnd
    rcases List.mem_cons.1 hvar with rfl | hvt
    · simp only [attrParams, List.filterMap_cons]
      cases ha : attrOf cfg fields var with
      | none => simpa [attrParams] using attrParams_get_none cfg fields t hnd.1
      | some p => simp [Params.get_cons]
    · have hne : v.name ≠ var.name := by
        intro heq; exact hnd.1 (List.mem_map.2 ⟨var, hvt, heq.symm⟩)
      simp only [attrParams, List.filterMap_cons]
      cases attrOf cfg fields v with
      | none => exact ih hnd.2 var hvt
      | some p =>
        simp only [Option.map_some]
        rw [Params.get_cons]
        simp only [hne, if_false]
        exact ih hnd.2 var hvt

theorem find?_of_nodup {fs : List FieldInfo} (hnd : (fs.map (·.name)).Nodup) {f : FieldInfo}
    (hf : f ∈ fs) : fs.find? (·.name = f.name) = some f := by
  induction fs with
  | nil => cases hf
  | cons a t ih =>
    simp only [List.map_cons, List.nodup_cons] at hnd
    rcases List.mem_cons.1 hf with rfl | ht
    · simp
    · have hne : a.name ≠ f.name := by
        intro heq; exact hnd.1 (List.mem_map.2 ⟨f, ht, heq.symm⟩)
      simp [List.find?_cons, hne, ih hnd.2 ht]

theorem look_of_mem {fields : List (Str × Val)} (hnd : (fields.map (·.1)).Nodup) {kv : Str × Val}
    (h : kv ∈ fields) : look fields kv.1 = kv.2 := by
  induction fields with
  | nil => cases h
  | cons a t ih =>
    simp only [List.map_cons, List.nodup_cons] at hnd
    rcases List.mem_cons.1 h with rfl | ht
    · simp [look]
    · have hne : a.1 ≠ kv.1 := by
        intro heq; exact hnd.1 (List.mem_map.2 ⟨kv, ht, heq.symm⟩)
      have := ih hnd.2 ht
      simp only [look] at this ⊢
      simp [List.find?_cons, hne, this]

theorem fields_eq_look {fields : List (Str × Val)} (hnd : (fields.map (·.1)).Nodup) :
    (fields.map (·.1)).map (fun k => (k, look fields k)) = fields := by
  rw [List.map_map]
  conv => rhs; rw [← List.map_id fields]
  apply List.map_congr_left
  intro kv hkv
  simp [look_of_mem hnd hkv]

theorem map_some_filterMap {fs : List FieldInfo} {fields : List (Str × Val)}
    (g : FieldInfo → Option (Str × Val))
    (hg : ∀ f ∈ fs, g f = some (f.name, look fields f.name)) :
    (fs.map g).all Option.isSome = true ∧
      (fs.map g).filterMap id = (fs.map (·.name)).map (fun k => (k, look fields k)) := by
  induction fs with
  | nil => simp
  | cons a t ih =>
    have := ih (fun f hf => hg f (by simp [hf]))
    simp only [List.map_cons, List.all_cons, hg a (by simp), Option.isSome_some, Bool.true_and,
      this.1, List.filterMap_cons, id, this.2, and_self]

theorem classFactory_F1 (Γ : Ctx) {c : ClassId} {ci : ClassInfo} (hfind : Γ.find c = some ci)
    (fields : List (Str × Val)) (P : Params)
    (hnames : fields.map (·.1) = ci.fields.map (·.name)) (hnd : (ci.fields.map (·.name)).Nodup)
    (h : ∀ f ∈ ci.fields, f.init = true ∧ (P.get f.name = some (look fields f.name) ∨
      (P.get f.name = none ∧ f.default = some (look fields f.name)))) :
    classFactory Γ c P = .ok (.obj c fields) := by
  unfold classFactory
  simp only [hfind]
  have key : ∀ g : FieldInfo → Option (Str × Val),
      (∀ f ∈ ci.fields, g f = some (f.name, look fields f.name)) →
      (if ((ci.fields.map g).all Option.isSome) = true
        then Except.ok (Val.obj c ((ci.fields.map g).filterMap id))
        else Except.error (Err.parser "Failed to create")) = Except.ok (Val.obj c fields) := by
    intro g hg
    have := map_some_filterMap (fields := fields) g hg
    rw [this.1, this.2, ← hnames, fields_eq_look (by rw [hnames]; exact hnd)]
    rfl
  apply key
  intro f hf
  obtain ⟨hi, hc⟩ := h f hf
  rcases hc with hc | ⟨hc, hd⟩
  · simp only [hi, hc, if_true]
  · simp only [hi, hc, hd, if_true]


theorem parseNode_element_F1 (e : BEnv) (Γ : Ctx) (pcfg : ParserConfig) (m : XmlMeta) (q : QN)
    (a : List (QN × Str)) (M : NsMap) (text : Option Str) (kids : List Tree)
    (entries : List (XmlVar × Val)) (asg : List Nat) (PA PT : Params) (bt : Bool) (v : Val)
    (hc : m.choices = []) (hw : m.wildcards = [])
    (hK : parseKids e Γ pcfg m {} none kids =
      .ok (⟨entries.map (fun en => (some en.1.qname, en.2)), 0⟩, ⟨asg, []⟩))
    (hE : ∀ en ∈ entries, ElemFacts m en.1)
    (hA : bindAttrs e pcfg m a M = .ok (PA, 0))
    (hT : bindText e pcfg m none M (bindEntries PA entries) text = .ok (bt, PT, 0))
    (hF : classFactory Γ m.clazz PT = .ok v) :
    parseNode e Γ pcfg (.element m a M false none none) (.node q a M text kids none) =
      .ok ⟨[(some q, v)], 0⟩ := by
  rw [parseNode]
  simp only [hK, bind, Except.bind, hA, XmlMeta.findAnyWildcard, hw, List.head?_nil]
  rw [bindObjects_gen (m := m) _ ?_ entries PA hE]
  · simp [hT, hF, normalizeContent, pure, Except.pure]
  · intro P var y hf
    obtain ⟨b, hb⟩ := bindObject_F1 hf hc hw P y
    simp [hb, bind, Except.bind, pure, Except.pure]


theorem nextAttribute_dropQ (cfg : SerCfg) (m : XmlMeta) (fields : List (Str × Val)) (b : Bool)
    (x : Option QN) : nextAttribute cfg (dropQ m) fields b x = nextAttribute cfg m fields b x := rfl

theorem nextValue_dropQ (m : XmlMeta) (fields : List (Str × Val)) :
    nextValue (dropQ m) fields = nextValue m fields := rfl


/-- the element name `convert_dataclass` writes -/
def resolveQ (oq : Option QN) (m : XmlMeta) : QN :=
  match oq with
  | some q => if q.isEmpty then m.qname else q
  | none => m.qname

/-- `convert_value` of one (var, value) pair plus the wrapper element -/
def genField (e : BEnv) (Γ : Ctx) (cfg : SerCfg) (f : Nat) (ns : Option Str) (vv : XmlVar × Val) :
    Except Err (List Ev) := do
  let inner ← genValue e Γ cfg f vv.2 vv.1 ns
  match vv.1.wrapperQName with
  | some w => pure ([Ev.start w] ++ inner ++ [Ev.end w])
  | none => pure inner

theorem genObj_unfold (e : BEnv) (Γ : Ctx) (cfg : SerCfg) (f : Nat) (c : ClassId)
    (fields : List (Str × Val)) (pns : Option Str) (oq : Option QN) (m : XmlMeta)
    (hm : metaOf Γ c pns = some m) (hn : m.nillable = false) :
    genObj e Γ cfg (f + 1) (.obj c fields) pns oq false none = (do
      let attrs ← nextAttribute cfg m fields false none
      let vals ← nextValue m fields
      let body ← vals.mapM (genField e Γ cfg f (targetUri m.qname))
      return [Ev.start (resolveQ oq m)] ++ attrs ++ body.flatten ++ [Ev.end (resolveQ oq m)]) := by
  have hfetch : Γ.fetch c pns none = .ok m := by
    simp only [metaOf] at hm
    simp [Ctx.fetch, hm]
  rw [genObj]
  simp only [hfetch, hn, bind, Except.bind, Bool.or_false]
  rfl

/-! ### sizes -/

theorem size_le_sizeFields {fields : List (Str × Val)} {kv : Str × Val} (h : kv ∈ fields) :
    kv.2.size ≤ sizeFields fields := by
  induction fields with
  | nil => cases h
  | cons a t ih =>
    obtain ⟨k, w⟩ := a
    rcases List.mem_cons.1 h with rfl | ht
    · simp [sizeFields]
    · have := ih ht
      simp only [sizeFields]; omega

theorem look_size (fields : List (Str × Val)) (name : Str) :
    (look fields name).size ≤ 1 + sizeFields fields := by
  unfold look
  split
  · rename_i k x hf
    have := size_le_sizeFields (List.mem_of_find?_eq_some hf)
    simp at this; omega
  · simp [Val.size]

theorem size_le_sizeList {xs : List Val} {y : Val} (h : y ∈ xs) : y.size ≤ sizeList xs := by
  induction xs with
  | nil => cases h
  | cons a t ih =>
    rcases List.mem_cons.1 h with rfl | ht
    · simp [sizeList]
    · have := ih ht
      simp only [sizeList]; omega

/-! ### the side conditions of one var -/

theorem fieldAgrees_iff {ci : ClassInfo} {v : XmlVar} : fieldAgrees ci v = true ↔
    ∃ f, ci.fields.find? (·.name = v.name) = some f ∧ f.init = true ∧
      defaultAgrees v.default f.default = true := by
  unfold fieldAgrees
  cases hf : ci.fields.find? (·.name = v.name) with
  | none => simp
  | some f => simp

theorem fdNone_iff {ci : ClassInfo} {name : Str} : fdNone ci name = true ↔
    ∃ f, ci.fields.find? (·.name = name) = some f ∧ f.default = some .none := by
  unfold fdNone
  cases hf : ci.fields.find? (·.name = name) with
  | none => simp
  | some f =>
    simp only [Option.some.injEq, exists_eq_left']
    split <;> simp_all

theorem fdEmptyStr_iff {ci : ClassInfo} {name : Str} : fdEmptyStr ci name = true ↔
    ∃ f, ci.fields.find? (·.name = name) = some f ∧ f.default = some (.prim (.str [])) := by
  unfold fdEmptyStr
  cases hf : ci.fields.find? (·.name = name) with
  | none => simp
  | some f =>
    simp only [Option.some.injEq, exists_eq_left']
    split <;> simp_all

theorem mem_names_of_find {ci : ClassInfo} {name : Str} {f : FieldInfo}
    (h : ci.fields.find? (·.name = name) = some f) : name ∈ ci.fields.map (·.name) := by
  have h1 := List.mem_of_find?_eq_some h
  have h2 := List.find?_some h
  exact List.mem_map.2 ⟨f, h1, by simpa using h2⟩

theorem attrFacts_of {Γ : Ctx} {m : XmlMeta} {ci : ClassInfo} {fields : List (Str × Val)}
    {var : XmlVar} (hv : attrVarOK m ci var = true)
    (hx : attrValOK true Γ ci var (look fields var.name) = true)
    (hnames : fields.map (·.1) = ci.fields.map (·.name)) : AttrFacts Γ m fields var := by
  simp only [attrVarOK, varBase, Bool.and_eq_true, decide_eq_true_eq, Bool.not_eq_true'] at hv
  obtain ⟨⟨⟨⟨⟨⟨⟨hA, hB⟩, _⟩, hfind⟩, hnil⟩, hty⟩, htypes⟩, hfa⟩ := hv
  obtain ⟨⟨⟨⟨⟨⟨⟨⟨hinit, _⟩, htok⟩, _⟩, _⟩, _⟩, _⟩, _⟩, _⟩ := hB
  obtain ⟨f, hf, _, _⟩ := fieldAgrees_iff.1 hfa
  refine ⟨hA, hinit, htok, hfind, hnil, hty, by rw [hnames]; exact mem_names_of_find hf, ?_⟩
  unfold attrValOK at hx
  split at hx
  · rename_i t htp
    refine ⟨t, htp, ?_⟩
    split at hx
    · exact Or.inl (by assumption)
    · rename_i p hp
      simp only [Bool.and_eq_true] at hx
      exact Or.inr ⟨p, hp, hx.1, hx.2⟩
    · cases hx
  · cases hx

/-- which of the two kinds of element var -/
inductive ElemKind (Γ : Ctx) (m : XmlMeta) (var : XmlVar) : Prop
  | prim (t : PT) (hc : var.clazz = none) (ht : var.types = [.prim t])
      (hd : if var.listElement then var.default = .listFactory else scalarDefault var.default t = true)
  | cls (c : ClassId) (m' : XmlMeta) (hc : var.clazz = some c) (ht : var.types = [.cls c])
      (hd : if var.listElement then var.default = .listFactory else var.default = .none)
      (hm : metaOf Γ c (targetUri m.qname) = some m')

theorem elemFacts_of {ns : Bool} {Γ : Ctx} {m : XmlMeta} {ci : ClassInfo} {var : XmlVar}
    (hv : elemVarOK ns Γ m ci var = true) :
    ElemFacts m var ∧ ElemKind Γ m var ∧ fieldAgrees ci var = true := by
  simp only [elemVarOK, varBase, Bool.and_eq_true, decide_eq_true_eq, Bool.not_eq_true',
    VarCore.isElement, Option.isNone_iff_eq_none] at hv
  obtain ⟨⟨⟨⟨⟨hA, hB⟩, hidx⟩, hfind⟩, hkind⟩, hfa⟩ := hv
  obtain ⟨⟨⟨⟨⟨⟨⟨⟨hinit, hmixed⟩, htok⟩, hany⟩, hnillable⟩, hseq⟩, hwrap⟩, hunion⟩, hq⟩ := hB
  refine ⟨⟨hA, hinit, hmixed, htok, hany, hnillable, hseq, hwrap, hunion, ?_, hidx, hfind⟩, ?_, hfa⟩
  · intro h; simp [h] at hq
  · split at hkind
    · rename_i t hc ht
      simp only [Bool.and_eq_true] at hkind
      refine ElemKind.prim t hc ht ?_
      have := hkind.2
      split at this <;> simp_all
    · rename_i c c' hc ht
      simp only [Bool.and_eq_true, decide_eq_true_eq] at hkind
      obtain ⟨⟨hcc, hd⟩, hm⟩ := hkind
      subst hcc
      split at hm
      · rename_i m' hm'
        refine ElemKind.cls c m' hc ht ?_ hm'
        split at hd <;> simp_all
      · cases hm
    · cases hkind

end Proofs.C01
