"""C11 — arbitrary XML survives the generic element model (AnyElement, wildcards, TreeParser)."""
import copy
import json
import random

import bindgen as G
import bindlib as B
import c11_lib as L
from framework import Corr, Oracle

PROP_ID = "C11"
DESIGN_REF = "6/C11"

from bindcases import *  # noqa: F401,F403
from bindcases import _UNIS  # noqa: F401

QNAMES = ["x", "{urn:a}x", "{urn:b}y", "{urn:t}z", "{urn:t}x", "{##any}q", "{!urn:t}q", "{}x", "{http://example.com/ns}e"]


# ====================================================================== correspondence
# ---------------------------------------------------------------- c11.tree (TreeParser)
def gen_tree(rng, tier):
    for t in L.exhaustive_small(2):
        yield {"tree": t}
    for t in L.shape_samples(rng, 5, n_cases(tier, 2, 12)):
        yield {"tree": t}
    for _ in range(n_cases(tier, 600, 6000)):
        yield {"tree": L.rand_tree(rng, rng.randint(1, 12), clean=rng.random() < 0.6)}


def impl_tree(a):
    try:
        return {"ok": L.any_json(L.real_tree_parse_events(a["tree"]))}
    except Exception as e:  # noqa: BLE001
        return B.classify_exc(e)


# ---------------------------------------------------------------- c11.match
NS_SPECS = [None, "", "##any", "##other", "##local", "##targetNamespace", "##other ##local", "##local ##targetNamespace",
            "urn:a", "urn:a urn:b", "urn:a ##local", "  ##any  ", "##other\t##targetNamespace", "http://example.com/ns ##other"]
PARENTS = [None, "", "urn:t", "urn:a", "http://example.com/ns"]


def gen_match(rng, tier):
    for ns in NS_SPECS:
        for pns in PARENTS:
            for inh in (True, False):
                yield {"namespace": ns, "parent": pns, "inherits": inh, "qnames": QNAMES}


def impl_match(a):
    from xsdata.formats.dataclass.models.builders import XmlVarBuilder
    from xsdata.formats.dataclass.models.elements import XmlType, XmlVar

    xml_type = XmlType.WILDCARD if a["inherits"] else XmlType.ATTRIBUTES
    nss = XmlVarBuilder.resolve_namespaces(xml_type, a["namespace"], a["parent"])
    var = XmlVar(
        name="w", local_name="w", wrapper=None, xml_type=xml_type, index=0, types=(object,), clazz=None, init=True,
        mixed=False, factory=None, tokens_factory=None, format=None, derived=False, any_type=False,
        process_contents="strict", required=False, nillable=False, sequence=None, default=None, namespaces=nss,
        elements={}, wildcards=(),
    )
    return {"ok": {"namespaces": sorted(set(nss)), "matches": [bool(var.match_namespace(q)) for q in a["qnames"]]}}


# ---------------------------------------------------------------- c11.anyrt (the generic pipeline)
PRES = [None, "none", {"str": "lead"}, {"str": ""}, {"str": " "}]


def anyrt_case(rng, kind, nsmode, nillable, pre, trees):
    u, desc, ctx = L.host(kind, nsmode, None, nillable=nillable)
    var = L.wildcard_var(u, kind)
    return {"ctx": ctx, "var": u.export_var(var), "host": "H", "pre": pre, "trees": trees,
            "_kind": kind, "_nsmode": nsmode, "_nillable": nillable, "_uni": u.modname, "desc": desc}


def clean_for_model(t):
    """c11.anyrt compares written documents; a nested `xsi:type` is QName-valued data for the real
    writer (it allocates a prefix), which the abstract writer of the model does not do for `str`
    payloads: keep those for the oracle and bind.roundtrip, out of this op"""
    t = copy.deepcopy(t)

    def go(n):
        n["a"] = [x for x in n["a"] if x[0] != L.XSI_TYPE]
        for c in n["c"]:
            go(c)

    go(t)
    return t


def gen_anyrt(rng, tier):
    small = L.exhaustive_small(2)
    step = n_cases(tier, 7, 1)
    for i, t in enumerate(small):
        if i % step == 0:
            yield anyrt_case(rng, "list", "##any", False, None, [t])
    for t in L.shape_samples(rng, 5, n_cases(tier, 2, 10)):
        yield anyrt_case(rng, rng.choice(L.KINDS), "##any", rng.random() < 0.3, rng.choice(PRES), [t])
    for _ in range(n_cases(tier, 700, 6000)):
        trees = [clean_for_model(L.rand_tree(rng, rng.randint(1, 9), clean=rng.random() < 0.6)) for _ in range(rng.randint(0, 3))]
        yield anyrt_case(rng, rng.choice(L.KINDS), rng.choice(L.NSMODES), rng.random() < 0.3, rng.choice(PRES), trees)


def impl_anyrt(a):
    u = uni_of(a)
    var = L.wildcard_var(u, a["_kind"])
    try:
        return {"ok": L.real_any_roundtrip(u, var, a["host"], a["pre"], a["trees"])}
    except Exception as e:  # noqa: BLE001
        return B.classify_exc(e)


def canon_anyrt(o):
    if isinstance(o, dict) and "ok" in o and isinstance(o["ok"].get("tree"), dict) and "q" in o["ok"]["tree"]:
        o = copy.deepcopy(o)
        o["ok"]["tree"] = L.strip_ns(o["ok"]["tree"])
    return o


def classify_anyrt(a, o):
    if "ok" not in o:
        return o.get("err", "?")
    t = o["ok"]["tree"]
    if "q" not in t:
        return "write:" + str(t.get("err"))
    want = L.norm(L.node("H", [], (a["pre"] or {}).get("str") if isinstance(a["pre"], dict) else None, a["trees"]))
    return "preserved" if L.first_diff(want, L.norm(t)) is None else "changed"


# ---------------------------------------------------------------- c11.field / c11.mixed (the binder pipelines of the theorems)
def field_case(rng, kind, nillable, trees, text=None):
    u, desc, ctx = L.host(kind, "##any", None, nillable=nillable)
    var = L.wildcard_var(u, kind)
    a = {"ctx": ctx, "var": u.export_var(var), "host": "H", "trees": trees, "_kind": kind, "_nillable": nillable,
         "_uni": u.modname, "desc": desc}
    if kind == "mixed":
        a["text"] = text
    return a


def _field_trees(rng, tier):
    for t in L.shape_samples(rng, 5, n_cases(tier, 1, 6)):
        yield [t]
    for _ in range(n_cases(tier, 350, 3000)):
        yield [clean_for_model(L.rand_tree(rng, rng.randint(1, 7), clean=rng.random() < 0.6)) for _ in range(rng.choice([0, 1, 1, 2, 2, 3, 4]))]


def gen_field(rng, tier):
    for trees in _field_trees(rng, tier):
        yield field_case(rng, rng.choice(["list", "single"]), rng.random() < 0.3, trees)


def gen_mixed(rng, tier):
    for trees in _field_trees(rng, tier):
        yield field_case(rng, "mixed", rng.random() < 0.3, trees, rng.choice([None, None, "lead", "", " \n", " pad ", "x<y"]))


def impl_field(a):
    u = uni_of(a)
    var = L.wildcard_var(u, a["_kind"])
    try:
        if a["_kind"] == "mixed":
            return {"ok": L.real_mixed_roundtrip(u, var, a["host"], a["text"], a["trees"])}
        return {"ok": L.real_field_roundtrip(u, var, a["host"], a["trees"])}
    except Exception as e:  # noqa: BLE001
        r = B.classify_exc(e)
        return {"err": "SerializerError"} if r.get("err") == "LEAK:XmlWriterError" else r


def canon_tree_out(o):
    if isinstance(o, dict) and isinstance(o.get("ok"), dict) and "q" in o["ok"]:
        return {"ok": L.strip_ns(o["ok"])}
    return o


def classify_field(a, o):
    if "ok" not in o:
        return o.get("err", "?")
    text = a.get("text")
    want = L.norm(L.node("H", [], None if L.is_blank(text) else text, a["trees"]))
    return "preserved" if L.first_diff(want, L.norm(o["ok"])) is None else "changed"


# ---------------------------------------------------------------- c11.norm (the ≈ws of the theorems = the ≈ws of the oracles)
def gen_norm(rng, tier):
    for t in L.exhaustive_small(2)[:: n_cases(tier, 3, 1)]:
        yield {"tree": t}
    for _ in range(n_cases(tier, 300, 3000)):
        yield {"tree": clean_for_model(L.rand_tree(rng, rng.randint(1, 9), clean=False))}


def _as_tree(n):
    return {"q": n["q"], "a": n["a"], "ns": [], "t": n["t"], "c": [_as_tree(c) for c in n["c"]], "tl": n["tl"]}


def impl_norm(a):
    """the harness's own normal form (harness/c11_lib.norm, used by the oracles), in the JSON shape of a Tree"""
    return {"ok": _as_tree(L.norm(a["tree"]))}


def canon_norm(o):
    def go(n):
        return {**n, "a": sorted(n["a"]), "c": [go(c) for c in n["c"]]}

    return {"ok": go(o["ok"])} if isinstance(o, dict) and "ok" in o else o


# ---------------------------------------------------------------- bind.parse / bind.roundtrip on hosts
def host_cases(rng, tier, n):
    """documents of typed hosts with a wildcard placement: (universe, ctx, desc, tree, info)"""
    for _ in range(n):
        kind = rng.choice(L.KINDS)
        nsmode = rng.choice(L.NSMODES)
        target = rng.choice([None, "urn:t", "urn:t"])
        attributes = rng.random() < 0.3
        head = rng.random() < 0.3 and kind != "mixed"
        u, desc, ctx = L.host(kind, nsmode, target, attributes, head)
        admitted = L.admitted_namespaces(nsmode, target)
        r = rng.random()
        top = admitted if (admitted and r < 0.85) else [None, "urn:a", "urn:b", "urn:t"]
        n_top = rng.choice([0, 1, 1, 2, 3])
        forest = []
        outer = None
        for _ in range(n_top):
            t = L.rand_tree(rng, rng.randint(1, 6), clean=rng.random() < 0.6, top_ns=top)
            if rng.random() < 0.12:
                # QName-typed primitive whose prefix is declared on the element itself / re-bound / defaulted
                t, o = L.qname_leaf(rng, t["q"], t["tl"])
                outer = outer or o
                if rng.random() < 0.1:
                    t["t"] = rng.choice(["zz:bar", "a b", "w:"])      # not a QName in scope (correspondence only)
                forest.append(t)
                continue
            if rng.random() < 0.12:
                # an xsi:type'd primitive as direct wildcard content
                ty, tx = rng.choice([("xs:string", "s"), ("xs:boolean", "true"), ("xs:short", "5"), ("xs:int", "5"),
                                     ("xs:boolean", "1"), ("xs:string", ""), ("p:unknown", "u")])
                t = L.node(t["q"], [[L.XSI_TYPE, ty]] + ([["k", "v"]] if rng.random() < 0.3 else []), tx, [], t["tl"])
            if kind == "choice" and rng.random() < 0.2:
                t = L.node(L.qn(target, "known"), [], rng.choice(["s", "", " a "]), [], t["tl"])
            forest.append(t)
        if kind not in ("mixed",) and rng.random() < 0.6:
            for t in forest:
                t["tl"] = rng.choice([None, " ", "\n  "])   # no mixed content around the children
        text = rng.choice([None, None, "\n ", "lead"]) if kind in ("mixed", "single", "list") else rng.choice([None, "\n "])
        root_attrs = [["ra", "1"], ["{urn:b}rb", "x y"]][: rng.randint(0, 2)] if attributes else []
        doc = L.host_doc(kind, target, forest, text, root_attrs, rng.choice(["h", ""]) if head else None)
        if outer:
            L.bind_outer(doc, *outer)
        yield u, ctx, desc, doc, {"kind": kind, "nsmode": nsmode, "target": target}


def gen_parse_hosts(rng, tier):
    for u, ctx, desc, doc, info in host_cases(rng, tier, n_cases(tier, 1500, 12000)):
        yield {"ctx": ctx, "tree": doc, "clazz": "Root", "config": rng.choice(CONFIGS[:3]), "desc": desc,
               "_uni": u.modname, "_kind": info["kind"] + "/" + info["nsmode"], "_info": info}


def gen_roundtrip_hosts(rng, tier):
    for u, ctx, desc, doc, info in host_cases(rng, tier, n_cases(tier, 1000, 8000)):
        r = B.real_parse_tree(u, "Root", doc, {})
        if "ok" not in r:
            continue
        yield {
            "ctx": ctx, "value": r["ok"]["value"], "clazz": "Root", "config": {}, "desc": desc, "_uni": u.modname,
            "ignore_default_attributes": False, "writer": rng.choice(["native", "lxml"]), "handler": rng.choice(["native", "lxml"]),
            "indent": None, "xml_declaration": rng.random() < 0.5, "_info": info, "tree": doc,
        }


def impl_roundtrip_c11(a):
    r = impl_roundtrip(a)
    if r.get("err") == "LEAK:XmlWriterError":
        # the binding model reports the writer's XmlWriterError as SerializerError
        return {"err": "SerializerError"}
    return r


CORRS = [
    Corr("c11.tree", gen_tree, impl_tree,
         describe="TreeParser (EventsHandler) vs model treeParse on bounded-exhaustive and random trees"),
    Corr("c11.match", gen_match, impl_match,
         describe="XmlVarBuilder.resolve_namespaces + XmlVar.match_namespace vs model on all keyword combinations"),
    Corr("c11.anyrt", gen_anyrt, impl_anyrt, canon=canon_anyrt, classify=classify_anyrt,
         describe="real WildcardNode + convert_any_type + XmlEventWriter (+lxml re-read) vs model wildRoundtrip"),
    Corr("c11.field", gen_field, impl_field, canon=canon_tree_out, classify=classify_field,
         describe="real WildcardNode + ElementNode.bind_wild_var + convert_value + writer vs model fieldRoundtrip (list and single)"),
    Corr("c11.mixed", gen_mixed, impl_field, canon=canon_tree_out, classify=classify_field,
         describe="real bind_mixed_objects + bind_wild_text + convert_value + writer vs model mixedRoundtrip"),
    Corr("c11.norm", gen_norm, impl_norm, canon=canon_norm,
         describe="normTree of the theorems vs the oracles' own normal form (not library code: ties the two notions of ≈ws)"),
    Corr("bind.parse", gen_parse_hosts, impl_parse, compare=cmp_parse, classify=classify_parse,
         describe="NodeParser vs model on typed hosts with wildcard placements (single/list/mixed/choice x namespace modes)"),
    Corr("c11.roundtrip", gen_roundtrip_hosts, impl_roundtrip_c11, compare=cmp_parse, classify=classify_rt,
         describe="real serialize+parse of parsed generic content vs model generate+write+parse"),
]


# ====================================================================== oracles (real code only)
BUILTIN_PREFIX = "xs:"


def _walk(t, depth=0):
    yield t, depth
    for c in t["c"]:
        yield from _walk(c, depth + 1)


def _declared_prefixed(n, v):
    if ":" not in v or v.startswith("{"):
        return False
    p, rest = v.split(":", 1)
    return bool(p) and bool(rest) and not rest.startswith("//") and p in {x[0] for x in n["ns"]}


def is_typed_top(n, depth):
    """a direct child of the host that carries xsi:type naming a builtin datatype"""
    return depth == 1 and any(k == L.XSI_TYPE and v.startswith(BUILTIN_PREFIX) for k, v in n["a"])


# finding id -> (trigger(node, depth), neutralise(node, depth))
def _neut_prefixed(n, depth):
    n["a"] = [[k, ("v" if (k != L.XSI_TYPE and _declared_prefixed(n, v)) else v)] for k, v in n["a"]]


def _predict_prefixed(n, depth, a):
    """what the unchanged code returns under C11-anyattr-prefixed-value: the Clark form of the name the value
    denotes in the scope of its own element"""
    nsmap = {p: u for p, u in n["ns"]}
    if depth:
        n["a"] = [[k, (L.denote(v, nsmap) if k != L.XSI_TYPE else v)] for k, v in n["a"]]


def _tail_lost(a, n):
    """outside mixed content a DerivedElement has no slot for the tail of its element"""
    return a["kind"] != "mixed" and not L.is_blank(n["tl"])


def _neut_typed_attrs(n, depth, a):
    if is_typed_top(n, depth):
        n["a"] = [x for x in n["a"] if x[0] == L.XSI_TYPE]
        if _tail_lost(a, n):
            n["tl"] = None


CANON_TYPED = {("xs:int", "5"): ("xs:short", "5"), ("xs:boolean", "1"): ("xs:boolean", "true")}


def _neut_typed_canon(n, depth, a):
    if is_typed_top(n, depth):
        ty = next(v for k, v in n["a"] if k == L.XSI_TYPE)
        if (ty, n["t"]) in CANON_TYPED:
            ty2, t2 = CANON_TYPED[(ty, n["t"])]
            n["a"] = [[k, (ty2 if k == L.XSI_TYPE else v)] for k, v in n["a"]]
            n["t"] = t2


# finding id, trigger(node, depth, args), predict(node, depth, args): the finding's own description of what the
# unchanged code returns for that element (a failure is covered only if the output is exactly the prediction)
NEUTRALISE = [
    ("C11-anyattr-prefixed-value",
     lambda n, d, a: any(k != L.XSI_TYPE and _declared_prefixed(n, v) for k, v in n["a"]) and not (d == 0),
     _predict_prefixed),
    ("C11-xsitype-primitive-attrs-tail-dropped",
     lambda n, d, a: is_typed_top(n, d) and (len(n["a"]) > 1 or _tail_lost(a, n)), _neut_typed_attrs),
    ("C11-xsitype-primitive-recanonicalised",
     lambda n, d, a: is_typed_top(n, d) and (next(v for k, v in n["a"] if k == L.XSI_TYPE), n["t"]) in CANON_TYPED,
     _neut_typed_canon),
]


DENOTES = "[names denoted]"
PREFIXED = "C11-anyattr-prefixed-value"


def oracle_preserve(a, expect=None):
    """parse (native/lxml handler) -> serialize (native/lxml writer) -> independent re-read (lxml):
    the infoset of the document is unchanged modulo `≈ws`"""
    u, desc, ctx = L.host(a["kind"], a["nsmode"], a["target"], a.get("attributes", False), a.get("head", False))
    doc = a["tree"]
    data = G.tree_xml(doc)
    # `expect`: judge the outputs against another document (what a listed finding predicts) instead of the input
    read = G.xml_tree(data) if expect is None else G.xml_tree(G.tree_xml(expect))
    want = L.norm(read, host=True)
    want_d = L.norm(read, host=True, denoted=True)
    spelled = None
    for handler in ("native", "lxml"):
        from xsdata.formats.dataclass.context import XmlContext
        from xsdata.formats.dataclass.parsers import XmlParser
        from xsdata.formats.dataclass.parsers.handlers import LxmlEventHandler, XmlEventHandler

        h = XmlEventHandler if handler == "native" else LxmlEventHandler
        try:
            import warnings

            with warnings.catch_warnings():
                warnings.simplefilter("ignore")
                obj = XmlParser(context=XmlContext(models_package=u.modname), handler=h).from_bytes(data, u.classes["Root"])
        except Exception as e:  # noqa: BLE001
            return f"{handler}: generic content admitted by the wildcard is not parsed: {type(e).__name__}: {e}"
        # rendered with the defaults and with one set of options away from them (user prefix map: default namespace /
        # second prefix for a namespace of the document; xml declaration), a function of the document
        opts = L.render_options(doc)
        renders = [("", {}), (f" ns_map={opts['ns_map']}", {"ns_map": {p: x for p, x in opts["ns_map"]}, "xml_declaration": opts["xml_declaration"]})]
        for writer, (how, kw) in [(w, r) for w in ("native", "lxml") for r in renders]:
            try:
                xml = G.real_serialize(u, obj, writer=writer, **{k: (dict(v) if isinstance(v, dict) else v) for k, v in kw.items()})
                back = G.xml_tree(xml.encode())
            except Exception as e:  # noqa: BLE001
                return f"{handler}/{writer}{how}: serializing the parsed generic content failed: {type(e).__name__}: {e}"
            writer = writer + how
            # first: what every attribute value denotes in the scope of its element (however it is spelled) ...
            d = L.first_diff(want_d, L.norm(back, host=True, denoted=True))
            if d:
                return f"{handler}/{writer}: {DENOTES} {d}"
            # ... then (after every handler/writer passed the first test) its spelling
            d = L.first_diff(want, L.norm(back, host=True))
            if d and spelled is None:
                spelled = f"{handler}/{writer}: {d}"
    return spelled


def _predicted(a, preds):
    t2 = copy.deepcopy(a["tree"])
    for pred in preds:
        for n, d in _walk(t2):
            pred(n, d, a)
    return t2


def covered_preserve(a, msg):
    """A failure is covered by a listed finding only if the outputs of the unchanged code are *exactly* what the
    finding (or the triggered findings together) predicts for this document: the prefixed value spelled as the Clark
    form of the name it denotes in the scope of its own element, the extra attributes / the tail of a typed primitive
    gone, its type narrowed. For C11-anyattr-prefixed-value also the auditor's test: the same document with its
    declared-prefixed values replaced by plain ones comes back unchanged."""
    hits = [(fid, pred) for fid, trig, pred in NEUTRALISE if any(trig(n, d, a) for n, d in _walk(a["tree"]))]

    def exact(preds):
        return oracle_preserve(a, expect=_predicted(a, preds)) is None

    def plain_ok():
        t2 = copy.deepcopy(a["tree"])
        for n, d in _walk(t2):
            if d:
                _neut_prefixed(n, d)
        return oracle_preserve({**a, "tree": t2}) is None

    for fid, pred in hits:
        if exact([pred]) and (fid != PREFIXED or plain_ok()):
            return fid
    if len(hits) > 1 and exact([pred for _, pred in hits]):
        return hits[0][0]
    return None


def gen_preserve(rng, tier):
    for t in L.exhaustive_small(2)[:: n_cases(tier, 5, 1)]:
        yield {"kind": "list", "nsmode": "##any", "target": None, "tree": L.host_doc("list", None, [t])}
    for t in L.shape_samples(rng, 5, n_cases(tier, 3, 12)):
        kind = rng.choice(L.KINDS)
        yield {"kind": kind, "nsmode": "##any", "target": None, "tree": L.host_doc(kind, None, [t])}
    for u, ctx, desc, doc, info in host_cases(rng, tier, n_cases(tier, 1500, 12000)):
        a = adapt_preserve("bind.parse", {"tree": doc, "_info": info, "desc": desc})
        if a:
            yield a


def adapt_preserve(op, a):
    if op == "c11.anyrt":
        kind = a["_kind"]
        text = a["pre"]["str"] if isinstance(a["pre"], dict) else None
        if kind == "choice":
            text = None
        return {"kind": kind, "nsmode": "##any", "target": None, "tree": L.host_doc(kind, None, copy.deepcopy(a["trees"]), text)}
    info = a["_info"]
    doc = a["tree"]
    admitted = L.admitted_namespaces(info["nsmode"], info["target"])
    flds = {f["name"] for f in a["desc"]["classes"][0]["fields"]}
    for c in doc["c"]:
        ns = c["q"][1:].split("}")[0] if c["q"].startswith("{") else None
        local = c["q"].split("}")[-1]
        if local in ("head", "known") and ns == info["target"]:
            if not L.is_blank(c["tl"]) and info["kind"] != "mixed":
                return None      # tail after a typed sibling: not generic content
            continue
        if ns not in admitted:
            return None
        if any(k == L.XSI_TYPE and v == "xs:QName" for k, v in c["a"]) and not L.valid_qname_content(c):
            return None      # not a QName: the property says nothing about it
    if (info["kind"] == "choice" or ("head" in flds and info["kind"] != "mixed")) and not L.is_blank(doc["t"]):
        return None      # character data around typed siblings of an element-only model
    return {"kind": info["kind"], "nsmode": info["nsmode"], "target": info["target"], "attributes": "attrs" in flds,
            "head": "head" in flds, "tree": doc}


# ---------------------------------------------------------------- TreeParser
def oracle_treeparser(a):
    """TreeParser.from_bytes builds the documented generic tree, the same one a wildcard field captures"""
    t = copy.deepcopy(a["tree"])
    t["tl"] = None
    data = G.tree_xml(t)
    read = G.xml_tree(data)
    want = L.ref_any(read)
    want_d = L.ref_any(read, denoted=True)
    spelled = None
    for handler in ("native", "lxml", "events"):
        try:
            if handler == "events":      # pre-recorded events (EventsHandler): every START carries its in-scope map
                got = L.any_json(L.real_tree_parse_events(read))
            else:
                got = L.any_json(L.real_tree_parse_bytes(data, handler))
        except Exception as e:  # noqa: BLE001
            return f"TreeParser({handler}) raised {type(e).__name__}: {e}"
        # an AnyElement tree carries no prefix map: a name is only denoted by its expanded form
        got_d = got
        if got_d != want_d:
            return (f"TreeParser({handler}): {DENOTES} {json.dumps(got_d, ensure_ascii=False)[:400]} != expected "
                    f"{json.dumps(want_d, ensure_ascii=False)[:400]}")
        if got != want and spelled is None:
            spelled = f"TreeParser({handler}): {json.dumps(got, ensure_ascii=False)[:300]} != expected {json.dumps(want, ensure_ascii=False)[:300]}"
    # the same tree inside a typed model (list wildcard, ##any), unless the root itself is xsi:type'd / a known class
    if not any(k == L.XSI_TYPE for k, v in t["a"]):
        u, desc, ctx = L.host("list", "##any", None)
        r = G.real_parse_bytes(u, "Root", G.tree_xml(L.host_doc("list", None, [t])))
        if "ok" not in r:
            return f"wildcard field did not capture the tree: {r}"
        w = dict(r["ok"]["value"]["fields"])["w"]["list"]
        if w != [want_d]:
            return (f"wildcard field: {DENOTES} captured {json.dumps(w, ensure_ascii=False)[:300]}, TreeParser built "
                    f"{json.dumps(want_d, ensure_ascii=False)[:300]}")
        if w != [want] and spelled is None:
            spelled = f"wildcard field captured {json.dumps(w, ensure_ascii=False)[:300]}, TreeParser built {json.dumps(want, ensure_ascii=False)[:300]}"
    return spelled


def covered_treeparser(a, msg):
    """only the spelling of prefixed values (attributes and xsi:type alike) may differ from the document"""
    if DENOTES in msg:
        return None
    if any(L.declared_prefixed(v, {p: u for p, u in n["ns"]}) for n, d in _walk(a["tree"]) for k, v in n["a"]):
        return PREFIXED
    return None


def gen_treeparser(rng, tier):
    for a in gen_tree(rng, tier):
        yield a


# ---------------------------------------------------------------- namespaces
def ref_match(namespace, parent, inherits, qname):
    """documented meaning of the wildcard namespace tokens (NamespaceType), with the builder's conventions:
    elements/wildcards without a namespace inherit the parent's; without any namespace only unqualified names match"""
    uri = qname[1:].split("}")[0] if qname.startswith("{") and "}" in qname[1:] and qname[1] != "}" else None
    if inherits and namespace is None:
        namespace = parent
    toks = (namespace or "").split()
    if not toks:
        return uri is None
    for tok in toks:
        if tok == "##any":
            return True
        if tok == "##local" and uri is None:
            return True
        if tok == "##targetNamespace" and (uri == parent if parent else True):
            return True
        if tok == "##other" and (uri != parent if parent else True):
            return True
        if not tok.startswith("##") and uri == tok:
            return True
    return False


def oracle_match(a):
    got = impl_match(a)["ok"]["matches"]
    for q, g in zip(a["qnames"], got):
        w = ref_match(a["namespace"], a["parent"], a["inherits"], q)
        if g != w:
            return f"namespace={a['namespace']!r} parent={a['parent']!r}: match_namespace({q!r}) = {g}, documented meaning {w}"
    return None


ORACLES = [
    Oracle("c11.preserve", gen_preserve, oracle_preserve, covered=covered_preserve,
           from_ops=("c11.anyrt", "bind.parse", "c11.roundtrip"), adapt=adapt_preserve),
    Oracle("c11.treeparser", gen_treeparser, oracle_treeparser, covered=covered_treeparser, from_ops=("c11.tree",)),
    Oracle("c11.match", gen_match, oracle_match, from_ops=("c11.match",)),
]


# ====================================================================== known findings (replayed on the real code)
H = 'xmlns:p="urn:x" xmlns:xs="http://www.w3.org/2001/XMLSchema" xmlns:xsi="http://www.w3.org/2001/XMLSchema-instance"'


def _rt(kind, body, nsmode="##any"):
    u, desc, ctx = L.host(kind, nsmode, None)
    data = f"<Root {H}>{body}</Root>".encode()
    r = G.real_parse_bytes(u, "Root", data)
    if "ok" not in r:
        return None, str(r)
    xml = G.real_serialize(u, u.from_val(r["ok"]["value"]))
    back = G.xml_tree(xml.encode())
    return back, xml.split("\n")[-1]


def f_prefixed():
    back, xml = _rt("list", '<p:foo k="p:bar"/>')
    v = dict(back["c"][0]["a"]).get("k") if back else None
    return v == "{urn:x}bar", f'k="p:bar" came back as k={v!r}: {xml}'


def f_typed_attrs():
    back, xml = _rt("list", '<p:foo xsi:type="xs:string" k="v">s</p:foo>tail')
    v = dict(back["c"][0]["a"]).get("k") if back else "?"
    tl = back["c"][0]["tl"] if back else "?"
    return v is None and tl is None, f"k='v' and (outside mixed content) the tail of an xsi:type='xs:string' element came back as {v!r} / {tl!r}: {xml}"


def f_typed_canon():
    back, xml = _rt("list", '<p:foo xsi:type="xs:int">5</p:foo>')
    v = dict(back["c"][0]["a"]).get(L.XSI_TYPE) if back else "?"
    return v is not None and v.endswith(":short"), f'xsi:type="xs:int" came back as {v!r}: {xml}'


def f_other_unqualified():
    r = impl_match({"namespace": "##other", "parent": "urn:t", "inherits": True, "qnames": ["foo"]})["ok"]["matches"][0]
    return r is True, "##other (target urn:t) admits the unqualified element <foo/>; XSD requires a namespace for ##other"


FINDINGS = {
    "C11-anyattr-prefixed-value": f_prefixed,
    "C11-xsitype-primitive-attrs-tail-dropped": f_typed_attrs,
    "C11-xsitype-primitive-recanonicalised": f_typed_canon,
    # not listed in known_findings.json (admission rule, not preservation): replay kept for the maintainer
    "C11-other-admits-unqualified": f_other_unqualified,
}

TRUSTED = [
    "metadata (XmlMeta/XmlVar) is exported from the real XmlContext.build and is an input of the model; resolve_namespaces is modelled and compared separately (c11.match)",
    "the writer is the abstract one of the binding layer (events -> SAX -> infoset, one global prefix assignment); byte-level writers/tokenisers (XMLGenerator, lxml, expat) only through the ops c11.anyrt / c11.roundtrip and the oracles",
    "Python str.strip()/isspace() through Py.Env (ASCII hard-coded, non-ASCII from tables regenerated at run time)",
    "lxml as the independent reader of written documents in the harness",
]
ASSUMPTIONS = [
    "attribute order is not part of the infoset (the theorems prove the stronger statement that it is preserved)",
    "the root element of a document has no tail; prefix maps (which prefix spells a namespace) are not compared",
    "attribute names of one element are pairwise different (XML well-formedness), element names are not empty",
]
LEVEL_TEXT = (
    "Lean theorems for all trees: a WildcardNode followed by convert_any_type and the writer returns the ≈ws normal form "
    "of every well-formed tree (any_roundtrip, by induction on the tree), also as content of a host element for list, "
    "nested-single and mixed wildcards; TreeParser = WildcardNode of any non-nillable wildcard var (tree_parser_same); "
    "match_namespace decides the ##any/##other/##local/##targetNamespace table (match_namespace_spec). "
    "The attribute shapes excluded by treeOK (p:local values, Clark names of datatypes) are shown to be changed; "
    "xsi:nil is kept (anyattr_xsi_nil_kept); StandardNode keeps the tail in mixed content (standard_mixed_tail) and a "
    "wildcard choice renders DerivedElements like a wildcard field (choice_wildcard_derived). "
    "Model tied to /repo by differential runs of TreeParser, resolve_namespaces/match_namespace, the real "
    "WildcardNode+convert_any_type+XmlEventWriter pipeline and typed hosts (single/list/mixed/choice x 6 namespace modes)."
)
LEVEL_NOTE = (
    "Trusted: Lean kernel; the hand-written binding-layer model (sampling correspondence); exported metadata; the abstract "
    "writer instead of XMLGenerator/lxml. Typed-host plumbing (ElementNode.bind_wild_var, bind_mixed_objects, Attributes maps, "
    "compound fields with wildcard choices, xsi:type'd primitives) is covered by correspondence and oracles, not by theorems."
)
