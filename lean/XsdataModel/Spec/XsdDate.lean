/-
XML Schema 1.1 Part 2 — lexical spaces and lexical mappings of `xs:date`,
`xs:time`, `xs:dateTime` (§3.3.7–3.3.9, productions of §D/E: yearFrag,
monthFrag, dayFrag, hourFrag, minuteFrag, secondFrag, endOfDayFrag,
timezoneFrag), of the five `g*` types (§3.3.10–3.3.14) and of `xs:duration`
(§3.3.6).  My transcription, written as relations "`s` is a lexical form and
denotes these components", independent of the xsdata code and of its model.
White space (`whiteSpace = collapse`) is stated by the theorems, which
quantify over XSD white space around the form.
-/
import XsdataModel.Spec.Xsd

namespace Xs.Spec
open Py Xs.Conv

/-- a two-digit fragment `digit digit` and its numeric value -/
def TwoDigits (s : Str) (n : Nat) : Prop :=
  ∃ a b : Char, s = [a, b] ∧ isAsciiDigit a = true ∧ isAsciiDigit b = true ∧
    n = charVal a * 10 + charVal b

/-- `yearFrag ::= '-'? (([1-9] digit digit digit+)) | ('0' digit digit digit))`;
the value is the signed decimal number (`-0000` is year 0) -/
def YearFrag (s : Str) (y : Int) : Prop :=
  ∃ (neg : Bool) (ds : Str), s = (if neg then ['-'] else []) ++ ds ∧ AllDigits ds ∧
    4 ≤ ds.length ∧ (4 < ds.length → ds.head? ≠ some '0') ∧
    y = if neg then -(Int.ofNat (digitsNat ds)) else Int.ofNat (digitsNat ds)

/-- `monthFrag ::= ('0' [1-9]) | ('1' [0-2])` -/
def MonthFrag (s : Str) (m : Nat) : Prop := TwoDigits s m ∧ 1 ≤ m ∧ m ≤ 12

/-- `dayFrag ::= ('0' [1-9]) | ([12] digit) | ('3' [01])` -/
def DayFrag (s : Str) (d : Nat) : Prop := TwoDigits s d ∧ 1 ≤ d ∧ d ≤ 31

/-- `hourFrag ::= ([01] digit) | ('2' [0-3])` -/
def HourFrag (s : Str) (h : Nat) : Prop := TwoDigits s h ∧ h ≤ 23

/-- `minuteFrag ::= [0-5] digit` -/
def MinuteFrag (s : Str) (m : Nat) : Prop := TwoDigits s m ∧ m ≤ 59

/-- `secondFrag ::= ([0-5] digit) ('.' digit+)?` : whole seconds and the
(possibly empty) run of fraction digits -/
def SecondFrag (s : Str) (sec : Nat) (fr : Str) : Prop :=
  ∃ w, TwoDigits w sec ∧ sec ≤ 59 ∧ AllDigits fr ∧ s = w ++ (if fr = [] then [] else '.' :: fr)

/-- the fraction digits `fr` (at most nine of them) as nanoseconds -/
def fracNs (fr : Str) : Nat := digitsNat fr * 10 ^ (9 - fr.length)

/-- `hourFrag ':' minuteFrag ':' secondFrag | endOfDayFrag` with
`endOfDayFrag ::= '24:00:00' ('.' '0'+)?`.  The components of the end-of-day
form are hour 24, minute 0, second 0 (the lexical mapping then moves to the
first instant of the next day: `Props.C06.timeline_end_of_day`). -/
def TimeBody (s : Str) (h mi sec : Nat) (fr : Str) : Prop :=
  (∃ hs ms ss, HourFrag hs h ∧ MinuteFrag ms mi ∧ SecondFrag ss sec fr ∧
      s = hs ++ ':' :: (ms ++ ':' :: ss)) ∨
  (h = 24 ∧ mi = 0 ∧ sec = 0 ∧ (∀ c ∈ fr, c = '0') ∧
      s = ['2', '4', ':', '0', '0', ':', '0', '0'] ++ (if fr = [] then [] else '.' :: fr))

/-- `timezoneFrag? ::= ('Z' | ('+' | '-') (('0' digit | '1' [0-3]) ':' minuteFrag | '14:00'))?`;
the value is the offset in minutes, `none` when absent -/
def TzFrag (s : Str) (o : Option Int) : Prop :=
  (s = [] ∧ o = none) ∨ (s = ['Z'] ∧ o = some 0) ∨
  ∃ (sg : Char) (hs ms : Str) (h m : Nat), (sg = '+' ∨ sg = '-') ∧ TwoDigits hs h ∧ TwoDigits ms m ∧
    ((h ≤ 13 ∧ m ≤ 59) ∨ (h = 14 ∧ m = 0)) ∧ s = sg :: (hs ++ ':' :: ms) ∧
    o = some (if sg = '-' then -(Int.ofNat (h * 60 + m)) else Int.ofNat (h * 60 + m))

/-- `daysInMonth(y, m)` of XSD 1.1 §E.3.2 -/
def daysInMonth (y : Int) (m : Nat) : Nat :=
  if m = 2 then (if y % 4 ≠ 0 ∨ (y % 100 = 0 ∧ y % 400 ≠ 0) then 28 else 29)
  else if m = 4 ∨ m = 6 ∨ m = 9 ∨ m = 11 then 30 else 31

/-- `dateLexicalRep ::= yearFrag '-' monthFrag '-' dayFrag timezoneFrag?`
with the day-of-month constraint -/
def XsdDate (s : Str) (y : Int) (m d : Nat) (o : Option Int) : Prop :=
  ∃ ys ms ds zs, YearFrag ys y ∧ MonthFrag ms m ∧ DayFrag ds d ∧ TzFrag zs o ∧
    d ≤ daysInMonth y m ∧ s = ys ++ '-' :: (ms ++ '-' :: (ds ++ zs))

/-- `timeLexicalRep ::= ((hourFrag ':' minuteFrag ':' secondFrag) | endOfDayFrag) timezoneFrag?` -/
def XsdTime (s : Str) (h mi sec : Nat) (fr : Str) (o : Option Int) : Prop :=
  ∃ body zs, TimeBody body h mi sec fr ∧ TzFrag zs o ∧ s = body ++ zs

/-- `dateTimeLexicalRep ::= yearFrag '-' monthFrag '-' dayFrag 'T' (… | endOfDayFrag) timezoneFrag?` -/
def XsdDateTime (s : Str) (y : Int) (m d h mi sec : Nat) (fr : Str) (o : Option Int) : Prop :=
  ∃ ys ms ds body zs, YearFrag ys y ∧ MonthFrag ms m ∧ DayFrag ds d ∧ TimeBody body h mi sec fr ∧
    TzFrag zs o ∧ d ≤ daysInMonth y m ∧ s = ys ++ '-' :: (ms ++ '-' :: (ds ++ 'T' :: (body ++ zs)))

/-! ### the `g*` types -/

/-- `gYearLexicalRep ::= yearFrag timezoneFrag?` -/
def XsdGYear (s : Str) (y : Int) (o : Option Int) : Prop :=
  ∃ ys zs, YearFrag ys y ∧ TzFrag zs o ∧ s = ys ++ zs

/-- `gYearMonthLexicalRep ::= yearFrag '-' monthFrag timezoneFrag?` -/
def XsdGYearMonth (s : Str) (y : Int) (m : Nat) (o : Option Int) : Prop :=
  ∃ ys ms zs, YearFrag ys y ∧ MonthFrag ms m ∧ TzFrag zs o ∧ s = ys ++ '-' :: (ms ++ zs)

/-- `gMonthLexicalRep ::= '--' monthFrag timezoneFrag?` -/
def XsdGMonth (s : Str) (m : Nat) (o : Option Int) : Prop :=
  ∃ ms zs, MonthFrag ms m ∧ TzFrag zs o ∧ s = '-' :: '-' :: (ms ++ zs)

/-- `gDayLexicalRep ::= '---' dayFrag timezoneFrag?` -/
def XsdGDay (s : Str) (d : Nat) (o : Option Int) : Prop :=
  ∃ ds zs, DayFrag ds d ∧ TzFrag zs o ∧ s = '-' :: '-' :: '-' :: (ds ++ zs)

/-- `gMonthDayLexicalRep ::= '--' monthFrag '-' dayFrag timezoneFrag?` with the
day-of-month constraint in a leap year (`--02-29` is a value) -/
def XsdGMonthDay (s : Str) (m d : Nat) (o : Option Int) : Prop :=
  ∃ ms ds zs, MonthFrag ms m ∧ DayFrag ds d ∧ TzFrag zs o ∧ d ≤ daysInMonth 0 m ∧
    s = '-' :: '-' :: (ms ++ '-' :: (ds ++ zs))

/-! ### xs:duration -/

/-- an optional `unsignedNoDecimalPtNumeral` followed by its designator -/
def duFrag (ds : Option Str) (c : Char) : Str :=
  match ds with
  | none => []
  | some t => t ++ [c]

/-- the digit runs of the present fragments are non-empty runs of digits -/
def duDigits (ds : Option Str) : Prop := ∀ t, ds = some t → t ≠ [] ∧ AllDigits t

/-- `[0-9]+(\.[0-9]+)?`, the seconds numeral of the pattern given in §3.3.6.2
(and of XSD 1.0); the value is the decimal number the text denotes -/
def duSeconds (sec : Option Str) : Prop :=
  ∀ t, sec = some t → ∃ ip fp : Str, ip ≠ [] ∧ AllDigits ip ∧ AllDigits fp ∧
    t = ip ++ (if fp = [] then [] else '.' :: fp)

/-- `durationLexicalRep ::= '-'? 'P' ((duYearMonthFrag duDayTimeFrag?) | duDayTimeFrag)`:
any sub-sequence of `nY nM nD`, then optionally `T` with a non-empty
sub-sequence of `nH nM n(.n)?S`; at least one fragment overall.  The components
are the digit runs themselves (their values are `digitsNat`). -/
def XsdDuration (s : Str) (neg : Bool) (y mo d h mi : Option Str) (sec : Option Str) : Prop :=
  duDigits y ∧ duDigits mo ∧ duDigits d ∧ duDigits h ∧ duDigits mi ∧ duSeconds sec ∧
  (y.isSome ∨ mo.isSome ∨ d.isSome ∨ h.isSome ∨ mi.isSome ∨ sec.isSome) ∧
  s = (if neg then ['-'] else []) ++ 'P' :: (duFrag y 'Y' ++ duFrag mo 'M' ++ duFrag d 'D' ++
    (if h.isSome || mi.isSome || sec.isSome then
      'T' :: (duFrag h 'H' ++ duFrag mi 'M' ++ duFrag sec 'S') else []))

end Xs.Spec
