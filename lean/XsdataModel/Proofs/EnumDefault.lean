/-
Helper lemmas for C02 / C16: the default of an enumeration-typed field (`Gen/EnumDefault`).
-/
import XsdataModel.Gen.EnumDefault

namespace Xs.Gen
open Py

theorem find?_unique {α : Type} {p : α → Bool} : ∀ {l : List α} {m : α}, m ∈ l → p m = true →
    (∀ x ∈ l, p x = true → x = m) → l.find? p = some m
  | [], _, h, _, _ => by simp at h
  | x :: xs, m, h, hp, hu => by
    rw [List.find?_cons]
    by_cases hx : p x = true
    · rw [hx]; exact congrArg some (hu x List.mem_cons_self hx)
    · have hx' : p x = false := by simpa using hx
      rw [hx']
      rcases List.mem_cons.1 h with rfl | h
      · rw [hp] at hx'; cases hx'
      · exact find?_unique h hp (fun y hy => hu y (List.mem_cons_of_mem _ hy))

theorem eq_of_map_eq_of_nodup {α β : Type} {f : α → β} : ∀ {l : List α}, (l.map f).Nodup →
    ∀ {x y : α}, x ∈ l → y ∈ l → f x = f y → x = y
  | [], _, _, _, h, _, _ => by simp at h
  | a :: as, hn, x, y, hx, hy, hf => by
    rw [List.map_cons, List.nodup_cons] at hn
    rcases List.mem_cons.1 hx with h1 | h1 <;> rcases List.mem_cons.1 hy with h2 | h2
    · rw [h1, h2]
    · exact absurd (List.mem_map.2 ⟨y, h2, by rw [← hf, h1]⟩) hn.1
    · exact absurd (List.mem_map.2 ⟨x, h1, by rw [hf, h2]⟩) hn.1
    · exact eq_of_map_eq_of_nodup hn.2 h1 h2 hf

theorem memberNameOf_mem {members : List EnumMember} (hv : (members.map (·.value)).Nodup)
    {m : EnumMember} (hm : m ∈ members) : memberNameOf members m.value = some m.name := by
  unfold memberNameOf
  rw [find?_unique (m := m) (List.mem_reverse.2 hm) (by simp)]
  · rfl
  · intro x hx hp
    exact eq_of_map_eq_of_nodup hv (List.mem_reverse.1 hx) hm (by simpa using hp)

theorem memberValueOf_mem {members : List EnumMember} (hn : (members.map (·.name)).Nodup)
    {m : EnumMember} (hm : m ∈ members) : memberValueOf members m.name = some m.value := by
  unfold memberValueOf
  rw [find?_unique (m := m) hm (by simp)]
  · rfl
  · intro x hx hp
    exact eq_of_map_eq_of_nodup hn hx hm (by simpa using hp)

theorem enum_default_core (members : List EnumMember) (hv : (members.map (·.value)).Nodup)
    (hn : (members.map (·.name)).Nodup) (m : EnumMember) (hm : m ∈ members)
    (hne : m.name ≠ []) : enumDefaultValues members m.value = some [some m.value] := by
  unfold enumDefaultValues enumPlaceholder
  rw [memberNameOf_mem hv hm]
  cases hnm : m.name with
  | nil => exact absurd hnm hne
  | cons c cs =>
    simp only [Option.map_some, List.map_cons, List.map_nil]
    rw [← hnm, memberValueOf_mem hn hm]

end Xs.Gen
