/- C10 — strictness options do what they say: property theorems (only).
   Vocabulary (`unknownFor`, `noCandidate`, …) and helper lemmas: Proofs/C10.lean. -/
import XsdataModel.Proofs.C10

namespace Props.C10
open Py Xs.Bind Proofs.C10

/-! ## 1. SkipNode -/

/-- **skip_subtree**: a `SkipNode` swallows any subtree (attributes, text, any depth, names
that are known elsewhere) without producing an object or a warning, whatever the flags. -/
theorem skip_subtree (e : BEnv) (Γ : Ctx) (cfg : ParserConfig) (t : Tree) :
    parseNode e Γ cfg .skip t = .ok ⟨[], 0⟩ := by
  cases t; simp [parseNode]

/-! ## 2. unknown elements with `fail_on_unknown_properties = False` -/

/-- **skip_invariant**: with the flag off, an element whose name is unknown for the class
(`unknownFor m q`), placed anywhere among the children (under the element itself or under
one of its wrapper elements, `w`), with any attributes / text / subtree / tail, leaves the
parse of the children untouched: same objects, same warnings, same node state. -/
theorem skip_invariant {e : BEnv} {Γ : Ctx} {cfg : ParserConfig} {m : XmlMeta} {q : QN}
    (hc : cfg.failOnUnknownProperties = false) (hq : unknownFor m q = true)
    (a : List (QN × Str)) (n : NsMap) (t : Option Str) (c : List Tree) (tl : Option Str)
    (st : ElState) (w : Option QN) (pre post : List Tree) :
    parseKids e Γ cfg m st w (pre ++ .node q a n t c tl :: post)
      = parseKids e Γ cfg m st w (pre ++ post) := by
  rw [parseKids_append, parseKids_append]
  congr 1
  funext st1
  exact parseKids_head_skipped hc (unknownFor_noCandidate hq e Γ st1 a n w) t c tl post

/-- **skip_invariant_assigned**: the same for a name that *is* known to the class but for
which, in the state reached after `pre`, every candidate var is passed over (it belongs to
another wrapper, it is a non-list element that was already assigned, or `build_node`
returned `None`, e.g. because of `xsi:nil`). -/
theorem skip_invariant_assigned {e : BEnv} {Γ : Ctx} {cfg : ParserConfig} {m : XmlMeta} {q : QN}
    (hc : cfg.failOnUnknownProperties = false)
    {a : List (QN × Str)} {n : NsMap} (t : Option Str) (c : List Tree) (tl : Option Str)
    {st st1 : ElState} {o1 : Out} {w : Option QN} {pre : List Tree} (post : List Tree)
    (hpre : parseKids e Γ cfg m st w pre = .ok (o1, st1))
    (hq : noCandidate e Γ m st1 q a n w = true) :
    parseKids e Γ cfg m st w (pre ++ .node q a n t c tl :: post)
      = parseKids e Γ cfg m st w (pre ++ post) := by
  rw [parseKids_append, parseKids_append, hpre]
  simp only [seqKids]
  rw [parseKids_head_skipped hc hq]

/-- **skip_invariant_element**: lifted to the whole element bound by an `ElementNode`. -/
theorem skip_invariant_element {e : BEnv} {Γ : Ctx} {cfg : ParserConfig} {m : XmlMeta} {q : QN}
    (hc : cfg.failOnUnknownProperties = false) (hq : unknownFor m q = true)
    (a : List (QN × Str)) (n : NsMap) (t : Option Str) (c : List Tree) (tl : Option Str)
    (ea : List (QN × Str)) (en : NsMap) (d : Bool) (xt : Option QN) (xn : Option Bool)
    (pq : QN) (pa : List (QN × Str)) (pn : NsMap) (pt ptl : Option Str) (pre post : List Tree) :
    parseNode e Γ cfg (.element m ea en d xt xn) (.node pq pa pn pt (pre ++ .node q a n t c tl :: post) ptl)
      = parseNode e Γ cfg (.element m ea en d xt xn) (.node pq pa pn pt (pre ++ post) ptl) := by
  simp only [parseNode, skip_invariant hc hq]

/-- the class metadata `NodeParser.start` fetches for the root element; `none` when the
lookup itself fails -/
def rootMeta (e : BEnv) (Γ : Ctx) (clazz : ClassId) (a : List (QN × Str)) (n : NsMap) : Option XmlMeta :=
  match xsiTypeOf e a n with
  | .ok xt => match Γ.fetch clazz none xt with
    | .ok m => some m
    | .error _ => none
  | .error _ => none

/-- `q` is unknown for the class that binds the root element -/
def rootUnknown (e : BEnv) (Γ : Ctx) (clazz : ClassId) (a : List (QN × Str)) (n : NsMap) (q : QN) : Bool :=
  match rootMeta e Γ clazz a n with
  | some m => unknownFor m q
  | none => true

/-- **skip_invariant_root**: lifted to `NodeParser.parse`: the parsed object and the number
of conversion warnings are those of the document without the unknown element. -/
theorem skip_invariant_root {e : BEnv} {Γ : Ctx} {cfg : ParserConfig} {clazz : ClassId} {q : QN}
    {pa : List (QN × Str)} {pn : NsMap}
    (hc : cfg.failOnUnknownProperties = false) (hq : rootUnknown e Γ clazz pa pn q = true)
    (a : List (QN × Str)) (n : NsMap) (t : Option Str) (c : List Tree) (tl : Option Str)
    (pq : QN) (pt ptl : Option Str) (pre post : List Tree) :
    parseRoot e Γ cfg clazz (.node pq pa pn pt (pre ++ .node q a n t c tl :: post) ptl)
      = parseRoot e Γ cfg clazz (.node pq pa pn pt (pre ++ post) ptl) := by
  simp only [parseRoot, bind, Except.bind]
  cases hx : xsiTypeOf e pa pn with
  | error err => rfl
  | ok xt =>
    simp only
    cases hf : Γ.fetch clazz none xt with
    | error err => rfl
    | ok m =>
      have hm : unknownFor m q = true := by simpa [rootUnknown, rootMeta, hx, hf] using hq
      simp only [skip_invariant_element hc hm]

/-! ## 3. unknown elements with `fail_on_unknown_properties = True` (the default) -/

/-- **strict_unknown_fails**: with the flag on, the same insertion makes the children fail
with a `ParserError` exactly when the prefix parses; when the prefix already fails, its
error is the one reported (the unknown element is never reached). -/
theorem strict_unknown_fails {e : BEnv} {Γ : Ctx} {cfg : ParserConfig} {m : XmlMeta} {q : QN}
    (hc : cfg.failOnUnknownProperties = true) (hq : unknownFor m q = true)
    (a : List (QN × Str)) (n : NsMap) (t : Option Str) (c : List Tree) (tl : Option Str)
    (st : ElState) (w : Option QN) (pre post : List Tree) :
    parseKids e Γ cfg m st w (pre ++ .node q a n t c tl :: post)
      = match parseKids e Γ cfg m st w pre with
        | .ok _ => .error (.parser "Unknown property")
        | .error err => .error err := by
  rw [parseKids_append]
  cases hp : parseKids e Γ cfg m st w pre with
  | error err => rfl
  | ok p =>
    obtain ⟨o1, st1⟩ := p
    simp only [seqKids]
    rw [parseKids_head_strict hc (unknownFor_noCandidate hq e Γ st1 a n w)]

/-- **strict_unknown_fails_element**: the element as a whole fails with `ParserError`
(nothing of it is bound: not even its attributes are looked at). -/
theorem strict_unknown_fails_element {e : BEnv} {Γ : Ctx} {cfg : ParserConfig} {m : XmlMeta} {q : QN}
    (hc : cfg.failOnUnknownProperties = true) (hq : unknownFor m q = true)
    (a : List (QN × Str)) (n : NsMap) (t : Option Str) (c : List Tree) (tl : Option Str)
    (ea : List (QN × Str)) (en : NsMap) (d : Bool) (xt : Option QN) (xn : Option Bool)
    (pq : QN) (pa : List (QN × Str)) (pn : NsMap) (pt ptl : Option Str) (pre post : List Tree)
    {o1 : Out} {st1 : ElState} (hpre : parseKids e Γ cfg m {} none pre = .ok (o1, st1)) :
    parseNode e Γ cfg (.element m ea en d xt xn) (.node pq pa pn pt (pre ++ .node q a n t c tl :: post) ptl)
      = .error (.parser "Unknown property") := by
  simp only [parseNode, strict_unknown_fails hc hq, hpre, bind, Except.bind]

/-- **strict_unknown_fails_root**: `NodeParser.parse` raises `ParserError`. -/
theorem strict_unknown_fails_root {e : BEnv} {Γ : Ctx} {cfg : ParserConfig} {clazz : ClassId} {q : QN}
    {pa : List (QN × Str)} {pn : NsMap} {m : XmlMeta}
    (hc : cfg.failOnUnknownProperties = true)
    (hm : rootMeta e Γ clazz pa pn = some m) (hq : unknownFor m q = true)
    (a : List (QN × Str)) (n : NsMap) (t : Option Str) (c : List Tree) (tl : Option Str)
    (pq : QN) (pt ptl : Option Str) (pre post : List Tree)
    {o1 : Out} {st1 : ElState} (hpre : parseKids e Γ cfg m {} none pre = .ok (o1, st1)) :
    parseRoot e Γ cfg clazz (.node pq pa pn pt (pre ++ .node q a n t c tl :: post) ptl)
      = .error (.parser "Unknown property") := by
  simp only [parseRoot, bind, Except.bind]
  cases hx : xsiTypeOf e pa pn with
  | error err => simp [rootMeta, hx] at hm
  | ok xt =>
    simp only
    cases hf : Γ.fetch clazz none xt with
    | error err => simp [rootMeta, hx, hf] at hm
    | ok m' =>
      have : m' = m := by simpa [rootMeta, hx, hf] using hm
      subst this
      simp only [strict_unknown_fails_element hc hq (hpre := hpre)]

/-! ## 4. children of simple-typed elements are invalid content, not unknown properties -/

/-- **child_in_primitive_rejected**: a child element under a `PrimitiveNode` raises
`XmlContextError`, whatever the three flags say. -/
theorem child_in_primitive_rejected (e : BEnv) (Γ : Ctx) (cfg : ParserConfig) (pm : XmlMeta) (var : XmlVar)
    (ns : NsMap) (q : QN) (a : List (QN × Str)) (n : NsMap) (t tl : Option Str) (u : Tree) (us : List Tree) :
    parseNode e Γ cfg (.primitive pm var ns) (.node q a n t (u :: us) tl)
      = .error (.context "Primitive node doesn't support child nodes!") := by
  simp [parseNode]

/-- the same under a `StandardNode` (an `xsi:type` naming a builtin datatype) -/
theorem child_in_standard_rejected (e : BEnv) (Γ : Ctx) (cfg : ParserConfig) (var : XmlVar) (dt : PT)
    (ns : NsMap) (nillable derived : Bool) (q : QN) (a : List (QN × Str)) (n : NsMap) (t tl : Option Str)
    (u : Tree) (us : List Tree) :
    parseNode e Γ cfg (.standard var dt ns nillable derived) (.node q a n t (u :: us) tl)
      = .error (.context "StandardNode node doesn't support child nodes!") := by
  simp [parseNode]

end Props.C10
