/- C11 helper lemmas: `match_namespace` against the decision table. -/
import XsdataModel.Generic.Basic

namespace Proofs.C11
open Py Xs.Bind Xs.Generic

/-- the body of the loop of `_match_namespace` -/
def matchOne (check : Str) (uri : Option Str) : Bool :=
  (check.isEmpty && uri.isNone) || some check = uri || check = "##any".toList ||
    (match check with
     | '!' :: rest => some rest ≠ uri
     | _ => false)

theorem matchNamespace_eq (nss : List Str) (q : QN) :
    matchNamespace nss q =
      (if nss.isEmpty && (targetUri q).isNone then true else nss.any (fun c => matchOne c (targetUri q))) := rfl

theorem targetUri_ne_empty (q : QN) : targetUri q ≠ some [] := by
  unfold targetUri splitQName
  split
  · split
    · split <;> simp_all
    · simp
  · simp

theorem matchOne_any (uri : Option Str) : matchOne anyNs uri = true := by
  simp [matchOne, anyNs]

theorem matchOne_nil (uri : Option Str) (hu : uri ≠ some []) : matchOne [] uri = uri.isNone := by
  have : ¬ (some [] = uri) := fun h => hu h.symm
  simp [matchOne, this]

theorem matchOne_bang (rest : Str) (uri : Option Str) :
    matchOne ('!' :: rest) uri = decide (uri ≠ some rest) := by
  by_cases h : uri = some rest
  · subst h
    have : ¬ ('!' :: rest = rest) := fun h => by
      have := congrArg List.length h; simp at this
    simp [matchOne, this]
  · have h' : ¬ (some rest = uri) := fun x => h x.symm
    simp [matchOne, h, h']

theorem matchOne_plain (c : Str) (uri : Option Str) (hc : plainNs c = true) :
    matchOne c uri = decide (uri = some c) := by
  cases c with
  | nil => simp [plainNs] at hc
  | cons x xs =>
    simp [plainNs] at hc
    have h1 : ¬ (x :: xs = "##any".toList) := by
      intro h; have := congrArg List.head? h; simp at this; exact hc.2 this
    simp only [matchOne, h1]
    split
    · rename_i heq; simp at heq; exact absurd heq.1 hc.1
    · by_cases h : uri = some (x :: xs)
      · simp [h]
      · have h' : ¬ (some (x :: xs) = uri) := fun e => h e.symm
        simp [h, h']

theorem resolveToken_any (pns : Option Str) : resolveToken pns anyNs = anyNs := by
  simp [resolveToken, (by decide : anyNs ≠ targetNs), (by decide : anyNs ≠ localNs), (by decide : anyNs ≠ otherNs)]

theorem resolveToken_local (pns : Option Str) : resolveToken pns localNs = [] := by
  simp [resolveToken, (by decide : localNs ≠ targetNs)]

theorem resolveToken_target (pns : Option Str) : resolveToken pns targetNs = (targetOf pns).getD anyNs := by
  simp [resolveToken]

theorem resolveToken_other (pns : Option Str) : resolveToken pns otherNs = '!' :: (targetOf pns).getD [] := by
  simp [resolveToken, (by decide : otherNs ≠ targetNs), (by decide : otherNs ≠ localNs)]

theorem matchOne_resolve (pns : Option Str) (tok : Str) (uri : Option Str)
    (htok : isKeyword tok = true ∨ plainNs tok = true)
    (hp : ∀ t, targetOf pns = some t → plainNs t = true) (hu : uri ≠ some []) :
    matchOne (resolveToken pns tok) uri = tokenAllows pns tok uri := by
  by_cases h1 : tok = anyNs
  · subst h1; simp [resolveToken_any, matchOne_any, tokenAllows]
  by_cases h2 : tok = localNs
  · subst h2; simp [resolveToken_local, matchOne_nil _ hu, tokenAllows, h1]
  by_cases h3 : tok = targetNs
  · subst h3
    rw [resolveToken_target]
    simp only [tokenAllows, h1, h2, if_false, if_true]
    cases ht : targetOf pns with
    | none => simp [matchOne_any]
    | some t => simp [matchOne_plain t uri (hp t ht)]
  by_cases h4 : tok = otherNs
  · subst h4
    rw [resolveToken_other, matchOne_bang]
    simp only [tokenAllows, h1, h2, h3, if_false, if_true]
    cases ht : targetOf pns with
    | none => simpa using hu
    | some t => simp
  · have hpl : plainNs tok = true := by
      rcases htok with h | h
      · simp [isKeyword, h1, h2, h3, h4] at h
      · exact h
    have : resolveToken pns tok = tok := by simp [resolveToken, h2, h3, h4]
    rw [this, matchOne_plain tok uri hpl]
    simp [tokenAllows, h1, h2, h3, h4]

theorem any_congr_mem {α} (l : List α) (f g : α → Bool) (h : ∀ a ∈ l, f a = g a) : l.any f = l.any g := by
  induction l with
  | nil => rfl
  | cons x xs ih =>
    simp only [List.any_cons]
    rw [h x (by simp), ih (fun a ha => h a (by simp [ha]))]

/-- `match_namespace` on the resolved tuple = the decision table, token by token -/
theorem matchNamespace_resolve (pns : Option Str) (toks : List Str) (q : QN)
    (htoks : ∀ tok ∈ toks, isKeyword tok = true ∨ plainNs tok = true)
    (hp : ∀ t, targetOf pns = some t → plainNs t = true) :
    matchNamespace (resolveTokens pns toks) q =
      (if toks.isEmpty then (targetUri q).isNone else toks.any (fun tok => tokenAllows pns tok (targetUri q))) := by
  rw [matchNamespace_eq]
  cases toks with
  | nil => cases h : targetUri q <;> simp [resolveTokens]
  | cons t ts =>
    simp only [resolveTokens, List.map_cons, List.isEmpty_cons, Bool.false_and, Bool.false_eq_true, if_false]
    rw [List.any_cons, List.any_cons, matchOne_resolve pns t _ (htoks t (by simp)) hp (targetUri_ne_empty q)]
    congr 1
    rw [List.any_map]
    apply any_congr_mem
    intro tok htok
    exact matchOne_resolve pns tok _ (htoks tok (by simp [htok])) hp (targetUri_ne_empty q)

end Proofs.C11
