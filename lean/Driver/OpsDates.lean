import Driver.Proto
import XsdataModel.Py.TblEnv
import XsdataModel.Lex.Dates
import XsdataModel.Lex.Period
import XsdataModel.Lex.Stdlib
open Lean Proto Py Xs.Dates

namespace OpsDates

def ints (j : Json) (k : String) : Except String (List (Option Int)) := do
  let a ← getArr j k
  a.mapM asOptInt

def req : Option Int → Except String Int
  | some i => .ok i
  | none => .error "null component"

def run (op : String) (a : Json) : Option (Except String Json) :=
  match op with
  | "date.args" => some do
      let s ← getStr a "s"; let f ← getStr a "fmt"
      pure <| match parseDateArgs tblEnv s f with
        | some vs => ok (jList (jOpt jInt) vs)
        | none => err "ValueError"
  | "date.parse" => some do
      let s ← getStr a "s"; let kind ← getStr a "kind"
      match String.ofList kind with
      | "date" => pure <| match XmlDate.fromString tblEnv s with
          | some v => ok (jList (jOpt jInt) [some v.year, some v.month, some v.day, v.offset])
          | none => err "ValueError"
      | "time" => pure <| match XmlTime.fromString tblEnv s with
          | some v => ok (jList (jOpt jInt) [some v.hour, some v.minute, some v.second, some v.frac, v.offset])
          | none => err "ValueError"
      | "datetime" => pure <| match XmlDateTime.fromString tblEnv s with
          | some v => ok (jList (jOpt jInt) [some v.year, some v.month, some v.day, some v.hour,
                some v.minute, some v.second, some v.frac, v.offset])
          | none => err "ValueError"
      | k => .error s!"bad kind {k}"
  | "date.str" => some do
      let v ← ints a "v"; let kind ← getStr a "kind"
      match String.ofList kind, v with
      | "date", [y, m, d, o] => do
          pure <| ok (jStr (XmlDate.str ⟨← req y, ← req m, ← req d, o⟩))
      | "time", [h, mi, s, f, o] => do
          pure <| ok (jStr (XmlTime.str ⟨← req h, ← req mi, ← req s, ← req f, o⟩))
      | "datetime", [y, m, d, h, mi, s, f, o] => do
          pure <| ok (jStr (XmlDateTime.str ⟨← req y, ← req m, ← req d, ← req h, ← req mi, ← req s, ← req f, o⟩))
      | k, _ => .error s!"bad kind/arity {k}"
  | "date.validate_date" => some do
      let v ← ints a "v"
      match v with
      | [some y, some m, some d] => pure <| ok (jBool (validateDate y m d))
      | _ => .error "arity"
  | "date.validate_time" => some do
      let v ← ints a "v"
      match v with
      | [some h, some m, some s, some f] => pure <| ok (jBool (validateTime h m s f))
      | _ => .error "arity"
  | "period.parse" => some do
      let s ← getStr a "s"
      pure <| match XmlPeriod.ofString tblEnv s with
        | some (d, p) => ok (jObj [("data", jStr d), ("year", jOpt jInt p.year), ("month", jOpt jInt p.month),
            ("day", jOpt jInt p.day), ("offset", jOpt jInt p.offset)])
        | none => err "ValueError"
  | "dur.parse" => some do
      let s ← getStr a "s"
      pure <| match XmlDuration.ofString tblEnv s with
        | some (d, p) => ok (jObj [("data", jStr d), ("negative", jBool p.negative), ("years", jOpt jInt p.years),
            ("months", jOpt jInt p.months), ("days", jOpt jInt p.days), ("hours", jOpt jInt p.hours),
            ("minutes", jOpt jInt p.minutes), ("seconds", jOpt jStr p.seconds)])
        | none => err "ValueError"
  | "date.cmp" => some do
      let kind ← getStr a "kind"; let x ← ints a "a"; let y ← ints a "b"
      let key : List (Option Int) → Except String Int := fun v =>
        match String.ofList kind, v with
        | "time", [h, mi, s, f, o] => do
            pure (XmlTime.timeline ⟨← req h, ← req mi, ← req s, ← req f, o⟩)
        | "datetime", [y, m, d, h, mi, s, f, o] => do
            pure (XmlDateTime.timeline ⟨← req y, ← req m, ← req d, ← req h, ← req mi, ← req s, ← req f, o⟩)
        | k, _ => .error s!"bad kind/arity {k}"
      let ka ← key x; let kb ← key y
      pure <| ok (jList jBool ([CmpOp.eq, .ne, .lt, .le, .gt, .ge].map (·.apply ka kb)))
  | "date.timeline" => some do
      let kind ← getStr a "kind"; let v ← ints a "v"
      match String.ofList kind, v with
      | "time", [h, mi, s, f, o] => do
          pure <| ok (jInt (XmlTime.timeline ⟨← req h, ← req mi, ← req s, ← req f, o⟩))
      | "datetime", [y, m, d, h, mi, s, f, o] => do
          pure <| ok (jInt (XmlDateTime.timeline ⟨← req y, ← req m, ← req d, ← req h, ← req mi, ← req s, ← req f, o⟩))
      | k, _ => .error s!"bad kind/arity {k}"
  | "date.hash" => some do
      let kind ← getStr a "kind"; let v ← ints a "v"
      match String.ofList kind, v with
      | "time", [h, mi, s, f, o] => do
          pure <| ok (jInt (XmlTime.hash ⟨← req h, ← req mi, ← req s, ← req f, o⟩))
      | "datetime", [y, m, d, h, mi, s, f, o] => do
          pure <| ok (jInt (XmlDateTime.hash ⟨← req y, ← req m, ← req d, ← req h, ← req mi, ← req s, ← req f, o⟩))
      | k, _ => .error s!"bad kind/arity {k}"
  | "std.instant" => some do
      let kind ← getStr a "kind"; let v ← ints a "v"
      match String.ofList kind, v with
      | "time", [h, mi, s, us, u] => do
          pure <| ok (jInt (PyTime.instantNs ⟨← req h, ← req mi, ← req s, ← req us, u⟩))
      | "datetime", [y, m, d, h, mi, s, us, u] => do
          pure <| ok (jInt (PyDateTime.instantNs ⟨← req y, ← req m, ← req d, ← req h, ← req mi, ← req s, ← req us, u⟩))
      | k, _ => .error s!"bad kind/arity {k}"
  | "date.days_from_civil" => some do
      let v ← ints a "v"
      match v with
      | [some y, some m, some d] => pure <| ok (jInt (daysFromCivil y m d))
      | _ => .error "arity"
  | "date.to_std" => some do
      let v ← ints a "v"; let kind ← getStr a "kind"
      let pe : PyErr → Json := fun x => match x with
        | .valueError => err "ValueError" | .overflowError => err "OverflowError"
      match String.ofList kind, v with
      | "date.to_date", [y, m, d, o] => do
          pure <| match XmlDate.toDate ⟨← req y, ← req m, ← req d, o⟩ with
            | .ok r => ok (jList jInt [r.year, r.month, r.day])
            | .error x => pe x
      | "date.to_datetime", [y, m, d, o] => do
          pure <| match XmlDate.toDatetime ⟨← req y, ← req m, ← req d, o⟩ with
            | .ok r => ok (jList (jOpt jInt) [some r.year, some r.month, some r.day, some r.hour, some r.minute,
                some r.second, some r.microsecond, r.utcoffset])
            | .error x => pe x
      | "time.to_time", [h, mi, s, f, o] => do
          pure <| match XmlTime.toTime ⟨← req h, ← req mi, ← req s, ← req f, o⟩ with
            | .ok r => ok (jList (jOpt jInt) [some r.hour, some r.minute, some r.second, some r.microsecond, r.utcoffset])
            | .error x => pe x
      | "datetime.to_datetime", [y, m, d, h, mi, s, f, o] => do
          pure <| match XmlDateTime.toDatetime ⟨← req y, ← req m, ← req d, ← req h, ← req mi, ← req s, ← req f, o⟩ with
            | .ok r => ok (jList (jOpt jInt) [some r.year, some r.month, some r.day, some r.hour, some r.minute,
                some r.second, some r.microsecond, r.utcoffset])
            | .error x => pe x
      | k, _ => .error s!"bad kind/arity {k}"
  | "date.from_std" => some do
      let v ← ints a "v"; let kind ← getStr a "kind"
      match String.ofList kind, v with
      | "date.from_date", [y, m, d] => do
          let r := XmlDate.fromDate ⟨← req y, ← req m, ← req d⟩
          pure <| ok (jList (jOpt jInt) [some r.year, some r.month, some r.day, r.offset])
      | "date.from_datetime", [y, m, d, h, mi, s, us, u] => do
          let r := XmlDate.fromDatetime ⟨← req y, ← req m, ← req d, ← req h, ← req mi, ← req s, ← req us, u⟩
          pure <| ok (jList (jOpt jInt) [some r.year, some r.month, some r.day, r.offset])
      | "time.from_time", [h, mi, s, us, u] => do
          let r := XmlTime.fromTime ⟨← req h, ← req mi, ← req s, ← req us, u⟩
          pure <| ok (jList (jOpt jInt) [some r.hour, some r.minute, some r.second, some r.frac, r.offset])
      | "datetime.from_datetime", [y, m, d, h, mi, s, us, u] => do
          let r := XmlDateTime.fromDatetime ⟨← req y, ← req m, ← req d, ← req h, ← req mi, ← req s, ← req us, u⟩
          pure <| ok (jList (jOpt jInt) [some r.year, some r.month, some r.day, some r.hour, some r.minute,
            some r.second, some r.frac, r.offset])
      | k, _ => .error s!"bad kind/arity {k}"
  | "py.int" => some do
      let s ← getStr a "s"
      pure <| match tblEnv.pyInt s with
        | some i => ok (jInt i)
        | none => err "ValueError"
  | "py.strip" => some do
      let s ← getStr a "s"
      pure <| ok (jStr (tblEnv.strip s))
  | _ => none

end OpsDates
