/- `GeneratorOutput.update(**kwargs)`: the keyword arguments can be applied in any
order, and the result always satisfies both validations. -/
import XsdataModel.Codegen.Cli

set_option linter.unusedSimpArgs false
set_option linter.unusedVariables false

namespace Xs.Codegen
open Py List

/-- assignments to different fields commute -/
theorem setField_comm (o : GenOutput) (d d' : Dest) (v v' : OptVal) (h : d ≠ d') :
    (setField o d v).bind (fun o1 => setField o1 d' v')
      = (setField o d' v').bind (fun o1 => setField o1 d v) := by
  cases d <;> cases d' <;> first | (exact absurd rfl h) | (cases v <;> cases v' <;> rfl)

def applyParams (o : GenOutput) (params : List (Dest × OptVal)) : Option GenOutput :=
  params.foldlM (fun o kv => setField o kv.1 kv.2) o

theorem applyParams_cons (o : GenOutput) (kv : Dest × OptVal) (rest : List (Dest × OptVal)) :
    applyParams o (kv :: rest) = (setField o kv.1 kv.2).bind (fun o1 => applyParams o1 rest) := by
  unfold applyParams
  rw [List.foldlM_cons]
  rfl

theorem applyParams_perm {l l' : List (Dest × OptVal)} (hp : l ~ l') :
    (l.map (·.1)).Nodup → ∀ o, applyParams o l = applyParams o l' := by
  induction hp with
  | nil => intro _ _; rfl
  | cons x _ ih =>
    intro hn o
    rw [applyParams_cons, applyParams_cons]
    rw [List.map_cons] at hn
    have hn' := (List.nodup_cons.1 hn).2
    cases setField o x.1 x.2 with
    | none => rfl
    | some o1 => exact ih hn' o1
  | swap x y l =>
    intro hn o
    rw [applyParams_cons, applyParams_cons]
    simp only [applyParams_cons]
    have hne : y.1 ≠ x.1 := by
      rw [List.map_cons, List.map_cons] at hn
      have := (List.nodup_cons.1 hn).1
      intro e; apply this; rw [e]; exact List.mem_cons_self
    have hc := setField_comm o y.1 x.1 y.2 x.2 hne
    cases h1 : setField o y.1 y.2 with
    | none =>
      cases h2 : setField o x.1 x.2 with
      | none => rfl
      | some o2 =>
        rw [h1, h2] at hc
        simp only [Option.bind_none, Option.bind_some] at hc ⊢
        rw [← hc]; rfl
    | some o1 =>
      cases h2 : setField o x.1 x.2 with
      | none =>
        rw [h1, h2] at hc
        simp only [Option.bind_none, Option.bind_some] at hc ⊢
        rw [hc]; rfl
      | some o2 =>
        rw [h1, h2] at hc
        simp only [Option.bind_some] at hc ⊢
        cases h3 : setField o1 x.1 x.2 with
        | none => rw [h3] at hc; rw [← hc]
        | some o3 => rw [h3] at hc; rw [← hc]
  | trans h1 _ ih1 ih2 =>
    intro hn o
    have hn2 := (h1.map (·.1)).nodup_iff.1 hn
    exact (ih1 hn o).trans (ih2 hn2 o)

theorem update_eq (o : GenOutput) (params : List (Dest × OptVal)) :
    update o params = (applyParams o params).map
      (fun o => outputValidate { o with format := formatValidate o.format }) := rfl

/-- both validations are idempotent, together -/
theorem construct_idem (o : GenOutput) : construct (construct o) = construct o := by
  obtain ⟨p, ⟨v, r, e, od, u, fz, sl⟩, ss, ds, ri, cf, wf, ml, gc, un, ip, ih⟩ := o
  simp only [construct, outputValidate, formatValidate]
  cases od <;> cases e <;> cases gc <;> cases fz <;> simp

/-- the options that were given are among the options -/
theorem given_dests_sublist : ∀ (kwargs : List (Dest × Option OptVal)),
    ((kwargs.filterMap (fun kv => kv.2.map (fun v => (kv.1, v)))).map (·.1)).Sublist (kwargs.map (·.1))
  | [] => List.Sublist.refl _
  | (d, none) :: rest => by
    simp only [List.filterMap_cons, Option.map_none, List.map_cons]
    exact List.Sublist.cons _ (given_dests_sublist rest)
  | (d, some v) :: rest => by
    simp only [List.filterMap_cons, Option.map_some, List.map_cons]
    exact List.Sublist.cons₂ _ (given_dests_sublist rest)

end Xs.Codegen
