/- C07 — `toposort_flatten` yields a topological order: every item comes after all of its
dependencies (helper lemmas; the property theorems are in Props/C07Layout.lean). -/
import XsdataModel.Proofs.ToposortPerm
import XsdataModel.Proofs.SortPerm

namespace Xs.Codegen
open Py

/-- `l = t1 ++ k :: t2` with all of `ds` inside `t1`: `k` is emitted after every element of `ds` -/
def After (l : List Str) (k : Str) (ds : List Str) : Prop :=
  ∃ t1 t2, l = t1 ++ k :: t2 ∧ ∀ x ∈ ds, x ∈ t1

theorem toposortLoop_sound : ∀ (n : Nat) (data : Deps) (acc out : List Str),
    toposortLoop n data acc = some out →
      ∃ tail, out = acc ++ tail ∧ ∀ k ds, (k, ds) ∈ data → After tail k ds
  | 0, data, acc, out, h => by
    simp only [toposortLoop] at h
    split at h
    · rename_i he
      cases h
      refine ⟨[], by simp, ?_⟩
      intro k ds hm
      cases data with
      | nil => cases hm
      | cons a t => simp at he
    · cases h
  | n + 1, data, acc, out, h => by
    rw [toposortLoop_unfold] at h
    split at h
    · split at h
      · rename_i _ he
        cases h
        refine ⟨[], by simp, ?_⟩
        intro k ds hm
        cases data with
        | nil => cases hm
        | cons a t => simp at he
      · cases h
    · obtain ⟨tail', hout, hprop⟩ := toposortLoop_sound n _ _ _ h
      refine ⟨pySorted (readyOf data) ++ tail', by rw [hout]; simp, ?_⟩
      intro k ds hm
      cases hds : ds with
      | nil =>
        subst hds
        have hk : k ∈ pySorted (readyOf data) := pySorted_mem.2 (mem_readyOf.2 hm)
        obtain ⟨s1, s2, hs⟩ := List.append_of_mem hk
        exact ⟨s1, s2 ++ tail', by rw [hs]; simp, by simp⟩
      | cons d0 dt =>
        have hne : ds ≠ [] := by rw [hds]; simp
        have hr : (k, ds.filter (fun x => !(readyOf data).contains x)) ∈ restOf data (readyOf data) :=
          mem_restOf.2 ⟨ds, hm, hne, rfl⟩
        obtain ⟨t1, t2, ht, hin⟩ := hprop _ _ hr
        refine ⟨pySorted (readyOf data) ++ t1, t2, by rw [ht]; simp, ?_⟩
        intro x hx
        rw [← hds] at hx
        by_cases hxr : x ∈ readyOf data
        · exact List.mem_append.2 (Or.inl (pySorted_mem.2 hxr))
        · exact List.mem_append.2 (Or.inr (hin x (List.mem_filter.2 ⟨hx, by simpa using hxr⟩)))

/-- every item of the input comes after all its dependencies other than itself -/
theorem toposortFlatten_sound (data : Deps) (out : List Str) (h : toposortFlatten data = some out) :
    ∀ k ds, (k, ds) ∈ data → After out k (ds.filter (· != k)) := by
  unfold toposortFlatten at h
  obtain ⟨tail, hout, hprop⟩ := toposortLoop_sound _ _ _ _ h
  simp only [List.nil_append] at hout
  subst hout
  intro k ds hm
  apply hprop
  rw [toposortPrep_eq]
  exact List.mem_append.2 (Or.inl (mem_stripSelf.2 ⟨ds, hm, rfl⟩))

theorem value_unique : ∀ {d : Deps} {k : Str} {a b : List Str}, (d.map (·.1)).Nodup →
    (k, a) ∈ d → (k, b) ∈ d → a = b
  | [], _, _, _, _, h, _ => by cases h
  | (k0, v0) :: d, k, a, b, hn, ha, hb => by
    simp only [List.map_cons, List.nodup_cons] at hn
    rcases List.mem_cons.1 ha with ha | ha <;> rcases List.mem_cons.1 hb with hb | hb
    · cases ha; cases hb; rfl
    · cases ha; exact absurd (List.mem_map.2 ⟨(_, b), hb, rfl⟩) hn.1
    · cases hb; exact absurd (List.mem_map.2 ⟨(_, a), ha, rfl⟩) hn.1
    · exact value_unique hn.2 ha hb

/-- nothing is emitted twice and nothing but items and their dependencies is emitted -/
theorem toposortLoop_nodup : ∀ (n : Nat) (data : Deps) (acc out : List Str),
    toposortLoop n data acc = some out → (data.map (·.1)).Nodup → acc.Nodup →
      (∀ x ∈ acc, x ∉ data.map (·.1)) →
      out.Nodup ∧ ∀ x ∈ out, x ∈ acc ∨ x ∈ data.map (·.1)
  | 0, data, acc, out, h, _, ha, _ => by
    simp only [toposortLoop] at h
    split at h
    · cases h; exact ⟨ha, fun x hx => Or.inl hx⟩
    · cases h
  | n + 1, data, acc, out, h, hk, ha, hdis => by
    rw [toposortLoop_unfold] at h
    split at h
    · split at h
      · cases h; exact ⟨ha, fun x hx => Or.inl hx⟩
      · cases h
    · have hready_keys : ∀ x ∈ readyOf data, x ∈ data.map (·.1) := by
        intro x hx
        exact List.mem_map.2 ⟨(x, []), mem_readyOf.1 hx, rfl⟩
      have hrest_keys : ∀ x ∈ (restOf data (readyOf data)).map (·.1), x ∈ data.map (·.1) ∧ x ∉ readyOf data := by
        intro x hx
        obtain ⟨⟨k, r⟩, hm, rfl⟩ := List.mem_map.1 hx
        obtain ⟨ds, hm', hne, _⟩ := mem_restOf.1 hm
        refine ⟨List.mem_map.2 ⟨(k, ds), hm', rfl⟩, ?_⟩
        intro hr
        have h1 := mem_readyOf.1 hr
        -- keys are unique: (k, []) and (k, ds) with ds ≠ [] cannot both be there
        have : ds = [] := (value_unique hk h1 hm').symm
        exact hne this
      have hacc' : (acc ++ pySorted (readyOf data)).Nodup := by
        rw [List.nodup_append]
        refine ⟨ha, (pySorted_perm_self _).nodup_iff.2 (readyOf_nodup hk), ?_⟩
        intro a haa b hb hab
        subst hab
        exact hdis a haa (hready_keys a (pySorted_mem.1 hb))
      have hdis' : ∀ x ∈ acc ++ pySorted (readyOf data), x ∉ (restOf data (readyOf data)).map (·.1) := by
        intro x hx hxr
        obtain ⟨h1, h2⟩ := hrest_keys x hxr
        rcases List.mem_append.1 hx with hx | hx
        · exact hdis x hx h1
        · exact h2 (pySorted_mem.1 hx)
      obtain ⟨i1, i2⟩ := toposortLoop_nodup n _ _ _ h (restOf_keys_nodup _ hk) hacc' hdis'
      refine ⟨i1, ?_⟩
      intro x hx
      rcases i2 x hx with h1 | h1
      · rcases List.mem_append.1 h1 with h1 | h1
        · exact Or.inl h1
        · exact Or.inr (hready_keys x (pySorted_mem.1 h1))
      · exact Or.inr (hrest_keys x h1).1

theorem toposortFlatten_nodup (data : Deps) (out : List Str) (h : toposortFlatten data = some out)
    (hk : (data.map (·.1)).Nodup) :
    out.Nodup ∧ ∀ x ∈ out, x ∈ data.map (·.1) ∨ ∃ k ds, (k, ds) ∈ data ∧ x ∈ ds := by
  unfold toposortFlatten at h
  have hk' : ((toposortPrep data).map (·.1)).Nodup := by
    rw [toposortPrep_eq]
    exact withExtra_keys_nodup (by rw [stripSelf_keys]; exact hk)
  obtain ⟨h1, h2⟩ := toposortLoop_nodup _ _ _ _ h hk' List.nodup_nil (by simp)
  refine ⟨h1, ?_⟩
  intro x hx
  rcases h2 x hx with hx | hx
  · cases hx
  · rw [toposortPrep_eq, List.map_append, List.mem_append] at hx
    rcases hx with hx | hx
    · left; rw [stripSelf_keys] at hx; exact hx
    · right
      simp only [List.map_map, List.mem_map, Function.comp] at hx
      obtain ⟨y, hy, rfl⟩ := hx
      obtain ⟨⟨k, r, hm, hyr⟩, _⟩ := mem_extraOf.1 hy
      obtain ⟨ds, hm', rfl⟩ := mem_stripSelf.1 hm
      exact ⟨k, ds, hm', (List.mem_filter.1 hyr).1⟩

/-! ### completeness: an acyclic dependency relation is always sorted -/

/-- every dependency is itself an item -/
def Closed (d : Deps) : Prop := ∀ k ds, (k, ds) ∈ d → ∀ x ∈ ds, x ∈ d.map (·.1)

/-- `rank` strictly decreases along every dependency: the relation is acyclic -/
def Ranked (rank : Str → Nat) (d : Deps) : Prop := ∀ k ds, (k, ds) ∈ d → ∀ x ∈ ds, rank x < rank k

theorem exists_min_rank (rank : Str → Nat) : ∀ (l : Deps), l ≠ [] →
    ∃ e ∈ l, ∀ e' ∈ l, rank e.1 ≤ rank e'.1
  | [], h => absurd rfl h
  | [e], _ => ⟨e, by simp, by simp⟩
  | e :: e2 :: l, _ => by
    obtain ⟨m, hm, hmin⟩ := exists_min_rank rank (e2 :: l) (by simp)
    by_cases hle : rank e.1 ≤ rank m.1
    · refine ⟨e, by simp, ?_⟩
      intro e' he'
      rcases List.mem_cons.1 he' with rfl | he'
      · exact Nat.le_refl _
      · exact Nat.le_trans hle (hmin e' he')
    · refine ⟨m, List.mem_cons_of_mem _ hm, ?_⟩
      intro e' he'
      rcases List.mem_cons.1 he' with rfl | he'
      · omega
      · exact hmin e' he'

theorem closed_rest {d : Deps} (hk : (d.map (·.1)).Nodup) (hc : Closed d) :
    Closed (restOf d (readyOf d)) := by
  intro k r hm x hx
  obtain ⟨ds, hm', _, rfl⟩ := mem_restOf.1 hm
  obtain ⟨hxd, hxr⟩ := List.mem_filter.1 hx
  have hxk := hc k ds hm' x hxd
  obtain ⟨⟨x', dx⟩, hmx, rfl⟩ := List.mem_map.1 hxk
  have hdx : dx ≠ [] := by
    intro h0; subst h0
    have : x' ∈ readyOf d := mem_readyOf.2 hmx
    simp [this] at hxr
  exact List.mem_map.2 ⟨(x', dx.filter (fun y => !(readyOf d).contains y)), mem_restOf.2 ⟨dx, hmx, hdx, rfl⟩, rfl⟩

theorem ranked_rest {rank : Str → Nat} {d : Deps} (hr : Ranked rank d) :
    Ranked rank (restOf d (readyOf d)) := by
  intro k r hm x hx
  obtain ⟨ds, hm', _, rfl⟩ := mem_restOf.1 hm
  exact hr k ds hm' x (List.mem_filter.1 hx).1

theorem rest_length_lt {d : Deps} (h : (readyOf d).isEmpty = false) :
    (restOf d (readyOf d)).length < d.length := by
  unfold restOf
  rw [List.length_map]
  obtain ⟨k, hk⟩ : ∃ k, k ∈ readyOf d := by
    cases hr : readyOf d with
    | nil => simp [hr] at h
    | cons a t => exact ⟨a, by simp⟩
  have hm := mem_readyOf.1 hk
  have hle := List.length_filter_le (fun kv : Str × List Str => !kv.2.isEmpty) d
  by_cases heq : (d.filter (fun kv : Str × List Str => !kv.2.isEmpty)).length = d.length
  · have := (List.length_filter_eq_length_iff.1 heq) (k, []) hm
    simp at this
  · omega

theorem toposortLoop_complete (rank : Str → Nat) : ∀ (n : Nat) (d : Deps) (acc : List Str),
    d.length ≤ n → (d.map (·.1)).Nodup → Closed d → Ranked rank d →
      ∃ out, toposortLoop n d acc = some out
  | 0, d, acc, hl, _, _, _ => by
    have : d = [] := List.length_eq_zero_iff.1 (by omega)
    subst this
    exact ⟨acc, by simp [toposortLoop]⟩
  | n + 1, d, acc, hl, hk, hc, hr => by
    rw [toposortLoop_unfold]
    by_cases hre : (readyOf d).isEmpty = true
    · simp only [hre, if_true]
      by_cases hde : d.isEmpty = true
      · exact ⟨acc, by simp [hde]⟩
      · exfalso
        have hne : d ≠ [] := by intro h0; subst h0; simp at hde
        obtain ⟨⟨k, ds⟩, hm, hmin⟩ := exists_min_rank rank d hne
        cases ds with
        | nil =>
          have : k ∈ readyOf d := mem_readyOf.2 hm
          cases hq : readyOf d with
          | nil => rw [hq] at this; cases this
          | cons a t => rw [hq] at hre; simp at hre
        | cons x t =>
          have hx : x ∈ d.map (·.1) := hc k (x :: t) hm x (by simp)
          obtain ⟨e', he', hxe⟩ := List.mem_map.1 hx
          have h1 := hr k (x :: t) hm x (by simp)
          have h2 := hmin e' he'
          simp only [] at h2
          rw [hxe] at h2
          omega
    · simp only [hre]
      have hre' : (readyOf d).isEmpty = false := by simpa using hre
      have hlt := rest_length_lt hre'
      exact toposortLoop_complete rank n _ _ (by omega) (restOf_keys_nodup _ hk) (closed_rest hk hc) (ranked_rest hr)

/-- an acyclic dependency relation (self-dependencies do not count) is always sorted:
`CircularDependencyError` is only raised for a genuine cycle -/
theorem toposortFlatten_complete (rank : Str → Nat) (data : Deps) (hk : (data.map (·.1)).Nodup)
    (hr : ∀ k ds, (k, ds) ∈ data → ∀ x ∈ ds, x ≠ k → rank x < rank k) :
    ∃ out, toposortFlatten data = some out := by
  unfold toposortFlatten
  have hk' : ((toposortPrep data).map (·.1)).Nodup := by
    rw [toposortPrep_eq]
    exact withExtra_keys_nodup (by rw [stripSelf_keys]; exact hk)
  apply toposortLoop_complete rank _ _ _ (by omega) hk'
  · -- closed
    intro k r hm x hx
    rw [toposortPrep_eq] at hm ⊢
    rcases List.mem_append.1 hm with hm | hm
    · by_cases hxk : x ∈ (stripSelf data).map (·.1)
      · rw [List.map_append]; exact List.mem_append.2 (Or.inl hxk)
      · rw [List.map_append]
        refine List.mem_append.2 (Or.inr ?_)
        simp only [List.map_map, List.mem_map, Function.comp]
        exact ⟨x, mem_extraOf.2 ⟨⟨k, r, hm, hx⟩, hxk⟩, rfl⟩
    · simp only [List.mem_map, Prod.mk.injEq] at hm
      obtain ⟨_, _, _, rfl⟩ := hm
      cases hx
  · -- ranked
    intro k r hm x hx
    rw [toposortPrep_eq] at hm
    rcases List.mem_append.1 hm with hm | hm
    · obtain ⟨ds, hm', rfl⟩ := mem_stripSelf.1 hm
      obtain ⟨h1, h2⟩ := List.mem_filter.1 hx
      exact hr k ds hm' x h1 (by simpa using h2)
    · simp only [List.mem_map, Prod.mk.injEq] at hm
      obtain ⟨_, _, _, rfl⟩ := hm
      cases hx

end Xs.Codegen
