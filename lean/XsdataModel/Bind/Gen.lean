/-
L4 — xsdata/formats/dataclass/serializers/mixins.py : EventGenerator
(object → writer events).  Python generators become lists; the mutual
recursion between `convert_*` methods is cut by a fuel argument (each hop
costs one unit; running out yields `Err.unsupported "fuel"`, which the
driver never hits because it passes a bound on the value size).
-/
import XsdataModel.Bind.Parse

namespace Xs.Bind
open Py

structure SerCfg where
  ignoreDefaultAttributes : Bool := false
deriving Repr, DecidableEq

/-- `collections.is_array` -/
def Val.isArray : Val → Bool
  | .list _ => true
  | _ => false

/-- Python truthiness of the values of the fragment -/
def Val.truthy : Val → Bool
  | .none => false
  | .prim (.str s) => !s.isEmpty
  | .prim (.int i) => i ≠ 0
  | .prim (.bool b) => b
  | .prim (.qname _) => true
  | .list xs => !xs.isEmpty
  | .attrs m => !m.isEmpty
  | _ => true

def Val.isModel : Val → Bool
  | .obj .. => true
  | _ => false

/-- `EventGenerator.encode_primitive(value, var)` -/
def encodePrimitive : Val → Except Err Data
  | .none => .ok .none                                  -- `converter.serialize(None)` is None
  | .prim (.str s) => .ok (.prim (.str s))
  | .prim (.qname t) => .ok (.prim (.qname t))
  | .prim p => .ok (.prim (.str (serPrim p)))
  | .list xs => do
      let ds ← xs.mapM (fun v => match v with
        | .none => .ok Data.none
        | .prim (.str s) => .ok (Data.prim (.str s))
        | .prim (.qname t) => .ok (Data.prim (.qname t))
        | .prim p => .ok (Data.prim (.str (serPrim p)))
        | _ => .error (Err.unsupported "nested token list"))
      .ok (.list ds)
  | _ => .error (.unsupported "encode_primitive of a non-primitive")

/-- `getattr(obj, name)` on the exported field list -/
def getField (fields : List (Str × Val)) (name : Str) : Except Err Val :=
  match fields.find? (·.1 = name) with
  | some (_, v) => .ok v
  | none => .error (.leaked "AttributeError")

/-- equality of a value with a var default (`var.is_optional`) -/
def defaultEq (d : DefaultV) (v : Val) : Bool :=
  match d, v with
  | .none, .none => true
  | .val p, .prim q => p = q
  | .listFactory, .list [] => true
  | .dictFactory, .attrs [] => true
  | _, _ => false

/-- `DataType.from_value` as the Clark name of the datatype -/
def datatypeOf (p : PVal) : QN :=
  let code : String := match p with
    | .str _ => "string"
    | .bool _ => "boolean"
    | .qname _ => "QName"
    | .int i =>
      if -32768 ≤ i && i ≤ 32767 then "short"
      else if -2147483648 ≤ i && i ≤ 2147483647 then "int"
      else if -9223372036854775808 ≤ i && i ≤ 9223372036854775807 then "long"
      else "integer"
  ['{'] ++ xsNs ++ ['}'] ++ code.toList

/-- `EventGenerator.next_attribute` -/
def nextAttribute (cfg : SerCfg) (m : XmlMeta) (fields : List (Str × Val)) (nillable : Bool)
    (xsiTypeV : Option QN) : Except Err (List Ev) := do
  let evs ← m.attributeVars.mapM (fun var => do
    if var.isAttribute then
      let value ← getField fields var.name
      let skip := (match value with | .none => true | .list [] => true | _ => false) ||
        (cfg.ignoreDefaultAttributes && !var.required && defaultEq var.default value)
      if skip then pure [] else do
        let d ← encodePrimitive value
        pure [Ev.attr var.qname d]
    else
      match fields.find? (·.1 = var.name) with
      | some (_, .attrs kv) => pure (kv.map fun (k, v) => Ev.attr k (.prim (.str v)))
      | some (_, .none) => throw (.leaked "AttributeError")
      | some _ => throw (.unsupported "attributes value")
      | none => pure [])
  let x := match xsiTypeV with
    | some t => if t.isEmpty then [] else [Ev.attr xsiType (.prim (.qname t))]
    | none => []
  let n := if nillable then [Ev.attr xsiNil (.prim (.str "true".toList))] else []
  return evs.flatten ++ x ++ n

/-- `EventGenerator.next_value` : the (var, value) pairs in rendering order -/
def nextValue (m : XmlMeta) (fields : List (Str × Val)) : Except Err (List (XmlVar × Val)) := do
  let attrs := m.elementVars
  let emit (var : XmlVar) (v : Val) : List (XmlVar × Val) :=
    match v with
    | .none => if var.nillable then [(var, v)] else []
    | _ => [(var, v)]
  let rec roll (fuel : Nat) (j : Nat) (sequence : List (XmlVar × Val)) (acc : List (XmlVar × Val)) :
      List (XmlVar × Val) :=
    match fuel with
    | 0 => acc
    | fuel + 1 =>
      let (rolling, out) := sequence.foldl (fun (st : Bool × List (XmlVar × Val)) (vv : XmlVar × Val) =>
        -- a token list is one element, not one element per token
        match (if vv.1.listElement || !vv.1.tokens then vv.2 else Val.none), vv.2 with
        | .list xs, _ =>
          match xs[j]? with
          | some x => (true, st.2 ++ emit vv.1 x)
          | none => st
        | _, v => if j = 0 then (true, st.2 ++ emit vv.1 v) else st) (false, [])
      if rolling then roll fuel (j + 1) sequence (acc ++ out) else acc
  let rec go (fuel : Nat) (rest : List XmlVar) (acc : List (XmlVar × Val)) :
      Except Err (List (XmlVar × Val)) :=
    match fuel, rest with
    | 0, _ => .ok acc
    | _, [] => .ok acc
    | fuel + 1, var :: tl =>
      match var.sequence with
      | none => do
        let v ← getField fields var.name
        go fuel tl (acc ++ emit var v)
      | some sq => do
        -- up to the last var (in index order) with the same sequence number
        let idxs := (List.range rest.length).filter (fun i => (rest[i]?.bind (·.sequence)) = some sq)
        let endI := idxs.getLast?.getD 0
        let sequence := rest.take (endI + 1)
        let vals ← sequence.mapM (fun v => do let x ← getField fields v.name; pure (v, x))
        let maxLen := vals.foldl (fun n vv => match vv.2 with | .list xs => max n xs.length | _ => n) 1
        go fuel (rest.drop (endI + 1)) (acc ++ roll (maxLen + 2) 0 vals [])
  go (attrs.length + 1) attrs []

/-- `XmlContext.is_derived(obj, clazz)` -/
def Ctx.isDerived (Γ : Ctx) (objCls clazz : ClassId) : Bool :=
  Γ.isSubclass objCls clazz ||
  (((Γ.find clazz).map (·.bases)).getD []).any (fun b => Γ.isSubclass objCls b)

/-- `real_xsi_type` -/
def realXsiType (qname : QN) (target : Option QN) : Option QN :=
  if target ≠ some qname then target else none

/-- `XmlVar.find_value_choice` restricted to what the fragment can decide -/
def findValueChoice (e : BEnv) (Γ : Ctx) (var : XmlVar) (v : Val) : Except Err (Option VarCore) :=
  let els := var.elements.map (·.2)
  match v with
  | .none => .ok (els.find? (fun c => c.nillable && !c.tokens))
  | .list [] => .ok (els.find? (fun c => c.nillable && c.tokens))
  | .obj cls _ =>
    -- find_clazz_choice
    match els.find? (fun c => c.clazz.isSome && c.types.contains (.cls cls)) with
    | some c => .ok (some c)
    | none => .ok (els.find? (fun c => c.clazz.isSome &&
        c.types.any (fun t => match t with | .cls k => Γ.isSubclass cls k | _ => false)))
  | .prim p =>
    let tp : TypeRef := match p with
      | .str _ => .prim .str | .int _ => .prim .int | .bool _ => .prim .bool | .qname _ => .prim .qname
    -- candidates of the value's exact type first, then the first one that converts it
    let cands := els.filter fun c => !(c.anyType || c.clazz.isSome) && !c.tokens
    match cands.find? (fun c => c.types.contains tp) with
    | some c => .ok (some c)
    | none =>
      .ok (cands.find? fun c =>
        match p with
        | .str s => (deserialize e s c.types []).isSome     -- `converter.test(value, types)`
        | _ => false)
  | _ => .error (.unsupported "find_value_choice")

/-- `EventGenerator.convert_element` -/
def convertElement (var : VarCore) (v : Val) : Except Err (List Ev) := do
  let nilA := if var.nillable && !v.truthy then [Ev.attr xsiNil (.prim (.str "true".toList))] else []
  let xt := match v with
    | .prim p =>
      if p ≠ .str [] && var.anyType && datatypeOf p ≠ datatypeOf (.str []) then
        [Ev.attr xsiType (.prim (.qname (datatypeOf p)))] else []
    | _ => []
  let d ← encodePrimitive v
  return [Ev.start var.qname] ++ nilA ++ xt ++ [Ev.data d, Ev.end var.qname]

mutual

/-- `convert_dataclass` -/
def genObj (e : BEnv) (Γ : Ctx) (cfg : SerCfg) : Nat → Val → Option Str → Option QN → Bool → Option QN → Except Err (List Ev)
  | 0, _, _, _, _, _ => .error (.unsupported "fuel")
  | fuel + 1, v, pns, qname, nillable, xsiTypeV =>
    match v with
    | .obj cls fields => do
      let m ← Γ.fetch cls pns none
      let qname := match qname with
        | some q => if q.isEmpty then m.qname else q
        | none => m.qname
      let nillable := nillable || m.nillable
      -- the classes of the child values inherit the namespace of this class (`meta.namespace`),
      -- like `ElementNode.build_node`, not the one of the element name
      let ns := m.namespace
      let attrs ← nextAttribute cfg m fields nillable xsiTypeV
      let vals ← nextValue m fields
      let body ← vals.mapM (fun (var, value) => do
        let inner ← genValue e Γ cfg fuel value var ns
        match var.wrapperQName with
        | some w => pure ([Ev.start w] ++ inner ++ [Ev.end w])
        | none => pure inner)
      return [Ev.start qname] ++ attrs ++ body.flatten ++ [Ev.end qname]
    | _ => .error (.unsupported "convert_dataclass of a non-model")

/-- `convert_value` -/
def genValue (e : BEnv) (Γ : Ctx) (cfg : SerCfg) : Nat → Val → XmlVar → Option Str → Except Err (List Ev)
  | 0, _, _, _ => .error (.unsupported "fuel")
  | fuel + 1, v, var, ns =>
    if var.mixed then
      match v with
      | .list xs => do
        let parts ← xs.mapM (fun x => genAnyType e Γ cfg fuel x var ns)
        return parts.flatten
      | .prim (.str s) => do
        -- `for value in values` over a `str` yields its characters
        let parts ← s.mapM (fun c => genAnyType e Γ cfg fuel (.prim (.str [c])) var ns)
        return parts.flatten
      | _ => .error (.leaked "TypeError")
    else if var.isText then do
      let d ← encodePrimitive v
      return [Ev.data d]
    else if var.tokens then
      -- convert_tokens
      -- an empty list of token lists has no element to be nil
      if v.truthy || (var.nillable && !var.listElement) then
        match v with
        | .list (.list x :: rest) => do
          let parts ← (.list x :: rest).mapM (fun val => convertElement var.toVarCore val)
          return parts.flatten
        | .prim (.int _) | .prim (.bool _) =>
          -- `value[0]` on a truthy scalar (a tokens field inside a `sequence` group)
          if v.truthy then .error (.leaked "TypeError") else convertElement var.toVarCore v
        | _ => convertElement var.toVarCore v
      else .ok []
    else if var.isElements then
      match v with
      | .list xs => do
        let parts ← xs.mapM (fun x => genChoice e Γ cfg fuel x var ns)
        return parts.flatten
      | _ => genChoice e Γ cfg fuel v var ns
    else if var.listElement && v.isArray then
      match v with
      | .list xs => do
        let parts ← xs.mapM (fun x => genValue e Γ cfg fuel x var ns)
        return parts.flatten
      | _ => .ok []
    else genAnyType e Γ cfg fuel v var ns

/-- `convert_any_type` -/
def genAnyType (e : BEnv) (Γ : Ctx) (cfg : SerCfg) : Nat → Val → XmlVar → Option Str → Except Err (List Ev)
  | 0, _, _, _ => .error (.unsupported "fuel")
  | fuel + 1, v, var, ns =>
    match v with
    | .any qname text tail attrs children => do
      -- convert_any_element
      let q := match qname with | some q => if q.isEmpty then none else some q | none => none
      let ns' := match q with | some q => targetUri q | none => ns
      let kids ← children.mapM (fun c => genAnyType e Γ cfg fuel c var ns')
      let tl := match tail with | some t => if t.isEmpty then [] else [Ev.data (.prim (.str t))] | none => []
      -- an `xsi:nil` of the element's own attributes: the start tag is flushed by a `DATA None` first
      let nilFlush := if attrs.any (·.1 = xsiNil) then [Ev.data .none] else []
      return (match q with | some q => [Ev.start q] | none => [])
        ++ attrs.map (fun (k, x) => Ev.attr k (.prim (.str x)))
        ++ nilFlush
        ++ [Ev.data (match text with | some t => .prim (.str t) | none => .none)]
        ++ kids.flatten
        ++ (match q with | some q => [Ev.end q] | none => [])
        ++ tl
    | .derived qname value _ =>
      -- convert_derived_element
      match value with
      | .obj cls _ => do
        let m ← Γ.fetch cls none none
        genObj e Γ cfg fuel value ns (some qname) false (realXsiType qname m.targetQName)
      | .prim p => do
        let d ← encodePrimitive value
        return [Ev.start qname, Ev.attr xsiType (.prim (.qname (datatypeOf p))), Ev.data d, Ev.end qname]
      | _ => .error (.unsupported "derived value")
    | .obj cls _ =>
      -- convert_xsi_type
      if var.isWildcard then do
        match ← findValueChoice e Γ var v with
        | some choice =>
          if choice.kind = .element && !choice.mixed && !choice.tokens then
            genXsiElement e Γ cfg fuel v cls choice ns
          else .error (.unsupported "wildcard choice kind")
        | none => genObj e Γ cfg fuel v ns none false none
      else if var.isElement then genXsiElement e Γ cfg fuel v cls var.toVarCore ns
      else do
        let m ← Γ.fetch cls ns none
        genObj e Γ cfg fuel v none m.targetQName false none
    | _ =>
      if var.isElement then convertElement var.toVarCore v
      else do
        let d ← encodePrimitive v
        return [Ev.data d]

/-- the `var.is_element` branch of `convert_xsi_type` (with `xsi_type`) -/
def genXsiElement (e : BEnv) (Γ : Ctx) (cfg : SerCfg) : Nat → Val → ClassId → VarCore → Option Str → Except Err (List Ev)
  | 0, _, _, _, _ => .error (.unsupported "fuel")
  | fuel + 1, v, cls, var, ns => do
    let xt ←
      if var.types.contains (.cls cls) then pure none
      else
        match var.clazz with
        | some c =>
          if Γ.isDerived cls c then do
            -- the parser builds the declared class unless told otherwise: no `real_xsi_type` shortcut
            let m ← Γ.fetch cls ns none
            pure m.targetQName
          else throw (.serializer "not derived")
        | none => do
          let m ← Γ.fetch cls ns none
          pure (realXsiType var.qname m.targetQName)
    -- the object is not `None`: the field being nillable is no reason for `xsi:nil`
    genObj e Γ cfg fuel v ns (some var.qname) false xt

/-- `convert_choice` -/
def genChoice (e : BEnv) (Γ : Ctx) (cfg : SerCfg) : Nat → Val → XmlVar → Option Str → Except Err (List Ev)
  | 0, _, _, _ => .error (.unsupported "fuel")
  | fuel + 1, v, var, ns =>
    match v with
    | .derived qname value _ =>
      match var.findChoice qname with
      | none => .error (.serializer "XmlElements undefined choice")
      | some choice =>
        if choice.isWildcard then genAnyType e Γ cfg fuel v choice ns   -- like a wildcard field
        else
        match value with
        | .obj .. => genAnyType e Γ cfg fuel value choice ns     -- convert_xsi_type on a model
        | _ => convertElement choice.toVarCore value
    | .any (some q) .. =>
      if q.isEmpty then .error (.unsupported "anonymous any in compound") else
      match var.findChoice q with
      | none => .error (.serializer "XmlElements undefined choice")
      | some choice => genAnyType e Γ cfg fuel v choice ns
    | _ => do
      match ← findValueChoice e Γ var v with
      | some choice => genValue e Γ cfg fuel v choice.toVar ns
      | none =>
        if v.isModel then genAnyType e Γ cfg fuel v var ns      -- func = convert_xsi_type, choice = var
        else .error (.serializer "XmlElements undefined choice")

end

mutual
/-- a fuel bound for `generate` -/
def Val.size : Val → Nat
  | .list xs => 1 + sizeList xs
  | .obj _ fs => 1 + sizeFields fs
  | .any _ _ _ _ cs => 1 + sizeList cs
  | .derived _ v _ => 1 + Val.size v
  | _ => 1
def sizeList : List Val → Nat
  | [] => 0
  | x :: xs => x.size + sizeList xs
def sizeFields : List (Str × Val) → Nat
  | [] => 0
  | (_, v) :: r => v.size + sizeFields r
end

/-- `EventGenerator.generate(obj)` -/
def generate (e : BEnv) (Γ : Ctx) (cfg : SerCfg) (v : Val) : Except Err (List Ev) :=
  let fuel := 4 * v.size + 8
  match v with
  | .derived qname value _ =>
    match value with
    | .obj cls _ => do
      let m ← Γ.fetch cls none none
      genObj e Γ cfg fuel value none (some qname) false (realXsiType qname m.targetQName)
    | _ => .error (.leaked "AttributeError")
  | _ => genObj e Γ cfg fuel v none none false none

end Xs.Bind
