structure S where
  id : List Char
  metas : Nat
def a : S := { id := ['I', 't', 'e', 'm'], metas := 1 }
def b : S := { id := ['W', 'L']
               metas := 1 }
def c : S := { id := ['W', 'L'],
               metas := 1 }
def d : S := { metas := 1, id := ['W', 'L'] }
structure T where
  id : List Char
  foo : Nat
def e : T := { id := ['W', 'L'], foo := 1 }
