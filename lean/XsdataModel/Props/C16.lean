/- C16 — the occurrence decisions of `DtdMapper.build_content` against the language of the DTD
content model: property theorems (only).

`dtdSites c` are the fields `DtdMapper` creates for the content tree `c` (libxml2's binary
tree), `occurs` what the handlers of the FLATTEN step leave of them, `c.toParticle` the content
model `lxml.etree.DTD` validates, `Matches` its language. As for C02: a non-list field rejects
a second occurrence of its element, a field with `min ≥ 1` that is not a list rejects a
document without the element.

The model is the mapper after the repair `fix: DtdMapper combines the occurrence of enclosing
sequence and choice nodes with the occurrence of their children` (the occurrence indicators of
SEQ / OR nodes are recorded as steps of the restrictions path, `CalculateAttributePaths` does the
arithmetic): the statements hold for **every** content model with pairwise distinct names, no
longer only for "repetition on single elements and on choices of single elements". Before the
repair `(a,b)*`, `(a,b)?` and `(a|b+)` were counterexamples (findings
`C16-sequence-occurrence-dropped`, `C16-choice-overrides-child-occurrence`, now under `fixed`).
Vocabulary (`dtdNames`, `dtdDistinct`, `noPcdata`, `dtdLive`, `toParticleV`) and helper lemmas:
`Proofs/OccursDtd`. -/
import XsdataModel.Gen.Occurs
import XsdataModel.Proofs.OccursDtd
import XsdataModel.Proofs.DtdAttrs
import XsdataModel.Proofs.EnumDefault
import XsdataModel.Gen.DtdElem
import XsdataModel.Proofs.DtdElem

namespace Props.C16
open Py Xs.Gen

/-! ## 1. every content model with pairwise distinct names -/

/-- a running example: `(a, ((b | c | d)?, e*))` -/
def exC : DtdContent :=
  .seq .once (some (.element ['a'] .once))
    (some (.seq .once
      (some (.or .opt (some (.element ['b'] .once))
        (some (.or .once (some (.element ['c'] .once)) (some (.element ['d'] .once))))))
      (some (.element ['e'] .mult))))

/-- its content model as a particle -/
def exCP : Particle :=
  .seq 1 1 [.elem ['a'] 1 1,
    .seq 1 1 [.choice 0 1 [.elem ['b'] 1 1, .choice 1 1 [.elem ['c'] 1 1, .elem ['d'] 1 1]],
              .elem ['e'] 0 maxsize]]

theorem exC_toParticle : exC.toParticle = some exCP := rfl

/-- `[a, c, e, e]` is a word of the running example -/
theorem exC_matches : Matches exCP [['a'], ['c'], ['e'], ['e']] :=
  matches_seq.2 ⟨[[['a'], ['c'], ['e'], ['e']]], by decide, (by
    intro x hx
    rw [List.mem_singleton.1 hx]
    exact seqOnce_cons.2 ⟨[['a']], [['c'], ['e'], ['e']], matches_elem.2 ⟨1, by decide, rfl⟩,
      seqOnce_cons.2 ⟨[['c'], ['e'], ['e']], [],
        matches_seq.2 ⟨[[['c'], ['e'], ['e']]], by decide, (by
          intro y hy
          rw [List.mem_singleton.1 hy]
          exact seqOnce_cons.2 ⟨[['c']], [['e'], ['e']],
            matches_choice.2 ⟨[[['c']]], by decide, (by
              intro z hz
              rw [List.mem_singleton.1 hz]
              exact choiceOnce_cons.2 (Or.inr (choiceOnce_cons.2 (Or.inl
                (matches_choice.2 ⟨[[['c']]], by decide, (by
                  intro u hu
                  rw [List.mem_singleton.1 hu]
                  exact choiceOnce_cons.2 (Or.inl (matches_elem.2 ⟨1, by decide, rfl⟩))),
                  rfl⟩))))), rfl⟩,
            seqOnce_cons.2 ⟨[['e'], ['e']], [], matches_elem.2 ⟨2, by decide, rfl⟩,
              seqOnce_nil.2 rfl, rfl⟩, rfl⟩), rfl⟩,
        seqOnce_nil.2 rfl, rfl⟩, rfl⟩), rfl⟩

/-- the fields of the running example: `a` required, `b c d` optional, `e` a list -/
theorem exC_occurs : occurs (dtdSites exC) = [
    { name := ['a'], index := 0, min := 1, max := 1, path := [⟨.s, 1, 1, 1⟩],
      choice := none, sequence := some 1 },
    { name := ['b'], index := 1, min := 0, max := 1,
      path := [⟨.s, 1, 1, 1⟩, ⟨.s, 2, 1, 1⟩, ⟨.c, 3, 0, 1⟩], choice := some 3, sequence := some 1 },
    { name := ['c'], index := 2, min := 0, max := 1,
      path := [⟨.s, 1, 1, 1⟩, ⟨.s, 2, 1, 1⟩, ⟨.c, 3, 0, 1⟩, ⟨.c, 4, 1, 1⟩],
      choice := some 3, sequence := some 1 },
    { name := ['d'], index := 3, min := 0, max := 1,
      path := [⟨.s, 1, 1, 1⟩, ⟨.s, 2, 1, 1⟩, ⟨.c, 3, 0, 1⟩, ⟨.c, 4, 1, 1⟩],
      choice := some 3, sequence := some 1 },
    { name := ['e'], index := 4, min := 0, max := maxsize,
      path := [⟨.s, 1, 1, 1⟩, ⟨.s, 2, 1, 1⟩], choice := none, sequence := some 1 }] := by
  decide

/-- **The mapper's fields are the XSD mapper's element sites of the same content model**
(`#PCDATA` read as an element `value`): after the repair DTD and XSD share one occurrence
arithmetic. -/
theorem dtd_sites_are_xsd_sites (c : DtdContent) : dtdSites c = sites c.toParticleV :=
  dtdSites_eq_sites c

/-- **One field per node, document order**: with pairwise distinct field names the FLATTEN handlers
keep one field per element / `#PCDATA` node. -/
theorem dtd_occurs_distinct (c : DtdContent) (hd : dtdDistinct c = true) :
    (occurs (dtdSites c)).map (·.name) = dtdNames c := by
  have hd' : (dtdNames c).Nodup := of_decide_eq_true hd
  rw [occurs_dtdSites c hd', ← calculatePaths_eq_map, calculatePaths_names, dtdSites_names]

example : dtdDistinct exC = true := by decide

/-- **A non-list field never sees its element twice** — every content tree without `#PCDATA`
node (see `noPcdata`; the lone `#PCDATA` content is `dtd_pcdata_only`), no restriction on where
the occurrence indicators sit. -/
theorem dtd_nonlist_sound (c : DtdContent) (hn : noPcdata c = true) (hd : dtdDistinct c = true)
    (p : Particle) (hp : c.toParticle = some p) (w : List Str) (hw : Matches p w)
    (s : Site) (hs : s ∈ occurs (dtdSites c))
    (hl : s.isList = false) : w.count s.name ≤ 1 :=
  dtd_nonlist_sound_core c hn (of_decide_eq_true hd) p hp w hw s hs hl

/-- the hypotheses are satisfiable: field `c` of the running example, word `[a, c, e, e]` -/
example : List.count ['c'] [['a'], ['c'], ['e'], ['e']] ≤ 1 :=
  dtd_nonlist_sound exC (by decide) (by decide) _ exC_toParticle _ exC_matches
    { name := ['c'], index := 2, min := 0, max := 1,
      path := [⟨.s, 1, 1, 1⟩, ⟨.s, 2, 1, 1⟩, ⟨.c, 3, 0, 1⟩, ⟨.c, 4, 1, 1⟩],
      choice := some 3, sequence := some 1 } (by rw [exC_occurs]; decide) (by decide)

/-- **A required non-list field always finds its element exactly once.** -/
theorem dtd_required_sound (c : DtdContent) (hn : noPcdata c = true) (hd : dtdDistinct c = true)
    (p : Particle) (hp : c.toParticle = some p) (w : List Str) (hw : Matches p w)
    (s : Site) (hs : s ∈ occurs (dtdSites c))
    (hr1 : s.min ≥ 1) (hl : s.isList = false) : w.count s.name = 1 :=
  dtd_required_sound_core c hn (of_decide_eq_true hd) p hp w hw s hs hr1 hl

/-- the hypotheses are satisfiable: field `a` of the running example -/
example : List.count ['a'] [['a'], ['c'], ['e'], ['e']] = 1 :=
  dtd_required_sound exC (by decide) (by decide) _ exC_toParticle _ exC_matches
    { name := ['a'], index := 0, min := 1, max := 1, path := [⟨.s, 1, 1, 1⟩],
      choice := none, sequence := some 1 } (by rw [exC_occurs]; decide) (by decide) (by decide)

/-- **Converse sanity — list fields are needed** (every `or` node has an alternative). -/
theorem dtd_list_needed (c : DtdContent) (hn : noPcdata c = true) (hd : dtdDistinct c = true)
    (hlive : dtdLive c = true) (p : Particle) (hp : c.toParticle = some p)
    (s : Site) (hs : s ∈ occurs (dtdSites c))
    (hl : s.isList = true) : ∃ w, Matches p w ∧ 2 ≤ w.count s.name :=
  dtd_list_needed_core c hn (of_decide_eq_true hd) hlive p hp s hs hl

/-- the hypotheses are satisfiable: field `e` of the running example -/
example : ∃ w, Matches exCP w ∧ 2 ≤ w.count ['e'] :=
  dtd_list_needed exC (by decide) (by decide) (by decide) _ exC_toParticle
    { name := ['e'], index := 4, min := 0, max := maxsize,
      path := [⟨.s, 1, 1, 1⟩, ⟨.s, 2, 1, 1⟩], choice := none, sequence := some 1 }
    (by rw [exC_occurs]; decide) (by decide)

/-- the lone `#PCDATA` content (`<!ELEMENT x (#PCDATA)>`): one text field `value` with the bounds
of the node's own indicator -/
theorem dtd_pcdata_only (o : Occur) : occurs (dtdSites (.pcdata o)) =
    [{ name := "value".toList, index := 0, min := (buildOccurs o).1, max := (buildOccurs o).2 }] := by
  cases o <;> decide

/-! ## 2. the former counterexamples (repaired) -/

/-- `(a, b)*` -/
def starSeqC : DtdContent := .seq .mult (some (.element ['a'] .once)) (some (.element ['b'] .once))

theorem starSeqC_matches :
    Matches (.seq 0 maxsize [.elem ['a'] 1 1, .elem ['b'] 1 1]) [['a'], ['b'], ['a'], ['b']] :=
  have hab : SeqOnce [.elem ['a'] 1 1, .elem ['b'] 1 1] [['a'], ['b']] :=
    seqOnce_cons.2 ⟨[['a']], [['b']], matches_elem.2 ⟨1, by decide, rfl⟩,
      seqOnce_cons.2 ⟨[['b']], [], matches_elem.2 ⟨1, by decide, rfl⟩, seqOnce_nil.2 rfl, rfl⟩, rfl⟩
  matches_seq.2 ⟨[[['a'], ['b']], [['a'], ['b']]], by decide, (by
    intro x hx
    simp only [List.mem_cons, List.not_mem_nil, or_false, or_self] at hx
    rw [hx]; exact hab), rfl⟩

/-- **Repaired** (`C16-sequence-occurrence-dropped`): the indicator of a sequence node reaches
its members: `<!ELEMENT r ((a, b)*)>` gives two optional list fields (before: two required
single-valued fields, and `<r><a/><b/><a/><b/></r>` was rejected). -/
theorem starSeqC_occurs : occurs (dtdSites starSeqC) = [
    { name := ['a'], index := 0, min := 0, max := maxsize, path := [⟨.s, 1, 0, maxsize⟩],
      choice := none, sequence := some 1 },
    { name := ['b'], index := 1, min := 0, max := maxsize, path := [⟨.s, 1, 0, maxsize⟩],
      choice := none, sequence := some 1 }] := by
  decide

/-- `(a | b+)` -/
def plusAltC : DtdContent := .or .once (some (.element ['a'] .once)) (some (.element ['b'] .plus))

/-- **Repaired** (`C16-choice-overrides-child-occurrence`): an alternative keeps its own
indicator: `<!ELEMENT r (a | b+)>` gives an optional field `a` and a list field `b` (before: `b`
single-valued, and `<r><b/><b/></r>` was rejected). -/
theorem plusAltC_occurs : occurs (dtdSites plusAltC) = [
    { name := ['a'], index := 0, min := 0, max := 1, path := [⟨.c, 1, 1, 1⟩],
      choice := some 1, sequence := none },
    { name := ['b'], index := 1, min := 0, max := maxsize, path := [⟨.c, 1, 1, 1⟩],
      choice := some 1, sequence := none }] := by
  decide

/-- `(a, b)?` -/
def optSeqC : DtdContent := .seq .opt (some (.element ['a'] .once)) (some (.element ['b'] .once))

/-- **Repaired**: `<!ELEMENT r ((a, b)?)>` gives two optional fields (before: two required
fields, and `<r/>` was rejected). -/
theorem optSeqC_occurs : occurs (dtdSites optSeqC) = [
    { name := ['a'], index := 0, min := 0, max := 1, path := [⟨.s, 1, 0, 1⟩],
      choice := none, sequence := some 1 },
    { name := ['b'], index := 1, min := 0, max := 1, path := [⟨.s, 1, 0, 1⟩],
      choice := none, sequence := some 1 }] := by
  decide

/-! ## 3. the full statement still fails: two nodes with the same name -/

/-- `dtd_nonlist_sound` without the restriction to distinct names -/
def DtdNonlistSound : Prop :=
  ∀ (c : DtdContent) (p : Particle) (w : List Str) (s : Site),
    noPcdata c = true → c.toParticle = some p → Matches p w →
    s ∈ occurs (dtdSites c) → s.isList = false → w.count s.name ≤ 1

/-- `((a | b), (a | c))` -/
def dupC : DtdContent :=
  .seq .once
    (some (.or .once (some (.element ['a'] .once)) (some (.element ['b'] .once))))
    (some (.or .once (some (.element ['a'] .once)) (some (.element ['c'] .once))))

theorem dupC_matches :
    Matches (.seq 1 1 [.choice 1 1 [.elem ['a'] 1 1, .elem ['b'] 1 1],
                       .choice 1 1 [.elem ['a'] 1 1, .elem ['c'] 1 1]]) [['a'], ['a']] :=
  have ha : Matches (.elem ['a'] 1 1) [['a']] := matches_elem.2 ⟨1, by decide, rfl⟩
  matches_seq.2 ⟨[[['a'], ['a']]], by decide, (by
    intro x hx
    rw [List.mem_singleton.1 hx]
    exact seqOnce_cons.2 ⟨[['a']], [['a']],
      matches_choice.2 ⟨[[['a']]], by decide, (by
        intro y hy
        rw [List.mem_singleton.1 hy]
        exact choiceOnce_cons.2 (Or.inl ha)), rfl⟩,
      seqOnce_cons.2 ⟨[['a']], [],
        matches_choice.2 ⟨[[['a']]], by decide, (by
          intro y hy
          rw [List.mem_singleton.1 hy]
          exact choiceOnce_cons.2 (Or.inl ha)), rfl⟩,
        seqOnce_nil.2 rfl, rfl⟩, rfl⟩), rfl⟩

theorem dupC_occurs : occurs (dtdSites dupC) = [
    { name := ['a'], index := 0, min := 0, max := 1, path := [⟨.s, 1, 1, 1⟩, ⟨.c, 2, 1, 1⟩],
      choice := some 2, sequence := some 1 },
    { name := ['b'], index := 1, min := 0, max := 1, path := [⟨.s, 1, 1, 1⟩, ⟨.c, 2, 1, 1⟩],
      choice := some 2, sequence := some 1 },
    { name := ['c'], index := 3, min := 0, max := 1, path := [⟨.s, 1, 1, 1⟩, ⟨.c, 3, 1, 1⟩],
      choice := some 3, sequence := some 1 }] := by
  decide

/-- **Defect (finding `C16-duplicate-name-sites`, same handler as `C02-duplicate-name-sites`)**:
for `<!ELEMENT r ((a|b),(a|c))>` `MergeAttributes` treats the two nodes of `a` as mutually
exclusive and keeps `max_occurs = 1`, but `<r><a/><a/></r>` is valid. -/
theorem dtd_duplicate_sites : ¬ DtdNonlistSound := by
  intro h
  have := h dupC _ [['a'], ['a']]
    { name := ['a'], index := 0, min := 0, max := 1, path := [⟨.s, 1, 1, 1⟩, ⟨.c, 2, 1, 1⟩],
      choice := some 2, sequence := some 1 }
    (by decide) rfl dupC_matches (by rw [dupC_occurs]; decide) (by decide)
  exact absurd this (by decide)

/-! ## 4. attribute declarations: `#REQUIRED`, `#IMPLIED`, `#FIXED`, defaults

`dtdAttrField d`: the dataclass field the pipeline generates for `<!ATTLIST e a TYPE default>`
(`DtdMapper.build_attribute_restrictions`, then the XSD attribute machinery of `Gen/Attrs`);
`DtdAttrDecl.allows` / `normalized`: the validity constraints of XML 1.0 3.3.2 and the value the
application sees (Spec). -/

/-- **Attribute defaults and fixed values are materialised as the DTD prescribes**: for every
grammatical declaration, whatever a DTD-valid element carries for it, the strict parser accepts it
and the field holds the given value, or the declared default / fixed value of an absent attribute,
or nothing. -/
theorem dtd_attribute_faithful (d : DtdAttrDecl) (hwf : d.wf = true) (x : Option Str)
    (hx : d.allows x) : readAttr (dtdAttrField d) x = some (d.normalized x) :=
  dtd_attribute_faithful_core d hwf x hx

/-- the hypotheses are satisfiable: `a CDATA "D"`, attribute absent → `D` … -/
example : readAttr (dtdAttrField { default := .noneD, value := some ['D'] }) none = some (some ['D']) :=
  dtd_attribute_faithful { default := .noneD, value := some ['D'] } (by decide) none
    (by simp [DtdAttrDecl.allows])

/-- … `a CDATA #FIXED "F"`, attribute given (necessarily as `F`) → `F`, from a field with
`init=False` -/
example : readAttr (dtdAttrField { default := .fixed, value := some ['F'] }) (some ['F']) =
    some (some ['F']) :=
  dtd_attribute_faithful { default := .fixed, value := some ['F'] } (by decide) (some ['F'])
    (by simp [DtdAttrDecl.allows])

/-- **A required attribute field is present in every valid document**: a field without default
only comes from `#REQUIRED`. -/
theorem dtd_attribute_required_sound (d : DtdAttrDecl) (hwf : d.wf = true) (f : Field)
    (h : dtdAttrField d = some f) (hm : f.default = .missing) :
    d.default = .required ∧ ¬ d.allows none :=
  dtd_attribute_required_core d hwf f h hm

example : dtdAttrField { default := .required } = some { init := true, default := .missing } := by
  decide

/-- **The declared default of a list-typed attribute is kept** (NMTOKENS / IDREFS / ENTITIES with a
default or `#FIXED` value): the generated field carries the declared tokens as its default, for
`#FIXED` with `init=False` — `should_reset_default` looks at `is_list` (several occurrences), never
at the tokens flag. (`dtd_attribute_faithful` ranges over these declarations too: an element that
omits the attribute is read with the declared tokens.) -/
theorem dtd_tokens_default_kept (d : DtdAttrDecl) (v : Str) (hv : d.value = some v)
    (hk : d.default = .fixed ∨ d.default = .noneD) :
    dtdAttrField d = some { init := d.default ≠ .fixed, default := .value v } := by
  obtain ⟨k, w, t⟩ := d
  simp only at hv hk
  subst hv
  rcases hk with rfl | rfl <;> cases t <;>
    simp [dtdAttrField, dtdAttr, fieldOf, sanitize, shouldResetRequired, shouldResetDefault, GAttr.isList]

/-- `toks NMTOKENS "t1 t2"`, attribute absent → the declared tokens -/
example : readAttr (dtdAttrField { default := .noneD, value := some "t1 t2".toList, tokens := true }) none
    = some (some "t1 t2".toList) := by decide

/-- **Every declared default is materialised, whatever the text** — the empty string (`a CDATA ""`), a blank,
`0`, `false`, `None` are defaults like any other: an element that omits the attribute is read with the declared
value (`DtdMapper.build_attribute_restrictions` tests `default_value is not None`, not its truth value). -/
theorem dtd_declared_default_materialised (d : DtdAttrDecl) (v : Str) (hv : d.value = some v)
    (hk : d.default = .fixed ∨ d.default = .noneD) :
    readAttr (dtdAttrField d) none = some (some v) := by
  rw [dtd_tokens_default_kept d v hv hk]
  simp [readAttr]

/-- `suffix CDATA ""`, attribute absent → the empty string, from a field with the default `""` -/
example : dtdAttrField { default := .noneD, value := some [] } = some { init := true, default := .value [] } := by decide
example : readAttr (dtdAttrField { default := .noneD, value := some [] }) none = some (some []) :=
  dtd_declared_default_materialised _ [] rfl (Or.inr rfl)

/-- … which is not the declaration without default (`#IMPLIED`): that one reads as "no attribute" -/
example : readAttr (dtdAttrField { default := .implied }) none = some none := by decide

/-- a list-typed attribute without default (`#IMPLIED`, `#REQUIRED`) gets `default_factory=list` -/
theorem dtd_tokens_no_default (d : DtdAttrDecl) (ht : d.tokens = true) (hv : d.value = none)
    (hk : d.default = .required ∨ d.default = .implied) :
    dtdAttrField d = some { init := true, default := .listFactory } := by
  obtain ⟨k, w, t⟩ := d
  simp only at hv ht hk
  subst hv ht
  rcases hk with rfl | rfl <;>
    simp [dtdAttrField, dtdAttr, fieldOf, sanitize, shouldResetRequired, shouldResetDefault, GAttr.isList]

/-! ## 5. element declarations: mixed content

`dtdClassFields t content`: the element fields of the class of `<!ELEMENT e …>` by the element type
and content tree libxml2 reports (`DtdMapper.build_elements`, `build_mixed_content`, the FLATTEN
handlers, `ProcessMixedContentClass`; model `Gen/DtdElem`, tied to the code by the op
`gen.dtd_elem`). The shapes of the other declaration kinds (`EMPTY`: no fields; `(#PCDATA)`: a text
field; `ANY`: the single, non-mixed wildcard behind finding `C16-any-drops-text`; element content:
the fields of sections 1–3) are definitional cases of the model: lemmas in `Proofs/DtdElem`. -/

/-- **Mixed content `(#PCDATA | a | b | …)*`: one wildcard list whose choices are exactly the
listed elements**, for every tree below the `#PCDATA` leaf with pairwise distinct names: no
occurrence bound is left that a valid document could violate, and every element the declaration
lists (and no other) is bound to its class instead of a generic element. -/
theorem dtd_mixed_choices (o o' : Occur) (r : Option DtdContent)
    (hd : dtdDistinct (.or o none r) = true) :
    dtdClassFields .mixed (some (.or o (some (.pcdata o')) r)) =
      .mixedWildcard (dtdNames (.or o none r)) :=
  dtd_mixed_choices_core o o' r (of_decide_eq_true hd)

/-- the hypotheses are satisfiable: `(#PCDATA | a | b)*` as libxml2 reports it -/
example : dtdClassFields .mixed (some (.or .mult (some (.pcdata .once))
      (some (.or .once (some (.element ['a'] .once)) (some (.element ['b'] .once)))))) =
    .mixedWildcard [['a'], ['b']] :=
  (dtd_mixed_choices .mult .once _ (by decide)).trans (by decide)

/-! ## enumeration-typed fields: the default is the member with the declared *value*

an enumerated attribute `(on|ON|off) "ON"`: `SanitizeAttributesDefaultValue.is_valid_enum_type` turns the string default into a reference
to member *names* (which `RenameDuplicateAttributes` may have changed: `on`, `ON` → `on`, `ON_1`),
`Filters.field_default_enum` renders the reference (model `Gen/EnumDefault`, lemmas
`Proofs/EnumDefault`). -/

/-- **The default of an enumeration-typed field is the member whose value was declared**: for every
enumeration with pairwise distinct values and (after renaming) pairwise distinct, non-empty member
names, and every member `m`, a field declared with the default / fixed value `m.value` gets exactly
`m` as its default — whatever the other members are called, in particular when another member's
name, or python constant, spells `m.value`. -/
theorem enum_default_faithful (members : List EnumMember)
    (hv : (members.map (·.value)).Nodup) (hn : (members.map (·.name)).Nodup)
    (m : EnumMember) (hm : m ∈ members) (hne : m.name ≠ []) :
    enumDefaultValues members m.value = some [some m.value] :=
  enum_default_core members hv hn m hm hne

/-- the hypotheses are satisfiable: `(on | ON | off)` with default `ON`; the members are called
`on`, `ON_1`, `off` after renaming -/
example : enumDefaultValues
    [⟨"on".toList, "on".toList⟩, ⟨"ON".toList, "ON_1".toList⟩, ⟨"off".toList, "off".toList⟩]
    "ON".toList = some [some "ON".toList] :=
  enum_default_faithful _ (by decide) (by decide) ⟨"ON".toList, "ON_1".toList⟩ (by decide) (by decide)

/-- a token-list default refers to one member per token -/
example : enumDefaultValues
    [⟨"x-1".toList, "x-1".toList⟩, ⟨"x1".toList, "x1_1".toList⟩] "x1 x-1".toList =
    some [some "x1".toList, some "x-1".toList] := by decide

end Props.C16
