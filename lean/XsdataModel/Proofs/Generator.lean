/-
L2 — the SAX calls of the tree-shaped writer, fed to XMLGenerator, give a token
list that a namespace-aware parser reads back as the tree of those calls.
-/
import XsdataModel.Proofs.Resolve

namespace Proofs.Generator
open Py Xs.Ns Xs.Sax Xs.Writer Spec.XmlNs Spec.EventTree Proofs.MapInv Proofs.Flush Proofs.Resolve Proofs.TreeWriter Spec.Hyps

/-! ### running the generator -/

theorem gRun_append (x : Str) (a b : List Call) : ∀ g,
    gRun x g (a ++ b) = match gRun x g a with
      | .error e => .error e
      | .ok (t1, g1) =>
        match gRun x g1 b with
        | .error e => .error e
        | .ok (t2, g2) => .ok (t1 ++ t2, g2) := by
  induction a with
  | nil =>
    intro g
    simp only [List.nil_append, gRun]
    cases gRun x g b with
    | error e => rfl
    | ok r => obtain ⟨t, g2⟩ := r; simp
  | cons c r ih =>
    intro g
    simp only [List.cons_append, gRun]
    cases gStep x g c with
    | error e => rfl
    | ok r1 =>
      obtain ⟨t1, g1⟩ := r1
      simp only []
      rw [ih g1]
      cases gRun x g1 r with
      | error e => rfl
      | ok r2 =>
        obtain ⟨t2, g2⟩ := r2
        simp only []
        cases gRun x g2 b with
        | error e => rfl
        | ok r3 => obtain ⟨t3, g3⟩ := r3; simp

theorem gRun_ok_append (x : Str) (a b : List Call) (g g1 g2 : GState) (t1 t2 : List Tok)
    (h1 : gRun x g a = .ok (t1, g1)) (h2 : gRun x g1 b = .ok (t2, g2)) :
    gRun x g (a ++ b) = .ok (t1 ++ t2, g2) := by
  rw [gRun_append, h1]; simp only []; rw [h2]

/-- `_ns_contexts` after a run of `startPrefixMapping` calls -/
def pushCtxs (cur : List (Str × Pfx)) (ctxs : List (List (Str × Pfx))) : List (Pfx × Str) → List (List (Str × Pfx))
  | [] => ctxs
  | (p, u) :: r => pushCtxs (dset cur u p) (cur :: ctxs) r

theorem gRun_startPrefixes (x : Str) (decls : List (Pfx × Str)) : ∀ (ctxs : List (List (Str × Pfx)))
    (cur : List (Str × Pfx)) (und : List (Pfx × Str)) (pend : Option Str),
    gRun x ⟨ctxs, cur, und, pend⟩ (decls.map (fun d => Call.startPrefix d.1 d.2))
      = .ok ([], ⟨pushCtxs cur ctxs decls, applyCur cur decls, und ++ decls, pend⟩) := by
  induction decls with
  | nil => intro ctxs cur und pend; simp [gRun, pushCtxs, applyCur]
  | cons e r ih =>
    obtain ⟨p, u⟩ := e
    intro ctxs cur und pend
    simp only [List.map_cons, gRun, gStep]
    rw [ih]
    simp [pushCtxs, applyCur]

theorem pushCtxs_shape (decls : List (Pfx × Str)) : ∀ (cur : List (Str × Pfx)) (ctxs : List (List (Str × Pfx))),
    ∃ xs, pushCtxs cur ctxs decls = xs ++ ctxs ∧ xs.length = decls.length ∧ (decls ≠ [] → xs.getLast? = some cur) := by
  induction decls with
  | nil => intro cur ctxs; exact ⟨[], rfl, rfl, fun h => absurd rfl h⟩
  | cons e r ih =>
    obtain ⟨p, u⟩ := e
    intro cur ctxs
    obtain ⟨xs, h1, h2, _⟩ := ih (dset cur u p) (cur :: ctxs)
    refine ⟨xs ++ [cur], ?_, ?_, ?_⟩
    · simp [pushCtxs, h1]
    · simp [h2]
    · intro _; simp

theorem gRun_endPrefixes (x : Str) (xs : List (List (Str × Pfx))) : ∀ (ps : List Pfx), ps.length = xs.length →
    ∀ (ctxs : List (List (Str × Pfx))) (cur : List (Str × Pfx)) (und : List (Pfx × Str)) (pend : Option Str),
    gRun x ⟨xs ++ ctxs, cur, und, pend⟩ (ps.map Call.endPrefix)
      = .ok ([], ⟨ctxs, (xs.getLast?).getD cur, und, pend⟩) := by
  induction xs with
  | nil =>
    intro ps h ctxs cur und pend
    have : ps = [] := List.length_eq_zero_iff.mp h
    subst this
    simp [gRun]
  | cons c r ih =>
    intro ps h ctxs cur und pend
    cases ps with
    | nil => simp at h
    | cons p ps' =>
      simp only [List.length_cons, Nat.add_right_cancel_iff] at h
      simp only [List.map_cons, gRun, gStep, List.cons_append]
      rw [ih ps' h]
      cases r with
      | nil => simp
      | cons c' r' =>
        rw [List.getLast?_cons_cons]
        cases hh : (c' :: r').getLast? with
        | none => simp at hh
        | some v => rfl

/-- declarations pushed, then popped again: context and stack are back -/
theorem gRun_endPrefixes_restore (x : Str) (decls : List (Pfx × Str)) (ctxs : List (List (Str × Pfx)))
    (cur : List (Str × Pfx)) (und : List (Pfx × Str)) (pend : Option Str) :
    gRun x ⟨pushCtxs cur ctxs decls, applyCur cur decls, und, pend⟩ ((decls.map (·.1)).map Call.endPrefix)
      = .ok ([], ⟨ctxs, cur, und, pend⟩) := by
  obtain ⟨xs, h1, h2, h3⟩ := pushCtxs_shape decls cur ctxs
  rw [h1, gRun_endPrefixes x xs (decls.map (·.1)) (by simp [h2])]
  cases decls with
  | nil =>
    have : xs = [] := List.length_eq_zero_iff.mp h2
    subst this
    simp [applyCur]
  | cons e r => simp [h3 (by simp)]

end Proofs.Generator
