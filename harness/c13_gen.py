"""C13 support: hidden regular models, their instance documents (XML and JSON), an own
XML writer / reader (lxml) for the generic element trees the Lean model consumes, and the
infoset / JSON comparisons of the end-to-end oracle.  Nothing here imports xsdata: the canonical
spellings of `canonical_value` are written out here."""
from __future__ import annotations

import json
import random
from decimal import Decimal

XSI = "http://www.w3.org/2001/XMLSchema-instance"
NAMESPACES = [None, "urn:a", "urn:b"]
KINDS = ["int", "bool", "float", "decimal", "date", "time", "dateTime", "duration", "period", "string", "string", "empty"]


# --------------------------------------------------------------------------- values
def _tz(rng):
    r = rng.random()
    if r < 0.6:
        return ""
    if r < 0.8:
        return "Z"
    return rng.choice(["+02:00", "-05:30", "+14:00"])


def canonical_value(rng: random.Random, kind: str, style: int = 0) -> str:
    """a canonical lexical value of `kind`.  With style 0 every value of one kind is
    inferred to the same type by a strict lexical test (a 'homogeneous' leaf); other styles
    are the legitimate spellings whose inferred type differs from sample to sample."""
    if kind == "int":
        return str(rng.choice([0, 1, -1, 7, 42, -300, 32768, 2147483648, 99999999999, rng.randint(-10**6, 10**6)]))
    if kind == "bool":
        return rng.choice(["true", "false"])
    if kind == "float":
        v = rng.choice([1.5, -0.25, 3.0, 1e22, 2.5e-07, 0.1, -12.75, rng.uniform(-1000, 1000), float(rng.randint(-50, 50))])
        return repr(v).upper().replace("E+", "E")  # the XSD spelling of a finite double, written here (not asked of xsdata)
    if kind == "decimal":
        if style == 0:  # more digits than a double holds: never a strict float
            return f"{rng.randint(10**20, 10**21)}.{rng.randint(1, 9)}"
        return rng.choice(["12.5", "0.75", f"{rng.randint(10**20, 10**21)}.5", "-3.125"])
    if kind == "date":
        return f"{rng.randint(1900, 2100):04d}-{rng.randint(1, 12):02d}-{rng.randint(1, 28):02d}" + _tz(rng)
    if kind == "time":
        frac = rng.choice(["", "", ".500", ".125"])
        return f"{rng.randint(0, 23):02d}:{rng.randint(0, 59):02d}:{rng.randint(0, 59):02d}{frac}" + _tz(rng)
    if kind == "dateTime":
        return (
            f"{rng.randint(1900, 2100):04d}-{rng.randint(1, 12):02d}-{rng.randint(1, 28):02d}"
            f"T{rng.randint(0, 23):02d}:{rng.randint(0, 59):02d}:{rng.randint(0, 59):02d}" + _tz(rng)
        )
    if kind == "duration":
        return rng.choice(["P1Y", "P1Y2M3DT4H5M6S", "PT30M", "-P2D", "P3M", "PT0.5S", "P1DT12H"])
    if kind == "period":
        return rng.choice(["2020-05", "1999-12", "--05-12", "--11", "---07", "2020-05Z", "--02-29"])
    if kind == "empty":  # a marker element / attribute that never carries a value (inferred as anySimpleType)
        return ""
    if kind == "string":
        if style == 0:
            return rng.choice(["alpha", "beta", "gamma delta", "w" + str(rng.randint(0, 999)), "x-y_z", "Zeta"])
        return rng.choice(["007", "12", "alpha", "1e5", "true", "2020-01-01", "0x1F", "+5", "1.50"])
    raise ValueError(kind)


# --------------------------------------------------------------------------- hidden XML model
class Names:
    def __init__(self):
        self.n = 0

    def fresh(self, stem):
        self.n += 1
        return f"{stem}{self.n}"


def gen_decl(rng, names: Names, depth: int, parent_ns, opts) -> dict:
    """an element declaration of the hidden model; every element name is declared once"""
    r = rng.random()
    if r < 0.5:
        ns = parent_ns
    elif r < 0.75:
        ns = None
    else:
        ns = rng.choice(NAMESPACES)
    name = names.fresh(rng.choice(["e", "item", "Node", "val_", "x-"]))
    style = 1 if rng.random() < opts.get("hetero", 0.0) else 0
    shape = rng.random()
    if depth >= opts.get("depth", 3) or shape < 0.5:
        return {
            "name": name, "ns": ns, "shape": "leaf", "kind": rng.choice(KINDS), "style": style,
            "nillable": rng.random() < opts.get("nil", 0.1), "empty": rng.random() < opts.get("empty", 0.05),
        }
    attrs = []
    for _ in range(rng.choice([0, 0, 1, 2, 3])):
        ans = None if rng.random() < 0.7 else rng.choice(NAMESPACES[1:])
        attrs.append({"name": names.fresh("a"), "ns": ans, "kind": rng.choice(KINDS), "style": style, "required": rng.random() < 0.6})
    if shape < 0.58:  # simple content with attributes
        if not attrs:
            attrs.append({"name": names.fresh("a"), "ns": None, "kind": "string", "style": 0, "required": True})
        nil = rng.random() < opts.get("nil_complex", 0.0)
        return {"name": name, "ns": ns, "shape": "simple", "kind": rng.choice(KINDS), "style": style, "attrs": attrs,
                "nillable": nil, "always_nil": nil and rng.random() < 0.35}
    if shape < 0.66 and opts.get("mixed", True):
        inl = [gen_decl(rng, names, 99, ns, opts) for _ in range(rng.randint(1, 2))]
        for d in inl:
            d["kind"], d["style"], d["nillable"], d["empty"] = "string", 0, False, rng.random() < opts.get("inline_empty", 0.3)
        # lead_only: every occurrence has its text in front of the first child and nowhere else (no tails): the only
        # thing that makes the class mixed is then ElementMapper.build_text
        return {"name": name, "ns": ns, "shape": "mixed", "attrs": attrs, "inline": inl, "lead_only": rng.random() < opts.get("lead_only", 0.3)}
    parts = []
    if rng.random() < opts.get("runs", 0.2):
        # known prefix and suffix, in between optional runs of 2-3 children that come all or not at all:
        # occurrences then differ by whole runs of new children in front of a known one
        def leaf():
            return {"t": "el", "decl": gen_decl(rng, names, 99, ns, opts), "min": 1, "max": 1}

        parts.append(leaf())
        for _ in range(rng.randint(2, 3)):
            parts.append({"t": "run", "items": [gen_decl(rng, names, 99, ns, opts) for _ in range(rng.randint(2, 3))]})
        parts.append(leaf())
        return {"name": name, "ns": ns, "shape": "complex", "attrs": attrs, "parts": parts}
    for _ in range(rng.randint(1, 4)):
        if rng.random() < opts.get("group", 0.25):
            items = [gen_decl(rng, names, depth + 1, ns, opts) for _ in range(rng.randint(2, 3))]
            parts.append({"t": "group", "items": items, "min": opts.get("group_min", 1), "max": 3})
        else:
            d = gen_decl(rng, names, depth + 1, ns, opts)
            mn = 0 if rng.random() < 0.3 else 1
            mx = rng.choice([1, 1, 1, 3])
            parts.append({"t": "el", "decl": d, "min": mn, "max": mx})
    # an element with attributes / children that may also be xsi:nil (it keeps its attributes then)
    nil = depth > 0 and rng.random() < opts.get("nil_complex", 0.0)
    return {"name": name, "ns": ns, "shape": "complex", "attrs": attrs, "parts": parts,
            "nillable": nil, "always_nil": nil and bool(attrs) and rng.random() < 0.35}


def gen_xml_model(rng, **opts) -> dict:
    names = Names()
    ns = rng.choice(NAMESPACES)
    root = gen_decl(rng, names, 0, ns, opts)
    tries = 0
    while root["shape"] not in ("complex",) and tries < 20:
        root = gen_decl(rng, names, 0, ns, opts)
        tries += 1
    return root


def qn(ns, name):
    return f"{{{ns}}}{name}" if ns else name


def instance(rng, d: dict, rep_min: int = 1) -> dict:
    """one element of the document: {"q","t","l","a","c"} (text/tail None when absent)"""
    el = {"q": qn(d["ns"], d["name"]), "t": None, "l": None, "a": [], "c": []}
    for a in d.get("attrs", []):
        if a["required"] or rng.random() < 0.5:
            el["a"].append([qn(a["ns"], a["name"]), canonical_value(rng, a["kind"], a["style"])])
    if d["shape"] in ("simple", "complex") and d.get("nillable") and (d.get("always_nil") or rng.random() < 0.35):
        # xsi:nil stands anywhere among the ordinary attributes (first, in the middle, last): the attributes written
        # after it belong to the element like the ones before it; an `always_nil` element has no other occurrence
        # that could supply them
        el["a"].insert(rng.randint(0, len(el["a"])), [qn(XSI, "nil"), "true"])
        return el
    if d["shape"] == "leaf":
        if d["nillable"] and rng.random() < 0.4:
            el["a"].append([qn(XSI, "nil"), "true"])
        elif d["empty"] and d["kind"] == "string" and rng.random() < 0.4:
            el["t"] = None
        else:
            el["t"] = canonical_value(rng, d["kind"], d["style"])
    elif d["shape"] == "simple":
        el["t"] = canonical_value(rng, d["kind"], d["style"])
    elif d["shape"] == "mixed":
        words = ["some ", "text, ", "more", " and ", "end."]
        if d.get("lead_only"):
            el["t"] = rng.choice(words)
            el["c"].extend(instance(rng, d["inline"][rng.randrange(len(d["inline"]))], rep_min) for _ in range(rng.randint(1, 3)))
            return el
        bare = rng.random() < 0.3  # an occurrence of the mixed element that happens to hold elements only
        el["t"] = None if bare or rng.random() < 0.3 else rng.choice(words)  # sometimes only tails carry text
        picks = [rng.randrange(len(d["inline"])) for _ in range(rng.randint(1, 3))]
        if bare:
            picks.sort()  # without any text the element is element-only: keep the declared order
        for i in picks:
            k = instance(rng, d["inline"][i], rep_min)
            k["l"] = None if bare else rng.choice(words)
            el["c"].append(k)
    else:
        for p in d["parts"]:
            if p["t"] == "el":
                n = rng.randint(p["min"], p["max"])
                if p["max"] > 1 and n == 1 and rep_min > 1:
                    n = rep_min  # a repeatable child repeats wherever it appears
                el["c"].extend(instance(rng, p["decl"], rep_min) for _ in range(n))
            elif p["t"] == "run":
                if rng.random() < 0.5:
                    el["c"].extend(instance(rng, it, rep_min) for it in p["items"])
            else:
                for _ in range(rng.randint(p["min"], p["max"])):
                    el["c"].extend(instance(rng, it, rep_min) for it in p["items"])
    return el


# --------------------------------------------------------------------------- XML text <-> tree
def esc(s, attr=False):
    s = s.replace("&", "&amp;").replace("<", "&lt;").replace(">", "&gt;")
    return s.replace('"', "&quot;") if attr else s


def split(q):
    if q.startswith("{"):
        u, _, n = q[1:].partition("}")
        return u, n
    return None, q


def to_xml(el: dict, pretty=False, default_ns=None) -> str:
    """own writer: prefixes declared on the root; `default_ns` is bound to xmlns="" """
    uris = []

    def walk(e):
        u, _ = split(e["q"])
        if u and u not in uris:
            uris.append(u)
        for k, _v in e["a"]:
            u, _ = split(k)
            if u and u not in uris:
                uris.append(u)
        for c in e["c"]:
            walk(c)

    walk(el)
    pfx = {}
    for i, u in enumerate(uris):
        pfx[u] = "xsi" if u == XSI else f"p{i}"

    def name(q, is_attr=False):
        u, n = split(q)
        if not u:
            return n
        if u == default_ns and not is_attr:
            return n
        return f"{pfx[u]}:{n}"

    def has_unqualified(e):
        return split(e["q"])[0] is None or any(has_unqualified(c) for c in e["c"])

    if default_ns and has_unqualified(el):
        default_ns = None  # an unqualified element could not be written under a default namespace

    def ser(e, ind, root=False):
        out = "<" + name(e["q"])
        if root:
            if default_ns:
                out += f' xmlns="{default_ns}"'
            for u in uris:
                if u != default_ns or any(split(k)[0] == u for k, _ in all_attrs(el)):
                    out += f' xmlns:{pfx[u]}="{u}"'
        for k, v in e["a"]:
            out += f' {name(k, True)}="{esc(v, True)}"'
        mixed = any(c.get("l") for c in e["c"]) or (e["c"] and e["t"])
        if not e["c"] and e["t"] is None:
            return out + "/>"
        out += ">" + esc(e["t"] or "")
        for c in e["c"]:
            if pretty and not mixed:
                out += "\n" + "  " * (ind + 1)
            out += ser(c, ind + 1) + esc(c.get("l") or "")
        if pretty and not mixed and e["c"]:
            out += "\n" + "  " * ind
        return out + f"</{name(e['q'])}>"

    return ser(el, 0, True)


def all_attrs(e):
    yield from e["a"]
    for c in e["c"]:
        yield from all_attrs(c)


def from_xml(text: str) -> dict:
    """lxml reading of a document into the same tree shape (text and tail verbatim)"""
    from lxml import etree

    def conv(x):
        return {
            "q": x.tag, "t": x.text, "l": x.tail,
            "a": [[k, v] for k, v in x.attrib.items()],
            "c": [conv(c) for c in x if isinstance(c.tag, str)],
        }

    return conv(etree.fromstring(text.encode("utf-8")))


def infoset(text: str):
    """comparison form: names in Clark notation (prefixes gone), attributes sorted,
    whitespace-only text/tail of element-only content dropped"""
    from lxml import etree

    def conv(x):
        kids = [c for c in x if isinstance(c.tag, str)]
        texts = [x.text or ""] + [(c.tail or "") for c in kids]
        element_only = bool(kids) and all(not t.strip() for t in texts)
        if element_only:
            texts = ["" for _ in texts]
        attrs = sorted((k, v) for k, v in x.attrib.items())
        return [x.tag, attrs, texts[0], [[conv(c), t] for c, t in zip(kids, texts[1:])]]

    return conv(etree.fromstring(text.encode("utf-8")))


def infoset_diff(a, b, path=""):
    """first difference between two infosets, or None"""
    p = f"{path}/{a[0]}"
    if a[0] != b[0]:
        return f"{path}: element {a[0]} became {b[0]}"
    if a[1] != b[1]:
        return f"{p}: attributes {a[1]} became {b[1]}"
    if a[2] != b[2]:
        return f"{p}: text {a[2]!r} became {b[2]!r}"
    ka, kb = [c[0][0] for c in a[3]], [c[0][0] for c in b[3]]
    if ka != kb:
        return f"{p}: children {ka} became {kb}"
    for (ca, ta), (cb, tb) in zip(a[3], b[3]):
        d = infoset_diff(ca, cb, p)
        if d:
            return d
        if ta != tb:
            return f"{p}: text after {ca[0]} {ta!r} became {tb!r}"
    return None


def align_children(ka, kb):
    """pair the k-th child named n of one list with the k-th child named n of the other:
    (pairs of indices, unmatched indices of a, unmatched indices of b)"""
    seen, where = {}, {}
    for j, n in enumerate(kb):
        where.setdefault(n, []).append(j)
    pairs, missing, used = [], [], set()
    for i, n in enumerate(ka):
        k = seen.get(n, 0)
        seen[n] = k + 1
        js = where.get(n, [])
        if k < len(js):
            pairs.append((i, js[k]))
            used.add(js[k])
        else:
            missing.append(i)
    return pairs, missing, [j for j in range(len(kb)) if j not in used]


def infoset_diffs(a, b, path=()):
    """EVERY difference between two infosets (infoset_diff stops at the first one), as records
    {"kind": element|attributes|text|children|tail, "path": names from the root down to the element,
     "before", "after", "node": the element as the sample has it}; a `children` record also carries the
     elements only one side has (`missing`, `extra`, children are paired by name and rank) and the
     comparison goes on below the paired children"""
    if a[0] != b[0]:
        return [{"kind": "element", "path": tuple(path), "before": a[0], "after": b[0], "node": a}]
    p = tuple(path) + (a[0],)
    out = []
    if a[1] != b[1]:
        out.append({"kind": "attributes", "path": p, "before": a[1], "after": b[1], "node": a})
    if a[2] != b[2]:
        out.append({"kind": "text", "path": p, "before": a[2], "after": b[2], "node": a})
    ka, kb = [c[0][0] for c in a[3]], [c[0][0] for c in b[3]]
    if ka != kb:
        pairs, missing, extra = align_children(ka, kb)
        out.append({"kind": "children", "path": p, "before": ka, "after": kb, "node": a,
                    "missing": [a[3][i][0] for i in missing], "extra": [b[3][j][0] for j in extra],
                    "kept": [kb[j] for j in range(len(kb)) if j not in extra]})
    else:
        pairs = [(i, i) for i in range(len(ka))]
    for i, j in pairs:
        (ca, ta), (cb, tb) = a[3][i], b[3][j]
        out.extend(infoset_diffs(ca, cb, p))
        if ta != tb:
            out.append({"kind": "tail", "path": p, "after_child": ca[0], "before": ta, "after": tb, "node": a})
    return out


def diff_text(d):
    """the wording of infoset_diff for one record of infoset_diffs"""
    p = "/".join(("",) + tuple(d["path"]))
    if d["kind"] == "element":
        return f"{p}: element {d['before']} became {d['after']}"
    if d["kind"] == "tail":
        return f"{p}: text after {d['after_child']} {d['before']!r} became {d['after']!r}"
    if d["kind"] == "text":
        return f"{p}: text {d['before']!r} became {d['after']!r}"
    return f"{p}: {d['kind']} {d['before']} became {d['after']}"


# --------------------------------------------------------------------------- hidden JSON model
JKINDS =["int", "float", "bool", "str", "obj", "arr_int", "arr_str", "arr_float", "arr_obj"]


def gen_json_model(rng, names=None, depth=0, **opts) -> dict:
    names = names or Names()
    fields = []
    for _ in range(rng.randint(1, 5)):
        kind = rng.choice(JKINDS if depth < opts.get("depth", 2) else JKINDS[:4] + JKINDS[5:8])
        f = {
            "name": names.fresh(rng.choice(["f", "itemCount", "item_id", "Val"])), "kind": kind,
            "optional": rng.random() < 0.3, "nullable": rng.random() < opts.get("null", 0.2),
            "style": 1 if rng.random() < opts.get("hetero", 0.0) else 0,
        }
        if kind in ("obj", "arr_obj"):
            f["model"] = gen_json_model(rng, names, depth + 1, **opts)
        fields.append(f)
    return {"fields": fields}


def json_scalar(rng, kind, style):
    if kind == "int":
        return rng.choice([0, 1, -7, 40000, 3000000000, 10**19, rng.randint(-1000, 1000)])
    if kind == "float":
        return rng.choice([1.5, -0.25, 2.0, 1e22, 2.5e-07, -1e-3, rng.uniform(-100, 100)])
    if kind == "bool":
        return rng.random() < 0.5
    if style == 0:
        return rng.choice(["alpha", "beta gamma", "w" + str(rng.randint(0, 99)), "Zeta", ""])
    return rng.choice(["12", "007", "true", "alpha", "1.5", "2020-01-01"])


def json_instance(rng, model, null_arrays=True) -> dict:
    out = {}
    for f in model["fields"]:
        if f["optional"] and rng.random() < 0.4:
            continue
        k = f["kind"]
        if f["nullable"] and rng.random() < 0.4 and (null_arrays or not k.startswith("arr_")):
            out[f["name"]] = None
            continue
        if k == "obj":
            out[f["name"]] = json_instance(rng, f["model"], null_arrays)
        elif k == "arr_obj":
            out[f["name"]] = [json_instance(rng, f["model"], null_arrays) for _ in range(rng.randint(0, 3))]
        elif k.startswith("arr_"):
            out[f["name"]] = [json_scalar(rng, k[4:], f["style"]) for _ in range(rng.randint(0, 3))]
        else:
            out[f["name"]] = json_scalar(rng, k, f["style"])
    return out


def json_norm(v):
    """comparison form: key order irrelevant; a key with null, a key with [] and an absent key
    are the same thing (dataclass defaults are written back); 1 and 1.0 are the same number"""
    if isinstance(v, dict):
        return {k: json_norm(x) for k, x in sorted(v.items()) if x is not None and x != []}
    if isinstance(v, list):
        return [json_norm(x) for x in v]
    if isinstance(v, bool) or v is None or isinstance(v, str):
        return v
    if isinstance(v, (int, float)):
        return ["num", repr(float(v)) if abs(v) < 2**53 else repr(Decimal(v) if isinstance(v, int) else v)]
    return v


def json_diff(a, b, path="$"):
    if type(a) is not type(b) and not (isinstance(a, list) and isinstance(b, list)):
        return f"{path}: {json.dumps(a)[:80]} became {json.dumps(b)[:80]}"
    if isinstance(a, dict):
        for k in sorted(set(a) | set(b)):
            if k not in a:
                return f"{path}.{k}: appeared with {json.dumps(b[k])[:80]}"
            if k not in b:
                return f"{path}.{k}: {json.dumps(a[k])[:80]} disappeared"
            d = json_diff(a[k], b[k], f"{path}.{k}")
            if d:
                return d
        return None
    if isinstance(a, list) and a[:1] != ["num"]:
        if len(a) != len(b):
            return f"{path}: {len(a)} items became {len(b)}"
        for i, (x, y) in enumerate(zip(a, b)):
            d = json_diff(x, y, f"{path}[{i}]")
            if d:
                return d
        return None
    return None if a == b else f"{path}: {json.dumps(a)[:80]} became {json.dumps(b)[:80]}"


def json_diffs(a, b, path=()):
    """EVERY difference between two normalised JSON values (json_diff stops at the first one):
    {"kind": changed|appeared|disappeared|length, "path": keys and indices from the root, "before", "after"}"""
    if type(a) is not type(b) and not (isinstance(a, list) and isinstance(b, list)):
        return [{"kind": "changed", "path": tuple(path), "before": a, "after": b}]
    if isinstance(a, dict):
        out = []
        for k in sorted(set(a) | set(b)):
            if k not in a:
                out.append({"kind": "appeared", "path": tuple(path) + (k,), "before": None, "after": b[k]})
            elif k not in b:
                out.append({"kind": "disappeared", "path": tuple(path) + (k,), "before": a[k], "after": None})
            else:
                out.extend(json_diffs(a[k], b[k], tuple(path) + (k,)))
        return out
    if isinstance(a, list) and a[:1] != ["num"] and b[:1] != ["num"]:
        if len(a) != len(b):
            return [{"kind": "length", "path": tuple(path), "before": a, "after": b}]
        out = []
        for i, (x, y) in enumerate(zip(a, b)):
            out.extend(json_diffs(x, y, tuple(path) + (i,)))
        return out
    return [] if a == b else [{"kind": "changed", "path": tuple(path), "before": a, "after": b}]


def json_diff_text(d):
    p = "$" + "".join(f"[{k}]" if isinstance(k, int) else f".{k}" for k in d["path"])
    if d["kind"] == "appeared":
        return f"{p}: appeared with {json.dumps(d['after'])[:80]}"
    if d["kind"] == "disappeared":
        return f"{p}: {json.dumps(d['before'])[:80]} disappeared"
    if d["kind"] == "length":
        return f"{p}: {len(d['before'])} items became {len(d['after'])}"
    return f"{p}: {json.dumps(d['before'])[:80]} became {json.dumps(d['after'])[:80]}"


# --------------------------------------------------------------------------- encodings for the Lean driver
def enc_scalar(v):
    if v is None:
        return None
    if isinstance(v, bool):
        return {"bool": v}
    if isinstance(v, int):
        return {"int": v}
    if isinstance(v, float):
        sign, digits, exp = Decimal(repr(v)).as_tuple()
        m = int("".join(map(str, digits)))
        return {"float": [-m if sign else m, exp]}
    return {"str": v}


def enc_json(v):
    if isinstance(v, dict):
        return {"d": [[k, enc_json(x)] for k, x in v.items()]}
    if isinstance(v, list):
        return {"l": [enc_json(x) for x in v]}
    return {"s": enc_scalar(v)}


def tree_strings(el):
    if el["t"]:
        yield el["t"]
    for _k, v in el["a"]:
        yield v
    for c in el["c"]:
        yield from tree_strings(c)


def json_strings(v):
    if isinstance(v, dict):
        for x in v.values():
            yield from json_strings(x)
    elif isinstance(v, list):
        for x in v:
            yield from json_strings(x)
    elif isinstance(v, str):
        yield v
