/-
xsdata/formats/dataclass/parsers/dict.py — the part of `DictDecoder` that decides what
happens to the *keys* of a JSON object: `find_var`, the loop of `bind_dataclass`
(unknown keys vs `fail_on_unknown_properties`, the `derived_keys` shortcut) and the
candidate selection of `bind_best_dataclass` (`local_names_match`, scores).

What happens to the *values* (`bind_value`, `validate_fixed_value`) is a parameter `bv`
of the model: the statements of C10 hold for every such function.
-/
import XsdataModel.Bind.Basic

namespace Xs.DictDec
open Py Xs.Bind

/-- what `find_var` looks at in a JSON value -/
inductive JShape
  | null                                     -- `None`: accepted by every var found under its own name
  | scalar                                   -- str / number / bool
  | array                                    -- `collections.is_array(value)`
  | object (members : List (Str × Bool))     -- dict: key ↦ "the member is an array"
deriving Repr, DecidableEq

def JShape.isArray : JShape → Bool
  | .array => true
  | _ => false

def JShape.isNull : JShape → Bool
  | .null => true
  | _ => false

/-- the slots of `XmlVar` read by `find_var` / `bind_dataclass` -/
structure DVar where
  name : Str
  localName : Str
  wrapper : Option Str
  /-- `var.list_element or var.tokens` -/
  isList : Bool
  /-- `var.list_element` -/
  listElement : Bool
  init : Bool
deriving Repr, DecidableEq

/-- one iteration of the loop in `DictDecoder.find_var` -/
def DVar.takes (var : DVar) (key : Str) (value : JShape) : Bool :=
  if var.localName = key then
    value.isNull || value.isArray == var.isList   -- `value is None or is_array == var_is_list`
  else if var.wrapper = some key then
    match value with
    | .object ms =>
      match ms.find? (·.1 = var.localName) with
      | some (_, arr) => arr == var.isList
      | none => false
    | _ => false
  else false

/-- `DictDecoder.find_var` -/
def findVar (vars : List DVar) (key : Str) (value : JShape) : Option DVar :=
  vars.find? (·.takes key value)

/-- `params[var.name] = value` on an insertion-ordered dict -/
def setKV {α : Type} (params : List (Str × α)) (k : Str) (v : α) : List (Str × α) :=
  if params.any (·.1 = k) then params.map (fun kv => if kv.1 = k then (kv.1, v) else kv)
  else params ++ [(k, v)]

/-- `if var.wrapper and var.local_name != key: value = value[var.local_name]` : the subscript is
only taken for a var matched through its wrapper key (a wrapped var matched by its plain local
name keeps the list it was given); the exceptions a failing subscript would leak are kept -/
def unwrapLeak (var : DVar) (key : Str) (value : JShape) : Option Err :=
  if var.wrapper.isSome && var.localName ≠ key then
    match value with
    | .object ms => if ms.any (·.1 = var.localName) then none else some (.leaked "KeyError")
    | _ => some (.leaked "TypeError")
  else none

/-- body of `for key, value in data.items()` in `bind_dataclass`;
`bv var key value` stands for `bind_value` (+ `validate_fixed_value` when `init` is false) -/
def bindStep {α : Type} (bv : DVar → Str → JShape → Except Err α) (cfg : ParserConfig) (vars : List DVar)
    (params : List (Str × α)) (kv : Str × JShape) : Except Err (List (Str × α)) :=
  match findVar vars kv.1 kv.2 with
  | none =>
    if cfg.failOnUnknownProperties then .error (.parser "Unknown property") else .ok params
  | some var =>
    match unwrapLeak var kv.1 kv.2 with
    | some err => .error err
    | none =>
      -- `if value is None and var.list_element: continue` : a null stands for no items
      if kv.2.isNull && var.listElement then .ok params else
      match bv var kv.1 kv.2 with
      | .error err => .error err
      | .ok x => .ok (if var.init then setKV params var.name x else params)

/-- the loop of `bind_dataclass`: the keyword arguments handed to the class factory -/
def bindPairs {α : Type} (bv : DVar → Str → JShape → Except Err α) (cfg : ParserConfig) (vars : List DVar)
    (data : List (Str × JShape)) : Except Err (List (Str × α)) :=
  data.foldlM (bindStep bv cfg vars) []

/-- `set(data.keys()) == derived_keys` -/
def keySetEq (keys derived : List Str) : Bool :=
  keys.all (derived.contains ·) && derived.all (keys.contains ·)

inductive Outcome (α : Type)
  | derived                                   -- handed over to `bind_derived_dataclass`
  | plain (params : List (Str × α))           -- `class_factory(clazz, params)`
deriving Repr

/-- `DictDecoder.bind_dataclass` up to the class factory -/
def bindDataclass {α : Type} (bv : DVar → Str → JShape → Except Err α) (cfg : ParserConfig)
    (derivedKeys : List Str) (vars : List DVar) (data : List (Str × JShape)) : Except Err (Outcome α) :=
  if keySetEq (data.map (·.1)) derivedKeys then .ok .derived
  else match bindPairs bv cfg vars data with
    | .ok p => .ok (.plain p)
    | .error err => .error err

/-! ### `bind_best_dataclass` -/

/-- one candidate class of `bind_best_dataclass` -/
structure Cand where
  id : ClassId
  /-- the names `local_names_match` accepts: local names and wrapper names of the vars -/
  localNames : List Str
  /-- `score_object(decoder.bind_dataclass(data, clazz))` in half points;
  `none` when the attempt raised (it is suppressed) -/
  attempt : Option Nat
deriving Repr, DecidableEq

/-- `XmlContext.local_names_match` : `not names.difference(local_names)` -/
def localNamesMatch (keys names : List Str) : Bool := keys.all (names.contains ·)

def bestStep (keys : List Str) (acc : Option (ClassId × Nat)) (c : Cand) : Option (ClassId × Nat) :=
  if localNamesMatch keys c.localNames then
    match c.attempt with
    | some sc =>
      match acc with
      | none => some (c.id, sc)                          -- `score > -1.0`
      | some (_, best) => if sc > best then some (c.id, sc) else acc
    | none => acc                                        -- `score_object(None)` is `-1.0`, never `>`
  else acc

/-- the keys a candidate has to declare: with `fail_on_unknown_properties` off, the keys that
none of the candidate classes declares are unknown properties and are left out -/
def bestKeys (cfg : ParserConfig) (keys : List Str) (cands : List Cand) : List Str :=
  if cfg.failOnUnknownProperties then keys
  else keys.filter fun k => cands.any (·.localNames.contains k)

/-- `DictDecoder.find_best_dataclass` over the attempts made under one configuration:
the class whose instance is kept -/
def bindBest (cfg : ParserConfig) (keys : List Str) (cands : List Cand) : Except Err ClassId :=
  match cands.foldl (bestStep (bestKeys cfg keys cands)) none with
  | some (c, _) => .ok c
  | none => .error (.parser "Failed to bind object")


/-! ### which configuration the candidates and the caller see -/

/-- `replace(self.config, fail_on_converter_warnings=True)` : a *copy* of the caller's
configuration, strict about conversions, handed to a new decoder for the candidates -/
def candidateConfig (cfg : ParserConfig) : ParserConfig := { cfg with failOnConverterWarnings := true }

/-- a candidate whose attempt depends on the configuration it is tried under -/
structure CandC where
  id : ClassId
  localNames : List Str
  attempt : ParserConfig → Option Nat

def CandC.under (c : CandC) (cfg : ParserConfig) : Cand := ⟨c.id, c.localNames, c.attempt cfg⟩

/-- what the decoder does, item by item, while it walks documents -/
inductive Work
  | convert (fails : Bool)                        -- `parse_var` on a scalar; `fails` = ConverterError
  | best (keys : List Str) (cands : List CandC)   -- `bind_best_dataclass` on a nested object

inductive Done
  | kept | warned | chose (c : ClassId)
deriving Repr, DecidableEq

/-- one item with the decoder's own configuration as explicit state:
(outcome, the decoder's configuration afterwards) -/
def workStep (cfg : ParserConfig) : Work → Except Err Done × ParserConfig
  | .convert fails =>
    (if fails then
       (if cfg.failOnConverterWarnings then .error (.parser "Failed to convert value") else .ok .warned)
     else .ok .kept, cfg)
  | .best keys cands =>
    -- the candidates are tried under the strict copy; when none binds and the caller's
    -- `fail_on_converter_warnings` is off they are ranked again under the caller's own
    -- configuration (and the winner is bound with it)
    (match bindBest cfg keys (cands.map (·.under (candidateConfig cfg))) with
     | .ok c => .ok (.chose c)
     | .error err =>
       if cfg.failOnConverterWarnings then .error err
       else
         match bindBest cfg keys (cands.map (·.under cfg)) with
         | .ok c => .ok (.chose c)
         | .error err => .error err, cfg)

/-- a decoder (one `ParserConfig` object) working through the items of one or several
documents; a failed item ends its document, the decoder is used again for the next one -/
def workAll (cfg : ParserConfig) : List Work → List (Except Err Done) × ParserConfig
  | [] => ([], cfg)
  | w :: ws =>
    let r := workStep cfg w
    let rs := workAll r.2 ws
    (r.1 :: rs.1, rs.2)

end Xs.DictDec
