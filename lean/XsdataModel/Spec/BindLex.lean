/-
Spec — lexical side conditions of the composed C03 theorems, as decidable predicates
of the *inputs* of `XmlSerializer.render`: the class universe (names the metadata
prescribes) and the instance (strings it holds).

* `ctxLexOK Γ` : every element / attribute / wrapper name of every class is a Clark name
  with an NCName local part and a declarable namespace; `xsi:type` target names likewise;
  no mixed, compound, wildcard or `anyType` vars (C01's fragments have none).
* `valLexOK Γ v` : every string is made of XML characters; attribute strings do not start
  with `{` (the writer would read them as QNames); keys of `Attributes` maps are attribute
  names; no `AnyElement` / `DerivedElement` values and no QName values (C01's fragments have none).
-/
import XsdataModel.Spec.Hyps
import XsdataModel.Bind.FN

namespace Spec.BindLex
open Py Xs.Bind Spec.XmlNs Spec.Hyps

/-- an attribute name of the metadata: Clark notation, NCName local part, declarable
namespace, not `xsi:type` (whose value the writer reads as a QName) -/
def attrNameLex (q : QN) : Bool :=
  (match clark q with
   | some n => attrNameOK none n
   | none => false) && q != xsiType

/-- a string in attribute position: XML characters, not read as a QName by `is_xsi_type` -/
def attrStrLex (s : Str) : Bool := xmlChars s && s.head? != some '{'

/-- the value of an attribute field -/
def attrValLex : Val → Bool
  | .prim (.str s) => attrStrLex s
  | .list xs => xs.all (fun x => match x with
      | .prim (.str s) => attrStrLex s
      | _ => true)
  | .attrs kv => kv.all (fun e => attrNameLex e.1 && attrStrLex e.2)
  | _ => true

/-- the attribute fields of an instance of `cls` (under every parent namespace) -/
def objAttrsLex (Γ : Ctx) (cls : ClassId) (fs : List (Str × Val)) : Bool :=
  match Γ.find cls with
  | some ci => ci.metas.all fun pm => pm.2.attributeVars.all fun var => attrValLex (F1.look fs var.name)
  | none => true

def primLex : PVal → Bool
  | .str s => xmlChars s
  | .int _ => true
  | .bool _ => true
  | .qname _ => false

mutual
/-- the strings of an instance -/
def valLexOK (Γ : Ctx) : Val → Bool
  | .none => true
  | .prim p => primLex p
  | .list xs => listLexOK Γ xs
  | .obj cls fs => objAttrsLex Γ cls fs && fieldsLexOK Γ fs
  | .attrs kv => kv.all (fun e => attrNameLex e.1 && attrStrLex e.2)
  | .any .. => false
  | .derived .. => false
def listLexOK (Γ : Ctx) : List Val → Bool
  | [] => true
  | x :: xs => valLexOK Γ x && listLexOK Γ xs
def fieldsLexOK (Γ : Ctx) : List (Str × Val) → Bool
  | [] => true
  | (_, v) :: r => valLexOK Γ v && fieldsLexOK Γ r
end

/-- an element var: its name and its wrapper's name -/
def varLex (v : XmlVar) : Bool :=
  elemNameOK v.qname &&
  (match v.wrapperQName with | some w => elemNameOK w | none => true) &&
  !v.mixed && !v.isElements && !v.isWildcard && !v.anyType

def attrVarLex (v : XmlVar) : Bool := !v.isAttribute || attrNameLex v.qname

/-- the `xsi:type` name of a class: Clark notation with a declarable namespace, or a bare NCName -/
def typeNameLex (t : QN) : Bool := qnameTextOK t

def metaLex (m : XmlMeta) : Bool :=
  elemNameOK m.qname &&
  (match m.targetQName with | some t => typeNameLex t | none => true) &&
  m.elementVars.all varLex && m.attributeVars.all attrVarLex

def ctxLexOK (Γ : Ctx) : Bool :=
  Γ.classes.all fun ci => ci.metas.all fun pm => metaLex pm.2

/-! ### the same conditions on generated events -/

def pLexD : PVal → Bool
  | .str s => xmlChars s
  | _ => false

/-- an item of a token list payload -/
def itemLex (g : PVal → Bool) : Data → Bool
  | .prim p => g p
  | _ => true

def dataLex : Data → Bool
  | .none => true
  | .prim p => pLexD p
  | .list ds => ds.all (itemLex pLexD)

def pLexA : PVal → Bool
  | .str s => attrStrLex s
  | _ => false

def attrDataLex : Data → Bool
  | .none => true
  | .prim p => pLexA p
  | .list ds => ds.all (itemLex pLexA)

/-- one generated event; `strict`: no `xsi:type` attribute at all -/
def bevLex (strict : Bool) : Xs.Bind.Ev → Bool
  | .start q => elemNameOK q
  | .end _ => true
  | .data d => dataLex d
  | .attr q d =>
    if q = xsiType then !strict && (match d with | .prim (.qname t) => typeNameLex t | _ => false)
    else attrNameLex q && attrDataLex d

/-! ### instances that need no `xsi:type` -/

mutual
/-- every object among the items of a field value is an instance of a class the var lists -/
def exactItem (ts : List TypeRef) : Val → Bool
  | .obj c _ => ts.contains (.cls c)
  | .list xs => exactItems ts xs
  | _ => true
def exactItems (ts : List TypeRef) : List Val → Bool
  | [] => true
  | x :: r => exactItem ts x && exactItems ts r
end

/-- the element fields of an instance of `cls` (under every parent namespace) -/
def objExact (Γ : Ctx) (cls : ClassId) (fs : List (Str × Val)) : Bool :=
  match Γ.find cls with
  | some ci => ci.metas.all fun pm => pm.2.elementVars.all fun var => exactItem var.types (F1.look fs var.name)
  | none => true

mutual
/-- every object sits in a field that declares its class (C01's `valOK`; with subclasses an
`xsi:type` attribute is written, see `valOKI`) -/
def valExactOK (Γ : Ctx) : Val → Bool
  | .list xs => listExactOK Γ xs
  | .obj cls fs => objExact Γ cls fs && fieldsExactOK Γ fs
  | _ => true
def listExactOK (Γ : Ctx) : List Val → Bool
  | [] => true
  | x :: xs => valExactOK Γ x && listExactOK Γ xs
def fieldsExactOK (Γ : Ctx) : List (Str × Val) → Bool
  | [] => true
  | (_, v) :: r => valExactOK Γ v && fieldsExactOK Γ r
end

end Spec.BindLex
