/-
C13 — from the reduced sample classes to the fields of the generated dataclasses: the
ClassAnalyzer handlers that change occurrence, sequence or requiredness of a class that came
from raw documents (no extensions, no choices, no groups, unique attrs):

* `CalculateAttributePaths` (the C02 model `Xs.Gen.processAttrPath` on the single path step
  `("s", n, 1, sys.maxsize)` the mappers write);
* `ProcessAttributeTypes`: `restrictions.nillable` from a nillable dependency class and, for the
  text attr, from the class itself (`cascade_properties`);
* `ResetAttributeSequences` (a sequence of one attr, or of attrs that cannot repeat, is dropped);
* `ResetAttributeSequenceNumbers` (renumbering from 1 in order of first appearance);
* `SanitizeAttributesDefaultValue` (`object`-typed single elements become optional, `str` text nodes get "");
* `Restrictions.asdict` / `Filters.field_default_value`: list-ness, `min_occurs`, default (`required`
  is only written for attributes that have a default value: never here; a field without default is required).

`UpdateAttributesEffectiveChoice` and `MergeAttributes` only act on classes that list an attr
twice; the reduced classes never do (`reduceAttributes_keys_nodup`).  Mixed classes are rewritten
into one wildcard by `ProcessMixedContentClass` and are outside this model.
-/
import XsdataModel.Samples.Reduce
import XsdataModel.Gen.Occurs

namespace Xs.Samples
open Py

/-- the view of an attr that the occurrence handlers of C02 work on -/
def Attr.toSite (a : Attr) : Xs.Gen.Site :=
  { name := a.name, index := a.index, min := a.min, max := a.max,
    path := match a.seq with
      | some n => [⟨.s, n, 1, maxsize⟩]
      | none => [] }

/-- `CalculateAttributePaths.process` for one attr (attributes carry no path) -/
def calcPath (a : Attr) : Xs.Gen.Site :=
  let s := a.toSite
  if s.path.isEmpty || a.tag = .attribute then s else Xs.Gen.processAttrPath s

/-- `ResetAttributeSequences.is_repeatable_sequence` -/
def repeatableSeq (s : Xs.Gen.Site) : Bool :=
  match s.sequence with
  | none => false
  | some 0 => false
  | some q =>
    let rec go : List Xs.Gen.PathE → Bool
      | [] => false
      | e :: rest =>
        if e.kind = .s && e.id = q then e.max > 1
        else if e.max > 1 then true else go rest
    go s.path

/-- `ResetAttributeSequences.process` on the sites of one class -/
def resetSequences (ss : List Xs.Gen.Site) : List Xs.Gen.Site :=
  ss.map fun s =>
    match s.sequence with
    | none => s
    | some 0 => s
    | some q =>
      if (ss.filter (fun t => t.sequence = some q)).length = 1 then { s with sequence := none }
      else if !repeatableSeq s then { s with sequence := none }
      else s

/-- `ResetAttributeSequenceNumbers.process` for a class without base classes: the sequences are
renumbered 1, 2, … in order of first appearance -/
def renumberSequences (ss : List Xs.Gen.Site) : List Xs.Gen.Site :=
  let seen : List Nat := ss.foldl (fun acc s =>
    match s.sequence with
    | some q => if q = 0 || acc.contains q then acc else acc ++ [q]
    | none => acc) []
  ss.map fun s =>
    match s.sequence with
    | some q => if q = 0 then s else { s with sequence := (seen.findIdx? (· = q)).map (· + 1) }
    | none => s

/-- what the generated dataclass says about one field -/
structure Field where
  tag : Tag
  name : Str
  ns : Option Str
  isList : Bool
  /-- the dataclass field has a default (`None`) or a default factory -/
  hasDefault : Bool
  /-- metadata `nillable` -/
  nillable : Bool
  /-- metadata `min_occurs` -/
  minOccurs : Option Nat
  /-- metadata `max_occurs` -/
  maxOccurs : Option Nat
  /-- metadata `sequence` -/
  sequence : Option Nat
deriving DecidableEq, Repr

/-- `restrictions.nillable` after `ProcessAttributeTypes` -/
def attrNillable (classes : List Cls) (owner : Cls) (a : Attr) : Bool :=
  a.types.any (fun t => !t.native && classes.any (fun c => c.qname = t.qname && c.nillable))
  || (a.tag = .simpleType && owner.nillable)

/-- the field generated for attr `a` of the reduced class `owner`, given its final sequence number.
`SanitizeAttributesDefaultValue`: an element or text of python type `object` that is no list is made
optional; a text node of python type `str` gets the default "" -/
def mkField (classes : List Cls) (owner : Cls) (a : Attr) (sq : Option Nat) : Field :=
  let s := calcPath a
  let isList := s.max > 1
  let hasObject := a.types.any (fun t => t.native && (t.qname = Tables.dtAnySimpleType || t.qname = Tables.dtAnyType))
  let hasStr := a.types.any (fun t => t.native && t.qname = Tables.dtString)
  let min' := if a.tag ≠ .attribute && hasObject && !isList then 0 else s.min
  { tag := a.tag, name := a.name, ns := a.ns, isList,
    hasDefault := isList || min' = 0 || (a.tag = .simpleType && hasStr),
    nillable := attrNillable classes owner a,
    minOccurs := if isList && s.min > 0 then some s.min else none,
    maxOccurs := if isList && s.max < maxsize then some s.max else none,
    sequence := sq }

/-- the sequence numbers the attrs of a class end up with (the two sequence handlers only touch
`restrictions.sequence`) -/
def finalSequences (attrs : List Attr) : List (Option Nat) :=
  (renumberSequences (resetSequences (attrs.map calcPath))).map (·.sequence)

/-- the fields of the class generated for the reduced class `owner`; `none` for a mixed class -/
def classFields (classes : List Cls) (owner : Cls) : Option (List Field) :=
  if owner.mixed then none
  else some ((owner.attrs.zip (finalSequences owner.attrs)).map fun (a, sq) => mkField classes owner a sq)

end Xs.Samples
