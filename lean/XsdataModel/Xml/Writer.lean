/-
L2 — xsdata/formats/dataclass/serializers/mixins.py : `EventHandler` /
`XmlWriter` (write, start_tag, add_attribute, add_namespace, set_data, end_tag,
flush_start, start_namespaces, reset_default_namespace, is_xsi_type,
encode_data) and serializers/writers/native.py : `XmlEventWriter` (indentation).

State is the Python object's state; every method returns the SAX calls it
issued (in order) and either the new state or the exception that ended it.
`self.ns_map` aliases `self.ns_context[-1]` while an element is open; the model
keeps the aliased map once (`nsMap`) and the rest of the list in `parents`.
-/
import XsdataModel.Xml.Sax

namespace Xs.Writer
open Py Xs.Ns Xs.Sax

/-- writer events (`XmlWriterEvent`), `unknown` is any other event name -/
inductive Ev
  | start (q : Str)
  | attr (q : Str) (v : Val)
  | data (v : Val)
  | end_ (q : Str)
  | unknown
  deriving DecidableEq, Repr

/-- the parts of `SerializerConfig` the writer looks at (truthiness applied:
empty strings count as absent) -/
structure Cfg where
  schemaLocation : Option Str := none
  noNsSchemaLocation : Option Str := none
  indent : Option Str := none
  xmlDeclaration : Bool := false

structure HState where
  /-- `self.ns_map` -/
  nsMap : NsMap
  /-- `self.ns_context` is empty ↔ `none`; otherwise `ns_context[:-1]`, last first
  (`ns_context[-1]` is `nsMap` itself) -/
  parents : Option (List NsMap)
  pendingTag : Option EName
  attrs : List (EName × Option Str)
  inTail : Bool
  tail : Option Str
  /-- `self.pending_prefixes`, last first -/
  pendingPrefixes : List (List Pfx)
  /-- `XmlEventWriter.current_level`, `pending_end_element` -/
  level : Int
  pendingEnd : Bool
  /-- `XmlEventWriter.after_characters`: character data was written since the last tag
  (set by the overridden `set_characters`; tracked here only while `indent` is set, it is never
  read otherwise) -/
  afterChars : Bool

def HState.init (m : NsMap) : HState :=
  ⟨m, none, none, [], false, none, [], 0, false, false⟩

/-- result of a method: calls issued so far, then state or exception -/
abbrev R := List Call × Except Err HState

/-- `add_namespace(uri)` on `self.ns_map` (`prefixed=False`) -/
def addNamespace (env : NsEnv) (uri : Option Str) (m : NsMap) : NsMap :=
  match uri with
  | none => m
  | some u => if !u.isEmpty && !prefixExists u m then (generatePrefix env u m).2 else m

/-- `any(ns == uri for prefix, ns in self.ns_map.items() if prefix)`: the uri is bound
to an actual prefix (the default namespace does not qualify attributes) -/
def prefixedExists (uri : Str) (m : NsMap) : Bool :=
  m.any (fun e => (match e.1 with | some p => !p.isEmpty | none => false) && e.2 = uri)

/-- `add_namespace(uri, prefixed=True)` -/
def addNamespaceP (env : NsEnv) (uri : Option Str) (m : NsMap) : NsMap :=
  match uri with
  | none => m
  | some u => if !u.isEmpty && !prefixedExists u m then (generatePrefix env u m).2 else m

/-- `for name in self.attrs: self.add_namespace(name[0], prefixed=True)` -/
def addAttrNamespaces (env : NsEnv) : List (EName × Option Str) → NsMap → NsMap
  | [], m => m
  | (n, _) :: r, m => addAttrNamespaces env r (addNamespaceP env n.1 m)

/-- `reset_default_namespace()` (pending tag known to be set) -/
def resetDefaultNamespace (tag : EName) (m : NsMap) : NsMap :=
  let unqualified := match tag.1 with | none => true | some u => u.isEmpty
  if unqualified && dhas m none then dset m none [] else m

/-- the loop of `start_namespaces`: prefixes to declare, in `ns_map` order -/
def newPrefixes (parent : NsMap) : NsMap → List (Pfx × Str)
  | [] => []
  | (p, uri) :: r =>
    if dget parent p != some uri then (p, uri) :: newPrefixes parent r else newPrefixes parent r

/-- `flush_start(is_nil)` -/
def flushStart (env : NsEnv) (isNil : Bool) (s : HState) : List Call × HState :=
  match s.pendingTag with
  | none => ([], s)
  | some tag =>
    let attrs := if !isNil then dpop s.attrs (some env.xsiNil.1, env.xsiNil.2) else s.attrs
    let m1 := addAttrNamespaces env attrs s.nsMap
    let m2 := resetDefaultNamespace tag m1
    -- start_namespaces: parent is ns_context[-2], EMPTY_MAP on IndexError
    let parent : NsMap := match s.parents with
      | some (p :: _) => p
      | _ => []
    let decls := newPrefixes parent m2
    (decls.map (fun d => Call.startPrefix d.1 d.2) ++ [Call.startElem tag attrs],
     { s with nsMap := m2, attrs := [], inTail := false, pendingTag := none,
              pendingPrefixes := decls.map (·.1) :: s.pendingPrefixes })

/-- `is_xsi_type(qname, value)` followed by `value = QName(value)` -/
def xsiTypeValue (env : NsEnv) (q : Str) (v : Val) : Val :=
  match v with
  | .atom (.str s) =>
    if s.head? = some '{' && (q = env.xsiType || isDataTypeQName env s) then .atom (.qname s) else v
  | _ => v

/-- `EventHandler.start_tag(qname)` -/
def hStartTag (env : NsEnv) (q : Str) (s : HState) : R :=
  let (c1, s1) := flushStart env false s
  -- ns_context.append(ns_map.copy()); ns_map = ns_context[-1]
  let parents' : List NsMap := match s1.parents with
    | none => []
    | some ps => s1.nsMap :: ps
  match splitQName q with
  | .error e => (c1, .error e)
  | .ok tag =>
    (c1, .ok { s1 with parents := some parents', pendingTag := some tag,
                       nsMap := addNamespace env tag.1 s1.nsMap })

/-- `add_attribute(qname, value, root)` -/
def hAddAttribute (env : NsEnv) (q : Str) (v : Val) (root : Bool) (s : HState) : R :=
  if s.pendingTag.isNone && !root then ([], .error .xmlWriterError)
  else
    let v' := xsiTypeValue env q v
    match splitQName q with
    | .error e => ([], .error e)
    | .ok name =>
      match encodeData env v' s.nsMap with
      | .error e => ([], .error e)
      | .ok (val, m') => ([], .ok { s with nsMap := m', attrs := dset s.attrs name val })

/-- `set_data(data)` -/
def hSetData (env : NsEnv) (v : Val) (s : HState) : R :=
  match encodeData env v s.nsMap with
  | .error e => ([], .error e)
  | .ok (val, m') =>
    let (c1, s1) := flushStart env val.isNone { s with nsMap := m' }
    match val with
    | some x =>
      if x.isEmpty then (c1, .ok { s1 with inTail := true })
      else (c1 ++ [Call.chars x], .ok { s1 with inTail := true })
    | none => (c1, .ok { s1 with inTail := true })

/-- `EventHandler.end_tag(qname)` -/
def hEndTag (env : NsEnv) (q : Str) (s : HState) : R :=
  let (c1, s1) := flushStart env true s
  match splitQName q with
  | .error e => (c1, .error e)
  | .ok name =>
    let c2 := c1 ++ [Call.endElem name]
    let c3 := match s1.tail with
      | some t => if t.isEmpty then c2 else c2 ++ [Call.chars t]
      | none => c2
    -- ns_context.pop(); if ns_context: ns_map = ns_context[-1]
    match s1.parents with
    | none => (c3, .error .indexError)
    | some ps =>
      let (m', parents') : NsMap × Option (List NsMap) := match ps with
        | [] => (s1.nsMap, none)
        | p :: rest => (p, some rest)
      match s1.pendingPrefixes with
      | [] => (c3, .error .indexError)
      | pre :: rest =>
        (c3 ++ pre.map Call.endPrefix,
         .ok { s1 with tail := none, inTail := false, nsMap := m', parents := parents',
                       pendingPrefixes := rest })

/-- `indent * level` -/
def repeatStr (s : Str) (n : Int) : Str := (List.replicate n.toNat s).flatten

def Call.isChars : Call → Bool
  | .chars _ => true
  | _ => false

/-- `XmlEventWriter.start_tag` (native writer: indentation around the base method; none right
after character data, it would become part of it) -/
def nStartTag (env : NsEnv) (cfg : Cfg) (q : Str) (s : HState) : R :=
  match hStartTag env q s with
  | (c, .error e) => (c, .error e)
  | (c, .ok s1) =>
    match cfg.indent with
    | none => (c, .ok s1)
    | some ind =>
      let c' := if s1.level != 0 && !s1.afterChars then c ++ [Call.ws ['\n'], Call.ws (repeatStr ind s1.level)] else c
      (c', .ok { s1 with level := s1.level + 1, pendingEnd := false, afterChars := false })

/-- `set_data` of the native writer: `set_characters` is overridden to set `after_characters` -/
def nSetData (env : NsEnv) (cfg : Cfg) (v : Val) (s : HState) : R :=
  match cfg.indent with
  | none => hSetData env v s
  | some _ =>
    match hSetData env v s with
    | (c, .ok s1) => (c, .ok { s1 with afterChars := s1.afterChars || c.any Call.isChars })
    | r => r

/-- `XmlEventWriter.end_tag` -/
def nEndTag (env : NsEnv) (cfg : Cfg) (q : Str) (s : HState) : R :=
  match cfg.indent with
  | none => hEndTag env q s
  | some ind =>
    let s0 := { s with level := s.level - 1 }
    let c0 := if s0.pendingEnd && !s0.afterChars then [Call.ws ['\n'], Call.ws (repeatStr ind s0.level)] else []
    match hEndTag env q { s0 with afterChars := false } with
    | (c, .error e) => (c0 ++ c, .error e)
    | (c, .ok s1) =>
      let c' := if s1.level == 0 then c0 ++ c ++ [Call.ws ['\n']] else c0 ++ c
      (c', .ok { s1 with pendingEnd := true, afterChars := c.any Call.isChars })

/-- one iteration of the loop in `EventHandler.write`; `native` selects the
`XmlEventWriter` overrides -/
def hStep (env : NsEnv) (cfg : Cfg) (native : Bool) (s : HState) : Ev → R
  | .start q => if native then nStartTag env cfg q s else hStartTag env q s
  | .end_ q => if native then nEndTag env cfg q s else hEndTag env q s
  | .attr q v => hAddAttribute env q v false s
  | .data v => if native then nSetData env cfg v s else hSetData env v s
  | .unknown => ([], .error .xmlWriterError)

/-- the event loop: all calls issued, and the exception that stopped it (if any) -/
def hLoop (env : NsEnv) (cfg : Cfg) (native : Bool) : HState → List Ev → List Call × Option Err
  | _, [] => ([], none)
  | s, e :: r =>
    match hStep env cfg native s e with
    | (c, .error x) => (c, some x)
    | (c, .ok s1) =>
      let (c2, x) := hLoop env cfg native s1 r
      (c ++ c2, x)

/-- `if self.config.<location>: self.add_attribute(qname, location, root=True)` -/
def rootAttr1 (env : NsEnv) (loc : Option Str) (qn : Str) (s : HState) : Except Err HState :=
  match loc with
  | some l => if l.isEmpty then .ok s else (hAddAttribute env qn (.atom (.str l)) true s).2
  | none => .ok s

/-- the two `add_attribute(..., root=True)` calls at the top of `write` -/
def rootAttrs (env : NsEnv) (cfg : Cfg) (s : HState) : Except Err HState :=
  match rootAttr1 env cfg.schemaLocation env.xsiSchemaLocation s with
  | .error e => .error e
  | .ok s1 => rootAttr1 env cfg.noNsSchemaLocation env.xsiNoNsSchemaLocation s1

def xmlnsNsLit : Str :=
  ['h', 't', 't', 'p', ':', '/', '/', 'w', 'w', 'w', '.', 'w', '3', '.', 'o', 'r', 'g', '/', '2', '0', '0', '0', '/',
   'x', 'm', 'l', 'n', 's', '/']

/-- one entry of `EventHandler.validate_prefixes`: `true` = accepted -/
def prefixEntryOK (env : NsEnv) (e : Pfx × Str) : Bool :=
  !((match e.1 with | some p => !p.isEmpty && !env.isNcnamePy p | none => false)
    || e.1 == some ['x', 'm', 'l', 'n', 's']
    || ((e.1 == some env.xmlPrefix) != (e.2 == env.xmlUri))
    || e.2 == xmlnsNsLit)

/-- `EventHandler.validate_prefixes(ns_map)` passes (otherwise `XmlWriterError` in `__init__`) -/
def prefixesValid (env : NsEnv) (m : NsMap) : Bool := m.all (prefixEntryOK env)

/-- `EventHandler.write(events)` after `XmlSerializer.write` cleaned the user
map: the SAX calls the content handler receives and the exception raised, if any -/
def handlerRun (env : NsEnv) (cfg : Cfg) (native : Bool) (userMap : List (Pfx × Str))
    (es : List Ev) : List Call × Option Err :=
  if !prefixesValid env (serializerNsMap userMap) then ([], some .xmlWriterError) else
  match rootAttrs env cfg (HState.init (serializerNsMap userMap)) with
  | .error e => ([], some e)
  | .ok s0 => hLoop env cfg native s0 es

/-- `XmlSerializer(writer=XmlEventWriter).write` below the object level: tokens
written, or the first exception in program order (the generator consumes each
call before the handler continues, so its exception wins) -/
def nativeWrite (env : NsEnv) (cfg : Cfg) (userMap : List (Pfx × Str)) (es : List Ev) :
    Except Err (List Tok) :=
  let (calls, herr) := handlerRun env cfg true userMap es
  match gRun env.saxXmlNs GState.init calls with
  | .error e => .error e
  | .ok (toks, _) =>
    match herr with
    | some e => .error e
    | none => .ok toks

def xmlDecl : Str :=
  ['<', '?', 'x', 'm', 'l', ' ', 'v', 'e', 'r', 's', 'i', 'o', 'n', '=', '"', '1', '.', '0', '"', ' ', 'e', 'n', 'c', 'o', 'd', 'i', 'n', 'g', '=', '"', 'U', 'T', 'F', '-', '8', '"', '?', '>', '\n']

/-- the text that ends up in the output stream -/
def nativeText (env : NsEnv) (cfg : Cfg) (userMap : List (Pfx × Str)) (es : List Ev) :
    Except Err Str :=
  match nativeWrite env cfg userMap es with
  | .error e => .error e
  | .ok toks => .ok ((if cfg.xmlDeclaration then xmlDecl else []) ++ render toks)

end Xs.Writer
