/-
L7 — the memoised helpers next to the binding context:

* `XmlVar.match_namespace` (per-field dict `namespace_matches`),
* `functools.lru_cache(maxsize=50)` around `build_qname` / `split_qname`
  (process-wide, least-recently-used eviction, exceptions are not cached),
* the prefix recorder `PushParser.ns_map` / `register_namespace`.
-/
import XsdataModel.Ctx.Context

namespace Xs.Ctx
open Py

/-! ### XmlVar.match_namespace -/

/-- `XmlVar._match_namespace(qname)` for a var whose `namespaces` tuple is `nss` -/
def matchNamespacePure (nss : List Str) (q : Str) : Bool :=
  let uri := targetUri q
  if nss.isEmpty && uri.isNone then true
  else nss.any fun check =>
    (check.isEmpty && uri.isNone) || (some check == uri || check == Tables.nsAny) ||
      (match check with
       | '!' :: rest => some rest != uri
       | _ => false)

abbrev NsMemo := Option (List (Str × Bool))

/-- `XmlVar.match_namespace(qname)`: returns the new memo and the answer -/
def matchNamespace (nss : List Str) (memo : NsMemo) (q : Str) : NsMemo × Bool :=
  let d := memo.getD []
  match d.lookup q with
  | some b => (some d, b)
  | none =>
    let b := matchNamespacePure nss q
    (some (dictSet d q b), b)

/-- answers of a sequence of queries against one var -/
def matchRun (nss : List Str) : NsMemo → List Str → List Bool
  | _, [] => []
  | memo, q :: qs => (matchNamespace nss memo q).2 :: matchRun nss (matchNamespace nss memo q).1 qs

/-! ### functools.lru_cache -/

/-- one call through `lru_cache(maxsize=cap)` wrapping `f` (`none` = raises).
Entries are kept most-recently-used first.  Returns (cache, result, hit?). -/
def lruCall {κ ν} [BEq κ] [DecidableEq κ] (f : κ → Option ν) (cap : Nat) (c : List (κ × ν)) (k : κ) :
    List (κ × ν) × Option ν × Bool :=
  match c.lookup k with
  | some v => ((k, v) :: c.filter (fun e => e.1 != k), some v, true)
  | none =>
    match f k with
    | none => (c, none, false)
    | some v => (((k, v) :: c).take cap, some v, false)

def lruRun {κ ν} [BEq κ] [DecidableEq κ] (f : κ → Option ν) (cap : Nat) :
    List (κ × ν) → List κ → List (Option ν × Bool)
  | _, [] => []
  | c, k :: ks => (lruCall f cap c k).2 :: lruRun f cap (lruCall f cap c k).1 ks

/-- `build_qname(*args)` by argument tuple (one or two positional arguments) -/
def buildQNameArgs : List (Option Str) → Option Str
  | [a] => buildQName? a none
  | [a, b] => buildQName? a b
  | _ => none

/-- `split_qname(qname)` -/
def splitQNameArgs (q : Str) : Option (Option Str × Str) := splitQName? q

/-! ### the prefix recorder of a parser instance -/

abbrev NsMap := List (Option Str × Str)

/-- `PushParser.register_namespace(ns_map, prefix, uri)` -/
def registerNs (m : NsMap) (pfx : Option Str) (uri : Str) : NsMap :=
  match m.lookup pfx with
  | some _ => m
  | none => m ++ [(pfx, uri)]

def registerAll (m : NsMap) (decls : NsMap) : NsMap := decls.foldl (fun acc d => registerNs acc d.1 d.2) m

/-- the state a parser instance carries from call to call -/
structure ParserInst where
  nsMap : NsMap
  deriving DecidableEq, Repr

/-- `NodeParser.parse(source, clazz, ns_map)` seen from the recorder's side.
`decls` are the document's namespace declarations in document order, `bind`
is the (recorder-independent) binding of the document; the caller may pass
its own map `arg`; otherwise the instance records the prefixes of *this* document
only (`ns_map = self.ns_map = {}`, repair of C14-F4).  Returns (instance, result, the caller's map afterwards). -/
def parseCall {Doc R} (decls : Doc → NsMap) (bind : Doc → R) (p : ParserInst) (doc : Doc)
    (arg : Option NsMap) : ParserInst × R × Option NsMap :=
  match arg with
  | none => (⟨registerAll [] (decls doc)⟩, bind doc, none)
  | some m => (p, bind doc, some (registerAll m (decls doc)))

/-- a whole history of parses on one parser instance: per call the result and the
caller's map afterwards; finally the instance -/
def recRun {Doc R} (decls : Doc → NsMap) (bind : Doc → R) :
    ParserInst → List (Doc × Option NsMap) → ParserInst × List (R × Option NsMap)
  | p, [] => (p, [])
  | p, (d, arg) :: rest =>
    let (p1, r, m) := parseCall decls bind p d arg
    let (p2, outs) := recRun decls bind p1 rest
    (p2, (r, m) :: outs)

/-! #### the test documents of the `rec.run` correspondence

`rec_doc(decls)` (harness) writes the declarations in order on nested elements
`<r …><k …><k …>…`, opening a new `k` whenever a prefix repeats; parsed into a
wildcard root, the result is the chain of the `k` elements' qualified names —
a function of the document alone. -/

def recGroupsAux : NsMap → NsMap → List NsMap → List NsMap
  | [], cur, acc => (cur :: acc).reverse
  | (p, u) :: rest, cur, acc =>
    if (cur.lookup p).isSome then recGroupsAux rest [(p, u)] (cur :: acc)
    else recGroupsAux rest (cur ++ [(p, u)]) acc

def recGroups (decls : NsMap) : List NsMap := recGroupsAux decls [] []

def recBindAux (dflt : Option Str) : List NsMap → List Str
  | [] => []
  | g :: gs =>
    let d := match g.lookup none with
      | some u => some u
      | none => dflt
    qn d "k".toList :: recBindAux d gs

/-- the qualified names of the nested `k` elements, outermost first -/
def recBind (decls : NsMap) : List Str :=
  match recGroups decls with
  | [] => []
  | g0 :: gs => recBindAux (g0.lookup none) gs

end Xs.Ctx
