/- Helper lemmas: decimal digit strings, `natStr`, `digitsVal`, `intBody`. -/
import XsdataModel.Conv.Basic
import XsdataModel.Proofs.Strip

namespace Xs.Conv
open Py

/-- value of an ASCII digit character -/
def charVal (c : Char) : Nat := c.toNat - 48

/-- all characters are ASCII digits -/
def AllDigits (s : Str) : Prop := ∀ c ∈ s, isAsciiDigit c = true

theorem digitChar_toNat : ∀ d, d < 10 → (Char.ofNat (48 + d)).toNat = 48 + d := by decide

theorem digitChar_isDigit : ∀ d, d < 10 → isAsciiDigit (Char.ofNat (48 + d)) = true := by decide

theorem digit_isAscii (c : Char) (h : isAsciiDigit c = true) : isAscii c = true := by
  simp [isAsciiDigit, isAscii] at *
  omega

theorem digit_not_space (e : Env) (c : Char) (h : isAsciiDigit c = true) : e.isSpace c = false := by
  rw [isSpace_ascii e c (digit_isAscii c h)]
  simp [isAsciiDigit, isAsciiSpace] at *
  omega

theorem digit_not_numSpace (e : Env) (c : Char) (h : isAsciiDigit c = true) : numSpace e c = false := by
  rw [numSpace_ascii e c (digit_isAscii c h)]
  simp [isAsciiDigit, isCSpace] at *
  omega

theorem digit_decVal (e : Env) (c : Char) (h : isAsciiDigit c = true) : e.decVal c = some (charVal c) := by
  rw [decVal_ascii e c (digit_isAscii c h)]
  simp [h, charVal]

theorem foldl_digits (ds : List Nat) (acc : Nat) :
    ds.foldl (fun a d => a * 10 + d) acc = acc * 10 ^ ds.length + ds.foldl (fun a d => a * 10 + d) 0 := by
  induction ds generalizing acc with
  | nil => simp
  | cons d ds ih =>
    simp only [List.foldl_cons, List.length_cons]
    rw [ih (acc * 10 + d), ih (0 * 10 + d)]
    simp [Nat.pow_succ]
    grind

theorem digitsVal_cons (d : Nat) (ds : List Nat) :
    digitsVal (d :: ds) = d * 10 ^ ds.length + digitsVal ds := by
  unfold digitsVal
  simp only [List.foldl_cons]
  rw [foldl_digits]
  simp

theorem digitsVal_append (a b : List Nat) :
    digitsVal (a ++ b) = digitsVal a * 10 ^ b.length + digitsVal b := by
  unfold digitsVal
  rw [List.foldl_append, foldl_digits]

theorem digitsVal_nil : digitsVal [] = 0 := rfl

/-- specification of the accumulator loop behind `natStr` -/
theorem natDigitsAux_spec (fuel n : Nat) (acc : Str) (hf : n < fuel) (hacc : AllDigits acc) :
    AllDigits (natDigitsAux fuel n acc) ∧ natDigitsAux fuel n acc ≠ [] ∧
    digitsVal ((natDigitsAux fuel n acc).map charVal) = n * 10 ^ acc.length + digitsVal (acc.map charVal) := by
  induction fuel generalizing n acc with
  | zero => omega
  | succ fuel ih =>
    have hd : n % 10 < 10 := Nat.mod_lt _ (by omega)
    have hacc' : AllDigits (Char.ofNat (48 + n % 10) :: acc) := by
      intro c hc
      rcases List.mem_cons.mp hc with rfl | h
      · exact digitChar_isDigit _ hd
      · exact hacc c h
    have hval : charVal (Char.ofNat (48 + n % 10)) = n % 10 := by
      simp [charVal, digitChar_toNat _ hd]
    unfold natDigitsAux
    by_cases h0 : n / 10 = 0
    · simp only [h0, if_true]
      refine ⟨hacc', by simp, ?_⟩
      simp only [List.map_cons, hval, digitsVal_cons, List.length_map]
      have : n % 10 = n := by omega
      rw [this]
    · simp only [h0, if_false]
      have hlt : n / 10 < fuel := by omega
      obtain ⟨h1, h2, h3⟩ := ih (n / 10) _ hlt hacc'
      refine ⟨h1, h2, ?_⟩
      rw [h3]
      simp only [List.map_cons, hval, digitsVal_cons, List.length_map, List.length_cons, Nat.pow_succ]
      have hn : n = 10 * (n / 10) + n % 10 := (Nat.div_add_mod n 10).symm
      generalize n / 10 = q at *
      generalize n % 10 = r at *
      subst hn
      grind

theorem natStr_spec (n : Nat) :
    AllDigits (natStr n) ∧ natStr n ≠ [] ∧ digitsVal ((natStr n).map charVal) = n := by
  have := natDigitsAux_spec (n + 1) n [] (by omega) (by intro c hc; cases hc)
  simpa [natStr, digitsVal_nil] using this

/-- `intBody` on a run of ASCII digits -/
theorem intBody_digits (e : Env) (cs : Str) (prev : Bool) (h : AllDigits cs) (hne : cs ≠ [] ∨ prev = true) :
    intBody e cs prev = some (cs.map charVal) := by
  induction cs generalizing prev with
  | nil =>
    rcases hne with h | h
    · exact absurd rfl h
    · simp [intBody, h]
  | cons c cs ih =>
    have hc : isAsciiDigit c = true := h c (by simp)
    have hnu : c ≠ '_' := by
      intro hx; subst hx; revert hc; decide
    unfold intBody
    simp only [hnu, if_false, digit_decVal e c hc]
    rw [ih true (fun d hd => h d (by simp [hd])) (Or.inr rfl)]
    simp

/-- the last element of a non-empty digit string -/
theorem exists_last (s : Str) (h : s ≠ []) : ∃ r z, s = r ++ [z] := by
  refine ⟨s.dropLast, s.getLast h, ?_⟩
  exact (List.dropLast_concat_getLast h).symm

end Xs.Conv
