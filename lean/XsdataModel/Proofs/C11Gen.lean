/- C11 helper lemmas, part 2: `convert_any_type` on the `AnyElement`s of a `WildcardNode`. -/
import XsdataModel.Proofs.C11Parse

namespace Proofs.C11
open Py Xs.Bind Xs.Generic

def attrEv (kv : QN × Str) : Ev := Ev.attr kv.1 (.prim (.str kv.2))

def textData (t : Option Str) : Data := match t with | some t => .prim (.str t) | none => .none

def tailEv (tl : Option Str) : List Ev :=
  match tl with | some t => if t.isEmpty then [] else [Ev.data (.prim (.str t))] | none => []

/-- the `DATA None` that flushes the start tag of an element with an `xsi:nil` of its own -/
def nilFlush (a : List (QN × Str)) : List Ev := if a.any (·.1 = xsiNil) then [Ev.data .none] else []

mutual
/-- the events `convert_any_element` yields for `anyOf e nillable t` -/
def treeEv (e : Env) (nillable : Bool) : Tree → List Ev
  | .node q a n t c tl =>
    [Ev.start q] ++ (parseAnyAttributes a n).map attrEv ++ nilFlush (parseAnyAttributes a n)
      ++ [Ev.data (textData (anyText e nillable (!c.isEmpty) t))]
      ++ forestEv e nillable c ++ [Ev.end q] ++ tailEv (normalizeContent e tl)
def forestEv (e : Env) (nillable : Bool) : List Tree → List Ev
  | [] => []
  | t :: ts => treeEv e nillable t ++ forestEv e nillable ts
end

mutual
/-- element names are not empty (and so are truthy for `if value.qname:`) -/
def namesOK : Tree → Bool
  | .node q _ _ _ c _ => !q.isEmpty && namesOKList c
def namesOKList : List Tree → Bool
  | [] => true
  | t :: ts => namesOK t && namesOKList ts
end

theorem forestEv_eq (e : Env) (nil : Bool) (ts : List Tree) :
    forestEv e nil ts = (ts.map (treeEv e nil)).flatten := by
  induction ts with
  | nil => simp [forestEv]
  | cons t ts ih => simp [forestEv, ih]

mutual
theorem genAnyType_anyOf (e : BEnv) (Γ : Ctx) (cfg : SerCfg) (var : XmlVar) (nil : Bool) :
    ∀ (t : Tree) (fuel : Nat) (ns : Option Str), namesOK t = true → depthTree t ≤ fuel →
      genAnyType e Γ cfg fuel (anyOf e.py nil t) var ns = .ok (treeEv e.py nil t)
  | .node q a n tx c tl, fuel, ns, hn, hf => by
    cases fuel with
    | zero => simp [depthTree] at hf
    | succ fuel =>
      simp [namesOK] at hn
      have hq : q.isEmpty = false := by simpa using hn.1
      have ih := genAnyType_forest e Γ cfg var nil c fuel (targetUri q) hn.2
        (by simp [depthTree] at hf; omega)
      simp [anyOf, genAnyType, hq, ih, bind, Except.bind, pure, Except.pure, treeEv, tailEv, textData, forestEv_eq, nilFlush]
      rfl
theorem genAnyType_forest (e : BEnv) (Γ : Ctx) (cfg : SerCfg) (var : XmlVar) (nil : Bool) :
    ∀ (ts : List Tree) (fuel : Nat) (ns : Option Str), namesOKList ts = true → depthList ts ≤ fuel →
      (anyOfList e.py nil ts).mapM (fun c => genAnyType e Γ cfg fuel c var ns)
        = .ok (ts.map (treeEv e.py nil))
  | [], _, _, _, _ => by simp [anyOfList, pure, Except.pure]
  | t :: ts, fuel, ns, hn, hf => by
    simp [namesOKList] at hn
    simp [depthList] at hf
    have h1 := genAnyType_anyOf e Γ cfg var nil t fuel ns hn.1 (by omega)
    have h2 := genAnyType_forest e Γ cfg var nil ts fuel ns hn.2 (by omega)
    simp [anyOfList, List.mapM_cons, h1, h2, bind, Except.bind, pure, Except.pure]
end

end Proofs.C11
