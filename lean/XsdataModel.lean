import XsdataModel.Py.Basic
import XsdataModel.Py.TblEnv
import XsdataModel.Tables
import XsdataModel.Lex.Dates
import XsdataModel.Code.Pycode
import XsdataModel.Code.PycodeWF
