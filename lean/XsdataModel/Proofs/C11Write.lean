/- C11 helper lemmas, part 3: the writer on the events of generic elements. -/
import XsdataModel.Proofs.C11Gen

namespace Proofs.C11
open Py Xs.Bind Xs.Generic

/-! ### attribute dictionaries with distinct keys -/

theorem parseAnyAttributes_fold (n : NsMap) :
    ∀ (a acc : List (QN × Str)), keysDistinct a = true →
      (∀ kv ∈ a, parseAnyAttribute kv.2 n = kv.2) →
      (∀ kv ∈ a, acc.any (·.1 = kv.1) = false) →
      a.foldl (fun acc (kv : QN × Str) =>
        let v' := parseAnyAttribute kv.2 n
        if acc.any (·.1 = kv.1) then acc.map (fun (k', w) => if k' = kv.1 then (k', v') else (k', w))
        else acc ++ [(kv.1, v')]) acc = acc ++ a
  | [], acc, _, _, _ => by simp
  | (k, v) :: r, acc, hd, hs, hacc => by
    simp [keysDistinct] at hd
    have hv : parseAnyAttribute v n = v := hs (k, v) (by simp)
    have hk : acc.any (·.1 = k) = false := hacc (k, v) (by simp)
    simp only [List.foldl_cons, hk, hv]
    have := parseAnyAttributes_fold n r (acc ++ [(k, v)]) hd.2
      (fun kv h => hs kv (by simp [h]))
      (fun kv h => by
        have h1 := hacc kv (by simp [h])
        have h2 := hd.1 kv.1 kv.2 (by simpa using h)
        simp [h1]
        exact fun h' => h2 h'.symm)
    simpa using this

theorem parseAnyAttributes_ok (a : List (QN × Str)) (n : NsMap) (hd : keysDistinct a = true)
    (hs : ∀ kv ∈ a, parseAnyAttribute kv.2 n = kv.2) : parseAnyAttributes a n = a := by
  have := parseAnyAttributes_fold n a [] hd hs (by simp)
  simpa [parseAnyAttributes] using this

/-- the writer leaves the value of this attribute alone (`is_xsi_type` is false) -/
def plainAttr (isDt : Str → Bool) (kv : QN × Str) : Bool :=
  !(kv.2.head? = some '{' && (kv.1 = xsiType || isDt kv.2))

theorem attrs_fold (m : NsMap) (isDt : Str → Bool) (out : List Sax) (pq : QN) (b : Bool) (tl : Option Str) :
    ∀ (a acc : List (QN × Str)), keysDistinct a = true →
      (∀ kv ∈ a, plainAttr isDt kv = true) →
      (∀ kv ∈ a, acc.any (·.1 = kv.1) = false) →
      (a.map attrEv).foldlM (WState.step m isDt) ⟨out, some pq, acc, b, tl⟩
        = .ok ⟨out, some pq, acc ++ a, b, tl⟩
  | [], acc, _, _, _ => by simp [pure, Except.pure]
  | (k, v) :: r, acc, hd, hs, hacc => by
    simp [keysDistinct] at hd
    have hv := hs (k, v) (by simp)
    have hk : acc.any (·.1 = k) = false := hacc (k, v) (by simp)
    have ih := attrs_fold m isDt out pq b tl r (acc ++ [(k, v)]) hd.2
      (fun kv h => hs kv (by simp [h]))
      (fun kv h => by
        have h1 := hacc kv (by simp [h])
        have h2 := hd.1 kv.1 kv.2 (by simpa using h)
        simp [h1]
        exact fun h' => h2 h'.symm)
    have hc : ¬ (v.head? = some '{' ∧ (k = xsiType ∨ isDt v = true)) := by
      simp [plainAttr] at hv
      intro ⟨h1, h2⟩
      rcases hv with hv | hv
      · exact hv h1
      · rcases h2 with h2 | h2
        · exact hv.1 h2
        · simp [hv.2] at h2
    simp [attrEv, WState.step, encodeData, dictSet, hk, bind, Except.bind, hc]
    simpa using ih

/-! ### SAX calls of a generic subtree -/

def textSax (t : Option Str) : List Sax :=
  match t with | some s => if s.isEmpty then [] else [Sax.chars s] | none => []

mutual
def treeSax (e : Env) : Tree → List Sax
  | .node q a _ t c tl =>
    [Sax.open q a] ++ textSax (normText e (!c.isEmpty) t) ++ forestSax e c ++ [Sax.close q]
      ++ textSax (normalizeContent e tl)
def forestSax (e : Env) : List Tree → List Sax
  | [] => []
  | t :: ts => treeSax e t ++ forestSax e ts
end

@[simp] theorem textSax_none : textSax none = [] := rfl

theorem normalizeContent_nonempty (e : Env) (t : Option Str) (s : Str)
    (h : normalizeContent e t = some s) : s.isEmpty = false := by
  cases t with
  | none => simp [normalizeContent] at h
  | some x =>
    simp [normalizeContent] at h
    obtain ⟨⟨h1, _⟩, h3⟩ := h
    subst h3
    simpa using h1

theorem textSax_anyText (e : Env) (nil k : Bool) (t : Option Str) :
    textSax (anyText e nil k t) = textSax (normText e k t) := by
  cases k with
  | true =>
    simp only [anyText, normText, if_true]
    cases h : normalizeContent e t with
    | none => cases nil <;> simp [textSax]
    | some s => simp [textSax]
  | false =>
    cases t with
    | none => cases nil <;> simp [anyText, normText, textSax]
    | some s => cases s <;> simp [anyText, normText, textSax]

/-- an idle writer: nothing pending, no queued tail -/
abbrev idle (out : List Sax) (b : Bool) : WState := ⟨out, none, [], b, none⟩

theorem step_data_idle (m : NsMap) (isDt : Str → Bool) (out : List Sax) (b : Bool) (t : Option Str) :
    WState.step m isDt (idle out b) (Ev.data (textData t))
      = .ok (idle (out ++ textSax t) true) := by
  cases t with
  | none => simp [textData, WState.step, encodeData, WState.flush, textSax]
  | some s =>
    by_cases hs : s = []
    · simp [textData, WState.step, encodeData, WState.flush, textSax, hs]
    · simp [textData, WState.step, encodeData, WState.flush, textSax, hs]

theorem step_data_pending (m : NsMap) (isDt : Str → Bool) (out : List Sax) (q : QN)
    (a : List (QN × Str)) (b : Bool) (t : Option Str) (hnil : ∀ kv ∈ a, kv.1 ≠ xsiNil) :
    WState.step m isDt ⟨out, some q, a, b, none⟩ (Ev.data (textData t))
      = .ok (idle (out ++ [Sax.open q a] ++ textSax t) true) := by
  have hf : ∀ (k : QN) (v : Str), (k, v) ∈ a → ¬ k = xsiNil := fun k v h => hnil (k, v) h
  cases t with
  | none => simp [textData, WState.step, encodeData, WState.flush, textSax]
  | some s =>
    by_cases hs : s = []
    · simpa [textData, WState.step, encodeData, WState.flush, textSax, hs] using hf
    · simpa [textData, WState.step, encodeData, WState.flush, textSax, hs] using hf

theorem step_none_pending (m : NsMap) (isDt : Str → Bool) (out : List Sax) (q : QN)
    (a : List (QN × Str)) (b : Bool) :
    WState.step m isDt ⟨out, some q, a, b, none⟩ (Ev.data .none)
      = .ok (idle (out ++ [Sax.open q a]) true) := by
  simp [WState.step, encodeData, WState.flush]

theorem foldlM_append_ok {α β} (f : β → α → Except Err β) (w w' : β) (l1 l2 : List α)
    (h : l1.foldlM f w = .ok w') : (l1 ++ l2).foldlM f w = l2.foldlM f w' := by
  simp [List.foldlM_append, h, bind, Except.bind]

theorem foldlM_cons_ok {α β} (f : β → α → Except Err β) (w w' : β) (x : α) (l : List α)
    (h : f w x = .ok w') : (x :: l).foldlM f w = l.foldlM f w' := by
  simp [List.foldlM_cons, h, bind, Except.bind]

/-- the text of a generic element after its attributes: the start tag keeps every attribute,
an `xsi:nil` included (the `DATA None` of `nilFlush` flushes it with `is_nil=True`) -/
theorem text_pending (m : NsMap) (isDt : Str → Bool) (out : List Sax) (q : QN)
    (a : List (QN × Str)) (b : Bool) (t : Option Str) (rest : List Ev) :
    (nilFlush a ++ Ev.data (textData t) :: rest).foldlM (WState.step m isDt) ⟨out, some q, a, b, none⟩
      = rest.foldlM (WState.step m isDt) (idle (out ++ [Sax.open q a] ++ textSax t) true) := by
  by_cases h : a.any (·.1 = xsiNil) = true
  · have h1 := step_none_pending m isDt out q a b
    have h2 := step_data_idle m isDt (out ++ [Sax.open q a]) true t
    simp only [nilFlush, h, if_true, List.cons_append, List.nil_append]
    rw [foldlM_cons_ok _ _ _ _ _ h1, foldlM_cons_ok _ _ _ _ _ h2]
  · have hn : ∀ kv ∈ a, kv.1 ≠ xsiNil := by
      intro kv hkv hh; apply h; simp; exact ⟨kv.2, by rw [← hh]; exact hkv⟩
    have h3 := step_data_pending m isDt out q a b t hn
    have h' : a.any (·.1 = xsiNil) = false := Bool.eq_false_iff.mpr h
    simp only [nilFlush, h', Bool.false_eq_true, if_false, List.nil_append]
    rw [foldlM_cons_ok _ _ _ _ _ h3]

theorem treeOK_node {isDt : Str → Bool} {q : QN} {a : List (QN × Str)} {n : NsMap} {t : Option Str}
    {c : List Tree} {tl : Option Str} (h : treeOK isDt (.node q a n t c tl) = true) :
    q.isEmpty = false ∧ keysDistinct a = true ∧ (∀ kv ∈ a, parseAnyAttribute kv.2 n = kv.2) ∧
    (∀ kv ∈ a, plainAttr isDt kv = true) ∧ treeOKList isDt c = true := by
  simp [treeOK, attrOK] at h
  obtain ⟨⟨⟨h1, h2⟩, h3⟩, h4⟩ := h
  refine ⟨by simpa using h1, h2, ?_, ?_, h4⟩
  · intro kv hkv; exact (h3 kv.1 kv.2 hkv).1
  · intro kv hkv
    have := (h3 kv.1 kv.2 hkv).2
    simp [plainAttr]
    exact this

mutual
theorem write_tree (e : Env) (m : NsMap) (isDt : Str → Bool) (nil : Bool) :
    ∀ (t : Tree), treeOK isDt t = true → ∀ (out : List Sax) (b : Bool),
      ∃ b', (treeEv e nil t).foldlM (WState.step m isDt) (idle out b)
        = .ok (idle (out ++ treeSax e t) b')
  | .node q a n tx c tl, hok, out, b => by
    obtain ⟨hq, hd, hst, hpl, hc⟩ := treeOK_node hok
    have ha := parseAnyAttributes_ok a n hd hst
    obtain ⟨b1, ih⟩ := write_forest e m isDt nil c hc
      (out ++ [Sax.open q a] ++ textSax (anyText e nil (!c.isEmpty) tx)) true
    have h1 : WState.step m isDt (idle out b) (Ev.start q) = .ok ⟨out, some q, [], b, none⟩ := by
      simp [WState.step, WState.flush]
    have h2 := attrs_fold m isDt out q b none a [] hd hpl (by simp)
    have h5 : ∀ o bb, WState.step m isDt (idle o bb) (Ev.end q) = .ok (idle (o ++ [Sax.close q]) false) := by
      intro o bb; simp [WState.step, WState.flush]
    simp only [treeEv, ha, List.append_assoc, List.cons_append, List.nil_append]
    rw [foldlM_cons_ok _ _ _ _ _ h1]
    rw [foldlM_append_ok _ _ _ _ _ h2]
    simp only [List.nil_append]
    rw [text_pending]
    rw [foldlM_append_ok _ _ _ _ _ ih]
    rw [foldlM_cons_ok _ _ _ _ _ (h5 _ _)]
    cases htl : normalizeContent e tl with
    | none =>
      refine ⟨false, ?_⟩
      simp only [tailEv, treeSax, htl, textSax_anyText, textSax_none, List.foldlM_nil, pure, Except.pure,
        List.append_assoc, List.append_nil]
    | some s =>
      have hs := normalizeContent_nonempty e tl s htl
      have h6 := step_data_idle m isDt
        (out ++ [Sax.open q a] ++ textSax (anyText e nil (!c.isEmpty) tx) ++ forestSax e c ++ [Sax.close q]) false (some s)
      refine ⟨true, ?_⟩
      simp only [tailEv, hs, Bool.false_eq_true, if_false]
      simp only [textData] at h6
      rw [foldlM_cons_ok _ _ _ _ _ h6]
      simp only [treeSax, htl, textSax_anyText, List.foldlM_nil, pure, Except.pure, List.append_assoc]
theorem write_forest (e : Env) (m : NsMap) (isDt : Str → Bool) (nil : Bool) :
    ∀ (ts : List Tree), treeOKList isDt ts = true → ∀ (out : List Sax) (b : Bool),
      ∃ b', (forestEv e nil ts).foldlM (WState.step m isDt) (idle out b)
        = .ok (idle (out ++ forestSax e ts) b')
  | [], _, out, b => ⟨b, by simp [forestEv, forestSax, pure, Except.pure]⟩
  | t :: ts, hok, out, b => by
    simp [treeOKList] at hok
    obtain ⟨b1, h1⟩ := write_tree e m isDt nil t hok.1 out b
    obtain ⟨b2, h2⟩ := write_forest e m isDt nil ts hok.2 (out ++ treeSax e t) b1
    refine ⟨b2, ?_⟩
    simp only [forestEv, forestSax]
    rw [foldlM_append_ok _ _ _ _ _ h1, h2]
    simp
end

end Proofs.C11
