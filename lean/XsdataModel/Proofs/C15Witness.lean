/-
C15 — concrete data for the `example`s and counterexample theorems of `Props/C15.lean`:
a one-class universe as `XmlContext.build` exports it, and faulty documents.

```python
@dataclass
class Root:
    x: int = field(metadata={"type": "Element"})
    a: Optional[str] = field(default=None, metadata={"type": "Attribute"})
```
-/
import XsdataModel.Bind.Parse
import XsdataModel.Fault.Dict
import XsdataModel.Bind.Union

namespace Proofs.C15.Witness
open Py Xs.Bind Xs.Fault

/-- an environment whose `is_ncname` rejects the empty string (as the real one does) -/
def env : BEnv := ⟨Env.ascii, fun s => !s.isEmpty && s.all (fun c => c.isAlphanum || c = '_'), fun s => !s.isEmpty⟩

/-- an environment that violates the hypothesis of `no_leak_parse` -/
def envBad : BEnv := ⟨Env.ascii, fun _ => true, fun _ => true⟩

def varX : XmlVar :=
  { index := 1, name := ['x'], localName := ['x'], qname := ['x'], wrapperQName := none,
    types := [.prim .int], clazz := none, init := true, mixed := false, tokens := false, format := none,
    anyType := false, processContents := "strict".toList, required := true, nillable := false,
    sequence := none, listElement := false, default := .none, namespaces := [], kind := .element,
    isClazzUnion := false, elements := [], wildcards := [] }

def varA : XmlVar :=
  { varX with index := 2, name := ['a'], localName := ['a'], qname := ['a'], types := [.prim .str],
              required := false, kind := .attribute }

def metaRoot : XmlMeta :=
  { clazz := "Root".toList, qname := "Root".toList, targetQName := some "Root".toList, nillable := false,
    text := none, choices := [], elements := [(['x'], [varX])], wildcards := [],
    attributes := [(['a'], varA)], anyAttributes := [], wrappers := [] }

def ctx : Ctx :=
  { classes := [{ id := "Root".toList, metas := [(none, metaRoot)], mro := ["Root".toList], bases := [],
                  fields := [⟨['x'], true, none⟩, ⟨['a'], true, some .none⟩] }],
    xsiIndex := [("Root".toList, ["Root".toList])],
    datatypes := [] }

def el (q : String) (attrs : List (QN × Str)) (text : Option String) (kids : List Tree) : Tree :=
  .node q.toList attrs [] (text.map String.toList) kids none

/-- `<Root a="v"><x>12</x></Root>` -/
def docValid : Tree := el "Root" [(['a'], ['v'])] none [el "x" [] (some "12") []]
/-- `<Root/>` : the required element is missing -/
def docMissing : Tree := el "Root" [] none []
/-- `<Root><x>12</x><y/></Root>` : an element the class does not know -/
def docUnknown : Tree := el "Root" [] none [el "x" [] (some "12") [], el "y" [] none []]
/-- `<Root><x>12<z/></x></Root>` : a child below a primitive field -/
def docNested : Tree := el "Root" [] none [el "x" [] (some "12") [el "z" [] none []]]
/-- `<Root xsi:type="p:T"/>` with `p` undeclared -/
def docBadXsi : Tree := el "Root" [(xsiType, "p:T".toList)] none []
/-- `<Root><x>12x</x></Root>` : a mistyped value -/
def docMistyped : Tree := el "Root" [] none [el "x" [] (some "12x") []]
/-- `<Root xsi:type=":"/>` -/
def docColon : Tree := el "Root" [(xsiType, [':'])] none []

def strict : ParserConfig := { failOnConverterWarnings := true }


/-! ### JSON side

```python
@dataclass
class Doc:
    x: Optional[int] = field(default=None, metadata={"type": "Element"})
    t: list[int] = field(default_factory=list, metadata={"type": "Element", "tokens": True})
    at: dict[str, str] = field(default_factory=dict, metadata={"type": "Attributes"})
    b: list[str] = field(default_factory=list, metadata={"type": "Element", "wrapper": "items"})
```
-/

def jX : XmlVar := { varX with required := false }
def jT : XmlVar := { varX with index := 2, name := ['t'], localName := ['t'], qname := ['t'], tokens := true,
                               required := false, default := .listFactory }
def jAt : XmlVar := { varX with index := 3, name := "at".toList, localName := "at".toList, qname := "at".toList,
                                types := [.prim .str], required := false, default := .dictFactory, kind := .attributes,
                                namespaces := ["##any".toList] }
def jB : XmlVar := { varX with index := 4, name := ['b'], localName := ['b'], qname := ['b'], types := [.prim .str],
                               wrapperQName := some "items".toList, required := false, listElement := true,
                               default := .listFactory }

def metaDoc : XmlMeta :=
  { clazz := "Doc".toList, qname := "Doc".toList, targetQName := some "Doc".toList, nillable := false,
    text := none, choices := [], elements := [(['x'], [jX]), (['t'], [jT]), (['b'], [jB])], wildcards := [],
    attributes := [], anyAttributes := [jAt], wrappers := [("items".toList, ['b'])] }

/-- the same class without the `at` and `b` fields -/
def metaPlain : XmlMeta := { metaDoc with clazz := "Plain".toList, elements := [(['x'], [jX]), (['t'], [jT])],
                                          anyAttributes := [], wrappers := [] }

def jctx : Ctx :=
  { classes := [
      { id := "Doc".toList, metas := [(none, metaDoc)], mro := ["Doc".toList], bases := [],
        fields := [⟨['x'], true, some .none⟩, ⟨['t'], true, some (.list [])⟩, ⟨"at".toList, true, some (.attrs [])⟩,
                   ⟨['b'], true, some (.list [])⟩] },
      { id := "Plain".toList, metas := [(none, metaPlain)], mro := ["Plain".toList], bases := [],
        fields := [⟨['x'], true, some .none⟩, ⟨['t'], true, some (.list [])⟩] }],
    xsiIndex := [("Doc".toList, ["Doc".toList]), ("Plain".toList, ["Plain".toList])],
    datatypes := [] }

def o (kvs : List (String × J)) : J := .obj (kvs.map (fun kv => (kv.1.toList, kv.2)))

def Doc : ClassId := "Doc".toList
def Plain : ClassId := "Plain".toList


/-! ### a union field

```python
@dataclass
class Item:
    y: Optional[str] = field(default=None, metadata={"type": "Element"})
    n: Optional[int] = field(default=None, metadata={"type": "Element"})

@dataclass
class Holder:
    m: Union[int, Item, None] = field(default=None, metadata={"type": "Element"})
```
-/

def uY : XmlVar := { varX with name := ['y'], localName := ['y'], qname := ['y'], types := [.prim .str], required := false }
def uN : XmlVar := { varX with index := 2, name := ['n'], localName := ['n'], qname := ['n'], required := false }
def uM : XmlVar := { varX with name := ['m'], localName := ['m'], qname := ['m'], types := [.prim .int, .cls "Item".toList],
                               clazz := some "Item".toList, required := false, isClazzUnion := true }

def metaItem : XmlMeta :=
  { clazz := "Item".toList, qname := "Item".toList, targetQName := some "Item".toList, nillable := false,
    text := none, choices := [], elements := [(['y'], [uY]), (['n'], [uN])], wildcards := [],
    attributes := [], anyAttributes := [], wrappers := [] }

def metaHolder : XmlMeta :=
  { metaItem with clazz := "Holder".toList, qname := "Holder".toList, targetQName := some "Holder".toList,
                  elements := [(['m'], [uM])] }

def uctx : Ctx :=
  { classes := [
      { id := "Item".toList, metas := [(none, metaItem)], mro := ["Item".toList], bases := [],
        fields := [⟨['y'], true, some .none⟩, ⟨['n'], true, some .none⟩] },
      { id := "Holder".toList, metas := [(none, metaHolder)], mro := ["Holder".toList], bases := [],
        fields := [⟨['m'], true, some .none⟩] }],
    xsiIndex := [("Item".toList, ["Item".toList]), ("Holder".toList, ["Holder".toList])],
    datatypes := [] }

def Holder : ClassId := "Holder".toList

/-- `<Holder><m>12</m></Holder>` -/
def uDocInt : Tree := el "Holder" [] none [el "m" [] (some "12") []]
/-- `<Holder><m><y>a</y><n>7</n></m></Holder>` -/
def uDocItem : Tree := el "Holder" [] none [el "m" [] none [el "y" [] (some "a") [], el "n" [] (some "7") []]]
/-- `<Holder><m><y>a</y><n>x</n></m></Holder>` : the strict trial of `Item` fails on `n` -/
def uDocBad : Tree := el "Holder" [] none [el "m" [] none [el "y" [] (some "a") [], el "n" [] (some "x") []]]
/-- `<Holder><m>abc</m></Holder>` : neither an int nor an Item with content … but an empty Item binds -/
def uDocText : Tree := el "Holder" [] none [el "m" [] (some "abc") []]


/-! ### outside the supported region: a field whose default is an arbitrary callable -/

def varOther : XmlVar := { varA with default := .other }
def metaOther : XmlMeta := { metaRoot with attributes := [(['a'], varOther)] }
def ctxOther : Ctx :=
  { ctx with classes := [{ id := "Root".toList, metas := [(none, metaOther)], mro := ["Root".toList], bases := [],
                           fields := [⟨['x'], true, none⟩, ⟨['a'], true, some .none⟩] }] }

end Proofs.C15.Witness
