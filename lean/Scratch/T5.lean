import XsdataModel.Dict.Frag
import XsdataModel.Proofs.C04Witness
open Py Xs.Bind Xs.Dict Proofs.C04Witness
def benv0 : BEnv := ⟨Env.ascii, fun _ => true, fun _ => true⟩
#eval valOKj benv0 okwCtx .dict 3 "Doc".toList okw_value
#eval valOKj benv0 okwCtx .filterNone 3 "Doc".toList okw_value
#eval valOKj benv0 subCtx .dict 3 "P".toList sub_value
example : valOKj benv0 okwCtx .filterNone 3 "Doc".toList okw_value = true := by rfl
example : valOKj benv0 okwCtx .filterNone 3 "Doc".toList okw_value = true := by decide
