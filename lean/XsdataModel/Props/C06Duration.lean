/- C06 — xs:duration: every XSD-valid lexical form (`Spec/XsdDate.lean`,
   `XsdDuration`: every combination of components, negative durations,
   fractional seconds), with XSD white space around it, is accepted by
   `XmlDuration(value)` with exactly the components XSD assigns; the string form
   of the value is the lexical form itself, so it is XSD-valid and parses back to
   the same value.  Helper lemmas: `XsdataModel.Proofs.DurationAccept`. -/
import XsdataModel.Proofs.DurationAccept

namespace Props.C06
open Py Xs.Dates Xs.Spec Proofs.DurationAccept Proofs.DatesAccept Proofs.DatesFormatParse
open Xs.Conv (AllXsdSpace strip_xsd_pad)

/-- value of a digit run as a Python `int` -/
def duInt (o : Option Str) : Option Int := o.map (fun t => Int.ofNat (digitsNat t))

/-- **duration_accepts_valid**: for every Unicode environment and every XSD
duration `s` (sign `neg`, digit runs `y mo d h mi`, seconds text `sec`):
`XmlDuration(pre ++ s ++ post)` succeeds, its `data` (= `str()`) is `s`, and the
parsed interval has the components XSD assigns (the seconds as the matched
decimal text, which the code hands to `float`). -/
theorem duration_accepts_valid (e : Env) (pre post s : Str) (neg : Bool)
    (y mo d h mi sec : Option Str) (hpre : AllXsdSpace pre) (hpost : AllXsdSpace post)
    (hx : XsdDuration s neg y mo d h mi sec) :
    XmlDuration.ofString e (pre ++ s ++ post) =
      some (s, ⟨neg, duInt y, duInt mo, duInt d, duInt h, duInt mi, sec⟩) := by
  obtain ⟨r, z, hrz, hlen, hz⟩ := duration_shape hx
  have hx' := hx
  obtain ⟨hy, hmo, hd, hh, hmi, hs, hany, hstr⟩ := hx'
  -- white space
  have hzsp : e.isSpace z = false := by
    simp at hz
    rcases hz with rfl | rfl | rfl | rfl | rfl | rfl <;> rfl
  have htight : Xs.Conv.Tight e.isSpace s := by
    refine Or.inr ⟨?_, ⟨r, z, hrz, hzsp⟩⟩
    rw [hstr]
    cases neg with
    | true => exact ⟨'-', _, rfl, rfl⟩
    | false => exact ⟨'P', _, rfl, rfl⟩
  unfold XmlDuration.ofString
  simp only []
  rw [strip_xsd_pad e pre s post hpre hpost htight]
  -- the two guards of `_parse_interval`
  have hzT : z ≠ 'T' := by
    simp at hz
    rcases hz with rfl | rfl | rfl | rfl | rfl | rfl <;> decide
  have hbody := matchBody_frag e y mo d h mi sec hy hmo hd hh hmi hs
  have hguard : ¬ (s.length < 3 ∨ s.getLast? = some 'T') := by
    rw [hrz]; simp [hzT]; omega
  rw [hstr] at hguard ⊢
  rw [parseInterval_body e neg _ y mo d h mi sec hguard hbody
    (fun t ht => floatOk_seconds e t (by rw [← ht]; exact hs))]
  simp [duInt, groupInt_frag e _ hy, groupInt_frag e _ hmo, groupInt_frag e _ hd,
    groupInt_frag e _ hh, groupInt_frag e _ hmi]

/-- **duration_format_parse**: the string form of an accepted XSD duration is the
lexical form itself and parses back to the same value. -/
theorem duration_format_parse (e : Env) (pre post s : Str) (neg : Bool)
    (y mo d h mi sec : Option Str) (hpre : AllXsdSpace pre) (hpost : AllXsdSpace post)
    (hx : XsdDuration s neg y mo d h mi sec) :
    ∃ v, XmlDuration.ofString e (pre ++ s ++ post) = some (s, v) ∧
      XmlDuration.ofString e s = some (s, v) := by
  refine ⟨_, duration_accepts_valid e pre post s neg y mo d h mi sec hpre hpost hx, ?_⟩
  have := duration_accepts_valid e [] [] s neg y mo d h mi sec (by intro c hc; cases hc)
    (by intro c hc; cases hc) hx
  simpa using this

/-- after repair c06b-01 the decimal point is a point: scientific notation and
digit-group underscores are no durations -/
theorem duration_rejects_scientific :
    XmlDuration.ofString Env.ascii "PT1e5S".toList = none ∧
    XmlDuration.ofString Env.ascii "PT1_5S".toList = none ∧
    (XmlDuration.ofString Env.ascii "PT1.5S".toList).isSome = true := by decide

/-! the hypothesis is satisfiable: every component at once, negative, fractional seconds;
and a single time component -/

example : XsdDuration "-P2Y6M5DT12H35M30.5S".toList true (some "2".toList) (some "6".toList)
    (some "5".toList) (some "12".toList) (some "35".toList) (some "30.5".toList) :=
  ⟨duDigits_lit (by decide) (by decide), duDigits_lit (by decide) (by decide), duDigits_lit (by decide) (by decide),
    duDigits_lit (by decide) (by decide), duDigits_lit (by decide) (by decide),
    (by intro t ht; cases ht; exact ⟨"30".toList, "5".toList, by decide, allDigits_of_all (by decide), allDigits_of_all (by decide), rfl⟩),
    Or.inl rfl, rfl⟩

example : XsdDuration "PT0S".toList false none none none none none (some "0".toList) :=
  ⟨duDigits_none, duDigits_none, duDigits_none, duDigits_none, duDigits_none,
    (by intro t ht; cases ht; exact ⟨"0".toList, [], by decide, allDigits_of_all (by decide), allDigits_of_all (by decide), rfl⟩),
    Or.inr (Or.inr (Or.inr (Or.inr (Or.inr rfl)))), rfl⟩

end Props.C06
