/-
Helper lemmas for C02, part 8: substitution groups in whole content models.

`substP mem p` is the content model a schema with substitution groups stands for (every reference
to a head with members is the choice between head and members); `occursSubst mem (sites p)` is what
the FLATTEN handlers, `AddAttributeSubstitutions` included, compute for the class. Every field of
the latter has a twin among the fields the handlers would compute for `substP mem p` itself
(`mem_occursSubst`): same name, same `max`, and the same `min` unless the field belongs to a group
(then it is optional). The statements of `Proofs/OccursSound` / `OccursList` carry over.
-/
import XsdataModel.Gen.Subst
import XsdataModel.Proofs.OccursGroups
import XsdataModel.Proofs.Subst

namespace Xs.Gen
open Py

/-! ### names -/

/-- the field names of a reference: itself, then the members of its group -/
def groupNames (mem : Str → List Str) (n : Str) : List Str :=
  if (mem n).isEmpty then [n] else n :: mem n

theorem namesList_singles (ns : List Str) : namesList (ns.map (.elem · 1 1)) = ns := by
  induction ns with
  | nil => simp [namesList]
  | cons n ns ih => simp [namesList, names, ih]

mutual
theorem names_substP (mem : Str → List Str) : (p : Particle) →
    names (substP mem p) = (names p).flatMap (groupNames mem)
  | .elem n mn mx => by
    simp only [substP, names]
    by_cases h : (mem n).isEmpty
    · simp [h, names, groupNames]
    · simp only [h, Bool.false_eq_true, if_false, names, List.flatMap_cons, List.flatMap_nil,
        List.append_nil, groupNames]
      exact namesList_singles (n :: mem n)
  | .seq mn mx ps => by simp only [substP, names]; exact namesList_substP mem ps
  | .choice mn mx ps => by simp only [substP, names]; exact namesList_substP mem ps
theorem namesList_substP (mem : Str → List Str) : (ps : List Particle) →
    namesList (substPList mem ps) = (namesList ps).flatMap (groupNames mem)
  | [] => by simp [substPList, namesList]
  | p :: ps => by
    simp only [substPList, namesList, List.flatMap_append]
    rw [names_substP mem p, namesList_substP mem ps]
end

theorem sublist_flatMap_groupNames (mem : Str → List Str) : ∀ l : List Str,
    l.Sublist (l.flatMap (groupNames mem))
  | [] => by simp
  | n :: ns => by
    rw [List.flatMap_cons]
    have ih := sublist_flatMap_groupNames mem ns
    unfold groupNames
    by_cases h : (mem n).isEmpty
    · simp only [h, if_true, List.cons_append, List.nil_append]
      exact List.Sublist.cons_cons n ih
    · simp only [h, Bool.false_eq_true, if_false, List.cons_append]
      exact List.Sublist.cons_cons n (List.Sublist.trans ih (List.sublist_append_right _ _))

theorem nodup_names_of_substP {mem : Str → List Str} {p : Particle}
    (hd : (names (substP mem p)).Nodup) : (names p).Nodup := by
  rw [names_substP] at hd
  exact List.Pairwise.sublist (sublist_flatMap_groupNames mem (names p)) hd

/-! ### the sites of `substP mem p` -/

theorem sitesList_singles (ns : List Str) (path : List PathE) : ∀ next : Nat,
    sitesList (ns.map (.elem · 1 1)) path next =
      (ns.map fun a => ({ name := a, index := 0, min := 1, max := 1, path } : Site), next) := by
  induction ns with
  | nil => intro next; simp [sitesList]
  | cons n ns ih => intro next; simp [sitesList, sitesAux, ih]

/-- what the sites of `substP mem p` offer for a site `s` of `p` -/
def Twin (mem : Str → List Str) (s : Site) (ts : List Site) : Prop :=
  ((mem s.name).isEmpty = true → ∃ t ∈ ts, t.sig = s.sig) ∧
  ((mem s.name).isEmpty = false → ∀ a ∈ s.name :: mem s.name, ∃ t ∈ ts,
    t.name = a ∧ t.min = 1 ∧ t.max = 1 ∧ pathSig t.path = pathSig s.path ++ [(s.min, s.max, true)])

theorem Twin.mono {mem : Str → List Str} {s : Site} {ts ts' : List Site}
    (h : Twin mem s ts) (hsub : ∀ t ∈ ts, t ∈ ts') : Twin mem s ts' := by
  refine ⟨fun he => ?_, fun he a ha => ?_⟩
  · obtain ⟨t, ht, hs⟩ := h.1 he; exact ⟨t, hsub t ht, hs⟩
  · obtain ⟨t, ht, hs⟩ := h.2 he a ha; exact ⟨t, hsub t ht, hs⟩

mutual
theorem twin_aux (mem : Str → List Str) : (p : Particle) →
    ∀ (path path' : List PathE) (next next' : Nat), pathSig path = pathSig path' →
    ∀ s ∈ (sitesAux p path next).1, Twin mem s (sitesAux (substP mem p) path' next').1
  | .elem n mn mx => by
    intro path path' next next' hp s hs
    simp only [sitesAux, List.mem_singleton] at hs
    subst hs
    simp only [substP]
    refine ⟨fun he => ?_, fun he a ha => ?_⟩
    · simp only at he
      simp only [he, if_true, sitesAux]
      exact ⟨_, List.mem_singleton.2 rfl, by simp [Site.sig, hp]⟩
    · simp only at he ha
      simp only [he, Bool.false_eq_true, if_false, sitesAux]
      rw [sitesList_singles]
      refine ⟨{ name := a, index := 0, min := 1, max := 1,
                path := path' ++ [⟨.c, next', mn, mx⟩] }, ?_, rfl, rfl, rfl, ?_⟩
      · exact List.mem_map.2 ⟨a, ha, rfl⟩
      · rw [pathSig_append, ← hp]; simp [pathSig, PathE.sig]
  | .seq mn mx ps => by
    intro path path' next next' hp s hs
    simp only [sitesAux] at hs
    simp only [substP, sitesAux]
    exact twin_auxList mem ps _ _ _ _ (by rw [pathSig_append, pathSig_append, hp]; rfl) s hs
  | .choice mn mx ps => by
    intro path path' next next' hp s hs
    simp only [sitesAux] at hs
    simp only [substP, sitesAux]
    exact twin_auxList mem ps _ _ _ _ (by rw [pathSig_append, pathSig_append, hp]; rfl) s hs
theorem twin_auxList (mem : Str → List Str) : (ps : List Particle) →
    ∀ (path path' : List PathE) (next next' : Nat), pathSig path = pathSig path' →
    ∀ s ∈ (sitesList ps path next).1, Twin mem s (sitesList (substPList mem ps) path' next').1
  | [] => by intro path path' next next' _ s hs; simp [sitesList] at hs
  | p :: ps => by
    intro path path' next next' hp s hs
    rw [sitesList_cons_fst, List.mem_append] at hs
    simp only [substPList]
    rw [sitesList_cons_fst]
    rcases hs with hs | hs
    · exact (twin_aux mem p path path' next next' hp s hs).mono
        (fun t ht => List.mem_append_left _ ht)
    · exact (twin_auxList mem ps path path' _ _ hp s hs).mono
        (fun t ht => List.mem_append_right _ ht)
end

/-! ### the handlers with `AddAttributeSubstitutions` -/

theorem substituteSite_names (mem : Str → List Str) (fresh : Nat) (s : Site) :
    (substituteSite (mem s.name) fresh s).map (·.name) = groupNames mem s.name := by
  unfold substituteSite groupNames
  by_cases h : (mem s.name).isEmpty
  · simp [h]
  · have hp : (prepareSubstituted fresh s).name = s.name := by
      unfold prepareSubstituted; split <;> rfl
    simp [h, hp, Function.comp_def]

theorem substituteWith_names (mem : Str → List Str) : ∀ ss : List Site,
    (substituteWith mem ss).map (·.name) = (ss.map (·.name)).flatMap (groupNames mem)
  | [] => by simp [substituteWith]
  | s :: ss => by
    have ih := substituteWith_names mem ss
    unfold substituteWith at ih ⊢
    rw [List.flatMap_cons, List.map_append, ih, List.map_cons, List.flatMap_cons,
      substituteSite_names]

theorem occursSubst_eq {mem : Str → List Str} {p : Particle}
    (hd : (names (substP mem p)).Nodup) :
    occursSubst mem (sites p) = substituteWith mem ((sites p).map processAttrPath) := by
  have hdp := nodup_names_of_substP hd
  unfold occursSubst
  have hn' : ((calculatePaths (sites p)).map (·.name)).Nodup := by
    rw [calculatePaths_names, sites_names]; exact hdp
  rw [effectiveChoice_nodup _ hn', calculatePaths_eq_map]
  apply mergeDuplicates_nodup
  rw [substituteWith_names, List.map_map]
  have : (fun s : Site => s.name) ∘ processAttrPath = fun s => s.name := by
    funext s; exact processAttrPath_name s
  rw [this, sites_names, ← names_substP]
  exact hd

theorem pathMaxProd_append (p q : List PathE) :
    pathMaxProd (p ++ q) = pathMaxProd p * pathMaxProd q := by
  induction p with
  | nil => simp [pathMaxProd]
  | cons e es ih => simp [pathMaxProd, ih, Nat.mul_assoc]

/-- every field of the class has a twin among the fields of `substP mem p`: same name and `max`;
same `min` when the field does not belong to a substitution group, `min = 0` when it does -/
theorem mem_occursSubst {mem : Str → List Str} {p : Particle}
    (hd : (names (substP mem p)).Nodup) {f : Site} (hf : f ∈ occursSubst mem (sites p)) :
    ∃ t ∈ occurs (sites (substP mem p)), t.name = f.name ∧ t.max = f.max ∧
      (t.min = f.min ∨ f.min = 0) := by
  rw [occursSubst_eq hd] at hf
  unfold substituteWith at hf
  obtain ⟨s', hs', hfs⟩ := List.mem_flatMap.1 hf
  obtain ⟨s1, hs1, rfl⟩ := List.mem_map.1 hs'
  rw [sites_eq] at hs1
  obtain ⟨s0, hs0, i, rfl⟩ := mem_withIndex hs1
  have htw := twin_aux mem p [] [] 1 1 rfl s0 hs0
  rw [occurs_sites _ hd, sites_eq]
  have key : ∀ t0 ∈ (sitesAux (substP mem p) [] 1).1,
      ∃ t ∈ (withIndex (sitesAux (substP mem p) [] 1).1).map processAttrPath,
        t.name = (processAttrPath t0).name ∧ t.min = (processAttrPath t0).min ∧
        t.max = (processAttrPath t0).max := by
    intro t0 ht0
    have : t0.sig ∈ sigs (withIndex (sitesAux (substP mem p) [] 1).1) := by
      rw [sigs_withIndex]; exact List.mem_map.2 ⟨t0, ht0, rfl⟩
    obtain ⟨t1, ht1, hsig⟩ := List.mem_map.1 this
    obtain ⟨h1, h2, h3⟩ := processAttrPath_sig hsig
    exact ⟨processAttrPath t1, List.mem_map.2 ⟨t1, ht1, rfl⟩, h1, h2, h3⟩
  have hname : (processAttrPath { s0 with index := i }).name = s0.name := by
    rw [processAttrPath_name]
  rw [hname] at hfs
  by_cases he : (mem s0.name).isEmpty
  · -- not a head: the field is the site itself
    unfold substituteSite at hfs
    simp only [he, if_true, List.mem_singleton] at hfs
    subst hfs
    obtain ⟨t0, ht0, hsig⟩ := htw.1 he
    obtain ⟨t, ht, h1, h2, h3⟩ := key t0 ht0
    have hsig' : t0.sig = ({ s0 with index := i } : Site).sig := by rw [hsig]; rfl
    obtain ⟨g1, g2, g3⟩ := processAttrPath_sig hsig'
    exact ⟨t, ht, by rw [h1, g1], by rw [h3, g3], Or.inl (by rw [h2, g2])⟩
  · have he' : (mem s0.name).isEmpty = false := by simpa using he
    have hne : mem s0.name ≠ [] := by intro h; rw [h] at he; exact he rfl
    have hmin := substituteSite_min (fresh := 1000 + (processAttrPath { s0 with index := i }).index)
      hne hfs
    have hmax := substituteSite_max hfs
    have hnm := substituteSite_name hfs
    rw [hname] at hnm
    obtain ⟨t0, ht0, htn, htmin, htmax, htp⟩ := htw.2 he' f.name hnm
    obtain ⟨t, ht, h1, _, h3⟩ := key t0 ht0
    refine ⟨t, ht, by rw [h1, processAttrPath_name, htn], ?_, Or.inr hmin⟩
    rw [h3, processAttrPath_max, htmax, hmax, processAttrPath_max, Nat.one_mul]
    have : pathSig t0.path = pathSig (s0.path ++ [⟨.c, 0, s0.min, s0.max⟩]) := by
      rw [htp, pathSig_append]; simp [pathSig, PathE.sig]
    rw [pathMaxProd_sig _ _ this, pathMaxProd_append]
    simp only [pathMaxProd, Nat.mul_one]
    exact Nat.mul_comm _ _

/-! ### well-formedness and liveness carry over -/

theorem wfList_singles (ns : List Str) : wfList (ns.map (.elem · 1 1)) = true := by
  induction ns with
  | nil => simp [wfList]
  | cons n ns ih => simp [wfList, wf, ih]

theorem liveList_singles (ns : List Str) : liveList (ns.map (.elem · 1 1)) = true := by
  induction ns with
  | nil => simp [liveList]
  | cons n ns ih => simp [liveList, live, ih]

mutual
theorem wf_substP (mem : Str → List Str) : (p : Particle) → wf p = true → wf (substP mem p) = true
  | .elem n mn mx => by
    intro h
    simp only [substP]
    by_cases he : (mem n).isEmpty
    · simpa [he] using h
    · simp only [wf, decide_eq_true_eq] at h
      simp only [he, Bool.false_eq_true, if_false, wf, Bool.and_eq_true, decide_eq_true_eq]
      exact ⟨h, wfList_singles _⟩
  | .seq mn mx ps => by
    intro h
    simp only [wf, Bool.and_eq_true] at h
    simp only [substP, wf, Bool.and_eq_true]
    exact ⟨h.1, wfList_substP mem ps h.2⟩
  | .choice mn mx ps => by
    intro h
    simp only [wf, Bool.and_eq_true] at h
    simp only [substP, wf, Bool.and_eq_true]
    exact ⟨h.1, wfList_substP mem ps h.2⟩
theorem wfList_substP (mem : Str → List Str) : (ps : List Particle) → wfList ps = true →
    wfList (substPList mem ps) = true
  | [] => by intro _; simp [substPList, wfList]
  | p :: ps => by
    intro h
    simp only [wfList, Bool.and_eq_true] at h
    simp only [substPList, wfList, Bool.and_eq_true]
    exact ⟨wf_substP mem p h.1, wfList_substP mem ps h.2⟩
end

mutual
theorem live_substP (mem : Str → List Str) : (p : Particle) → live p = true →
    live (substP mem p) = true
  | .elem n mn mx => by
    intro _
    simp only [substP]
    by_cases he : (mem n).isEmpty
    · simp [he, live]
    · simp only [he, Bool.false_eq_true, if_false, live, Bool.and_eq_true]
      exact ⟨by simp, liveList_singles _⟩
  | .seq mn mx ps => by
    intro h
    simp only [live] at h
    simp only [substP, live]
    exact liveList_substP mem ps h
  | .choice mn mx ps => by
    intro h
    simp only [live, Bool.and_eq_true] at h
    simp only [substP, live, Bool.and_eq_true]
    refine ⟨?_, liveList_substP mem ps h.2⟩
    cases ps with
    | nil => simp at h
    | cons q qs => simp [substPList]
theorem liveList_substP (mem : Str → List Str) : (ps : List Particle) → liveList ps = true →
    liveList (substPList mem ps) = true
  | [] => by intro _; simp [substPList, liveList]
  | p :: ps => by
    intro h
    simp only [liveList, Bool.and_eq_true] at h
    simp only [substPList, liveList, Bool.and_eq_true]
    exact ⟨live_substP mem p h.1, liveList_substP mem ps h.2⟩
end

/-! ### the statements -/

theorem subst_nonlist_core (mem : Str → List Str) (p : Particle)
    (hd : (names (substP mem p)).Nodup) (w : List Str) (hw : Matches (substP mem p) w)
    (f : Site) (hf : f ∈ occursSubst mem (sites p)) (hl : f.isList = false) :
    w.count f.name ≤ 1 := by
  obtain ⟨t, ht, hn, hmx, _⟩ := mem_occursSubst hd hf
  have hl' : t.isList = false := by simpa only [Site.isList, hmx] using hl
  rw [← hn]
  exact nonlist_sound_core _ hd w hw t ht hl'

theorem subst_required_core (mem : Str → List Str) (p : Particle)
    (hd : (names (substP mem p)).Nodup) (hwf : wf p = true) (w : List Str)
    (hw : Matches (substP mem p) w)
    (f : Site) (hf : f ∈ occursSubst mem (sites p)) (hr : 1 ≤ f.min) (hl : f.isList = false) :
    w.count f.name = 1 := by
  obtain ⟨t, ht, hn, hmx, hmn⟩ := mem_occursSubst hd hf
  have hl' : t.isList = false := by simpa only [Site.isList, hmx] using hl
  have hmin : t.min = f.min := by
    rcases hmn with h | h
    · exact h
    · omega
  rw [← hn]
  exact required_sound_core _ hd (wf_substP mem p hwf) w hw t ht (by omega) hl'

theorem subst_list_needed_core (mem : Str → List Str) (p : Particle)
    (hd : (names (substP mem p)).Nodup) (hwf : wf p = true) (hlive : live p = true)
    (f : Site) (hf : f ∈ occursSubst mem (sites p)) (hl : f.isList = true) :
    ∃ w, Matches (substP mem p) w ∧ 2 ≤ w.count f.name := by
  obtain ⟨t, ht, hn, hmx, _⟩ := mem_occursSubst hd hf
  have hl' : t.isList = true := by simpa only [Site.isList, hmx] using hl
  rw [← hn]
  exact list_needed_core _ hd (wf_substP mem p hwf) (live_substP mem p hlive) t ht hl'

end Xs.Gen
