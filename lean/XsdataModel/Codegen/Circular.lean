/-
`xsdata/codegen/handlers/detect_circular_references.py` — which type references
get the `circular` flag.  The flag removes the reference from
`Class.dependencies()`, i.e. from the graph `toposort_flatten` orders the classes
of a module by, and turns the field type into a forward reference; it is decided
class by class, in the order the container visits the classes, on a reference
graph whose already flagged edges are skipped — so it depends on that order.

Classes are numbered (`ref`, the model of `id(cls)`).
-/
import XsdataModel.Codegen.Basic

namespace Xs.Codegen
open Py

/-- one `AttrType` occurrence with a class reference (`tp.reference`); native and
forward types are never looked at and are left out -/
structure CType where
  target : Nat
  circular : Bool := false
  /-- belongs to `target.attrs[*].types` / `choices[*].types` (these get decided when
  the class is processed); `false` for extension types and the types of inner
  classes, which are only traversed -/
  own : Bool := true
deriving Repr, DecidableEq

/-- `reference_types[ref]`: all types of the class (`target.types()`) -/
structure CClass where
  ref : Nat
  types : List CType
deriving Repr, DecidableEq

abbrev CGraph := List CClass

def CGraph.typesOf (g : CGraph) (r : Nat) : List CType :=
  match g.find? (·.ref == r) with
  | some c => c.types
  | none => []   -- `KeyError` in the code; every reference is a class of the container

/-- the `while stack:` loop of `is_circular`; `stack` top first; the first argument
bounds the number of iterations (`none` = bound hit, never for `dfsFuel`) -/
def isCircularLoop (g : CGraph) (stop : Nat) : Nat → List Nat → List Nat → Option Bool
  | 0, _, _ => none
  | fuel + 1, stack, path =>
    match stack with
    | [] => some (path.contains stop)
    | r :: rest =>
      if path.contains stop then some true else
      let path' := if path.contains r then path else r :: path
      -- `stack.extend(...)` appends; the next `pop()` takes the last appended
      let next := (g.typesOf r).filterMap (fun tp =>
        if !tp.circular && !path'.contains tp.target then some tp.target else none)
      isCircularLoop g stop fuel (next.reverse ++ rest) path'

/-- enough iterations: every iteration pops one entry, an entry is pushed for an
edge whose target is not yet visited -/
def dfsFuel (g : CGraph) : Nat :=
  let e := (g.map (·.types.length)).foldl (· + ·) 0
  (e + g.length + 2) * (e + g.length + 2)

/-- `is_circular(start, stop)` -/
def isCircular (g : CGraph) (start stop : Nat) : Option Bool :=
  isCircularLoop g stop (dfsFuel g) [start] []

/-- set the flag of the `i`-th type of class `r` -/
def setFlag (g : CGraph) (r i : Nat) (v : Bool) : CGraph :=
  g.map (fun c => if c.ref == r then
    { c with types := c.types.zipIdx.map (fun p => if p.2 == i then { p.1 with circular := v } else p.1) }
    else c)

/-- `process(target)`: decide the own, not yet flagged types one after the other
(each decision sees the flags set before). `none` = iteration bound hit. -/
def processClass (g : CGraph) (r : Nat) : Option CGraph :=
  ((g.typesOf r).zipIdx).foldlM (fun g p =>
    -- read the current flag: an earlier decision may have set it (same object twice is not modelled)
    if p.1.own && !p.1.circular then
      (isCircular g p.1.target r).map (fun b => setFlag g r p.2 b)
    else some g) g

/-- the handler run over the classes in the order the container visits them -/
def detectCircular (g : CGraph) (order : List Nat) : Option CGraph :=
  order.foldlM processClass g

/-- the flags, class by class -/
def circularFlags (g : CGraph) : List (Nat × List Bool) :=
  g.map (fun c => (c.ref, c.types.map (·.circular)))

end Xs.Codegen
