"""C11 — arbitrary XML survives the generic element model (AnyElement, wildcards, TreeParser)."""
import copy
import json
import random

import bindgen as G
import bindlib as B
import c11_lib as L
from framework import Corr, Oracle

PROP_ID = "C11"
DESIGN_REF = "6/C11"

from bindcases import *  # noqa: F401,F403
from bindcases import _UNIS  # noqa: F401

QNAMES = ["x", "{urn:a}x", "{urn:b}y", "{urn:t}z", "{urn:t}x", "{##any}q", "{!urn:t}q", "{}x", "{http://example.com/ns}e"]


# ====================================================================== correspondence
# ---------------------------------------------------------------- c11.tree (TreeParser)
def gen_tree(rng, tier):
    for t in L.exhaustive_small(2):
        yield {"tree": t}
    for t in L.shape_samples(rng, 5, n_cases(tier, 2, 12)):
        yield {"tree": t}
    for _ in range(n_cases(tier, 150, 3000)):
        yield {"tree": L.rand_tree(rng, rng.randint(1, 12), clean=rng.random() < 0.6)}


def impl_tree(a):
    try:
        return {"ok": L.any_json(L.real_tree_parse_events(a["tree"]))}
    except Exception as e:  # noqa: BLE001
        return B.classify_exc(e)


# ---------------------------------------------------------------- c11.match
NS_SPECS = [None, "", "##any", "##other", "##local", "##targetNamespace", "##other ##local", "##local ##targetNamespace",
            "urn:a", "urn:a urn:b", "urn:a ##local", "  ##any  ", "##other\t##targetNamespace", "http://example.com/ns ##other"]
PARENTS = [None, "", "urn:t", "urn:a", "http://example.com/ns"]


def gen_match(rng, tier):
    for ns in NS_SPECS:
        for pns in PARENTS:
            for inh in (True, False):
                yield {"namespace": ns, "parent": pns, "inherits": inh, "qnames": QNAMES}


def impl_match(a):
    from xsdata.formats.dataclass.models.builders import XmlVarBuilder
    from xsdata.formats.dataclass.models.elements import XmlType, XmlVar

    xml_type = XmlType.WILDCARD if a["inherits"] else XmlType.ATTRIBUTES
    nss = XmlVarBuilder.resolve_namespaces(xml_type, a["namespace"], a["parent"])
    var = XmlVar(
        name="w", local_name="w", wrapper=None, xml_type=xml_type, index=0, types=(object,), clazz=None, init=True,
        mixed=False, factory=None, tokens_factory=None, format=None, derived=False, any_type=False,
        process_contents="strict", required=False, nillable=False, sequence=None, default=None, namespaces=nss,
        elements={}, wildcards=(),
    )
    return {"ok": {"namespaces": sorted(set(nss)), "matches": [bool(var.match_namespace(q)) for q in a["qnames"]]}}


# ---------------------------------------------------------------- c11.anyrt (the generic pipeline)
PRES = [None, "none", {"str": "lead"}, {"str": ""}, {"str": " "}]


def anyrt_case(rng, kind, nsmode, nillable, pre, trees):
    u, desc, ctx = L.host(kind, nsmode, None, nillable=nillable)
    var = L.wildcard_var(u, kind)
    return {"ctx": ctx, "var": u.export_var(var), "host": "H", "pre": pre, "trees": trees,
            "_kind": kind, "_nsmode": nsmode, "_nillable": nillable, "_uni": u.modname, "desc": desc}


def clean_for_model(t):
    """c11.anyrt compares written documents; a nested `xsi:type` is QName-valued data for the real
    writer (it allocates a prefix), which the abstract writer of the model does not do for `str`
    payloads: keep those for the oracle and bind.roundtrip, out of this op"""
    t = copy.deepcopy(t)

    def go(n):
        n["a"] = [x for x in n["a"] if x[0] != L.XSI_TYPE]
        for c in n["c"]:
            go(c)

    go(t)
    return t


def gen_anyrt(rng, tier):
    small = L.exhaustive_small(2)
    step = n_cases(tier, 7, 1)
    for i, t in enumerate(small):
        if i % step == 0:
            yield anyrt_case(rng, "list", "##any", False, None, [t])
    for t in L.shape_samples(rng, 5, n_cases(tier, 2, 10)):
        yield anyrt_case(rng, rng.choice(L.KINDS), "##any", rng.random() < 0.3, rng.choice(PRES), [t])
    for _ in range(n_cases(tier, 150, 3000)):
        trees = [clean_for_model(L.rand_tree(rng, rng.randint(1, 9), clean=rng.random() < 0.6)) for _ in range(rng.randint(0, 3))]
        yield anyrt_case(rng, rng.choice(L.KINDS), rng.choice(L.NSMODES), rng.random() < 0.3, rng.choice(PRES), trees)


def impl_anyrt(a):
    u = uni_of(a)
    var = L.wildcard_var(u, a["_kind"])
    try:
        return {"ok": L.real_any_roundtrip(u, var, a["host"], a["pre"], a["trees"])}
    except Exception as e:  # noqa: BLE001
        return B.classify_exc(e)


def canon_anyrt(o):
    if isinstance(o, dict) and "ok" in o and isinstance(o["ok"].get("tree"), dict) and "q" in o["ok"]["tree"]:
        o = copy.deepcopy(o)
        o["ok"]["tree"] = L.strip_ns(o["ok"]["tree"])
    return o


def classify_anyrt(a, o):
    if "ok" not in o:
        return o.get("err", "?")
    t = o["ok"]["tree"]
    if "q" not in t:
        return "write:" + str(t.get("err"))
    want = L.norm(L.node("H", [], (a["pre"] or {}).get("str") if isinstance(a["pre"], dict) else None, a["trees"]))
    return "preserved" if L.first_diff(want, L.norm(t)) is None else "changed"


# ---------------------------------------------------------------- bind.parse / bind.roundtrip on hosts
def host_cases(rng, tier, n):
    """documents of typed hosts with a wildcard placement: (universe, ctx, desc, tree, info)"""
    for _ in range(n):
        kind = rng.choice(L.KINDS)
        nsmode = rng.choice(L.NSMODES)
        target = rng.choice([None, "urn:t", "urn:t"])
        attributes = rng.random() < 0.3
        head = rng.random() < 0.3 and kind != "mixed"
        u, desc, ctx = L.host(kind, nsmode, target, attributes, head)
        admitted = L.admitted_namespaces(nsmode, target)
        r = rng.random()
        top = admitted if (admitted and r < 0.85) else [None, "urn:a", "urn:b", "urn:t"]
        n_top = rng.choice([0, 1, 1, 2, 3])
        forest = []
        for _ in range(n_top):
            t = L.rand_tree(rng, rng.randint(1, 6), clean=rng.random() < 0.6, top_ns=top)
            if rng.random() < 0.12:
                # an xsi:type'd primitive as direct wildcard content
                ty, tx = rng.choice([("xs:string", "s"), ("xs:boolean", "true"), ("xs:short", "5"), ("xs:int", "5"),
                                     ("xs:boolean", "1"), ("xs:string", ""), ("p:unknown", "u")]
                                    + ([("xs:QName", "p:n")] if kind != "choice" else []))
                t = L.node(t["q"], [[L.XSI_TYPE, ty]] + ([["k", "v"]] if rng.random() < 0.3 else []), tx, [], t["tl"])
            if kind == "choice" and rng.random() < 0.2:
                t = L.node(L.qn(target, "known"), [], rng.choice(["s", "", " a "]), [], t["tl"])
            forest.append(t)
        if kind not in ("mixed",) and rng.random() < 0.6:
            for t in forest:
                t["tl"] = rng.choice([None, " ", "\n  "])   # no mixed content around the children
        text = rng.choice([None, None, "\n ", "lead"]) if kind in ("mixed", "single", "list") else rng.choice([None, "\n "])
        root_attrs = [["ra", "1"], ["{urn:b}rb", "x y"]][: rng.randint(0, 2)] if attributes else []
        doc = L.host_doc(kind, target, forest, text, root_attrs, rng.choice(["h", ""]) if head else None)
        yield u, ctx, desc, doc, {"kind": kind, "nsmode": nsmode, "target": target}


def gen_parse_hosts(rng, tier):
    for u, ctx, desc, doc, info in host_cases(rng, tier, n_cases(tier, 350, 6000)):
        yield {"ctx": ctx, "tree": doc, "clazz": "Root", "config": rng.choice(CONFIGS[:3]), "desc": desc,
               "_uni": u.modname, "_kind": info["kind"] + "/" + info["nsmode"], "_info": info}


def gen_roundtrip_hosts(rng, tier):
    for u, ctx, desc, doc, info in host_cases(rng, tier, n_cases(tier, 250, 4000)):
        r = B.real_parse_tree(u, "Root", doc, {})
        if "ok" not in r:
            continue
        yield {
            "ctx": ctx, "value": r["ok"]["value"], "clazz": "Root", "config": {}, "desc": desc, "_uni": u.modname,
            "ignore_default_attributes": False, "writer": rng.choice(["native", "lxml"]), "handler": rng.choice(["native", "lxml"]),
            "indent": None, "xml_declaration": rng.random() < 0.5, "_info": info, "tree": doc,
        }


CORRS = [
    Corr("c11.tree", gen_tree, impl_tree,
         describe="TreeParser (EventsHandler) vs model treeParse on bounded-exhaustive and random trees"),
    Corr("c11.match", gen_match, impl_match,
         describe="XmlVarBuilder.resolve_namespaces + XmlVar.match_namespace vs model on all keyword combinations"),
    Corr("c11.anyrt", gen_anyrt, impl_anyrt, canon=canon_anyrt, classify=classify_anyrt,
         describe="real WildcardNode + convert_any_type + XmlEventWriter (+lxml re-read) vs model wildRoundtrip"),
    Corr("bind.parse", gen_parse_hosts, impl_parse, compare=cmp_parse, classify=classify_parse,
         describe="NodeParser vs model on typed hosts with wildcard placements (single/list/mixed/choice x namespace modes)"),
    Corr("c11.roundtrip", gen_roundtrip_hosts, impl_roundtrip, compare=cmp_parse, classify=classify_rt,
         describe="real serialize+parse of parsed generic content vs model generate+write+parse"),
]

ORACLES = []
FINDINGS = {}
TRUSTED = []
ASSUMPTIONS = []
LEVEL_TEXT = "pending"
LEVEL_NOTE = "pending"
