/-
The invariant of `self.ns_map` that keeps prefix generation sound
(`MapOK`), and its preservation by generate_prefix / load_prefix /
add_namespace / encode_data.
-/
import XsdataModel.Proofs.DictLemmas
import XsdataModel.Proofs.Lexical
import XsdataModel.Xml.TblNsEnv
import XsdataModel.Spec.Hyps

namespace Proofs.MapInv
open Py Xs.Ns Xs.Sax Xs.Writer Spec.XmlNs Spec.Hyps

structure EnvOK (env : NsEnv) : Prop where
  xmlNs : env.saxXmlNs = xmlNsUri
  xmlEnum : dget env.enum xmlNsUri = some xmlPrefix
  entries : ∀ e ∈ env.enum, enumEntryOK e = true

theorem envOK_sound (env : NsEnv) (h : envOK env = true) : EnvOK env := by
  simp only [envOK, Bool.and_eq_true, beq_iff_eq, List.all_eq_true] at h
  exact ⟨h.1.1.1.1, h.1.1.1.2, h.1.1.2⟩

/-- the invariant of a prefix-URI map (`d` is the user's default namespace, if any) -/
structure MapOK (env : NsEnv) (d : Option Str) (M : NsMap) : Prop where
  nodup : NoDupKeys M
  decl : ∀ e ∈ M, declOK e = true
  dflt : ∀ u, dget M none = some u → u = [] ∨ some u = d

/-- `M'` is `M` with new prefixed entries appended -/
def Ext (M M' : NsMap) : Prop := ∃ X : NsMap, M' = M ++ X ∧ ∀ e ∈ X, e.1 ≠ none

theorem Ext.refl (M : NsMap) : Ext M M := ⟨[], by simp, by simp⟩

theorem Ext.trans {A B C : NsMap} (h1 : Ext A B) (h2 : Ext B C) : Ext A C := by
  obtain ⟨X, rfl, hX⟩ := h1
  obtain ⟨Y, rfl, hY⟩ := h2
  refine ⟨X ++ Y, by simp, ?_⟩
  intro e he
  rcases List.mem_append.mp he with h | h
  · exact hX e h
  · exact hY e h

theorem prefixExists_false (u : Str) (M : NsMap) (h : prefixExists u M = false) : ∀ e ∈ M, e.2 ≠ u := by
  intro e he heq
  have : prefixExists u M = true := by
    simp only [prefixExists, List.any_eq_true, decide_eq_true_eq]
    exact ⟨e, he, heq⟩
  rw [h] at this; cases this

theorem prefixedExists_false (u : Str) (M : NsMap) (h : prefixedExists u M = false) :
    ∀ s, s ≠ [] → (some s, u) ∉ M := by
  intro s hs hm
  have : prefixedExists u M = true := by
    simp only [prefixedExists, List.any_eq_true, Bool.and_eq_true, decide_eq_true_eq]
    refine ⟨(some s, u), hm, ?_, rfl⟩
    cases s with
    | nil => exact absurd rfl hs
    | cons _ _ => rfl
  rw [h] at this; cases this

theorem prefixedExists_of_prefixExists_false (u : Str) (M : NsMap) (h : prefixExists u M = false) :
    prefixedExists u M = false := by
  cases hp : prefixedExists u M with
  | false => rfl
  | true =>
    simp only [prefixedExists, List.any_eq_true, Bool.and_eq_true, decide_eq_true_eq] at hp
    obtain ⟨e, he, _, heq⟩ := hp
    exact absurd heq (prefixExists_false u M h e he)

theorem prefixedExists_true (u : Str) (M : NsMap) (h : prefixedExists u M = true) : ∃ s, (some s, u) ∈ M := by
  simp only [prefixedExists, List.any_eq_true, Bool.and_eq_true, decide_eq_true_eq] at h
  obtain ⟨e, he, hk, heq⟩ := h
  obtain ⟨k, v⟩ := e
  cases k with
  | none => simp at hk
  | some s => simp only at heq; subst heq; exact ⟨s, he⟩

theorem prefixedExists_of_mem (u s : Str) (M : NsMap) (hs : s ≠ []) (h : (some s, u) ∈ M) : prefixedExists u M = true := by
  cases hp : prefixedExists u M with
  | true => rfl
  | false => exact absurd h (prefixedExists_false u M hp s hs)

theorem getEnum_some (env : NsEnv) (u p : Str) (h : getEnum env u = some p) : (u, p) ∈ env.enum ∧ u ≠ [] := by
  unfold getEnum at h
  by_cases hu : u.isEmpty = true
  · simp [hu] at h
  · simp [hu] at h
    exact ⟨dget_some_mem _ _ _ h, by intro e; subst e; simp at hu⟩

/-! ### the `while prefix in ns_map` loop terminates with a fresh prefix -/

/-- key is `ns<k>` with `k ≥ n` -/
def isNsGe (n : Nat) (e : Pfx × Str) : Bool :=
  match e.1 with
  | some s => s == nsLit ++ natStr (valOf (s.drop 2)) && decide (n ≤ valOf (s.drop 2))
  | none => false

theorem isNsGe_nsK (n k : Nat) (u : Str) : isNsGe n (some (nsLit ++ natStr k), u) = decide (n ≤ k) := by
  have hd : (nsLit ++ natStr k).drop 2 = natStr k := by simp [nsLit]
  simp [isNsGe, hd, valOf_natStr]

theorem filter_length_lt {α : Type} (p q : α → Bool) (l : List α) (hpq : ∀ x, p x = true → q x = true)
    (hw : ∃ x ∈ l, q x = true ∧ p x = false) : (l.filter p).length < (l.filter q).length := by
  induction l with
  | nil => obtain ⟨x, hx, _⟩ := hw; cases hx
  | cons a r ih =>
    have hle : ∀ (l' : List α), (l'.filter p).length ≤ (l'.filter q).length := by
      intro l'
      induction l' with
      | nil => simp
      | cons b t iht =>
        simp only [List.filter_cons]
        by_cases hp : p b = true
        · simp [hp, hpq b hp]; exact iht
        · by_cases hq : q b = true
          · simp [hp, hq]; omega
          · simp [hp, hq]; exact iht
    obtain ⟨x, hx, hqx, hpx⟩ := hw
    simp only [List.filter_cons]
    rcases List.mem_cons.mp hx with rfl | hm
    · simp [hqx, hpx]
      have := hle r
      omega
    · have := ih ⟨x, hm, hqx, hpx⟩
      by_cases hp : p a = true
      · simp [hp, hpq a hp]; exact this
      · by_cases hq : q a = true
        · simp [hp, hq]; omega
        · simp [hp, hq]; exact this

/-- the loop returns some `ns<k>` that is not a key — whenever the fuel exceeds the
number of keys `ns<j>`, `j ≥ number` -/
theorem genLoop_spec (M : NsMap) : ∀ (fuel n : Nat), (M.filter (isNsGe n)).length < fuel →
    ∃ k, n ≤ k ∧ genLoop M fuel n = nsLit ++ natStr k ∧ dget M (some (nsLit ++ natStr k)) = none := by
  intro fuel
  induction fuel with
  | zero => intro n h; omega
  | succ f ih =>
    intro n h
    simp only [genLoop]
    by_cases hh : dhas M (some (nsLit ++ natStr n)) = true
    · simp only [hh, if_true]
      have hw : ∃ x ∈ M, isNsGe n x = true ∧ isNsGe (n + 1) x = false := by
        simp only [dhas, Option.isSome_iff_exists] at hh
        obtain ⟨u, hu⟩ := hh
        refine ⟨(some (nsLit ++ natStr n), u), dget_some_mem _ _ _ hu, ?_, ?_⟩
        · rw [isNsGe_nsK]; simp
        · rw [isNsGe_nsK]; simp
      have hlt := filter_length_lt (isNsGe (n + 1)) (isNsGe n) M (by
        intro x hx
        unfold isNsGe at hx ⊢
        cases h1 : x.1 with
        | none => rw [h1] at hx; cases hx
        | some s =>
          rw [h1] at hx
          simp only [Bool.and_eq_true, decide_eq_true_eq] at hx ⊢
          exact ⟨hx.1, by omega⟩) hw
      obtain ⟨k, hk, h1, h2⟩ := ih (n + 1) (by omega)
      exact ⟨k, by omega, h1, h2⟩
    · simp only [hh, Bool.false_eq_true, if_false]
      refine ⟨n, Nat.le_refl _, rfl, ?_⟩
      simp only [dhas, Option.isSome_iff_exists, not_exists] at hh
      cases hg : dget M (some (nsLit ++ natStr n)) with
      | none => rfl
      | some v => exact absurd hg (hh v)

/-- the fuel `generate_prefix` starts with is never exhausted -/
theorem genLoop_fresh (M : NsMap) :
    ∃ k, genLoop M (M.length + 1) M.length = nsLit ++ natStr k ∧ dget M (some (nsLit ++ natStr k)) = none := by
  have hlen : (M.filter (isNsGe M.length)).length < M.length + 1 := by
    have := List.length_filter_le (isNsGe M.length) M
    omega
  obtain ⟨k, _, h1, h2⟩ := genLoop_spec M (M.length + 1) M.length hlen
  exact ⟨k, h1, h2⟩

/-- **every map**: `generate_prefix` binds a key that was not in the map, so it
appends exactly one entry and no binding is lost -/
theorem generatePrefix_appends (env : NsEnv) (u : Str) (M : NsMap) :
    dget M (some (generatePrefix env u M).1) = none
    ∧ (generatePrefix env u M).2 = M ++ [(some (generatePrefix env u M).1, u)] := by
  have hfresh : dget M (some (generatePrefix env u M).1) = none := by
    unfold generatePrefix
    simp only []
    obtain ⟨k, hk1, hk2⟩ := genLoop_fresh M
    cases hg : getEnum env u with
    | none => simp only []; rw [hk1]; exact hk2
    | some p =>
      simp only []
      by_cases hh : dhas M (some p) = true
      · simp only [hh, if_true]; rw [hk1]; exact hk2
      · simp only [hh, Bool.false_eq_true, if_false]
        simp only [dhas, Option.isSome_iff_exists, not_exists] at hh
        cases hd : dget M (some p) with
        | none => rfl
        | some v => exact absurd hd (hh v)
  refine ⟨hfresh, ?_⟩
  have : (generatePrefix env u M).2 = dset M (some (generatePrefix env u M).1) u := rfl
  rw [this, dset_absent M _ u hfresh]

/-- the generated prefix is the standard one or some `ns<k>` -/
theorem generatePrefix_shape (env : NsEnv) (u : Str) (M : NsMap) :
    getEnum env u = some (generatePrefix env u M).1 ∨ ∃ k, (generatePrefix env u M).1 = nsLit ++ natStr k := by
  unfold generatePrefix
  simp only []
  obtain ⟨k, hk1, _⟩ := genLoop_fresh M
  cases hg : getEnum env u with
  | none => exact Or.inr ⟨k, hk1⟩
  | some p =>
    simp only []
    by_cases hh : dhas M (some p) = true
    · simp only [hh, if_true]; exact Or.inr ⟨k, hk1⟩
    · rw [if_neg hh]; exact Or.inl rfl

/-- `generate_prefix` on a URI without prefix appends one fresh entry and keeps the invariant -/
theorem generatePrefix_ok (env : NsEnv) (henv : EnvOK env) (d : Option Str) (u : Str) (M : NsMap)
    (hM : MapOK env d M) (hu : uriOK u = true) (hne : prefixedExists u M = false) :
    (generatePrefix env u M).2 = M ++ [(some (generatePrefix env u M).1, u)]
    ∧ MapOK env d (generatePrefix env u M).2
    ∧ dget M (some (generatePrefix env u M).1) = none := by
  have hvals := prefixedExists_false u M hne
  have huri : u ≠ [] ∧ uriSafe u = true ∧ u ≠ xmlnsNsUri := by
    simp only [uriOK, Bool.and_eq_true, Bool.not_eq_true', bne_iff_ne, ne_eq] at hu
    refine ⟨?_, hu.1.2, hu.2⟩
    intro e; subst e; simp at hu
  obtain ⟨hfreshp, happ⟩ := generatePrefix_appends env u M
  generalize hpdef : (generatePrefix env u M).1 = p at hfreshp happ
  have huempty : u.isEmpty = false := by
    cases u with
    | nil => exact absurd rfl huri.1
    | cons _ _ => rfl
  -- the new declaration is legal
  have hdecl : declOK (some p, u) = true := by
    rcases generatePrefix_shape env u M with hs | ⟨k, hk⟩
    · rw [hpdef] at hs
      obtain ⟨hmem, _⟩ := getEnum_some env u p hs
      have hent := henv.entries (u, p) hmem
      simp only [enumEntryOK, Bool.and_eq_true, bne_iff_ne, ne_eq, beq_iff_eq] at hent
      obtain ⟨⟨⟨hnc, hnx⟩, _⟩, hxml⟩ := hent
      simp only [declOK, Bool.and_eq_true, bne_iff_ne, ne_eq, Bool.not_eq_true', beq_iff_eq]
      exact ⟨⟨⟨⟨⟨hnc, hnx⟩, huempty⟩, huri.2.1⟩, huri.2.2⟩, hxml⟩
    · rw [hpdef] at hk
      subst hk
      -- `u` is not the XML namespace: its standard prefix `xml` would be free
      have hux : u ≠ xmlNsUri := by
        intro e; subst e
        have hget : getEnum env xmlNsUri = some xmlPrefix := by
          unfold getEnum; rw [henv.xmlEnum]; simp [xmlNsUri]
        have hxfree : dhas M (some xmlPrefix) = false := by
          cases hd : dget M (some xmlPrefix) with
          | none => simp [dhas, hd]
          | some v =>
            have hdv := hM.decl (some xmlPrefix, v) (dget_some_mem _ _ _ hd)
            simp only [declOK, Bool.and_eq_true, beq_iff_eq] at hdv
            have : v = xmlNsUri := by
              have h2 := hdv.2
              simp at h2
              exact h2
            subst this
            exact absurd (dget_some_mem _ _ _ hd) (hvals xmlPrefix (by decide))
        have : (generatePrefix env xmlNsUri M).1 = xmlPrefix := by
          unfold generatePrefix
          simp only [hget, hxfree, Bool.false_eq_true, if_false]
        rw [hpdef] at this
        exact nsK_ne_xml k this
      simp only [declOK, Bool.and_eq_true, bne_iff_ne, ne_eq, Bool.not_eq_true', beq_iff_eq]
      refine ⟨⟨⟨⟨⟨nsK_isNCName _, nsK_ne_xmlns _⟩, huempty⟩, huri.2.1⟩, huri.2.2⟩, ?_⟩
      have h1 : (nsLit ++ natStr k == xmlPrefix) = false := by simp [nsLit, xmlPrefix]
      have h2 : (u == xmlNsUri) = false := by simpa using hux
      rw [h1, h2]
  rw [happ]
  refine ⟨rfl, ?_, hfreshp⟩
  refine ⟨NoDupKeys_append_single M _ _ hM.nodup hfreshp, ?_, ?_⟩
  · intro e he
    rcases List.mem_append.mp he with h | h
    · exact hM.decl e h
    · simp at h; subst h; exact hdecl
  · intro u' h
    rw [dget_append] at h
    cases hm : dget M none with
    | some v => rw [hm] at h; cases h; exact hM.dflt _ hm
    | none => rw [hm] at h; simp [dget] at h

theorem findPrefix_some (u : Str) (M : NsMap) (p : Pfx) (h : findPrefix u M = some p) : (p, u) ∈ M := by
  induction M with
  | nil => simp [findPrefix] at h
  | cons e r ih =>
    obtain ⟨k, v⟩ := e
    simp only [findPrefix] at h
    by_cases hv : v = u
    · simp [hv] at h; subst h; subst hv; simp
    · simp [hv] at h; exact List.mem_cons_of_mem _ (ih h)

theorem findPrefix_none (u : Str) (M : NsMap) (h : findPrefix u M = none) : prefixExists u M = false := by
  induction M with
  | nil => simp [prefixExists]
  | cons e r ih =>
    obtain ⟨k, v⟩ := e
    simp only [findPrefix] at h
    by_cases hv : v = u
    · simp [hv] at h
    · simp [hv] at h
      have := ih h
      simp only [prefixExists, List.any_cons, this, Bool.or_false] at this ⊢
      simp [hv, this]

/-- `load_prefix`: the map grows by at most one fresh entry and the returned prefix is bound to the URI -/
theorem loadPrefix_ok (env : NsEnv) (henv : EnvOK env) (d : Option Str) (u : Str) (M : NsMap)
    (hM : MapOK env d M) (hu : uriOK u = true) :
    Ext M (loadPrefix env u M).2 ∧ MapOK env d (loadPrefix env u M).2
    ∧ dget (loadPrefix env u M).2 (loadPrefix env u M).1 = some u := by
  unfold loadPrefix
  cases hf : findPrefix u M with
  | some p =>
    exact ⟨Ext.refl M, hM, NoDupKeys_dget_of_mem M p u hM.nodup (findPrefix_some u M p hf)⟩
  | none =>
    have hne := findPrefix_none u M hf
    obtain ⟨h1, h2, h3⟩ := generatePrefix_ok env henv d u M hM hu (prefixedExists_of_prefixExists_false u M hne)
    simp only []
    refine ⟨⟨[(some (generatePrefix env u M).1, u)], h1, by simp⟩, h2, ?_⟩
    rw [h1, dget_append_right _ _ _ h3]
    simp [dget]

end Proofs.MapInv

namespace Proofs.MapInv
open Py Xs.Ns Xs.Sax Xs.Writer Spec.XmlNs Spec.Hyps

/-! ### Clark notation vs `split_qname` -/

theorem textSplit_sep (u l : Str) (c : Char) (hu : c ∉ u) (hl : l ≠ []) :
    textSplit (u ++ c :: l) c = (some u, l) := by
  unfold textSplit
  rw [takeWhile_append_sep u l c hu, dropWhile_append_sep u l c hu]
  cases l with
  | nil => exact absurd rfl hl
  | cons x r => simp

theorem takeWhile_dropWhile_id (s : Str) (p : Char → Bool) : s.takeWhile p ++ s.dropWhile p = s :=
  List.takeWhile_append_dropWhile

theorem not_mem_takeWhile_ne (s : Str) (c : Char) : c ∉ s.takeWhile (· ≠ c) := by
  induction s with
  | nil => simp
  | cons x r ih =>
    by_cases hx : x = c
    · simp [List.takeWhile, hx]
    · simp [List.takeWhile, hx]
      exact ⟨fun e => hx e.symm, by simpa using ih⟩

theorem clark_splitQName (q : Str) (n : EName) (h : clark q = some n) : splitQName q = .ok n := by
  cases q with
  | nil => simp [clark, isNCName] at h
  | cons c rest =>
    by_cases hc : c = '{'
    · subst hc
      simp only [clark] at h
      cases hd : rest.dropWhile (· ≠ '}') with
      | nil => rw [hd] at h; simp at h
      | cons b l =>
        rw [hd] at h
        simp only [] at h
        by_cases hcond : (!(rest.takeWhile (· ≠ '}')).isEmpty && isNCName l) = true
        · rw [if_pos hcond] at h
          cases h
          simp only [Bool.and_eq_true, Bool.not_eq_true', ] at hcond
          have hb : b = '}' := by
            have : (b :: l).head? = some b := rfl
            have h2 := List.head?_dropWhile_not (· ≠ '}') rest
            rw [hd] at h2
            simpa using h2
          subst hb
          have hrest : rest = rest.takeWhile (· ≠ '}') ++ '}' :: l := by
            conv => lhs; rw [← takeWhile_dropWhile_id rest (· ≠ '}'), hd]
          have hl : l ≠ [] := isNCName_ne_nil l hcond.2
          simp only [splitQName, if_true]
          rw [hrest, textSplit_sep _ l '}' (not_mem_takeWhile_ne rest '}') hl]
          simp only []
          rw [← hrest]
          have h1 := hcond.1
          simp at h1 ⊢
          exact h1
        · rw [if_neg hcond] at h; cases h
    · have hq : clark (c :: rest) = if isNCName (c :: rest) then some (none, c :: rest) else none := by
        unfold clark
        split
        · rename_i heq; cases heq; exact absurd rfl hc
        · rfl
      rw [hq] at h
      by_cases hn : isNCName (c :: rest) = true
      · simp [hn] at h
        subst h
        simp [splitQName, hc]
      · simp [hn] at h

theorem clark_some_ns (q u l : Str) (h : clark q = some (some u, l)) : u ≠ [] ∧ isNCName l = true := by
  cases q with
  | nil => simp [clark, isNCName] at h
  | cons c rest =>
    by_cases hc : c = '{'
    · subst hc
      simp only [clark] at h
      split at h
      · split at h
        · rename_i hcond
          cases h
          simp only [Bool.and_eq_true, Bool.not_eq_true'] at hcond
          exact ⟨by intro e; rw [e] at hcond; simp at hcond, hcond.2⟩
        · cases h
      · cases h
    · have hq : clark (c :: rest) = if isNCName (c :: rest) then some (none, c :: rest) else none := by
        unfold clark
        split
        · rename_i heq; cases heq; exact absurd rfl hc
        · rfl
      rw [hq] at h
      split at h <;> cases h

theorem clark_none_ns (q l : Str) (h : clark q = some (none, l)) : isNCName l = true := by
  cases q with
  | nil => simp [clark, isNCName] at h
  | cons c rest =>
    by_cases hc : c = '{'
    · subst hc
      simp only [clark] at h
      split at h
      · split at h <;> cases h
      · cases h
    · have hq : clark (c :: rest) = if isNCName (c :: rest) then some (none, c :: rest) else none := by
        unfold clark
        split
        · rename_i heq; cases heq; exact absurd rfl hc
        · rfl
      rw [hq] at h
      split at h
      · rename_i hn; cases h; exact hn
      · cases h

end Proofs.MapInv

namespace Proofs.MapInv
open Py Xs.Ns Xs.Sax Xs.Writer Spec.XmlNs Spec.Hyps

/-! ### values -/

theorem xmlChars_append (a b : Str) : xmlChars (a ++ b) = (xmlChars a && xmlChars b) := by
  simp [xmlChars, List.all_append]

theorem declOK_prefix_ncname (p u : Str) (h : declOK (some p, u) = true) : isNCName p = true := by
  simp only [declOK, Bool.and_eq_true] at h
  exact h.1.1.1.1.1

theorem serializeQName_ok (env : NsEnv) (henv : EnvOK env) (d : Option Str) (t : Str) (M : NsMap)
    (hM : MapOK env d M) (ht : qnameTextOK t = true) :
    ∃ s M', serializeQName env t M = .ok (s, M') ∧ Ext M M' ∧ MapOK env d M' ∧ xmlChars s = true := by
  unfold qnameTextOK at ht
  cases hc : clark t with
  | none => rw [hc] at ht; cases ht
  | some n =>
    obtain ⟨uo, l⟩ := n
    rw [hc] at ht
    have hs := clark_splitQName t _ hc
    cases uo with
    | none =>
      refine ⟨l, M, by simp [serializeQName, hs], Ext.refl M, hM, isNCName_xmlChars l (clark_none_ns t l hc)⟩
    | some u =>
      simp only [] at ht
      obtain ⟨hext, hok, hget⟩ := loadPrefix_ok env henv d u M hM ht
      have hl := isNCName_xmlChars l (clark_some_ns t u l hc).2
      unfold serializeQName
      rw [hs]
      simp only []
      generalize hlp : loadPrefix env u M = r at hext hok hget
      obtain ⟨po, M'⟩ := r
      simp only [] at hext hok hget
      cases po with
      | none => exact ⟨l, M', rfl, hext, hok, hl⟩
      | some p =>
        by_cases hp : p.isEmpty = true
        · exact ⟨l, M', by simp [hp], hext, hok, hl⟩
        · refine ⟨p ++ ':' :: l, M', by simp [hp], hext, hok, ?_⟩
          have hpn := declOK_prefix_ncname p u (hok.decl _ (dget_some_mem _ _ _ hget))
          rw [xmlChars_append, isNCName_xmlChars p hpn]
          simp only [xmlChars, List.all_cons, Bool.true_and, Bool.and_eq_true]
          exact ⟨by decide, by simpa [xmlChars] using hl⟩

theorem serializeAtom_ok (env : NsEnv) (henv : EnvOK env) (d : Option Str) (a : Atom) (M : NsMap)
    (hM : MapOK env d M) (ha : atomOK a = true) :
    ∃ s M', serializeAtom env a M = .ok (s, M') ∧ Ext M M' ∧ MapOK env d M' ∧ xmlChars s = true := by
  cases a with
  | str s => exact ⟨s, M, rfl, Ext.refl M, hM, ha⟩
  | qname t => exact serializeQName_ok env henv d t M hM ha
  | int i => cases ha
  | bool b => cases ha

theorem xmlChars_joinStr (ss : List Str) (h : ∀ s ∈ ss, xmlChars s = true) : xmlChars (joinStr [' '] ss) = true := by
  induction ss with
  | nil => rfl
  | cons x r ih =>
    cases r with
    | nil => simpa [joinStr] using h x (by simp)
    | cons y r' =>
      simp only [joinStr]
      rw [xmlChars_append, xmlChars_append, h x (by simp), ih (fun s hs => h s (List.mem_cons_of_mem _ hs))]
      decide

theorem serializeAtoms_ok (env : NsEnv) (henv : EnvOK env) (d : Option Str) (xs : List Atom) :
    ∀ (M : NsMap), MapOK env d M → xs.all atomOK = true →
    ∃ ss M', serializeAtoms env xs M = .ok (ss, M') ∧ Ext M M' ∧ MapOK env d M' ∧ ∀ s ∈ ss, xmlChars s = true := by
  induction xs with
  | nil => intro M hM _; exact ⟨[], M, rfl, Ext.refl M, hM, by simp⟩
  | cons a r ih =>
    intro M hM h
    simp only [List.all_cons, Bool.and_eq_true] at h
    obtain ⟨s, M1, h1, e1, ok1, x1⟩ := serializeAtom_ok env henv d a M hM h.1
    obtain ⟨ss, M2, h2, e2, ok2, x2⟩ := ih M1 ok1 h.2
    refine ⟨s :: ss, M2, by simp [serializeAtoms, h1, h2], e1.trans e2, ok2, ?_⟩
    intro y hy
    rcases List.mem_cons.mp hy with rfl | hm
    · exact x1
    · exact x2 y hm

/-- `encode_data`: succeeds on generator-produced values, only appends fresh prefixes, yields XML characters -/
theorem encodeData_ok (env : NsEnv) (henv : EnvOK env) (d : Option Str) (v : Val) (M : NsMap)
    (hM : MapOK env d M) (hv : valOK v = true) :
    ∃ val M', encodeData env v M = .ok (val, M') ∧ Ext M M' ∧ MapOK env d M' ∧ ∀ s, val = some s → xmlChars s = true := by
  cases v with
  | none => exact ⟨none, M, rfl, Ext.refl M, hM, by simp⟩
  | atom a =>
    cases a with
    | str s => exact ⟨some s, M, rfl, Ext.refl M, hM, by intro s' h; cases h; exact hv⟩
    | qname t =>
      obtain ⟨s, M', h1, e1, ok1, x1⟩ := serializeQName_ok env henv d t M hM hv
      exact ⟨some s, M', by simp [encodeData, serializeAtom, h1], e1, ok1, by intro s' h; cases h; exact x1⟩
    | int i => cases hv
    | bool b => cases hv
  | list xs =>
    cases xs with
    | nil => exact ⟨none, M, rfl, Ext.refl M, hM, by simp⟩
    | cons a r =>
      obtain ⟨ss, M', h1, e1, ok1, x1⟩ := serializeAtoms_ok env henv d (a :: r) M hM hv
      exact ⟨some (joinStr [' '] ss), M', by simp [encodeData, h1], e1, ok1,
        by intro s' h; cases h; exact xmlChars_joinStr ss x1⟩

end Proofs.MapInv

namespace Proofs.MapInv
open Py Xs.Ns Xs.Sax Xs.Writer Spec.XmlNs Spec.Hyps

/-! ### add_namespace, attributes -/

theorem prefixExists_of_mem (u : Str) (M : NsMap) (e : Pfx × Str) (he : e ∈ M) (h : e.2 = u) :
    prefixExists u M = true := by
  simp only [prefixExists, List.any_eq_true, decide_eq_true_eq]
  exact ⟨e, he, h⟩

theorem prefixExists_ext (u : Str) (M M' : NsMap) (h : Ext M M') (hp : prefixExists u M = true) :
    prefixExists u M' = true := by
  obtain ⟨X, rfl, _⟩ := h
  simp only [prefixExists, List.any_eq_true, decide_eq_true_eq] at hp ⊢
  obtain ⟨e, he, heq⟩ := hp
  exact ⟨e, List.mem_append_left _ he, heq⟩

theorem addNamespace_ok (env : NsEnv) (henv : EnvOK env) (d : Option Str) (uo : Option Str) (M : NsMap)
    (hM : MapOK env d M) (hu : nsPartOK uo = true) :
    Ext M (addNamespace env uo M) ∧ MapOK env d (addNamespace env uo M)
    ∧ ∀ u, uo = some u → prefixExists u (addNamespace env uo M) = true := by
  cases uo with
  | none => exact ⟨Ext.refl M, hM, by simp⟩
  | some u =>
    simp only [nsPartOK] at hu
    have hne : u.isEmpty = false := by
      simp only [uriOK, Bool.and_eq_true, Bool.not_eq_true'] at hu
      exact hu.1.1
    unfold addNamespace
    by_cases hp : prefixExists u M = true
    · simp only [hne, hp, Bool.not_false, Bool.not_true, Bool.and_false]
      exact ⟨Ext.refl M, hM, by intro u' h; cases h; exact hp⟩
    · have hp' : prefixExists u M = false := by simpa using hp
      simp only [hne, hp', Bool.not_false, Bool.and_self, if_true]
      obtain ⟨h1, h2, _⟩ := generatePrefix_ok env henv d u M hM hu (prefixedExists_of_prefixExists_false u M hp')
      refine ⟨⟨[(some (generatePrefix env u M).1, u)], h1, by simp⟩, h2, ?_⟩
      intro u' h; cases h
      rw [h1]
      exact prefixExists_of_mem u _ (some (generatePrefix env u M).1, u) (by simp) rfl

theorem prefixedExists_ext (u : Str) (M M' : NsMap) (h : Ext M M') (hp : prefixedExists u M = true) :
    prefixedExists u M' = true := by
  obtain ⟨X, rfl, _⟩ := h
  simp only [prefixedExists, List.any_eq_true] at hp ⊢
  obtain ⟨e, he, heq⟩ := hp
  exact ⟨e, List.mem_append_left _ he, heq⟩

theorem generatePrefix_ne_nil (env : NsEnv) (henv : EnvOK env) (u : Str) (M : NsMap) :
    (generatePrefix env u M).1 ≠ [] := by
  rcases generatePrefix_shape env u M with hs | ⟨k, hk⟩
  · obtain ⟨hmem, _⟩ := getEnum_some env u _ hs
    have hent := henv.entries _ hmem
    simp only [enumEntryOK, Bool.and_eq_true] at hent
    exact isNCName_ne_nil _ hent.1.1.1
  · rw [hk]; simp [nsLit]

theorem addNamespaceP_ok (env : NsEnv) (henv : EnvOK env) (d : Option Str) (uo : Option Str) (M : NsMap)
    (hM : MapOK env d M) (hu : nsPartOK uo = true) :
    Ext M (addNamespaceP env uo M) ∧ MapOK env d (addNamespaceP env uo M)
    ∧ ∀ u, uo = some u → prefixedExists u (addNamespaceP env uo M) = true := by
  cases uo with
  | none => exact ⟨Ext.refl M, hM, by simp⟩
  | some u =>
    simp only [nsPartOK] at hu
    have hne : u.isEmpty = false := by
      simp only [uriOK, Bool.and_eq_true, Bool.not_eq_true'] at hu
      exact hu.1.1
    unfold addNamespaceP
    by_cases hp : prefixedExists u M = true
    · simp only [hne, hp, Bool.not_false, Bool.not_true, Bool.and_false]
      exact ⟨Ext.refl M, hM, by intro u' h; cases h; exact hp⟩
    · have hp' : prefixedExists u M = false := by simpa using hp
      simp only [hne, hp', Bool.not_false, Bool.and_self, if_true]
      obtain ⟨h1, h2, _⟩ := generatePrefix_ok env henv d u M hM hu hp'
      refine ⟨⟨[(some (generatePrefix env u M).1, u)], h1, by simp⟩, h2, ?_⟩
      intro u' h; cases h
      rw [h1]
      exact prefixedExists_of_mem u _ _ (generatePrefix_ne_nil env henv u M) (by simp)

theorem addAttrNamespaces_ok (env : NsEnv) (henv : EnvOK env) (d : Option Str) (A : List (EName × Option Str)) :
    ∀ (M : NsMap), MapOK env d M → (∀ e ∈ A, nsPartOK e.1.1 = true) →
    Ext M (addAttrNamespaces env A M) ∧ MapOK env d (addAttrNamespaces env A M)
    ∧ ∀ e ∈ A, ∀ u, e.1.1 = some u → prefixedExists u (addAttrNamespaces env A M) = true := by
  induction A with
  | nil => intro M hM _; exact ⟨Ext.refl M, hM, by simp⟩
  | cons a r ih =>
    obtain ⟨n, v⟩ := a
    intro M hM h
    obtain ⟨e1, ok1, p1⟩ := addNamespaceP_ok env henv d n.1 M hM (h (n, v) (by simp))
    obtain ⟨e2, ok2, p2⟩ := ih (addNamespaceP env n.1 M) ok1 (fun e he => h e (List.mem_cons_of_mem _ he))
    simp only [addAttrNamespaces]
    refine ⟨e1.trans e2, ok2, ?_⟩
    intro e he u hu
    rcases List.mem_cons.mp he with rfl | hm
    · exact prefixedExists_ext u _ _ e2 (p1 u hu)
    · exact p2 e hm u hu

end Proofs.MapInv
