/- C03 — property theorems (only).  Helper lemmas live in XsdataModel/Proofs/*.lean.

Model:  `nativeWrite env cfg userMap events` = what `XmlSerializer(writer=XmlEventWriter)`
        writes below the object level (EventHandler state machine + XMLGenerator),
        as tokens; `handlerRun … false` = the SAX calls both writers' handlers receive.
Spec:   `infoset toks`  = document element a namespace-aware XML processor reads
        (`none` = not namespace-well-formed);  `eventsTree env cfg events` = the tree the
        events denote (independent reading);  `saxTree calls` = the tree SAX calls denote.
Inputs: `document q attrs kids` = START q, ATTR*, content, END q  (`Content` = forest).
-/
import XsdataModel.Proofs.Shape
import XsdataModel.Proofs.Escape
import XsdataModel.Proofs.QNameScope
import XsdataModel.Spec.ObjectTree
import XsdataModel.Proofs.QNameEverywhere

namespace Props.C03
open Py Xs.Ns Xs.Sax Xs.Writer Spec.XmlNs Spec.EventTree Spec.Hyps
open Proofs.TreeWriter Proofs.Assembly Proofs.EventsTree

/-! ## The constant tables of the code satisfy what the proofs need
(re-checked against the regenerated `Tables.lean` on every run) -/

theorem tables_ok : envOK tblNsEnv = true := by decide +kernel

/-! ## Full-strength statement and where it fails -/

/-- C03 at full strength for the native writer: for every user prefix map and
every event list that denotes a tree, the writer succeeds and its output is a
namespace-well-formed document denoting that tree. -/
def WriteCorrect : Prop :=
  ∀ (cfg : Cfg) (m : List (Pfx × Str)) (es : List Ev) (t : Node),
    eventsTree tblNsEnv cfg es = some t →
    ∃ toks, nativeWrite tblNsEnv cfg m es = .ok toks ∧ infoset toks = some t

/-- the structural region in which the state machine behaves like a recursive
writer: no exception, no QName prefix generated after the declarations were written -/
def treeWriterDefined (env : NsEnv) (cfg : Cfg) (m : List (Pfx × Str)) (q : Str)
    (attrs : List (Str × Val)) (kids : Content) : Bool :=
  (docCalls env cfg m q attrs kids).isSome

private def urnA : Str := ['u', 'r', 'n', ':', 'a']
private def urnB : Str := ['u', 'r', 'n', ':', 'b']
private def urnX : Str := ['u', 'r', 'n', ':', 'x']
private def inA (l : Str) : Str := '{' :: urnA ++ '}' :: l
private def inB (l : Str) : Str := '{' :: urnB ++ '}' :: l
private def inX (l : Str) : Str := '{' :: urnX ++ '}' :: l
private def str (s : Str) : Val := .atom (.str s)

/-- repaired (a086d5b, was finding c03-nsk-prefix-collision): a user prefix `ns1` no longer
collides with a generated one — the map `{'ns1': 'urn:a'}` with an element in `urn:b` and an
attribute in `urn:a` is written correctly (it used to raise `KeyError`) -/
theorem ok_nsk_user_prefix :
    (nativeWrite tblNsEnv {} [(some ['n', 's', '1'], urnA)]
      [.start (inB ['R']), .attr (inA ['x']) (str ['1']), .end_ (inB ['R'])]).toOption.bind infoset
      = some (.elem (some urnB, ['R']) [((some urnA, ['x']), ['1'])] []) := by
  rfl

/-- repaired (PENDING-04, was finding c03-default-ns-attribute): an attribute in the user's
default namespace gets a generated prefix and is read back in that namespace — also on an
unqualified child, where the writer used to raise `KeyError` -/
theorem ok_default_ns_attribute :
    (nativeWrite tblNsEnv {} [(some [], urnA)]
      [.start (inA ['R']), .attr (inA ['x']) (str ['1']),
       .start ['c'], .attr (inA ['y']) (str ['2']), .end_ ['c'], .end_ (inA ['R'])]).toOption.bind infoset
      = some (.elem (some urnA, ['R']) [((some urnA, ['x']), ['1'])]
          [.elem (none, ['c']) [((some urnA, ['y']), ['2'])] []]) := by
  rfl

/-- repaired (PENDING-c03d-01, was finding c03-reserved-prefix): a user prefix map that binds `xml`
to another namespace is rejected with `XmlWriterError` before anything is written -/
theorem ok_reserved_prefix_rejected :
    nativeWrite tblNsEnv {} [(some ['x', 'm', 'l'], urnA)]
      [.start (inA ['R']), .end_ (inA ['R'])] = .error .xmlWriterError := by
  rfl

/-- repaired (PENDING-c03d-01): *every* user prefix map with an entry that cannot be declared
(prefix not an NCName, prefix `xmlns`, `xml` bound to another namespace, the XML namespace bound
to another prefix, the xmlns namespace) is rejected with `XmlWriterError`, whatever the events -/
theorem invalid_prefix_rejected (cfg : Cfg) (m : List (Pfx × Str)) (es : List Ev)
    (h : prefixesValid tblNsEnv (serializerNsMap m) = false) :
    nativeWrite tblNsEnv cfg m es = .error .xmlWriterError := by
  simp [nativeWrite, handlerRun, h, gRun]

/-- the hypothesis holds e.g. for the XML namespace bound to a prefix other than `xml`, and for a
prefix with a space -/
example : prefixesValid tblNsEnv (serializerNsMap [(some ['p'], Tables.nsXmlUri)]) = false
    ∧ prefixesValid tblNsEnv (serializerNsMap [(some ['a', ' ', 'b'], urnA)]) = false := by
  constructor <;> decide +kernel

/-- repaired (PENDING-03, was finding c03-consecutive-text): consecutive text chunks are written
in order inside the element (the second used to be written after the end tag) -/
theorem ok_consecutive_text :
    nativeWrite tblNsEnv {} [] [.start ['M'], .data (str ['a']), .data (str ['b']), .data (str ['c']), .end_ ['M']]
      = .ok [.open_ ['M'] [] [], .text ['a'], .text ['b'], .text ['c'], .close ['M']]
    ∧ infoset [.open_ ['M'] [] [], .text ['a'], .text ['b'], .text ['c'], .close ['M']]
      = some (.elem (none, ['M']) [] [.text ['a', 'b', 'c']]) := by
  exact ⟨rfl, rfl⟩

/-- repaired (PENDING-01, was finding c03-cr-in-text): a carriage return in character data is
written as `&#13;` and read back unchanged -/
theorem ok_cr_in_text :
    (nativeWrite tblNsEnv {} [] [.start ['M'], .data (str ['a', '\r', 'b']), .end_ ['M']]).toOption.map render
      = some ['<', 'M', '>', 'a', '&', '#', '1', '3', ';', 'b', '<', '/', 'M', '>']
    ∧ (nativeWrite tblNsEnv {} [] [.start ['M'], .data (str ['a', '\r', 'b']), .end_ ['M']]).toOption.bind infoset
      = some (.elem (none, ['M']) [] [.text ['a', '\r', 'b']]) := by
  exact ⟨rfl, rfl⟩

/-- repaired (PENDING-02, was finding c03-uri-markup): `&` in a namespace name is escaped in the declaration -/
theorem ok_uri_markup :
    (nativeWrite tblNsEnv {} [] [.start ('{' :: 'u' :: ':' :: 'a' :: '&' :: 'b' :: '}' :: ['R']),
        .end_ ('{' :: 'u' :: ':' :: 'a' :: '&' :: 'b' :: '}' :: ['R'])]).toOption.map render
      = some ("<ns0:R xmlns:ns0=\"u:a&amp;b\"/>".toList)
    ∧ ((nativeWrite tblNsEnv {} [] [.start ('{' :: 'u' :: ':' :: 'a' :: '&' :: 'b' :: '}' :: ['R']),
        .end_ ('{' :: 'u' :: ':' :: 'a' :: '&' :: 'b' :: '}' :: ['R'])]).toOption.bind infoset)
      = some (.elem (some ['u', ':', 'a', '&', 'b'], ['R']) [] []) := by
  exact ⟨by decide +kernel, rfl⟩

/-- witness 7 (c03-qname-late-prefix): QName text after a child creates a prefix that is never
declared; a later sibling in that namespace raises `KeyError` -/
theorem cx_qname_late_prefix :
    nativeWrite tblNsEnv {} []
      [.start ['A'], .start ['B'], .end_ ['B'], .data (.atom (.qname (inX ['y']))),
       .start (inX ['C']), .end_ (inX ['C']), .end_ ['A']] = .error .keyError := by
  rfl

/-- witness 8 (c03-nonxml-chars): U+0001 is written raw -/
theorem cx_nonxml_chars :
    ((nativeWrite tblNsEnv {} [] [.start ['M'], .data (str [Char.ofNat 1]), .end_ ['M']]).toOption.map nsWellFormed)
      = some false := by
  rfl

/-- repaired (a086d5b, was finding c03-standard-prefix-rebound): with `xs` bound by the user to
another namespace, a QName in the XML Schema namespace gets a fresh `ns<k>` prefix and the
element written with `xs:` stays in the user's namespace -/
theorem ok_standard_prefix_user_bound :
    (nativeWrite tblNsEnv {} [(some ['x', 's'], urnA)]
      [.start (inA ['R']), .start (inA ['q']),
       .data (.atom (.qname ('{' :: (Tables.nsEnum.head!).1 ++ '}' :: ['i', 'n', 't']))),
       .end_ (inA ['q']), .end_ (inA ['R'])]).toOption.bind infoset
      = some (.elem (some urnA, ['R']) []
          [.elem (some urnA, ['q']) [] [.text ['n', 's', '1', ':', 'i', 'n', 't']]]) := by
  rfl

/-- the full-strength statement is false of the code as it stands -/
theorem write_correct_fails : ¬ WriteCorrect := by
  intro h
  obtain ⟨toks, h1, h2⟩ := h {} [] [.start ['M'], .data (str [Char.ofNat 1]), .end_ ['M']]
    (.elem (none, ['M']) [] [.text [Char.ofNat 1]]) (by rfl)
  have h3 := cx_nonxml_chars
  rw [h1] at h3
  simp [Except.toOption, nsWellFormed, h2] at h3

/-! ## What holds: the state machine invariant for all well-nested event sequences -/

/-- **write_wellformed (partial)**: for every user prefix map inside `userMapOK`
(each entry a legal declaration: NCName prefix other than `xmlns`, `xml` only for the XML
namespace, declarable URI — `ns<digits>` and standard prefixes are allowed) and every well-nested event sequence whose
names and values are lexically sound (`contentOK`: NCName local names,
declarable namespaces, XML
characters only) and structurally sound (`shapeOK`: no QName with a namespace in a DATA
event that is not the first content event), the native writer raises no exception and its output is a
namespace-well-formed document: every prefix used on an element or attribute is
declared in scope and bound to the namespace the handler asked for, attribute
names are distinct after expansion, the `xml`/`xmlns` rules hold. -/
theorem write_wellformed_partial (cfg : Cfg) (hcfg : plainCfg cfg = true)
    (m : List (Pfx × Str)) (hm : userMapOK tblNsEnv m = true)
    (q : Str) (attrs : List (Str × Val)) (kids : Content)
    (hok : contentOK tblNsEnv (userDefault m) (.child q attrs kids .nil) = true)
    (hshape : shapeOK true kids = true) :
    ∃ toks, nativeWrite tblNsEnv cfg m (document q attrs kids) = .ok toks ∧ nsWellFormed toks = true := by
  obtain ⟨cs, hcs⟩ := Proofs.Shape.docCalls_defined tblNsEnv (Proofs.MapInv.envOK_sound _ tables_ok) cfg hcfg m hm q attrs kids hok hshape
  obtain ⟨toks, node, h1, h2, _⟩ := document_main tblNsEnv tables_ok cfg hcfg m hm q attrs kids hok cs hcs
  exact ⟨toks, h1, by simp [nsWellFormed, h2]⟩

/-- **write_infoset (partial)**: under the same hypotheses the document the
parser reads is exactly the tree of the SAX calls the handler issued (names as
expanded names, attribute values, text and nesting) — for *all* values,
QNames included. -/
theorem write_denotes_sax_tree_partial (cfg : Cfg) (hcfg : plainCfg cfg = true)
    (m : List (Pfx × Str)) (hm : userMapOK tblNsEnv m = true)
    (q : Str) (attrs : List (Str × Val)) (kids : Content)
    (hok : contentOK tblNsEnv (userDefault m) (.child q attrs kids .nil) = true)
    (hshape : shapeOK true kids = true) :
    ∃ toks calls t, nativeWrite tblNsEnv cfg m (document q attrs kids) = .ok toks
      ∧ handlerRun tblNsEnv cfg true m (document q attrs kids) = (calls, none)
      ∧ infoset toks = some t ∧ saxTree calls = some t := by
  obtain ⟨cs, hcs⟩ := Proofs.Shape.docCalls_defined tblNsEnv (Proofs.MapInv.envOK_sound _ tables_ok) cfg hcfg m hm q attrs kids hok hshape
  obtain ⟨toks, node, h1, h2, h3⟩ := document_main tblNsEnv tables_ok cfg hcfg m hm q attrs kids hok cs hcs
  have hind : cfg.indent = none := by
    simp only [plainCfg, Bool.and_eq_true, Option.isNone_iff_eq_none] at hcfg
    exact hcfg.1.1
  exact ⟨toks, cs, node, h1, handlerRun_native_document tblNsEnv cfg hind m q attrs kids cs (Proofs.UserMap.userMapOK_valid tblNsEnv m hm) hcs, h2, h3⟩

/-- **write_infoset (partial)**: if moreover the values need no namespace
context (`plainContent`: no QName values), the document denotes exactly the
tree the independent reader `eventsTree` assigns to the event list: element and
attribute names with their namespaces, nesting, order, `xsi:nil` only on
elements without content, attribute and text values. -/
theorem write_infoset_partial (cfg : Cfg) (hcfg : plainCfg cfg = true)
    (m : List (Pfx × Str)) (hm : userMapOK tblNsEnv m = true)
    (q : Str) (attrs : List (Str × Val)) (kids : Content)
    (hok : contentOK tblNsEnv (userDefault m) (.child q attrs kids .nil) = true)
    (hplain : plainContent (.child q attrs kids .nil) = true)
    (hshape : shapeOK true kids = true) :
    ∃ toks t, nativeWrite tblNsEnv cfg m (document q attrs kids) = .ok toks
      ∧ infoset toks = some t ∧ eventsTree tblNsEnv cfg (document q attrs kids) = some t := by
  obtain ⟨cs, hcs⟩ := Proofs.Shape.docCalls_defined tblNsEnv (Proofs.MapInv.envOK_sound _ tables_ok) cfg hcfg m hm q attrs kids hok hshape
  obtain ⟨toks, node, h1, h2, h3⟩ := document_main tblNsEnv tables_ok cfg hcfg m hm q attrs kids hok cs hcs
  obtain ⟨node', h4, h5⟩ := eventsTree_document tblNsEnv cfg hcfg m q attrs kids hplain cs hcs
  rw [h3] at h5
  cases h5
  exact ⟨toks, node, h1, h2, h4⟩

/-- the hypotheses are satisfiable by a non-trivial input: default namespace in the
user map, an unused entry, an unqualified child (default namespace reset), a
grandchild back in the default namespace, attributes in a third namespace and in the
user's default namespace,
markup characters and a carriage return in values, consecutive text chunks -/
example :
    let m : List (Pfx × Str) := [(none, urnA), (some ['p'], urnB), (some ['z'], urnX)]
    let kids : Content :=
      .child ['c'] [(inB ['k'], str ['<', '&', '"']), (inA ['d'], str ['x'])]
        (.child (inA ['g']) [] (.data (str ['t', ' ', '>']) (.data (str ['\r', '\n']) .nil)) .nil)
        (.data (str ['t', 'a', 'i', 'l']) (.data (str ['2']) .nil))
    plainCfg {} = true ∧ userMapOK tblNsEnv m = true
    ∧ contentOK tblNsEnv (userDefault m) (.child (inA ['R']) [(['i', 'd'], str ['1'])] kids .nil) = true
    ∧ plainContent (.child (inA ['R']) [(['i', 'd'], str ['1'])] kids .nil) = true
    ∧ shapeOK true kids = true := by
  decide +kernel

/-- … by user maps that used to be excluded: a prefix of the form `ns<k>` and a standard
prefix (`xs`) bound to another namespace -/
example :
    let m : List (Pfx × Str) := [(some ['n', 's', '1'], urnA), (some ['x', 's'], urnB), (some ['n', 's', '0'], urnX)]
    userMapOK tblNsEnv m = true
    ∧ contentOK tblNsEnv (userDefault m) (.child (inB ['R']) [(inA ['x'], str ['1'])] .nil .nil) = true := by
  decide +kernel

/-- … and by one with QName values (xsi:type, a QName in text) and generated prefixes -/
example :
    let m : List (Pfx × Str) := [(some ['p'], urnB)]
    let xsi : Str := Tables.xsiNilTuple.1
    let attrs : List (Str × Val) := [('{' :: xsi ++ '}' :: ['t', 'y', 'p', 'e'], str (inX ['T']))]
    let kids : Content := .data (.atom (.qname (inA ['v']))) .nil
    userMapOK tblNsEnv m = true
    ∧ contentOK tblNsEnv (userDefault m) (.child (inB ['R']) attrs kids .nil) = true
    ∧ shapeOK true kids = true := by
  decide +kernel

/-- **tree_writer_defined**: the input-level conditions put a document inside
`treeWriterDefined` (no exception, no late prefix) -/
theorem tree_writer_defined (cfg : Cfg) (hcfg : plainCfg cfg = true)
    (m : List (Pfx × Str)) (hm : userMapOK tblNsEnv m = true)
    (q : Str) (attrs : List (Str × Val)) (kids : Content)
    (hok : contentOK tblNsEnv (userDefault m) (.child q attrs kids .nil) = true)
    (hshape : shapeOK true kids = true) :
    treeWriterDefined tblNsEnv cfg m q attrs kids = true := by
  obtain ⟨cs, hcs⟩ := Proofs.Shape.docCalls_defined tblNsEnv (Proofs.MapInv.envOK_sound _ tables_ok) cfg hcfg m hm q attrs kids hok hshape
  simp [treeWriterDefined, hcs]

/-! ## The SAX calls both writers receive (native and lxml share `EventHandler`) -/

/-- **handler_denotes_events (partial)**: for plain values the SAX calls issued by
`EventHandler.write` (what the lxml writer's `ElementTreeContentHandler` receives)
denote exactly the tree of the events, whatever the user prefix map is. -/
theorem handler_denotes_events_partial (cfg : Cfg) (hcfg : plainCfg cfg = true)
    (m : List (Pfx × Str)) (q : Str) (attrs : List (Str × Val)) (kids : Content)
    (hv : prefixesValid tblNsEnv (serializerNsMap m) = true)
    (hplain : plainContent (.child q attrs kids .nil) = true)
    (hdef : treeWriterDefined tblNsEnv cfg m q attrs kids = true) :
    ∃ calls t, handlerRun tblNsEnv cfg false m (document q attrs kids) = (calls, none)
      ∧ saxTree calls = some t ∧ eventsTree tblNsEnv cfg (document q attrs kids) = some t := by
  obtain ⟨cs, hcs⟩ := Option.isSome_iff_exists.mp hdef
  obtain ⟨node, h4, h5⟩ := eventsTree_document tblNsEnv cfg hcfg m q attrs kids hplain cs hcs
  exact ⟨cs, node, handlerRun_document tblNsEnv cfg m q attrs kids cs hv hcs, h5, h4⟩

/-- `treeWriterDefined` and `plainContent` hold e.g. for mixed content with a colliding user prefix
(the handler theorem needs no `userMapOK`, only a prefix map the handler accepts) -/
example :
    let m : List (Pfx × Str) := [(some ['n', 's', '1'], urnA)]
    let kids : Content := .data (str ['a']) (.child (inB ['c']) [(inA ['k'], str ['v'])] .nil (.data (str ['b']) .nil))
    prefixesValid tblNsEnv (serializerNsMap m) = true ∧
    plainContent (.child (inB ['R']) [] kids .nil) = true ∧ treeWriterDefined tblNsEnv {} m (inB ['R']) [] kids = true := by
  decide +kernel

/-! ## Both writers -/

/-- The assumption about lxml, made explicit: what `LxmlEventWriter` ends up with —
`ElementTreeContentHandler` builds an element tree from the SAX calls, `etree.tostring` prints it,
a parser reads it back (`lxmlRead`) — is the tree those calls denote (`saxTree`: names already
expanded, `startPrefixMapping` calls carry no content).  Not proved: lxml is not modelled; the
correspondence op `writer.lxml` samples exactly this statement on the real `LxmlEventWriter`. -/
def LxmlBuildsSaxTree (lxmlRead : List Call → Option Node) : Prop :=
  ∀ calls t, saxTree calls = some t → lxmlRead calls = some t

/-- **writers_denote_same_tree (partial)**: under the hypotheses of `write_wellformed_partial`
(any values, QNames included) and the assumption `LxmlBuildsSaxTree`, the document of the native
writer and the document of the lxml writer denote the same tree: both writers run the same
`EventHandler`, whose calls are the same without indentation (`handlerRun … true` = `handlerRun … false`),
`XMLGenerator`'s text denotes the tree of those calls (L2), lxml's tree is that tree by assumption. -/
theorem writers_denote_same_tree_partial (lxmlRead : List Call → Option Node) (hl : LxmlBuildsSaxTree lxmlRead)
    (cfg : Cfg) (hcfg : plainCfg cfg = true)
    (m : List (Pfx × Str)) (hm : userMapOK tblNsEnv m = true)
    (q : Str) (attrs : List (Str × Val)) (kids : Content)
    (hok : contentOK tblNsEnv (userDefault m) (.child q attrs kids .nil) = true)
    (hshape : shapeOK true kids = true) :
    ∃ toks calls t, nativeWrite tblNsEnv cfg m (document q attrs kids) = .ok toks
      ∧ handlerRun tblNsEnv cfg false m (document q attrs kids) = (calls, none)
      ∧ infoset toks = some t ∧ lxmlRead calls = some t := by
  obtain ⟨cs, hcs⟩ := Proofs.Shape.docCalls_defined tblNsEnv (Proofs.MapInv.envOK_sound _ tables_ok) cfg hcfg m hm q attrs kids hok hshape
  obtain ⟨toks, node, h1, h2, h3⟩ := document_main tblNsEnv tables_ok cfg hcfg m hm q attrs kids hok cs hcs
  exact ⟨toks, cs, node, h1,
    handlerRun_document tblNsEnv cfg m q attrs kids cs (Proofs.UserMap.userMapOK_valid tblNsEnv m hm) hcs, h2, hl cs node h3⟩

/-- the assumption is satisfiable (by the reading it names) -/
example : LxmlBuildsSaxTree saxTree := fun _ _ h => h

/-! ## The independent reading of the metadata (`Spec/ObjectTree.lean`): `Meta` is not inherited -/

/-- **meta_not_inherited**: in the specification a class without a `Meta` of its own has no namespace
of its own, whatever the `Meta` of its base class sets (seeded regression
C03-cache-key-inherited-meta-r5 let the base's namespace count) … -/
theorem meta_not_inherited (cls : Str) (mn : Option Str) (hasNs : Bool) (ns : Option Str)
    (fs : List Spec.ObjectTree.FieldD) (base : Option Spec.ObjectTree.ModelD) :
    Spec.ObjectTree.ownNs (.mk cls mn hasNs ns fs false base) = none := rfl

/-- … and on the regression's document: `Holder{urn:h}.s : Sub(Base{urn:base})`, `Sub` without Meta —
the inherited field `x` is in the namespace its declaring class's Meta sets, `Sub`'s own fields `y`, `z`
in the namespace of the enclosing class -/
theorem spec_subclass_fields_namespaces :
    let el (n : Str) (typ : Option Spec.ObjectTree.ModelD) (l : Bool) : Spec.ObjectTree.FieldD :=
      .elem n none none l false none typ
    let base : Spec.ObjectTree.ModelD := .mk ['B'] none true (some ['u', 'r', 'n', ':', 'b']) [el ['x'] none false] true none
    let sub : Spec.ObjectTree.ModelD := .mk ['S'] none false none [el ['y'] none false, el ['z'] none true] false (some base)
    let holder : Spec.ObjectTree.ModelD := .mk ['H'] none true (some ['u', 'r', 'n', ':', 'h']) [el ['s'] (some sub) false] true none
    Spec.ObjectTree.specRoot 8 holder
        [(['s'], .obj [(['x'], .str ['1']), (['y'], .str ['2']), (['z'], .list [.str ['3']])])]
      = .elem (some ['u', 'r', 'n', ':', 'h'], ['H']) []
          [.elem (some ['u', 'r', 'n', ':', 'h'], ['s']) []
            [.elem (some ['u', 'r', 'n', ':', 'b'], ['x']) [] [.text ['1']],
             .elem (some ['u', 'r', 'n', ':', 'h'], ['y']) [] [.text ['2']],
             .elem (some ['u', 'r', 'n', ':', 'h'], ['z']) [] [.text ['3']]]] := by
  rfl

/-! ## Prefix generation -/

/-- **generate_prefix never overwrites**: for EVERY prefix map and every namespace,
`generate_prefix` binds a key that was not in the map: the result is the old map with
exactly one entry appended, no existing binding is changed or lost.  (The `while` loop
terminates: among `ns<len>, …, ns<2·len>` at least one is not a key — the model's fuel
`len + 1` is never exhausted, `Proofs.MapInv.genLoop_spec`.) -/
theorem generate_prefix_never_overwrites (u : Str) (M : NsMap) :
    dget M (some (generatePrefix tblNsEnv u M).1) = none
    ∧ (generatePrefix tblNsEnv u M).2 = M ++ [(some (generatePrefix tblNsEnv u M).1, u)] :=
  Proofs.MapInv.generatePrefix_appends tblNsEnv u M

/-- **generate_prefix keeps the invariant**: on a map satisfying `MapOK` (unique keys, every
entry a legal declaration) generating a prefix for a
declarable namespace that is not bound to a prefix keeps `MapOK` — so it holds after any number of generations. -/
theorem generate_prefix_keeps_invariant (d : Option Str) (u : Str) (M : NsMap)
    (hM : Proofs.MapInv.MapOK tblNsEnv d M) (hu : uriOK u = true) (hne : prefixedExists u M = false) :
    Proofs.MapInv.MapOK tblNsEnv d (generatePrefix tblNsEnv u M).2 :=
  (Proofs.MapInv.generatePrefix_ok tblNsEnv (Proofs.MapInv.envOK_sound _ tables_ok) d u M hM hu hne).2.1

/-- **load_prefix returns a bound prefix**: the prefix `QNameConverter.serialize`
puts in front of a QName value is bound to the QName's namespace in the map that
is declared on the element (which is why QName values resolve in scope). -/
theorem load_prefix_bound (d : Option Str) (u : Str) (M : NsMap)
    (hM : Proofs.MapInv.MapOK tblNsEnv d M) (hu : uriOK u = true) :
    dget (loadPrefix tblNsEnv u M).2 (loadPrefix tblNsEnv u M).1 = some u
    ∧ Proofs.MapInv.MapOK tblNsEnv d (loadPrefix tblNsEnv u M).2 :=
  let h := Proofs.MapInv.loadPrefix_ok tblNsEnv (Proofs.MapInv.envOK_sound _ tables_ok) d u M hM hu
  ⟨h.2.2, h.2.1⟩

/-- **qname_value_resolves**: the lexical form `QNameConverter.serialize` gives a QName value with a
declarable namespace (an `xsi:type` value, …) is `prefix:local` with `prefix` bound to the QName's
namespace in the map that results — the map whose new entries the element declares (`Ext`: nothing
the ancestors declared is rebound) —, or the bare `local` when that namespace is the default
namespace of that map.  (That the document's in-scope bindings are this map is invariant `ScopeEq`
of the L2 proof; a reader that resolves QName *values* is not part of `infoset`, so
`serialize_says_metadata` still excludes `xsi:type` — gap 7.) -/
theorem qname_value_resolves (d : Option Str) (t u l : Str) (M : NsMap)
    (hM : Proofs.MapInv.MapOK tblNsEnv d M) (ht : clark t = some (some u, l)) (hu : uriOK u = true) :
    ∃ s M', serializeQName tblNsEnv t M = .ok (s, M') ∧ Proofs.MapInv.Ext M M'
      ∧ ((∃ p, p ≠ [] ∧ s = p ++ ':' :: l ∧ dget M' (some p) = some u)
         ∨ (s = l ∧ (dget M' none = some u ∨ dget M' (some []) = some u))) := by
  have hs := Proofs.MapInv.clark_splitQName t _ ht
  obtain ⟨hext, _, hget⟩ := Proofs.MapInv.loadPrefix_ok tblNsEnv (Proofs.MapInv.envOK_sound _ tables_ok) d u M hM hu
  unfold serializeQName
  rw [hs]
  simp only []
  generalize hlp : loadPrefix tblNsEnv u M = r at hext hget
  obtain ⟨po, M'⟩ := r
  simp only [] at hext hget
  cases po with
  | none => exact ⟨l, M', rfl, hext, Or.inr ⟨rfl, Or.inl hget⟩⟩
  | some p =>
    by_cases hp : p.isEmpty = true
    · have : p = [] := by simpa using hp
      subst this
      exact ⟨l, M', by simp, hext, Or.inr ⟨rfl, Or.inr hget⟩⟩
    · refine ⟨p ++ ':' :: l, M', by simp [hp], hext, Or.inl ⟨p, ?_, rfl, hget⟩⟩
      intro h; subst h; simp at hp

/-- the hypotheses hold e.g. for an `xsi:type` value in `urn:b` under a user map that binds `p` to it -/
example : Proofs.MapInv.MapOK tblNsEnv (userDefault [(some ['p'], urnB)]) (serializerNsMap [(some ['p'], urnB)])
    ∧ clark (inB ['T']) = some (some urnB, ['T']) ∧ uriOK urnB = true :=
  ⟨Proofs.UserMap.userMapOK_MapOK tblNsEnv _ (by decide +kernel), by decide +kernel, by decide +kernel⟩

/-- **qname_value_resolves_in_scope (partial)** — gap 7, one element: the text
`QNameConverter.serialize` gives a QName value with a declarable namespace (`xsi:type="p:T"`)
resolves to that QName *in the namespace scope the XML reader has for the element* — or it is the
bare local name (the namespace was the default of the map at that moment: the region of the
findings c03-qname-default-ns / -reset).  `M1`: the element's prefix map when the attribute arrives,
`M'`: the map after the remaining attributes (`Ext`), `flushed … M'`: what `flush_start` makes of it
(`add_namespace` for the attribute names, default-namespace reset), `S`: the reader's in-scope
bindings of the element — `ScopeEq S (flushed …).map` is what the L2 proof establishes for the frame
the reader pushes (`Proofs.QNameScope.open_elem_qname` states it for the written tokens).
Not yet threaded through the whole document (`infoset` keeps attribute values as text). -/
theorem qname_value_resolves_in_scope_partial (d : Option Str) (t u l : Str) (M1 : NsMap)
    (hM1 : Proofs.MapInv.MapOK tblNsEnv d M1) (ht : clark t = some (some u, l)) (hu : uriOK u = true)
    (M' : NsMap) (hM' : Proofs.MapInv.MapOK tblNsEnv d M') (A : Proofs.TreeWriter.Attrs)
    (hA : Proofs.Resolve.AttrsOK d A) (isNil : Bool) (base : NsMap) (tag : EName) (S : List (Pfx × Str))
    (hS : Proofs.Flush.ScopeEq S (Proofs.TreeWriter.flushed tblNsEnv isNil base tag A M').map) :
    ∃ s M1', serializeQName tblNsEnv t M1 = .ok (s, M1') ∧
      (Proofs.MapInv.Ext M1' M' → s = l ∨ resolveElem S s = some (some u, l)) := by
  have henv := Proofs.MapInv.envOK_sound _ tables_ok
  obtain ⟨s, M1', h1, _, _, h4⟩ := Proofs.QNameScope.serializeQName_bound tblNsEnv henv d t u l M1 hM1 ht hu
  refine ⟨s, M1', h1, fun hext => ?_⟩
  rcases h4 with h | h
  · exact Or.inl h
  · exact Or.inr (((h.ext hext).atFlush tblNsEnv henv d hM' isNil base tag A hA).resolves
      (Proofs.MapInv.clark_some_ns t u l ht).2 S hS)

/-- the hypotheses are satisfiable: an `xsi:type` value in `urn:b`, a user map binding `p` to it, no
other attribute; the scope is the flushed map itself -/
example : Proofs.MapInv.MapOK tblNsEnv (userDefault [(some ['p'], urnB)]) (serializerNsMap [(some ['p'], urnB)])
    ∧ clark (inB ['T']) = some (some urnB, ['T']) ∧ uriOK urnB = true
    ∧ Proofs.Resolve.AttrsOK (userDefault [(some ['p'], urnB)]) []
    ∧ Proofs.Flush.ScopeEq
        (Proofs.TreeWriter.flushed tblNsEnv false [] (none, ['R']) [] (serializerNsMap [(some ['p'], urnB)])).map
        (Proofs.TreeWriter.flushed tblNsEnv false [] (none, ['R']) [] (serializerNsMap [(some ['p'], urnB)])).map :=
  ⟨Proofs.UserMap.userMapOK_MapOK tblNsEnv _ (by decide +kernel), by decide +kernel, by decide +kernel,
   Proofs.Resolve.AttrsOK.nil _, fun _ => rfl⟩

/-- … and the conclusion evaluated there: `p:T` resolves to `{urn:b}T` -/
example : resolveElem (Proofs.TreeWriter.flushed tblNsEnv false [] (none, ['R']) [] (serializerNsMap [(some ['p'], urnB)])).map
    ['p', ':', 'T'] = some (some urnB, ['T']) := by decide +kernel

/-- **root_qname_values_resolve (partial)** — gap 7 for the document element, hypotheses on the
inputs: for every user prefix map in `userMapOK`, root element name and attributes in
`elemNameOK` / `attrOK`, the start tag the native writer writes for the root (`XMLGenerator`'s
token for the handler's calls, whatever `is_nil`) opens a namespace scope in which the text `s` of each
QName-valued attribute (`xsi:type` of a `DerivedElement` root, a QName-typed attribute; the value the
writer reads as a QName, `xsiTypeValue`) with a namespace resolves to that QName — or `s` is the bare
local name (the namespace is the default of the map: findings c03-qname-default-ns / -reset).
(`ha`: the handler's attribute loop ran, cf. `treeWriterDefined`.) -/
theorem root_qname_values_resolve_partial (m : List (Pfx × Str)) (hm : userMapOK tblNsEnv m = true)
    (q : Str) (attrs : List (Str × Val))
    (hname : elemNameOK q = true) (hattrs : attrs.all (attrOK tblNsEnv (userDefault m)) = true)
    (tag : EName) (hq : splitQName q = .ok tag) (M2 : NsMap) (A : Proofs.TreeWriter.Attrs)
    (ha : Proofs.TreeWriter.attrsRun tblNsEnv attrs (addNamespace tblNsEnv tag.1 (serializerNsMap m)) [] = some (M2, A))
    (pre post : List (Str × Val)) (qa : Str) (v : Val) (t u l : Str)
    (hsplit : attrs = pre ++ (qa, v) :: post)
    (hv : xsiTypeValue tblNsEnv qa v = .atom (.qname t)) (ht : clark t = some (some u, l)) (isNil : Bool) :
    ∃ s w ws vs scope' decls g',
      gRun tblNsEnv.saxXmlNs GState.init (Proofs.TreeWriter.flushed tblNsEnv isNil [] tag A M2).calls
        = .ok ([Tok.open_ w decls ws], g')
      ∧ pStep ⟨[], none, false⟩ (Tok.open_ w decls ws) = some ⟨[⟨w, tag, vs, [], scope'⟩], none, false⟩
      ∧ (s = l ∨ resolveElem scope' s = some (some u, l)) :=
  Proofs.QNameScope.root_qname_scope tblNsEnv tables_ok m hm q attrs hname hattrs tag hq M2 A ha pre post qa v t u l
    hsplit hv ht isNil

/-- the hypotheses are satisfiable: root `{urn:a}R` with `xsi:type = {urn:b}T` under a user map with a
default namespace and an unrelated prefix -/
example :
    let m : List (Pfx × Str) := [(none, urnA), (some ['z'], urnX)]
    let attrs : List (Str × Val) := [(Tables.qnXsiType, .atom (.qname (inB ['T'])))]
    userMapOK tblNsEnv m = true ∧ elemNameOK (inA ['R']) = true
    ∧ attrs.all (attrOK tblNsEnv (userDefault m)) = true
    ∧ (∃ tag M2 A, splitQName (inA ['R']) = .ok tag
        ∧ Proofs.TreeWriter.attrsRun tblNsEnv attrs (addNamespace tblNsEnv tag.1 (serializerNsMap m)) [] = some (M2, A))
    ∧ xsiTypeValue tblNsEnv Tables.qnXsiType (.atom (.qname (inB ['T']))) = .atom (.qname (inB ['T']))
    ∧ clark (inB ['T']) = some (some urnB, ['T']) := by
  refine ⟨by decide +kernel, by decide +kernel, by decide +kernel, ⟨_, _, _, rfl, rfl⟩, rfl, by decide +kernel⟩

/-- **qname_values_resolve_everywhere (partial)** — gap 7 below the root.  For every user prefix
map in `userMapOK` and every document in `contentOK` (any nesting; hypotheses on the inputs), with
`tag`, `M2`, `A`, `f` what the handler computes for the root (`splitQName`, the ATTR loop, `flush_start`):
the root (`AttrsResolve`) and EVERY element below it (`QAll`, which follows the tree writer `calls`
element by element) has each of its QName-valued attributes (`xsi:type`, QName-typed attributes: the
last ATTR event of each name) in the attribute dict that is written, with a text `s` such that
`resolveElem scope s` is the QName of the event — `scope` being the namespace scope an XML reader
computes for that element from the declarations the writer puts on it and on its ancestors
(`applyDecls parentScope (newPrefixes parentMap f.map)`, i.e. `pStep` on the `Tok.open_` tokens of
`open_elem`) — or `s` is the bare local name (the namespace is the default of the element's map:
findings c03-qname-default-ns / -reset). -/
theorem qname_values_resolve_everywhere_partial (m : List (Pfx × Str)) (hm : userMapOK tblNsEnv m = true)
    (q : Str) (attrs : List (Str × Val)) (kids : Content)
    (hok : contentOK tblNsEnv (userDefault m) (.child q attrs kids .nil) = true)
    (tag : EName) (hq : splitQName q = .ok tag) (M2 : NsMap) (A : Proofs.TreeWriter.Attrs)
    (ha : Proofs.TreeWriter.attrsRun tblNsEnv attrs (addNamespace tblNsEnv tag.1 (serializerNsMap m)) [] = some (M2, A))
    (f : Proofs.TreeWriter.Flushed) (hf : Proofs.QNameEverywhere.bodyFlush tblNsEnv [] tag A M2 kids = some f) :
    Proofs.QNameEverywhere.AttrsResolve tblNsEnv attrs A (applyDecls [] (newPrefixes [] f.map))
    ∧ Proofs.QNameEverywhere.QAll tblNsEnv f.map (applyDecls [] (newPrefixes [] f.map)) kids :=
  Proofs.QNameEverywhere.document_qall tblNsEnv tables_ok m hm q attrs kids hok tag hq M2 A ha f hf

/-- the hypotheses are satisfiable: `R{urn:a}` holding `c` with `xsi:type = {urn:b}T` (two levels),
under a user map with a default namespace -/
example :
    let m : List (Pfx × Str) := [(none, urnA), (some ['z'], urnX)]
    let kid : Content := .child ['c'] [(Tables.qnXsiType, .atom (.qname (inB ['T'])))]
      (.child (inA ['d']) [(Tables.qnXsiType, .atom (.qname (inA ['U'])))] .nil .nil) .nil
    userMapOK tblNsEnv m = true
    ∧ contentOK tblNsEnv (userDefault m) (.child (inA ['R']) [] kid .nil) = true
    ∧ (∃ tag M2 A f, splitQName (inA ['R']) = .ok tag
        ∧ Proofs.TreeWriter.attrsRun tblNsEnv [] (addNamespace tblNsEnv tag.1 (serializerNsMap m)) [] = some (M2, A)
        ∧ Proofs.QNameEverywhere.bodyFlush tblNsEnv [] tag A M2 kid = some f) := by
  refine ⟨by decide +kernel, by decide +kernel, ⟨_, _, _, _, rfl, rfl, rfl⟩⟩

/-- the cleaned user map satisfies the invariant whenever it passes the decidable check -/
theorem user_map_invariant (m : List (Pfx × Str)) (hm : userMapOK tblNsEnv m = true) :
    Proofs.MapInv.MapOK tblNsEnv (userDefault m) (serializerNsMap m) :=
  Proofs.UserMap.userMapOK_MapOK tblNsEnv m hm

/-- the hypotheses of the three prefix theorems hold for a user map with a default namespace
and two prefixes, and a namespace that has no prefix yet -/
example :
    let m : List (Pfx × Str) := [(none, urnA), (some ['p'], urnB), (some ['n', 's'], urnX)]
    Proofs.MapInv.MapOK tblNsEnv (userDefault m) (serializerNsMap m)
    ∧ uriOK ['u', 'r', 'n', ':', 'n', 'e', 'w'] = true
    ∧ prefixExists ['u', 'r', 'n', ':', 'n', 'e', 'w'] (serializerNsMap m) = false :=
  ⟨user_map_invariant _ (by decide +kernel), by decide +kernel, by decide +kernel⟩

/-- `str(n)` is injective — generated prefixes `ns<k>` differ for different map sizes -/
theorem ns_prefix_injective (a b : Nat) (h : nsLit ++ natStr a = nsLit ++ natStr b) : a = b :=
  nsK_injective a b h

/-- **Clark notation and `split_qname` agree**: on every qualified name of the
form the metadata builders produce (`{uri}local` with NCName local part, or a
bare NCName) `split_qname` returns the expanded name an independent reading gives. -/
theorem clark_split_agree (q : Str) (n : EName) (h : clark q = some n) : splitQName q = .ok n :=
  Proofs.MapInv.clark_splitQName q n h

example : clark (inA ['R']) = some (some urnA, ['R']) ∧ clark ['R'] = some (none, ['R']) := by decide

/-! ## Hostile text: what `escape` / `quoteattr` write can be read back and carries no markup -/

/-- **escape_inverse**: for every string, character data written through
`xml.sax.saxutils.escape` contains neither `<` nor `>`, every `&` in it starts one of
`&amp; &lt; &gt;`, and decoding the references gives the string back. -/
theorem escape_inverse (s : Str) :
    decodeRefs (escape s) = some s ∧ '<' ∉ escape s ∧ '>' ∉ escape s := by
  refine ⟨?_, Proofs.Escape.escape_no_lt s, Proofs.Escape.escape_no_gt s⟩
  rw [Proofs.Escape.escape_eq]
  exact Proofs.Escape.decodeRefs_esc s

/-- **text_escape_inverse**: for every string, character data as the repaired native writer
writes it (`escape(content, {"\\r": "&#13;"})`) contains no `<` and no raw carriage return, and
decoding the references gives the string back — so text survives end-of-line normalisation. -/
theorem text_escape_inverse (s : Str) :
    decodeRefs (escapeText s) = some s ∧ '<' ∉ escapeText s ∧ '\r' ∉ escapeText s :=
  Proofs.Escape.escapeText_spec s

/-- **decl_escape_inverse**: for every namespace name, what the repaired native writer puts
between the quotes of `xmlns…="…"` contains no `<`, no `"`, no raw tab / line feed / carriage
return, and decoding the references gives the name back. -/
theorem decl_escape_inverse (s : Str) :
    decodeRefs (escapeDecl s) = some s ∧ '<' ∉ escapeDecl s ∧ '"' ∉ escapeDecl s
      ∧ '\n' ∉ escapeDecl s ∧ '\r' ∉ escapeDecl s ∧ '\t' ∉ escapeDecl s :=
  Proofs.Escape.escapeDecl_spec s

/-- **quoteattr_inverse**: for every string, `quoteattr` yields `q body q` with `q` one of the two
quote characters, `body` free of `q`, of `<` and of literal tab / line feed / carriage return (so
attribute-value normalisation cannot alter it), and decoding the references in `body` gives the
string back. -/
theorem quoteattr_inverse (s : Str) :
    ∃ q body, quoteattr s = q :: body ++ [q] ∧ (q = '"' ∨ q = '\'') ∧ q ∉ body
      ∧ '<' ∉ body ∧ '\n' ∉ body ∧ '\r' ∉ body ∧ '\t' ∉ body ∧ decodeRefs body = some s :=
  Proofs.Escape.quoteattr_spec s

/-! ## The state machine equals a recursive writer (all forests, all maps) -/

/-- **handler_is_tree_writer**: inside `treeWriterDefined` the pending-tag / flush /
tail mechanics of `EventHandler` issue exactly the calls of the recursive writer
`Proofs.TreeWriter.calls` — for every forest, every state of the enclosing element
and every continuation of the event stream. -/
theorem handler_is_tree_writer (cfg : Cfg) (c : Content) (M : NsMap) (it : Bool) (cs : List Call)
    (h : calls tblNsEnv (.content M it) c = some cs)
    (ps : List NsMap) (pre : List Pfx) (pp : List (List Pfx)) (lv : Int) (pe : Bool) (ac : Bool) (rest : List Ev) :
    hLoop tblNsEnv cfg false ⟨M, some ps, none, [], it, none, pre :: pp, lv, pe, ac⟩ (flatten c ++ rest)
      = prepend cs (hLoop tblNsEnv cfg false ⟨M, some ps, none, [], tailAfter it c, none, pre :: pp, lv, pe, ac⟩ rest) :=
  (l1_all tblNsEnv cfg c).1 M it cs h ps pre pp lv pe ac rest

end Props.C03
