/- C01 — property theorems (only): namespace scopes below a wrapper element.  `WrapperNode.child`
hands the child's own prefix map to `ElementNode.child`; the prefix map of the wrapper element (the
one of the owning class element in the code) plays no role. -/
import XsdataModel.Props.C01Wide

namespace Props.C01
open Py Xs.Bind Xs.Bind.F1 Xs.Bind.FN

/-- **C01, wrapper scope.** What the children of a wrapper element are parsed to does not depend on the
prefix map of the wrapper element: each wrapped item is read under its own in-scope prefixes. -/
theorem wrapper_nsmap_irrelevant (e : BEnv) (Γ : Ctx) (cfg : ParserConfig) (m : XmlMeta) (st : ElState)
    (q : QN) (a : List (QN × Str)) (n n' : NsMap) (t tl : Option Str) (c rest : List Tree)
    (hw : m.wrappers.any (·.1 = q) = true) :
    parseKids e Γ cfg m st none (.node q a n t c tl :: rest) =
      parseKids e Γ cfg m st none (.node q a n' t c tl :: rest) := by
  rw [parseKids, parseKids]
  simp [hw]

/-- `Root`: `refs: List[QName]` written as `<refs><ref>…</ref>…</refs>` -/
def sR : XmlVar := mkVarN 1 "refs" "ref" .element [.prim .qname] (listElement := true) (default := .listFactory)
  (wrapper := some "refs")
def mSc : XmlMeta := { mkMeta "Root" "Root" none [sR] [] with wrappers := [(s "refs", s "ref")] }
def Γsc : Ctx := twoClasses w5Leaf (classOf "Root" mSc [⟨s "refs", true, some (.list [])⟩])
def vsc : Val := .obj (s "Root") [(s "refs", .list [.prim (.qname (s "{urn:colors}red")), .prim (.qname (s "{urn:shapes}square"))])]

/-- the wrapped QName list is inside fragment F10 … -/
example : ctxOK featF10 Γsc = true ∧ valOKI true e0 Γsc (s "Root") vsc = true := by decide
example : ∃ evs t, generate e0 Γsc {} vsc = .ok evs ∧ eventsTree (isDatatype Γsc) evs = .ok t ∧
    parseRoot e0 Γsc {} (s "Root") t = .ok (vsc, 0) :=
  bind_generate_F10 e0 Γsc {} {} (s "Root") vsc (by decide) (by decide)

/-- … and so is the document a real writer produces, where every item declares its own prefix and
neither the wrapper nor the root element binds it: the items are resolved under their own maps -/
def tsc : Tree := .node (s "Root") [] [] none
  [.node (s "refs") [] [] none
    [.node (s "ref") [] [(some (s "ns0"), s "urn:colors")] (some (s "ns0:red")) [] none,
     .node (s "ref") [] [(some (s "ns0"), s "urn:shapes")] (some (s "ns0:square")) [] none] none] none

theorem wrapper_child_own_scope : parseRoot e0 Γsc {} (s "Root") tsc = .ok (vsc, 0) := by rfl

/-- under the prefix map of the wrapper element (empty) the same items do not resolve: the parser keeps
the raw text and warns (what the document would be read as if the wrapper's map were handed down) -/
def tscWrong : Tree := .node (s "Root") [] [] none
  [.node (s "refs") [] [] none
    [.node (s "ref") [] [] (some (s "ns0:red")) [] none,
     .node (s "ref") [] [] (some (s "ns0:square")) [] none] none] none

example : parseRoot e0 Γsc {} (s "Root") tscWrong =
    .ok (.obj (s "Root") [(s "refs", .list [.prim (.str (s "ns0:red")), .prim (.str (s "ns0:square"))])], 2) := by rfl

end Props.C01
