/- C14 — Parsers, serializers and the binding context are history-independent.
   Property theorems only; helper lemmas live in Proofs/CtxInv.lean. -/
import XsdataModel.Proofs.CtxInv
import XsdataModel.Proofs.CtxMemo
import XsdataModel.Proofs.CtxEvict

namespace Props.C14
open Py Xs.Ctx

/-! ## The binding context (`XmlContext.cache`, `xsi_cache`, `sys_modules`) -/

/-- **Full-strength statement**: on a shared context that has already served an
arbitrary history `h` of calls (succeeding or failing, in worlds that may have
loaded more classes and modules over time), every call returns what it returns
on a freshly created context. -/
def HistoryIndependent (U : Universe) : Prop :=
  ∀ (h : List (World × Op)) (w : World) (op : Op),
    (step U w (run U State.init h) op).2 = fresh U w op

/-- the two-parent universe: `C` has no `Meta.namespace`, `PA` and `PB` declare
`urn:a` / `urn:b` and both have a field of type `C` -/
def witnessU : Universe :=
  ⟨[ { name := "C".toList, base := none, isModel := true, inPkg := true, ns := none, mname := none,
       targetNs := none, moduleNs := none, globalType := true, inner := false, bad := false,
       fields := [Field.elem "x".toList] },
     { name := "PA".toList, base := none, isModel := true, inPkg := true, ns := some (some "urn:a".toList),
       mname := none, targetNs := none, moduleNs := none, globalType := true, inner := false, bad := false,
       fields := [Field.elem "c".toList (some 0)] },
     { name := "PB".toList, base := none, isModel := true, inPkg := true, ns := some (some "urn:b".toList),
       mname := none, targetNs := none, moduleNs := none, globalType := true, inner := false, bad := false,
       fields := [Field.elem "c".toList (some 0)] } ]⟩

def w3 : World := ⟨3, 0⟩

/-- the former witness of C14-F1 (cache keyed by class only): after `C` has been
built as a child of `PA` (parent namespace `urn:a`), building it as a child of
`PB` now returns the `urn:b` metadata, as on a fresh context — the cache is keyed
by `(class, parent_ns)`.  (The general statement is `build_history_independent`.) -/
theorem cache_parent_ns_repaired :
    (step witnessU w3 (run witnessU State.init [(w3, .build 0 (some "urn:a".toList))])
        (.build 0 (some "urn:b".toList))).2
      = fresh witnessU w3 (.build 0 (some "urn:b".toList)) ∧
    fresh witnessU w3 (.build 0 (some "urn:b".toList))
      = outMeta (pureBuild witnessU 0 (some "urn:b".toList)) ∧
    outMeta (pureBuild witnessU 0 (some "urn:a".toList)) ≠ outMeta (pureBuild witnessU 0 (some "urn:b".toList)) := by
  decide

/-- **The full statement is still false** (finding C14-F2, a heuristic by design): the type index is only refreshed when `len(sys.modules)`
changes: a class defined later in an already imported module stays invisible
to a shared context. World 1: only `C` exists; world 2: `PA`, `PB` were defined
without importing a module. -/
theorem stale_index_counterexample : ¬ HistoryIndependent witnessU := by
  intro h
  have := h [(⟨1, 0⟩, .findType "PA".toList)] ⟨3, 0⟩ (.findType "{urn:a}PA".toList)
  revert this
  decide

/-- the values of that witness -/
theorem stale_index_witness_values :
    (step witnessU ⟨3, 0⟩ (run witnessU State.init [(⟨1, 0⟩, .findType "PA".toList)])
        (.findType "{urn:a}PA".toList)).2 = .gotType none ∧
    fresh witnessU ⟨3, 0⟩ (.findType "{urn:a}PA".toList) = .gotType (some 1) := by
  decide

/-- universe with an unbuildable class `T` and a good class `T2` under the same xsi name -/
def evictU : Universe :=
  ⟨[ { name := "T".toList, base := none, isModel := true, inPkg := true, ns := some (some "urn:a".toList),
       mname := none, targetNs := none, moduleNs := none, globalType := true, inner := false, bad := true,
       fields := [Field.elem "x".toList] },
     { name := "T2".toList, base := none, isModel := true, inPkg := true, ns := some (some "urn:a".toList),
       mname := some "T".toList, targetNs := none, moduleNs := none, globalType := true, inner := false,
       bad := false, fields := [Field.elem "x".toList] } ]⟩

/-- the same two classes, the unbuildable one created last (so that it is the
one `find_type` picks: `types[-1]`) -/
def evictU2 : Universe := ⟨evictU.classes.reverse⟩

/-- (finding C14-F3, what remains) `local_names_match` evicts an unbuildable class
from the *published* index, by design.  By-fields lookups and `local_names_match`
itself are unaffected (first call = later calls = fresh context; the `ValueError`
of a repeated eviction is suppressed), but afterwards `find_types` no longer
reports the evicted class and `find_type` can switch from the unbuildable class
(fresh context: the parse then fails with `XmlContextError`) to a buildable
namesake (shared context: the parse succeeds). -/
theorem eviction_residual_counterexample :
    fresh evictU ⟨2, 0⟩ (.findTypeByFields ["x".toList]) = .gotType (some 1) ∧
    (step evictU ⟨2, 0⟩ (run evictU State.init [(⟨2, 0⟩, .findTypeByFields ["x".toList])])
        (.findTypeByFields ["x".toList])).2 = .gotType (some 1) ∧
    fresh evictU ⟨2, 0⟩ (.findTypes "{urn:a}T".toList) = .gotTypes [0, 1] ∧
    (step evictU ⟨2, 0⟩ (run evictU State.init [(⟨2, 0⟩, .findTypeByFields ["x".toList])])
        (.findTypes "{urn:a}T".toList)).2 = .gotTypes [1] ∧
    fresh evictU ⟨2, 0⟩ (.localNamesMatch ["x".toList] 0) = .gotBool false ∧
    (step evictU ⟨2, 0⟩ (run evictU State.init [(⟨2, 0⟩, .findTypeByFields ["x".toList])])
        (.localNamesMatch ["x".toList] 0)).2 = .gotBool false ∧
    fresh evictU2 ⟨2, 0⟩ (.findType "{urn:a}T".toList) = .gotType (some 1) ∧
    (step evictU2 ⟨2, 0⟩ (run evictU2 State.init [(⟨2, 0⟩, .findTypeByFields ["x".toList])])
        (.findType "{urn:a}T".toList)).2 = .gotType (some 0) := by
  decide

/-- hence the full statement is false for this universe too -/
theorem eviction_counterexample : ¬ HistoryIndependent evictU := by
  intro h
  have := h [(⟨2, 0⟩, .findTypeByFields ["x".toList])] ⟨2, 0⟩ (.findTypes "{urn:a}T".toList)
  revert this
  decide

/-- **metadata_history_independent** — full strength, no hypothesis: for *every*
universe and *every* history (any calls, failing ones, resets, classes and
modules appearing at any time, evictions) the calls that do not consult the type
index — `build`, `fetch` without an xsi:type, `serialize`, `local_names_match`,
`build_xsi_cache`, `reset` — return on the shared context exactly what they
return on a fresh one.  Cached binding metadata never carries namespace
information from one use into another (false before the cache was keyed by
`(class, parent_ns)`: former finding C14-F1). -/
theorem metadata_history_independent (U : Universe) (h : List (World × Op)) (w : World) (op : Op)
    (hfree : op.indexFree = true) :
    (step U w (run U State.init h) op).2 = fresh U w op := by
  obtain ⟨t', hI⟩ := run_invC h Track.empty State.init (InvR.init U _)
  rw [(stepC_spec hI w op).2 hfree]
  exact ((stepC_spec (InvR.init U Track.empty) w op).2 hfree).symm

/-- in particular `build`, for every class, parent namespace and history -/
theorem build_history_independent (U : Universe) (h : List (World × Op)) (w : World)
    (c : ClassId) (p : Option Str) :
    (step U w (run U State.init h) (.build c p)).2 = outMeta (pureBuild U c p) := by
  obtain ⟨t', hI⟩ := run_invC h Track.empty State.init (InvR.init U _)
  exact (stepC_spec hI w (.build c p)).2 rfl

/-- **history_independent_evicting**: the side condition about evictions is not
needed for calls that do not read the index by qualified name.  For every
history in which `len(sys.modules)` is faithful — by-fields lookups and
`local_names_match` calls meeting unbuildable indexed classes included —
`find_type_by_fields` (and every index-free call) returns on the shared context
what it returns on a fresh one.  In particular the first by-fields lookup
equals every later one. -/
theorem history_independent_evicting (U : Universe) (h : List (World × Op)) (w : World) (op : Op)
    (hok : histOKW Track.empty (h ++ [(w, op)])) (hblind : op.evictionBlind = true) :
    (step U w (run U State.init h) op).2 = fresh U w op := by
  obtain ⟨t', hI, hnext⟩ :=
    run_invW (U := U) h Track.empty State.init (InvR.init U _) (histOKW_prefix h _ _ hok)
  have hstep := hnext w op hok
  rw [(stepW_spec hI hstep).2 hblind]
  exact ((stepW_spec (InvR.init U Track.empty) (okStepW_empty hstep)).2 hblind).symm

/-- the hypotheses hold for a history that evicts `T`, calls `local_names_match`
on it again, builds under two parent namespaces and then looks up by fields again -/
example : histOKW Track.empty
    [(⟨2, 0⟩, Op.findTypeByFields ["x".toList]), (⟨2, 0⟩, .localNamesMatch ["x".toList] 0),
     (⟨2, 0⟩, .findTypes "{urn:a}T".toList), (⟨2, 0⟩, .build 1 none),
     (⟨2, 0⟩, .build 1 (some "urn:p".toList)),
     (⟨2, 0⟩, .fetch 1 (some "urn:q".toList) (some "{urn:a}T".toList)),
     (⟨2, 0⟩, .findTypeByFields ["x".toList])] ∧
    (Op.findTypeByFields ["x".toList]).evictionBlind = true := by
  decide

/-- whereas that history is outside `histOK` (no evictions) -/
example : ¬ histOK evictU Track.empty [(⟨2, 0⟩, .findTypeByFields ["x".toList])] := by
  decide

/-- **Refinement**: under the side conditions a call on the shared context
returns exactly what the cache-free specification `pureOut` says. -/
theorem shared_refines_spec (U : Universe) (h : List (World × Op)) (w : World) (op : Op)
    (hok : histOK U Track.empty (h ++ [(w, op)])) :
    (step U w (run U State.init h) op).2 = pureOut U w op := by
  have hpre : histOK U Track.empty h := histOK_prefix h _ _ hok
  obtain ⟨t', hI, hnext⟩ := run_inv h Track.empty State.init (Inv.init U _) hpre
  exact (step_spec hI (hnext w op hok)).1

/-- a fresh context computes the specification -/
theorem fresh_refines_spec (U : Universe) (w : World) (op : Op) (hok : okStep U Track.empty w op) :
    fresh U w op = pureOut U w op :=
  (step_spec (Inv.init U _) hok).1

/-- **history_independent_partial**: for calls that read the type index by
qualified name (`find_types`, `find_type`, `find_subclass`, `fetch` with an
xsi:type) — and hence for all calls — the statement holds for every history in
which (ii) `len(sys.modules)` changes whenever the set of loaded classes does
(C14-F2, a heuristic by design) and (iii) nothing has been evicted from the
index: `find_type_by_fields` / `local_names_match` never meet an indexed class
whose metadata cannot be built (C14-F3, by design) — both decidable, checked
call by call by `histOK`.  Failing calls are allowed anywhere in the history.
The former condition (i) on parent namespaces is gone with the repair of C14-F1. -/
theorem history_independent_partial (U : Universe) (h : List (World × Op)) (w : World) (op : Op)
    (hok : histOK U Track.empty (h ++ [(w, op)])) :
    (step U w (run U State.init h) op).2 = fresh U w op := by
  have h1 := shared_refines_spec U h w op hok
  obtain ⟨t', ht'⟩ := histOK_last h _ w op hok
  rw [h1, fresh_refines_spec U w op (okStep_empty ht')]

/-- the hypotheses are satisfiable by a non-trivial history with failing calls:
`C` requested under *different* parent namespaces (the history that used to
violate the former condition (i)), an unknown class, a type lookup that misses,
a by-fields lookup, a reset -/
example : histOK witnessU Track.empty
    [(w3, .build 1 none), (w3, .build 0 (some "urn:a".toList)), (w3, .build 0 (some "urn:b".toList)),
     (w3, .build 7 none), (w3, .findType "Nope".toList),
     (w3, .fetch 0 (some "urn:a".toList) (some "C".toList)), (w3, .findTypeByFields ["x".toList]),
     (w3, .reset), (w3, .findType "{urn:a}PA".toList)] := by
  decide

/-- call-by-call form: all results of an admissible history equal the fresh results -/
theorem all_calls_equal_fresh (U : Universe) (h : List (World × Op))
    (hok : histOK U Track.empty h) :
    runOuts U State.init h = h.map fun x => fresh U x.1 x.2 := by
  suffices ∀ (t : Track) (s : State) (h : List (World × Op)), Inv U t s → histOK U t h →
      runOuts U s h = h.map fun x => fresh U x.1 x.2 from this _ _ _ (Inv.init U _) hok
  intro t s h
  induction h generalizing t s with
  | nil => intro _ _; rfl
  | cons a rest ih =>
    intro hI hh
    obtain ⟨w, op⟩ := a
    obtain ⟨hs, hI'⟩ := step_spec hI hh.1
    simp only [runOuts, List.map_cons]
    rw [ih _ _ hI' hh.2, hs, fresh_refines_spec U w op (okStep_empty hh.1)]

/-- **history independence in a fixed world**: when no classes or modules are
loaded during the history and every indexed class is buildable (nothing can be
evicted), *any* history whatsoever (failing calls included) is harmless for
*every* call — no assumption on namespaces is left -/
theorem history_independent_fixed_world (U : Universe) (w : World)
    (hb : ∀ c ∈ indexedClasses (pureIndex U w.loaded), buildable U c = true)
    (hb2 : ∀ c < U.classes.length, buildable U c = true ∨ indexKey U c = none)
    (h : List Op) (op : Op) :
    (step U w (run U State.init (h.map fun o => (w, o))) op).2 = fresh U w op := by
  apply history_independent_partial
  suffices ∀ (t : Track) (ops : List Op), (∀ w' ∈ t.worlds, w' = w) →
      histOK U t (ops.map fun o => (w, o)) from by
    have := this Track.empty (h ++ [op]) (by simp [Track.empty])
    simpa using this
  intro t ops
  induction ops generalizing t with
  | nil => intro _; trivial
  | cons o rest ih =>
    intro hw
    refine ⟨⟨?_, ?_⟩, ih _ ?_⟩
    · intro a ha b hb' _
      have ha' : a = w := by
        cases List.mem_cons.mp ha with
        | inl h => exact h
        | inr h => exact hw a h
      have hb'' : b = w := by
        cases List.mem_cons.mp hb' with
        | inl h => exact h
        | inr h => exact hw b h
      rw [ha', hb'']
    · cases o <;> simp only [noEvict]
      · exact hb
      · rename_i names c
        rcases Nat.lt_or_ge c U.classes.length with hlt | hge
        · exact hb2 c hlt
        · right
          unfold indexKey Universe.get?
          rw [List.getElem?_eq_none hge]
    · intro w' hw'
      unfold Track.next at hw'
      split at hw'
      · simp [Track.empty] at hw'
      · cases List.mem_cons.mp hw' with
        | inl h => exact h
        | inr h => exact hw w' h

/-- the hypotheses of `history_independent_fixed_world` are satisfiable, also by
the universe whose class `C` declares no namespace -/
example : (∀ c ∈ indexedClasses (pureIndex witnessU 3), buildable witnessU c = true) ∧
    (∀ c < witnessU.classes.length, buildable witnessU c = true ∨ indexKey witnessU c = none) := by
  decide

/-! ## Document level: serialising through a shared context -/

/-- `PA(c=C(x=..))` -/
def docPA : List Tok := [.enter 0 1, .enter 0 0, .leaf 0, .leave, .leave]
/-- `PB(c=C(x=..))` -/
def docPB : List Tok := [.enter 0 2, .enter 0 0, .leaf 0, .leave, .leave]

/-- (former finding C14-F1 at document level) serialising `PB` after `PA` through
one context now writes `PB`'s namespace on `C`'s child element, as a fresh
context does; instance of `metadata_history_independent`, evaluated. -/
theorem serialize_repaired :
    fresh witnessU w3 (.serialize docPB)
      = .gotNames ["{urn:b}PB".toList, "{urn:b}c".toList, "{urn:b}x".toList] ∧
    (step witnessU w3 (run witnessU State.init [(w3, .serialize docPA)]) (.serialize docPB)).2
      = .gotNames ["{urn:b}PB".toList, "{urn:b}c".toList, "{urn:b}x".toList] := by
  decide

/-- serialisation is index-free: `metadata_history_independent` applies to it -/
example : (Op.serialize docPB).indexFree = true ∧ (Op.build 0 (some "urn:b".toList)).indexFree = true := by
  decide

/-! ### compound (`type="Elements"`) fields -/

/-- `Address`, `Person`; `Order.choice` = billTo:Address | buyer:Person;
`Shipment.choice` = shipTo:Address | carrier:Person; `Home(Address)` -/
def choiceU : Universe :=
  ⟨[ { name := "Address".toList, base := none, isModel := true, inPkg := true, ns := none, mname := none,
       targetNs := none, moduleNs := none, globalType := true, inner := false, bad := false,
       fields := [Field.elem "city".toList] },
     { name := "Person".toList, base := none, isModel := true, inPkg := true, ns := none, mname := none,
       targetNs := none, moduleNs := none, globalType := true, inner := false, bad := false,
       fields := [Field.elem "name".toList] },
     { name := "Order".toList, base := none, isModel := true, inPkg := true, ns := none,
       mname := some "order".toList, targetNs := none, moduleNs := none, globalType := true, inner := false,
       bad := false,
       fields := [{ name := "choice".toList, kind := .elements, mname := none, ns := none, cls := none,
                    alts := [⟨some "billTo".toList, none, 0⟩, ⟨some "buyer".toList, none, 1⟩] }] },
     { name := "Shipment".toList, base := none, isModel := true, inPkg := true, ns := none,
       mname := some "shipment".toList, targetNs := none, moduleNs := none, globalType := true, inner := false,
       bad := false,
       fields := [{ name := "choice".toList, kind := .elements, mname := none, ns := none, cls := none,
                    alts := [⟨some "shipTo".toList, none, 0⟩, ⟨some "carrier".toList, none, 1⟩] }] },
     { name := "Home".toList, base := some 0, isModel := true, inPkg := true, ns := none, mname := none,
       targetNs := none, moduleNs := none, globalType := true, inner := false, bad := false,
       fields := [Field.elem "door".toList] } ]⟩

def w5 : World := ⟨5, 0⟩
/-- `Order(choice=[Address(city), Person(name)])` -/
def docOrder : List Tok :=
  [.enter 0 2, .enter 0 0, .leaf 0, .leave, .enter 0 1, .leaf 0, .leave, .leave]
/-- `Shipment(choice=[Address(city), Home(city), Person(name)])` -/
def docShipment : List Tok :=
  [.enter 0 3, .enter 0 0, .leaf 0, .leave, .enter 0 4, .leaf 0, .leave, .enter 0 1, .leaf 0, .leave, .leave]

/-- **compound_choice_by_field**: which choice of a compound field a model value is
written under is decided by *that field's* choices and the value's class (exact
type first, then the first choice whose type is a base of it) — and by nothing a
serializer instance could remember.  Two models whose compound fields have the
same name and share their member classes: after `Order` has been serialised,
`Shipment` is written with its own element names (and `xsi:type="Home"` for the
subclass value, `@Home`), as on fresh instances
(instance of `metadata_history_independent`, evaluated; the correspondence runs
every history through ONE real `EventGenerator`). -/
theorem compound_choice_by_field :
    (step choiceU w5 (run choiceU State.init [(w5, .serialize docOrder)]) (.serialize docShipment)).2
      = .gotNames ["shipment".toList, "shipTo".toList, "city".toList, "shipTo".toList, "@Home".toList,
          "city".toList, "carrier".toList, "name".toList] ∧
    fresh choiceU w5 (.serialize docOrder)
      = .gotNames ["order".toList, "billTo".toList, "city".toList, "buyer".toList, "name".toList] ∧
    (Op.serialize docShipment).indexFree = true := by
  decide

/-- the choice is a function of the field's choices and the class alone -/
theorem find_clazz_choice_exact_first (U : Universe) (choices : List ChoiceVar) (c : ClassId)
    (ch : ChoiceVar) (h : choices.find? (fun x => x.cls == c) = some ch) :
    findClazzChoice U choices c = some ch := by
  simp [findClazzChoice, h]

/-! ## Memoised helpers -/

/-- **memo_pure**: whatever queries a field has answered before, `match_namespace`
returns the value of the un-memoised `_match_namespace`. -/
theorem memo_pure (nss : List Str) (history : List Str) (q : Str) :
    (matchRun nss none (history ++ [q])).getLast? = some (matchNamespacePure nss q) := by
  rw [matchRun_spec _ _ (MemoInv.none nss)]
  simp

/-- all answers of a query sequence against one shared field equal the pure function -/
theorem memo_pure_all (nss : List Str) (qs : List Str) :
    matchRun nss none qs = qs.map (matchNamespacePure nss) :=
  matchRun_spec _ _ (MemoInv.none nss)

/-- **lru_transparent**: a function wrapped in `functools.lru_cache` of any size
returns, after any sequence of earlier calls (including raising ones and ones
that caused evictions), exactly what the bare function returns. -/
theorem lru_transparent {κ ν} [BEq κ] [LawfulBEq κ] [DecidableEq κ] (f : κ → Option ν) (cap : Nat)
    (ks : List κ) : (lruRun f cap [] ks).map (·.1) = ks.map f :=
  lruRun_spec cap ks [] (by intro k v h; simp [List.lookup] at h)

/-- in particular for `build_qname` and `split_qname` with the size the code declares -/
theorem build_qname_lru_transparent (calls : List (List (Option Str))) :
    (lruRun buildQNameArgs Tables.lruMaxBuildQName [] calls).map (·.1) = calls.map buildQNameArgs :=
  lru_transparent _ _ _

theorem split_qname_lru_transparent (calls : List Str) :
    (lruRun splitQNameArgs Tables.lruMaxSplitQName [] calls).map (·.1) = calls.map splitQNameArgs :=
  lru_transparent _ _ _

/-- **nsmap_not_observed**: the prefix map kept on the parser instance never flows
into a parse result, and a map passed by the caller is filled from that map and
the document only; the instance is left untouched in that case. -/
theorem nsmap_not_observed {Doc R} (decls : Doc → NsMap) (bind : Doc → R) (p p' : ParserInst)
    (doc : Doc) (arg : Option NsMap) :
    (parseCall decls bind p doc arg).2.1 = (parseCall decls bind p' doc arg).2.1 ∧
    (∀ m, parseCall decls bind p doc (some m) = (p, bind doc, some (registerAll m (decls doc)))) := by
  cases arg <;> exact ⟨rfl, fun _ => rfl⟩

/-- **recorder_per_document** (former finding C14-F4), with content: after *any*
history of parses on one parser instance (with or without caller-supplied maps),
a parse that is given no map leaves in `parser.ns_map` exactly the declarations of
that last document — every prefix bound to its *first* binding in the document,
no prefix of any earlier document. -/
theorem recorder_per_document {Doc R} (decls : Doc → NsMap) (bind : Doc → R) (p : ParserInst)
    (h : List (Doc × Option NsMap)) (d : Doc) (pfx : Option Str) :
    (recRun decls bind p (h ++ [(d, none)])).1.nsMap.lookup pfx = (decls d).lookup pfx := by
  rw [recRun_last, lookup_registerAll]
  simp [List.lookup]

/-- hence the instance attribute is the same on a shared and on a fresh parser -/
theorem recorder_shared_eq_fresh {Doc R} (decls : Doc → NsMap) (bind : Doc → R) (p : ParserInst)
    (h : List (Doc × Option NsMap)) (d : Doc) :
    (recRun decls bind p (h ++ [(d, none)])).1 = (parseCall decls bind ⟨[]⟩ d none).1 := by
  rw [recRun_last]
  rfl

/-- and what the calls return (parse result, caller's map) never depends on the
instance they run on: for every history, starting from any two instances -/
theorem recorder_outputs_independent {Doc R} (decls : Doc → NsMap) (bind : Doc → R) :
    ∀ (h : List (Doc × Option NsMap)) (p p' : ParserInst),
      (recRun decls bind p h).2 = (recRun decls bind p' h).2
  | [], _, _ => rfl
  | (d, arg) :: rest, p, p' => by
    simp only [recRun]
    cases arg with
    | none => simp only [parseCall]
    | some m =>
      simp only [parseCall]
      rw [recorder_outputs_independent decls bind rest p p']

/-- a caller-supplied map keeps its own bindings and gains the first binding of every
other prefix of the document -/
theorem recorder_caller_map (decls m : NsMap) (pfx : Option Str) :
    (registerAll m decls).lookup pfx = match m.lookup pfx with
      | some u => some u
      | none => decls.lookup pfx :=
  lookup_registerAll decls m pfx

/-- the former witness: a document binding `p=urn:a`, then one binding `p=urn:b` -/
example :
    let d1 : NsMap := [(some "p".toList, "urn:a".toList)]
    let d2 : NsMap := [(some "p".toList, "urn:b".toList)]
    let call := parseCall (Doc := NsMap) (R := Unit) id (fun _ => ())
    (call (call ⟨[]⟩ d1 none).1 d2 none).1.nsMap = [(some "p".toList, "urn:b".toList)] := by
  decide

/-! ## the hypotheses of the theorems above are satisfiable (concrete non-trivial instances) -/

-- fresh_refines_spec
example : okStep witnessU Track.empty w3 (.findType "{urn:a}PA".toList) ∧
    okStep witnessU Track.empty w3 (.findTypeByFields ["x".toList]) := by decide

-- find_clazz_choice_exact_first
example : ([⟨"billTo".toList, 0⟩, ⟨"buyer".toList, 1⟩] : List ChoiceVar).find?
    (fun x => x.cls == 1) = some ⟨"buyer".toList, 1⟩ := by decide

example : (Op.localNamesMatch ["x".toList] 0).indexFree = true ∧ (Op.fetch 0 (some "urn:a".toList) none).indexFree = true := by decide

end Props.C14
