/-
`UnionNode.bind` (parsers/nodes/union.py): the recorded events of the element are replayed,
once per candidate type, by a fresh `NodeParser` whose configuration is
`replace(self.config, fail_on_converter_warnings=True)`: a copy of the caller's
configuration that is strict about conversions — that is how the candidates are told apart —
and equal to it in the two other options.  (The replay itself is modelled with the C15
follow-up of `Bind/Parse.lean`; C10 only needs which options the replay runs under.)
-/
import XsdataModel.Bind.Parse

namespace Xs.Bind

/-- the configuration of the parsers that replay a union element for its candidates -/
def unionReplayConfig (cfg : ParserConfig) : ParserConfig := { cfg with failOnConverterWarnings := true }

end Xs.Bind
