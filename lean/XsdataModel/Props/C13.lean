import XsdataModel.Samples.Reduce

namespace Props.C13
open Py Xs.Samples

/-- every name in the live `__EXPLICIT_TYPES__` is a type the model knows -/
theorem explicit_types_known : explicitTypes.all (fun p => p.1.isSome) = true := by decide

end Props.C13
