/- C05 — property theorems (only). Helper lemmas live in `Proofs/*`, the XSD
lexical relations in `Spec/Xsd.lean`. -/
import XsdataModel.Conv.Factory
import XsdataModel.Spec.Xsd
import XsdataModel.Proofs.IntL
import XsdataModel.Proofs.Codec

namespace Props.C05
open Py Xs.Conv Xs.Spec

/-! ## xs:boolean -/

/-- what `BoolConverter.serialize` writes is an xs:boolean lexical form of the value -/
theorem bool_ser_valid (b : Bool) : XsdBoolean (boolSerialize b) b := by
  cases b <;> (unfold XsdBoolean; decide)

/-- every xs:boolean lexical form, with any XSD white space around it, is read
as the value XSD assigns (for every Unicode environment) -/
theorem bool_accepts (e : Env) (pre post s : Str) (v : Bool)
    (hpre : AllXsdSpace pre) (hpost : AllXsdSpace post) (h : XsdBoolean s v) :
    boolDeserialize e (pre ++ s ++ post) = some v := by
  have ns : ∀ c, isAscii c = true → isAsciiSpace c = false → e.isSpace c = false := by
    intro c h1 h2; rw [isSpace_ascii e c h1]; exact h2
  have ht : Tight e.isSpace s := by
    unfold XsdBoolean boolLex at h
    simp only [List.mem_cons, Prod.mk.injEq, List.mem_nil_iff, or_false] at h
    rcases h with ⟨rfl, _⟩ | ⟨rfl, _⟩ | ⟨rfl, _⟩ | ⟨rfl, _⟩
    · exact Or.inr ⟨⟨'t', _, rfl, ns _ (by decide) (by decide)⟩, ⟨"tru".toList, 'e', rfl, ns _ (by decide) (by decide)⟩⟩
    · exact Or.inr ⟨⟨'f', _, rfl, ns _ (by decide) (by decide)⟩, ⟨"fals".toList, 'e', rfl, ns _ (by decide) (by decide)⟩⟩
    · exact Or.inr ⟨⟨'1', _, rfl, ns _ (by decide) (by decide)⟩, ⟨[], '1', rfl, ns _ (by decide) (by decide)⟩⟩
    · exact Or.inr ⟨⟨'0', _, rfl, ns _ (by decide) (by decide)⟩, ⟨[], '0', rfl, ns _ (by decide) (by decide)⟩⟩
  unfold boolDeserialize
  rw [strip_xsd_pad e pre s post hpre hpost ht]
  unfold XsdBoolean boolLex at h
  simp only [List.mem_cons, Prod.mk.injEq, List.mem_nil_iff, or_false] at h
  rcases h with ⟨rfl, rfl⟩ | ⟨rfl, rfl⟩ | ⟨rfl, rfl⟩ | ⟨rfl, rfl⟩ <;> decide

/-- bool round trip -/
theorem bool_rt (e : Env) (b : Bool) : boolDeserialize e (boolSerialize b) = some b := by
  have := bool_accepts e [] [] (boolSerialize b) b (by intro c h; cases h) (by intro c h; cases h)
    (bool_ser_valid b)
  simpa using this

/-! ## xs:integer -/

/-- `str(i)` is an xs:integer lexical form denoting `i` -/
theorem int_ser_valid (i : Int) : XsdInteger (intSerialize i) i := by
  obtain ⟨hd, hne, hv⟩ := natStr_spec i.natAbs
  unfold intSerialize intStr
  by_cases h : i < 0
  · refine ⟨.minus, natStr i.natAbs, by simp [h, Sign.str], hne, hd, ?_⟩
    simp only [Sign.neg, if_true, digitsNat, hv, Int.ofNat_eq_natCast]
    omega
  · refine ⟨.none, natStr i.natAbs, by simp [h, Sign.str], hne, hd, ?_⟩
    simp only [Sign.neg, digitsNat, hv, Int.ofNat_eq_natCast]
    simp
    omega

/-- every xs:integer lexical form (`[+-]?[0-9]+`, any number of leading zeros,
any XSD white space around it) is read as the integer it denotes -/
theorem int_accepts (e : Env) (pre post s : Str) (v : Int)
    (hpre : AllXsdSpace pre) (hpost : AllXsdSpace post) (h : XsdInteger s v) :
    intDeserialize e (pre ++ s ++ post) = some v := by
  obtain ⟨sg, ds, rfl, hne, hd, rfl⟩ := h
  exact pyIntC_signed e pre post sg ds hpre hpost hne hd

/-- int round trip, for every integer (no size bound in the model; CPython adds
the 4300-digit limit) -/
theorem int_rt (e : Env) (i : Int) : intDeserialize e (intSerialize i) = some i := by
  have := int_accepts e [] [] (intSerialize i) i (by intro c h; cases h) (by intro c h; cases h)
    (int_ser_valid i)
  simpa using this

/-! ## xs:hexBinary and xs:base64Binary -/

/-- `format="base16"`: the output is an xs:hexBinary lexical form of the octets -/
theorem hex_ser_valid (k : BytesKind) (bs : Bytes) (h : AllBytes bs) :
    ∃ s, bytesSerialize k bs (some Tables.fmtBase16) = some s ∧ XsdHexBinary s bs := by
  refine ⟨hexEncode bs, ?_, hexEncode_valid bs h⟩
  simp [bytesSerialize]

/-- every xs:hexBinary lexical form (either letter case), with white space
anywhere around or inside, is decoded to the octets it denotes -/
theorem hex_accepts (e : Env) (s s' : Str) (bs : Bytes) (h : XsdHexBinary s bs)
    (hws : removeWs e s' = s) :
    bytesDeserialize e s' (some Tables.fmtBase16) = some bs := by
  simp [bytesDeserialize, hws, unhexlify_lex s bs h]

theorem removeWs_noSpace (e : Env) (s : Str) (h : ∀ c ∈ s, e.isSpace c = false) : removeWs e s = s := by
  unfold removeWs
  rw [List.filter_eq_self]
  intro c hc
  simp [h c hc]

/-- base16 round trip for every octet string -/
theorem hex_rt (e : Env) (k : BytesKind) (bs : Bytes) (h : AllBytes bs) :
    ∃ s, bytesSerialize k bs (some Tables.fmtBase16) = some s ∧
      bytesDeserialize e s (some Tables.fmtBase16) = some bs := by
  obtain ⟨s, hs, hv⟩ := hex_ser_valid k bs h
  refine ⟨s, hs, ?_⟩
  have hu := unhexlify_lex s bs hv
  -- the encoder never emits white space: decoding its output directly succeeds, so no
  -- character was dropped by `removeWs`
  have hnospace : ∀ c ∈ s, e.isSpace c = false := by
    have : s = hexEncode bs := by simpa [bytesSerialize] using hs.symm
    subst this
    clear hs hv hu
    induction bs with
    | nil => intro c hc; cases hc
    | cons b bs ih =>
      have hb : b < 256 := h b (by simp)
      have hd : ∀ v, v < 16 → e.isSpace (hexDigit v) = false := by
        intro v hv
        have h1 : isAscii (hexDigit v) = true := by revert v; decide
        have h2 : isAsciiSpace (hexDigit v) = false := by revert v; decide
        rw [isSpace_ascii e _ h1]; exact h2
      intro c hc
      simp only [hexEncode, List.mem_cons] at hc
      rcases hc with rfl | rfl | hc
      · exact hd _ (by omega)
      · exact hd _ (by omega)
      · exact ih (fun x hx => h x (by simp [hx])) c hc
  exact hex_accepts e s s bs hv (removeWs_noSpace e s hnospace)

/-- `format="base64"`: the output is the canonical xs:base64Binary form of the octets -/
theorem b64_ser_valid (bs : Bytes) (h : AllBytes bs) :
    ∃ s, bytesSerialize .plain bs (some Tables.fmtBase64) = some s ∧ XsdBase64 s bs := by
  refine ⟨b64Encode bs, ?_, b64Encode_valid bs h⟩
  have hne : (Tables.fmtBase64 = Tables.fmtBase16) = False := by decide
  simp [bytesSerialize, hne]

/-- every canonical xs:base64Binary form, with line breaks / blanks anywhere
(as MIME encoders insert them), is decoded to the octets it denotes -/
theorem b64_accepts (e : Env) (s s' : Str) (bs : Bytes) (h : XsdBase64 s bs)
    (hws : removeWs e s' = s) :
    bytesDeserialize e s' (some Tables.fmtBase64) = some bs := by
  have hne : (some Tables.fmtBase64 = some Tables.fmtBase16) = False := by decide
  simp [bytesDeserialize, hws, b64Decode_lex s bs h, hne]

/-- base64 round trip for every octet string, also when the written form is
re-wrapped with white space before it is read -/
theorem b64_rt (e : Env) (bs : Bytes) (h : AllBytes bs) (s' : Str)
    (hws : removeWs e s' = b64Encode bs) :
    bytesSerialize .plain bs (some Tables.fmtBase64) = some (b64Encode bs) ∧
      bytesDeserialize e s' (some Tables.fmtBase64) = some bs := by
  obtain ⟨s, hs, hv⟩ := b64_ser_valid bs h
  have : s = b64Encode bs := by
    have h2 : bytesSerialize .plain bs (some Tables.fmtBase64) = some (b64Encode bs) := by
      have hne : (Tables.fmtBase64 = Tables.fmtBase16) = False := by decide
      simp [bytesSerialize, hne]
    rw [h2] at hs; exact (Option.some.inj hs).symm
  subst this
  exact ⟨hs, b64_accepts e _ s' bs hv hws⟩

example : AllBytes [0, 255, 65] := by intro b hb; simp at hb; omega

end Props.C05
