"""C14 — Parsers, serializers and the binding context are history-independent."""
from __future__ import annotations

import dataclasses
import json
from typing import List

from framework import Corr, Oracle, err, ok
from props import ctxgen as G
from props import ctxlib as L

PROP_ID = "C14"
DESIGN_REF = "6/C14"
XS = G.XS


# ======================================================================
# correspondence 1: ctx.run — op sequences on one shared XmlContext
# ======================================================================
def impl_run(a):
    return ok(L.run_steps(a["universe"], a["steps"], keep=bool(a.get("keep"))))


def gen_run(rng, tier):
    maxlen = 3 if tier == "quick" else 4
    # 1. hand-picked witnesses
    yield {"universe": G.U_WITNESS, "steps": G.fixed_world(G.U_WITNESS, [G.op_build(1), G.op_build(0, "urn:a"), G.op_build(2), G.op_build(0, "urn:b")])}
    yield {"universe": G.U_WITNESS, "steps": G.fixed_world(G.U_WITNESS, [G.op_fields(["x"]), G.op_build(0, "urn:a")])}
    yield {"universe": G.U_WITNESS, "steps": G.fixed_world(G.U_WITNESS, [G.op_ser(G.DOC_PA), G.op_ser(G.DOC_PB), G.op_ser(G.DOC_PA)])}
    # stale index: a class defined without a change of len(sys.modules)
    yield {"universe": G.U_WITNESS, "steps": [
        {**G.W(1, 0), "op": G.op_q("find_type", "PA")}, {**G.W(3, 0), "op": G.op_q("find_type", "{urn:a}PA")},
        {**G.W(3, 1), "op": G.op_q("find_type", "{urn:a}PA")}]}
    # the module count shrinks while a class appears
    yield {"universe": G.U_WITNESS, "steps": [
        {**G.W(1, 2), "op": G.op_q("find_type", "C")}, {**G.W(2, 1), "op": G.op_q("find_type", "{urn:a}PA")},
        {**G.W(3, 0), "op": G.op_q("find_types", "{urn:b}PB")}]}
    # eviction: the unbuildable class is created last, so that find_type picks it on a fresh context
    yield {"universe": G.U_BAD2, "steps": G.fixed_world(G.U_BAD2, [G.op_fields(["x"]), G.op_q("find_type", "{urn:a}T"), G.op_fields(["x"]), G.op_lnm(["x"], 1), G.op_lnm(["x"], 1)])}
    # eviction by the by-fields lookup
    yield {"universe": G.U_BAD, "steps": G.fixed_world(G.U_BAD, [G.op_fields(["x"]), G.op_fields(["x"]), G.op_q("find_types", "{urn:a}T")])}
    # 2. bounded-exhaustive op sequences over the hand universes
    for name, U in G.HAND.items():
        pool = G.POOLS[name]
        for seq in G.exhaustive(pool, maxlen):
            yield {"universe": U, "steps": G.fixed_world(U, seq), "keep": True}
    # 3. seeded random universes, worlds and longer histories
    n = 220 if tier == "quick" else 3500
    for _ in range(n):
        U = G.rand_universe(rng)
        keys = G.index_keys(U)
        for _ in range(3):
            yield {"universe": U, "steps": G.rand_steps(rng, U, keys, rng.randint(1, 9))}


def classify_run(a, o):
    if not isinstance(o, dict) or "ok" not in o:
        return "harness-error"
    steps = o["ok"]
    div = [i for i, s in enumerate(steps) if s["shared"] != s["fresh"]]
    errs = sum(1 for s in steps if "err" in s["shared"])
    tag = "agree" if not div else "diverge:" + a["steps"][div[0]]["op"]["k"]
    return f"{tag}|{'with-failing-calls' if errs else 'all-succeed'}"


# ======================================================================
# correspondence 2: memo.run — XmlVar.match_namespace on one shared var
# ======================================================================
def make_var(nss):
    from xsdata.formats.dataclass.models.elements import XmlVar

    return XmlVar(
        index=1, name="w", local_name="w", wrapper=None, types=(object,), clazz=None, init=True, mixed=False,
        factory=None, tokens_factory=None, format=None, any_type=False, process_contents="strict", required=False,
        nillable=False, sequence=None, default=None, xml_type="Wildcard", namespaces=tuple(nss), elements={}, wildcards=[],
    )


def impl_memo(a):
    v = make_var(a["nss"])
    return ok([bool(v.match_namespace(q)) for q in a["qs"]])


NSS_POOL = ["", "##any", "##other", "##local", "urn:a", "urn:b", "!urn:a", "!", "!!", "##targetNamespace", "#", "x"]
Q_POOL = ["x", "{urn:a}x", "{urn:b}x", "{urn:a}y", "{}x", "{urn:a}", "{!urn:a}x", "{##any}x", "{", "}", "{x", "{urn:a}x}y", "{{urn:a}}x"]


def gen_memo(rng, tier):
    for nss in ([], [""], ["##any"], ["urn:a"], ["!urn:a"], ["!"], ["", "urn:b"], ["##other", "urn:a"]):
        yield {"nss": nss, "qs": Q_POOL + Q_POOL[::-1]}
    n = 400 if tier == "quick" else 10000
    for _ in range(n):
        nss = rng.sample(NSS_POOL, rng.randint(0, 3))
        yield {"nss": nss, "qs": [rng.choice(Q_POOL) for _ in range(rng.randint(1, 12))]}


# ======================================================================
# correspondence 3: lru.run — the lru_cache'd qname helpers
# ======================================================================
def impl_lru(a):
    from xsdata.utils import namespaces as N

    fn = getattr(N, a["fn"])
    fn.cache_clear()
    out = []
    for args in a["calls"]:
        before = fn.cache_info().hits
        try:
            r = fn(*args)
            r = list(r) if isinstance(r, tuple) else r
        except (ValueError, IndexError) as e:
            r = err(type(e).__name__)
        out.append([r, fn.cache_info().hits > before])
    fn.cache_clear()
    return ok(out)


def gen_lru(rng, tier):
    uris = [None, "", "urn:a", "urn:b"] + [f"urn:u{i}" for i in range(70)]
    tags = [None, "", "x", "y"] + [f"t{i}" for i in range(10)]
    # eviction boundary: 49, 50, 51, 52 distinct keys, then the first ones again
    for k in (49, 50, 51, 52):
        calls = [[f"urn:u{i}", "x"] for i in range(k)] + [[f"urn:u{i}", "x"] for i in range(3)] + [["urn:u0", "x"]]
        yield {"fn": "build_qname", "calls": calls}
        calls = [[f"{{urn:u{i}}}x"] for i in range(k)] + [[f"{{urn:u{i}}}x"] for i in range(3)]
        yield {"fn": "split_qname", "calls": calls}
    yield {"fn": "build_qname", "calls": [[None, None], ["", ""], [None, "x"], [None, "x"], ["urn:a"], ["urn:a", None], ["urn:a"], ["", "x"], [None]]}
    yield {"fn": "split_qname", "calls": [["x"], [""], ["{a}b"], ["{a}"], ["{}b"], ["{a}b"], ["x"], [""], ["{"], ["{a"], ["{a}b}c"]]}
    n = 150 if tier == "quick" else 2500
    for _ in range(n):
        if rng.random() < 0.5:
            m = rng.choice([3, 10, 60, 74])
            calls = []
            for _ in range(rng.randint(1, 140)):
                c = [rng.choice(uris[:m])]
                if rng.random() < 0.9:
                    c.append(rng.choice(tags[:6]))
                calls.append(c)
            yield {"fn": "build_qname", "calls": calls}
        else:
            m = rng.choice([3, 10, 60, 74])
            pool = ["x", "", "{a}", "{}b", "{", "y"] + [f"{{{u}}}{t}" for u in uris[2:m] for t in ("x", "y")]
            yield {"fn": "split_qname", "calls": [[rng.choice(pool)] for _ in range(rng.randint(1, 140))]}


# ======================================================================
# correspondence 4: rec.run — the prefix recorder on a shared parser
# ======================================================================
@dataclasses.dataclass
class RecRoot:
    class Meta:
        name = "r"

    any: List[object] = dataclasses.field(default_factory=list, metadata={"type": "Wildcard", "namespace": "##any"})


def rec_doc(decls):
    """A document whose namespace declarations are `decls`, in order: a new
    nested element is opened whenever a prefix repeats."""
    groups, cur = [], []
    for p, u in decls:
        if any(p == q for q, _ in cur):
            groups.append(cur)
            cur = []
        cur.append((p, u))
    groups.append(cur)
    names = ["r"] + ["k"] * (len(groups) - 1)
    s = ""
    for name, g in zip(names, groups):
        attrs = "".join(f' xmlns{":" + p if p else ""}="{u}"' for p, u in g)
        s += f"<{name}{attrs}>"
    for name in reversed(names):
        s += f"</{name}>"
    return s


def rec_chain(obj):
    """the parse result of a rec_doc document: the qualified names of the nested <k> elements,
    outermost first (RecRoot.any holds one AnyElement, which holds the next one, ...)"""
    out = []
    level = obj.any
    while level:
        if len(level) != 1:
            return ["?more-than-one-child"]
        out.append(level[0].qname)
        level = level[0].children
    return out


def _handlers():
    from xsdata.formats.dataclass.parsers.handlers import LxmlEventHandler, XmlEventHandler

    return {"native": XmlEventHandler, "lxml": LxmlEventHandler}


def impl_rec(a):
    from xsdata.formats.dataclass.context import XmlContext
    from xsdata.formats.dataclass.parsers import XmlParser

    parser = XmlParser(context=XmlContext(), handler=_handlers()[a["handler"]])
    out = []
    for c in a["calls"]:
        arg = None if c["arg"] is None else {p: u for p, u in c["arg"]}
        obj = parser.from_string(rec_doc(c["decls"]), RecRoot, ns_map=arg)
        out.append({"inst": [[p, u] for p, u in parser.ns_map.items()],
                    "arg": None if arg is None else [[p, u] for p, u in arg.items()],
                    "result": rec_chain(obj)})
    return ok(out)


def gen_rec(rng, tier):
    pf = ["p", "q", "xs", None]
    ur = ["urn:a", "urn:b", "urn:c"]
    for h in ("native", "lxml"):
        yield {"handler": h, "calls": [{"decls": [["p", "urn:a"]], "arg": None}, {"decls": [["p", "urn:b"]], "arg": None}]}
        yield {"handler": h, "calls": [{"decls": [["p", "urn:a"], ["p", "urn:b"], ["q", "urn:a"]], "arg": [["q", "urn:z"]]},
                                       {"decls": [["q", "urn:c"]], "arg": None}, {"decls": [], "arg": []}]}
        n = 60 if tier == "quick" else 1500
        for _ in range(n):
            calls = []
            for _ in range(rng.randint(1, 5)):
                decls = []
                for _ in range(rng.randint(0, 4)):
                    p = rng.choice(pf)
                    if p is None and not decls:
                        continue  # keep the root element unqualified
                    decls.append([p, rng.choice(ur)])
                arg = None if rng.random() < 0.6 else [[rng.choice(pf[:3]), rng.choice(ur)] for _ in range(rng.randint(0, 2))]
                if arg:
                    arg = [list(x) for x in {p: u for p, u in arg}.items()]
                calls.append({"decls": decls, "arg": arg})
            yield {"handler": h, "calls": calls}


CORRS = [
    Corr("ctx.run", gen_run, impl_run, nontrivial=lambda a, o: len(a["steps"]) >= 2, classify=classify_run,
         describe="op sequences (context methods and serialisations, failing ones included) on one shared XmlContext vs fresh contexts vs the model: results and cache/index contents after every call"),
    Corr("memo.run", gen_memo, impl_memo, nontrivial=lambda a, o: len(a["qs"]) >= 2,
         describe="XmlVar.match_namespace query sequences on one var vs the memo model"),
    Corr("lru.run", gen_lru, impl_lru, nontrivial=lambda a, o: len(a["calls"]) >= 2,
         classify=lambda a, o: a["fn"] + ("|evicting" if len({json.dumps(c) for c in a["calls"]}) > 50 else "|small"),
         describe="functools.lru_cache around build_qname/split_qname: results and hit/miss per call vs the LRU model (size from Tables)"),
    Corr("rec.run", gen_rec, impl_rec, nontrivial=lambda a, o: len(a["calls"]) >= 2,
         classify=lambda a, o: a["handler"], describe="parser.ns_map / caller's ns_map after each parse on one shared XmlParser vs the recorder model"),
]


# ======================================================================
# oracles: the property evaluated on the implementation only
# ======================================================================
class RecCtx:
    """Builds a recording subclass of the *current* XmlContext (harness side)."""

    @staticmethod
    def make(pkg):
        from xsdata.formats.dataclass.context import XmlContext

        class _Rec(XmlContext):
            __slots__ = ("log",)

            def build(self, clazz, parent_ns=None, globalns=None):
                self.log.append((clazz, parent_ns))
                return super().build(clazz, parent_ns, globalns)

        c = _Rec(models_package=pkg)
        c.log = []
        return c


def _indexed_bad(universe, loaded):
    out = []
    for i, d in enumerate(universe[:loaded]):
        bad = G.class_bad(d)
        j = d["base"]
        while j is not None:
            bad = bad or G.class_bad(universe[j])
            j = universe[j]["base"]
        if bad and d["model"] and d["pkg"] and d["global"] and not d["inner"]:
            out.append(i)
    return out


def _buildable(universe, c):
    if c >= len(universe) or not universe[c]["model"]:
        return False
    while c is not None:
        if G.class_bad(universe[c]):
            return False
        c = universe[c]["base"]
    return True


def known_finding_for(universe, steps, k, runner):
    """Which listed finding (if any) does the history steps[0..k] fall under?
    Precise predicates on the input, evaluated since the last reset."""
    start = 0
    for i in range(k + 1):
        if steps[i]["op"]["k"] == "reset" and i < k:
            start = i + 1
    window = steps[start:k + 1]
    # F2: same len(sys.modules), different set of loaded classes
    seen = {}
    for st in window:
        if seen.setdefault(st["mods"], st["loaded"]) != st["loaded"]:
            return "C14-F2"
    # F3 (what remains): an unbuildable class has been evicted from the published index
    # by an earlier by-fields lookup / local_names_match, and the failing call reads the
    # index by qualified name
    last = window[-1]["op"]
    reads_by_name = last["k"] in ("find_types", "find_type", "find_subclass", "xml_parse", "json_parse") or (
        last["k"] == "fetch" and bool(last.get("xsi")))
    if reads_by_name:
        for st in window[:-1]:
            o = st["op"]
            if _indexed_bad(universe, st["loaded"]) and o["k"] in ("find_type_by_fields", "json_parse_any"):
                return "C14-F3"
            if o["k"] == "local_names_match" and not _buildable(universe, o["c"]):
                return "C14-F3"
    return None


def _ctx_log(universe):
    """(class, parent_ns) requests of a window of context-level calls.  For
    build/fetch these are the pairs the *caller* asks for (fetch: also the class
    it resolves to, with the caller's parent_ns); for the other calls the pairs
    the call hands to XmlContext.build, observed by a recording subclass."""
    def runner(window):
        realm = L.Realm(universe)
        try:
            ctx = RecCtx.make(realm.pkg)
            log = []
            for st in window:
                realm.set_world(st["loaded"], st["mods"])
                op = st["op"]
                n0 = len(ctx.log)
                out = realm.call(ctx, op)
                if op["k"] in ("build", "fetch"):
                    log.append((op["c"], op["pns"]))
                    if op["k"] == "fetch":
                        f = realm.call(realm.context(), op)
                        if "meta" in f:
                            log.append((f["meta"]["cls"], op["pns"]))
                else:
                    log.extend((realm.cid(c), p) for c, p in ctx.log[n0:])
                del out
            return log
        finally:
            realm.close()
    return runner


def check_ctx_history(a):
    res = L.run_steps(a["universe"], a["steps"])
    for i, r in enumerate(res):
        if r["shared"] != r["fresh"]:
            return f"call #{i} {json.dumps(a['steps'][i]['op'])} on the shared context returned {json.dumps(r['shared'])[:160]} but {json.dumps(r['fresh'])[:160]} on a fresh one"
    return None


def covered_ctx_history(a, msg):
    """a failing history belongs to a listed finding when its shape is the one the finding describes
    (known_finding_for: decidable on the input) AND the divergence observed on the real code at that call is
    the one the model of the unchanged code computes for this very history (replay through the driver op
    ctx.run): a different result on a history of the same shape is reported"""
    k = int(msg.split("#")[1].split(" ")[0])
    fid = known_finding_for(a["universe"], a["steps"], k, _ctx_log(a["universe"]))
    if fid is None:
        return None
    from framework import Driver

    try:
        mo = Driver().run([{"op": "ctx.run", "args": {"universe": a["universe"], "steps": a["steps"]}}])[0]
        got = L.run_steps(a["universe"], a["steps"])
        m = mo["ok"][k]
    except Exception:  # noqa: BLE001  (no driver / no answer: nothing can be attributed to a finding)
        return None
    same = all(m["shared"] == got[i]["shared"] and m["fresh"] == got[i]["fresh"] for i, m in enumerate(mo["ok"][:k + 1]))
    return fid if same and m["shared"] != m["fresh"] else None


def gen_ctx_history(rng, tier):
    n = 300 if tier == "quick" else 5000
    for _ in range(n):
        U = G.rand_universe(rng)
        keys = G.index_keys(U)
        yield {"universe": U, "steps": G.rand_steps(rng, U, keys, rng.randint(2, 10))}


# ---------------------------------------------------------------- documents
def doc_call(realm, kit, op):
    """One document-level call on a kit = (ctx, xml_parser, xml_serializer,
    json_parser, json_serializer). Returns a canonical, comparable value."""
    from xsdata.exceptions import ParserError, SerializerError, XmlContextError
    from xsdata.formats.dataclass.parsers.config import ParserConfig

    ctx, xp, xs, jp, js = kit[:5]
    xs_native, xs_lxml, tree_ser, dict_enc, dict_dec, pycode = kit[5:]
    k = op["k"]
    try:
        if k == "xml_render":
            return {"xml": xs.render(realm.obj(op["toks"]))}
        # one instance of every other serializer / encoder is shared as well
        if k == "xml_render_native":
            return {"xml": xs_native.render(realm.obj(op["toks"]))}
        if k == "xml_render_lxml":
            return {"xml": xs_lxml.render(realm.obj(op["toks"]), ns_map=op.get("ns_map"))}
        if k == "tree_render":
            from lxml import etree

            return {"xml": etree.tostring(tree_ser.render(realm.obj(op["toks"]))).decode()}
        if k == "dict_encode":
            return {"dict": json.dumps(dict_enc.encode(realm.obj(op["toks"])), default=str, sort_keys=False)}
        if k == "dict_decode":
            cls = None if op.get("c") is None else realm.cls(op["c"])
            return {"obj": repr(dict_dec.decode(json.loads(op["doc"]), cls))}
        if k == "pycode_render":
            return {"code": pycode.render(realm.obj(op["toks"]))}
        if k == "json_render":
            return {"json": js.render(realm.obj(op["toks"]))}
        if k == "xml_parse":
            cls = None if op["c"] is None else realm.cls(op["c"])
            xp.config = ParserConfig(**op.get("cfg", {}))
            return {"obj": repr(xp.from_string(op["doc"], cls))}
        if k in ("json_parse", "json_parse_any"):
            cls = None if op.get("c") is None else realm.cls(op["c"])
            jp.config = ParserConfig(**op.get("cfg", {}))
            return {"obj": repr(jp.from_string(op["doc"], cls))}
        if k == "reset":
            ctx.reset()
            return {"done": None}
        return realm.call(ctx, op)
    except (ParserError, SerializerError, XmlContextError) as e:
        return {"err": type(e).__name__, "msg": str(e)[:80]}
    except Exception as e:  # noqa: BLE001
        return {"err": "LEAK:" + type(e).__name__, "msg": str(e)[:80]}


def make_kit(ctx):
    from xsdata.formats.dataclass.parsers import DictDecoder, JsonParser, XmlParser
    from xsdata.formats.dataclass.serializers import (DictEncoder, JsonSerializer, PycodeSerializer, TreeSerializer,
                                                      XmlSerializer)
    from xsdata.formats.dataclass.serializers.writers import LxmlEventWriter, XmlEventWriter

    return (ctx, XmlParser(context=ctx), XmlSerializer(context=ctx), JsonParser(context=ctx), JsonSerializer(context=ctx),
            XmlSerializer(context=ctx, writer=XmlEventWriter), XmlSerializer(context=ctx, writer=LxmlEventWriter),
            TreeSerializer(context=ctx), DictEncoder(context=ctx), DictDecoder(context=ctx), PycodeSerializer(context=ctx))


def run_docs(universe, steps, ctx_factory=None):
    realm = L.Realm(universe)
    try:
        shared = make_kit(ctx_factory(realm) if ctx_factory else realm.context())
        out = []
        for st in steps:
            realm.set_world(st["loaded"], st["mods"])  # classes / modules may appear between the calls
            o = doc_call(realm, shared, st["op"])
            f = doc_call(realm, make_kit(realm.context()), st["op"])
            out.append((o, f))
        return out, shared[0]
    finally:
        realm.close()


def check_doc_history(a):
    res, _ = run_docs(a["universe"], a["steps"])
    for i, (o, f) in enumerate(res):
        if o != f:
            op = {k: v for k, v in a["steps"][i]["op"].items()}
            return f"call #{i} {json.dumps(op)[:200]} through shared parser/serializer/context gave {json.dumps(o)[:200]} but {json.dumps(f)[:200]} with fresh instances"
    return None


READS_INDEX_BY_FIELDS = ("json_parse_any", "find_type_by_fields")
READS_INDEX_BY_NAME = ("xml_parse", "json_parse", "dict_decode", "find_types", "find_type", "find_subclass", "fetch")


def covered_doc_history(a, msg):
    """A document-level divergence belongs to a listed finding exactly when the mechanism of
    that finding is at work on the unchanged code: re-run the history up to the failing call on
    a shared kit and compare the shared context's type index with the index a fresh context
    builds in the same world.  If the shared stamp is current (the next lookup will NOT refresh)
    and classes are missing from the shared index, the failing call reads a stale / evicted
    index (a stale index also affects by-fields lookups, an eviction only lookups by name): all missing classes unbuildable -> evicted by local_names_match (C14-F3), otherwise
    defined without a change of len(sys.modules) (C14-F2).  The failing call must be one that
    reads the index by qualified name."""
    import sys as _sys

    k = int(msg.split("#")[1].split(" ")[0])
    U, steps = a["universe"], a["steps"]
    kind = steps[k]["op"]["k"]
    if kind not in READS_INDEX_BY_NAME + READS_INDEX_BY_FIELDS:
        return None
    realm = L.Realm(U)
    try:
        kit = make_kit(realm.context())
        for st in steps[:k]:
            realm.set_world(st["loaded"], st["mods"])
            doc_call(realm, kit, st["op"])
        realm.set_world(steps[k]["loaded"], steps[k]["mods"])
        ctx = kit[0]
        if ctx.sys_modules != len(_sys.modules):
            return None  # the failing call refreshes the index first: neither finding applies
        fresh = realm.context()
        fresh.build_xsi_cache()
        missing = [c for q, l in fresh.xsi_cache.items() for c in l if c not in ctx.xsi_cache.get(q, [])]
        if not missing:
            return None
        ids = [realm.cid(c) for c in missing]
    finally:
        realm.close()
    if all(not _buildable(U, i) for i in ids):
        # evicted classes: by-fields lookups are provably unaffected (history_independent_evicting)
        return "C14-F3" if kind in READS_INDEX_BY_NAME else None
    seen = {}
    start = max([i + 1 for i in range(k) if steps[i]["op"]["k"] == "reset"], default=0)
    for st in steps[start:k + 1]:
        if seen.setdefault(st["mods"], st["loaded"]) != st["loaded"]:
            return "C14-F2"
    return None


def gen_doc_history(rng, tier):
    # compound fields of the same name in two models, through every serializer kind
    U = G.U_CHOICE
    for kind in ("xml_render", "xml_render_native", "xml_render_lxml", "tree_render", "json_render", "dict_encode", "pycode_render"):
        yield {"universe": U, "steps": G.fixed_world(U, [
            {"k": kind, "toks": G.doc_choice(2, 0, 1)}, {"k": kind, "toks": G.doc_choice(3, 0, 1)},
            {"k": kind, "toks": G.doc_choice(2, 4)}, {"k": kind, "toks": G.doc_choice(3, 1, 4)},
            {"k": kind, "toks": G.doc_choice(5, 0, 1)}])}
    U = G.U_WITNESS
    yield {"universe": U, "steps": G.fixed_world(U, [{"k": "xml_render", "toks": G.DOC_PA}, {"k": "xml_render", "toks": G.DOC_PB}])}
    yield {"universe": U, "steps": G.fixed_world(U, [
        {"k": "json_parse_any", "doc": '{"x": "v"}', "c": None}, {"k": "xml_render", "toks": G.DOC_PA},
        {"k": "xml_parse", "doc": '<ns0:PB xmlns:ns0="urn:b"><ns0:c><ns0:x>v</ns0:x></ns0:c></ns0:PB>', "c": 2}])}
    # an unbuildable class under the name of a buildable one: a class-less JSON parse evicts it,
    # a class-less XML parse then binds the namesake (fresh instances: XmlContextError)
    U = G.U_BAD2
    yield {"universe": U, "steps": G.fixed_world(U, [
        {"k": "json_parse_any", "doc": '{"x": "v"}', "c": None},
        {"k": "xml_parse", "doc": '<T xmlns="urn:a"><x>v</x></T>', "c": None, "root": 1},
        {"k": "json_parse_any", "doc": '{"x": "v"}', "c": None}])}
    # a class defined between two documents without a module import
    U = G.U_WITNESS
    yield {"universe": U, "steps": [
        {**G.W(1, 0), "op": {"k": "xml_parse", "doc": "<C><x>v</x></C>", "c": None, "root": 0}},
        {**G.W(3, 0), "op": {"k": "xml_parse", "doc": '<PA xmlns="urn:a"/>', "c": None, "root": 1}},
        {**G.W(3, 1), "op": {"k": "xml_parse", "doc": '<PA xmlns="urn:a"/>', "c": None, "root": 1}}]}
    n = 200 if tier == "quick" else 2000
    for _ in range(n):
        r = rng.random()
        # most universes look like generated bindings; some contain unbuildable / foreign classes
        U = G.rand_universe(rng, declared=rng.random() < 0.7, clean=r < 0.6)
        docs = G.rand_docs(rng, U)
        if not docs:
            continue
        worlds = G.rand_worlds(rng, len(U), rng.randint(2, 8), fixed=r < 0.45)
        steps = []
        for w in worlds:
            ok = [d for d in docs if G.op_max_class(d) < w["loaded"]]
            if ok:
                steps.append({**w, "op": rng.choice(ok)})
        if len(steps) >= 2:
            yield {"universe": U, "steps": steps}


# ---------------------------------------------------------------- memo / lru / recorder
def check_memo(a):
    shared = make_var(a["nss"])
    for i, q in enumerate(a["qs"]):
        s = shared.match_namespace(q)
        f = make_var(a["nss"]).match_namespace(q)
        if s != f:
            return f"match_namespace({q!r}) query #{i} on a var with namespaces {a['nss']} that already answered {a['qs'][:i]} returned {s}, a fresh var returns {f}"
    return None


def check_lru(a):
    from xsdata.utils import namespaces as N

    fn = getattr(N, a["fn"])
    for i, args in enumerate(a["calls"]):
        def run(f):
            try:
                return f(*args)
            except (ValueError, IndexError) as e:
                return type(e).__name__
        s, f = run(fn), run(fn.__wrapped__)
        if s != f:
            return f"{a['fn']}{tuple(args)!r} call #{i} returned {s!r} through the lru_cache but {f!r} uncached"
    return None


def check_rec(a):
    from xsdata.formats.dataclass.context import XmlContext
    from xsdata.formats.dataclass.parsers import XmlParser

    H = _handlers()[a["handler"]]
    shared = XmlParser(context=XmlContext(), handler=H)
    for i, c in enumerate(a["calls"]):
        doc = rec_doc(c["decls"])
        fresh = XmlParser(context=XmlContext(), handler=H)
        arg_s = None if c["arg"] is None else {p: u for p, u in c["arg"]}
        arg_f = None if c["arg"] is None else {p: u for p, u in c["arg"]}
        rs = shared.from_string(doc, RecRoot, ns_map=arg_s)
        rf = fresh.from_string(doc, RecRoot, ns_map=arg_f)
        if rs != rf:
            return f"call #{i}: result differs"
        # the result is a function of the document alone: an independent XML parser reads the same names
        import xml.etree.ElementTree as ET

        want = [e.tag for e in list(ET.fromstring(doc).iter())[1:]]
        if rec_chain(rs) != want:
            return f"call #{i}: parsing {doc!r} bound the elements {rec_chain(rs)}, the document contains {want}"
        if c["arg"] is not None:
            # reference: the caller's map keeps its entries and gains the first
            # binding of every other prefix the document declares
            want = {p: u for p, u in c["arg"]}
            for p, u in c["decls"]:
                want.setdefault(p, u)
            if arg_s != want:
                return f"call #{i}: the caller's ns_map after parsing {doc!r} with ns_map={dict(c['arg'])} is {arg_s}, expected {want} (shared parser state {shared.ns_map})"
        if arg_s != arg_f:
            return f"call #{i}: the caller's ns_map is {arg_s} on the shared parser, {arg_f} on a fresh one"
        if c["arg"] is None and shared.ns_map != fresh.ns_map:
            return f"call #{i} attr: parser.ns_map after parsing {doc!r} is {shared.ns_map} on the shared parser, {fresh.ns_map} on a fresh one"
    return None


def covered_rec(a, msg):
    return None  # no listed finding in this area (C14-F4 is repaired)


def impl_doc_history(a):
    msg = check_doc_history(a)
    return {"ok": "same-as-fresh"} if msg is None else {"err": msg}


def cmp_doc_history(mo, io, a):
    if "ok" in io:
        return True
    return covered_doc_history(a, io["err"]) is not None


CORRS.append(
    Corr("c14.doc_history", gen_doc_history, impl_doc_history, spec=lambda a: {"ok": "same-as-fresh"}, compare=cmp_doc_history,
         nontrivial=lambda a, o: len(a["steps"]) >= 2,
         describe="spec-level: document-level histories (XML/JSON parse and render, failing calls, resets) through shared "
                  "parser/serializer/context instances vs fresh instances, call by call; expected: equal outside the listed findings")
)

# ---------------------------------------------------------------- parser instances in rarely used corners
from props import c14corners as K  # noqa: E402


def impl_parser_history(a):
    msg = K.check_history(a)
    return {"ok": "same-as-fresh"} if msg is None else {"err": msg}


CORRS.append(
    Corr("c14.parser_history", K.gen_history, impl_parser_history, spec=lambda a: {"ok": "same-as-fresh"},
         nontrivial=lambda a, o: len(a["calls"]) >= 2,
         classify=lambda a, o: a["calls"][0]["kind"] + ("|non-default-options" if a["cfg"] else "|default-options"),
         describe="spec-level: histories of parses (union / base-class / compound / token fields, failing documents, "
                  "unconvertible values) through ONE XmlParser (native, lxml) / JsonParser / DictDecoder holding ONE "
                  "ParserConfig with options away from the defaults, vs fresh instances, results and warnings call by call")
)

CORRS.append(
    Corr("cfg.run", K.gen_cfg_run, K.impl_cfg_run, nontrivial=lambda a, o: len(a["docs"]) >= 2,
         classify=lambda a, o: a["kind"] + ("|strict" if a["strict"] else "|lenient"),
         describe="histories of XML parses (convertible / unconvertible values, union nodes whose candidates bind or fail) "
                  "through ONE XmlParser: ok / warned / error per call and fail_on_converter_warnings of the instance's "
                  "ParserConfig afterwards vs the options model (Ctx/ParserCfg.lean: candidates run on a local strict copy)")
)

ORACLES = [
    Oracle("parser-history", K.gen_history, K.check_history),
    Oracle("ctx-history", gen_ctx_history, check_ctx_history, covered_ctx_history, from_ops=("ctx.run",)),
    Oracle("doc-history", gen_doc_history, check_doc_history, covered_doc_history),
    Oracle("memo-history", gen_memo, check_memo, from_ops=("memo.run",)),
    Oracle("lru-transparent", gen_lru, check_lru, from_ops=("lru.run",)),
    Oracle("recorder", gen_rec, check_rec, covered_rec, from_ops=("rec.run",)),
]


# ======================================================================
# known findings: replayed on the real code
# ======================================================================
def finding_f2():
    steps = [{**G.W(1, 0), "op": G.op_q("find_type", "PA")}, {**G.W(3, 0), "op": G.op_q("find_type", "{urn:a}PA")}]
    res = L.run_steps(G.U_WITNESS, steps)
    r = res[1]
    return (r["shared"] == {"type": None} and r["fresh"] == {"type": 1}), json.dumps(r)[:200]


def finding_f3():
    """What remains (by design): by-fields lookups and local_names_match are history
    independent (asserted here too), but the evicted class is gone from find_types
    and find_type switches to a namesake."""
    steps = G.fixed_world(G.U_BAD, [G.op_fields(["x"]), G.op_fields(["x"]), G.op_q("find_types", "{urn:a}T"),
                                    G.op_lnm(["x"], 0)])
    res = L.run_steps(G.U_BAD, steps)
    repaired = res[0]["shared"] == res[0]["fresh"] == res[1]["shared"] == res[1]["fresh"]
    repaired = repaired and res[3]["shared"] == res[3]["fresh"] == {"bool": False}
    residual = res[2]["shared"] != res[2]["fresh"]
    steps2 = G.fixed_world(G.U_BAD2, [G.op_fields(["x"]), G.op_q("find_type", "{urn:a}T"), G.op_fetch(0, None, "{urn:a}T")])
    res2 = L.run_steps(G.U_BAD2, steps2)
    switch = res2[1]["shared"] == {"type": 0} and res2[1]["fresh"] == {"type": 1}
    return (repaired and residual and switch), json.dumps([[r["shared"], r["fresh"]] for r in res + res2])[:400]


FINDINGS = {"C14-F2": finding_f2, "C14-F3": finding_f3}

LEVEL_TEXT = (
    "Lean proof by invariant + refinement over all finite histories: every call on a shared XmlContext "
    "(build, fetch, find_type(s), find_subclass, find_type_by_fields, local_names_match, build_xsi_cache, reset, "
    "name-level serialisation; failing calls included; classes and modules may be loaded in between) returns the "
    "cache-free specification, hence what a fresh context returns: with no hypothesis at all for the calls that do "
    "not consult the type index (metadata_history_independent, build_history_independent: the cache is keyed by "
    "(class, parent_ns)), under `len(sys.modules)` being faithful for by-fields lookups "
    "(history_independent_evicting) and under two decidable side conditions for lookups by name "
    "(history_independent_partial, shared_refines_spec, all_calls_equal_fresh, history_independent_fixed_world); the "
    "full statement is refuted by two proved counterexamples that are replayed on the real code (known findings "
    "C14-F2, C14-F3, both by design); memo dict, lru_cache and the parser's prefix recorder (one map per document) "
    "are proved transparent for all call sequences. The model is tied to /repo by a differential check of shared-vs-fresh-vs-model on bounded-exhaustive "
    "and random op sequences over real dataclasses, including the cache and index contents after every call."
)
LEVEL_NOTE = (
    "Trusted: Lean kernel; the hand-written model of XmlContext / XmlMetaBuilder name+namespace logic (single "
    "inheritance, default name generators, no compound fields); the sampling correspondence. Parsing and value "
    "binding are not modelled here (only the context calls they make); the document-level oracle compares shared "
    "and fresh real parsers/serializers directly. The converter registry is not modelled."
)
TRUSTED = [
    "harness/props/ctxlib.py realises abstract universes as real dataclasses in throw-away modules; models_package restricts the process-wide class universe to them",
    "len(sys.modules) is steered by registering dummy modules; the harness asserts it has the prescribed value before every call",
    "set iteration order of XmlVar.namespaces is canonicalised by sorting (generators keep at most one default-namespace candidate per field)",
]
ASSUMPTIONS = [
    "class and field names are non-empty; namespace strings contain only ASCII white space",
    "single inheritance among binding models; name generators are the default return_input",
    "results are compared up to object identity (metadata by exported names/namespaces, classes by identity)",
]
RULE = "hand-picked witnesses, then all op sequences up to length 3 (quick) / 4 (thorough) over 9-op pools on four hand universes, then seeded random universes/worlds/histories; distinct = distinct canonical (op,args); non-trivial = at least two calls in the history"
