/-
L5 — xsdata/formats/dataclass/parsers: NodeParser.start/end with ElementNode,
PrimitiveNode, StandardNode, WildcardNode, SkipNode, WrapperNode and
ParserUtils, as a recursion over the element tree.

The real parser is an event machine with a node queue and one shared list of
parsed objects; a node created at `position` later consumes
`objects[position:]`.  Here a node returns the objects it leaves on the list.
Union nodes are outside the fragment (`Err.unsupported`).
-/
import XsdataModel.Bind.Basic

namespace Xs.Bind
open Py

/-- what the binding layer needs from the outside world -/
structure BEnv where
  py : Env
  isNCName : Str → Bool
  isUri : Str → Bool

/-! ### the converters of the fragment (formats/converter.py) -/

/-- `QNameConverter.resolve`; `none` = ConverterError -/
def resolveQName (e : BEnv) (value : Str) (nsmap : NsMap) : Option (Option Str × Str) :=
  let v := e.py.strip value
  match v with
  | [] => none
  | '{' :: rest =>
    let (uri, name) := textSplit rest '}'
    -- `is_uri(None)` is False
    match uri with
    | none => none
    | some u =>
      if !e.isUri u then none
      else if name.contains ' ' || !e.isNCName name then none else some (some u, name)
  | _ =>
    let (pfx, name) := textSplit v ':'
    let uri := match pfx with
      | none => nsmap.get none       -- `ns_map.get(None)` : the default namespace
      | some p => nsmap.get (some p)
    let uri := match uri with        -- `uri = ns_map.get(pfx) if ns_map else None`
      | some [] => none
      | u => u
    match pfx, uri with
    | some p, none => if p.isEmpty then
          (if name.contains ' ' || !e.isNCName name then none else some (none, name))
        else none
    | _, _ => if name.contains ' ' || !e.isNCName name then none else some (uri, name)

/-- one converter's `deserialize`; `none` = ConverterError -/
def deOne (e : BEnv) (s : Str) (t : TypeRef) (nsmap : NsMap) : Option PVal :=
  match t with
  | .prim .str | .obj => some (.str s)
  | .prim .int => (e.py.pyInt s).map .int
  | .prim .bool =>
    let v := e.py.strip s
    if v = "true".toList || v = ['1'] then some (.bool true)
    else if v = "false".toList || v = ['0'] then some (.bool false) else none
  | .prim .qname =>
    (resolveQName e s nsmap).bind fun (uri, name) =>
      match uri with
      | some u => (buildQName (some u) (some name)).map .qname
      | none => some (.qname name)
  | .cls _ => none      -- no converter registered for a model class
  | .other _ => none

/-- `converter.deserialize(value, types)` : first type that converts -/
def deserialize (e : BEnv) (s : Str) (types : List TypeRef) (nsmap : NsMap) : Option PVal :=
  types.findSome? (fun t => deOne e s t nsmap)

/-- `converter.serialize(value)` without a pfx map -/
def serPrim : PVal → Str
  | .str s => s
  | .int i => intStr i
  | .bool b => if b then "true".toList else "false".toList
  | .qname t => t

/-- `str.split()` -/
def pySplitWs (e : Env) (s : Str) : List Str :=
  let rec go (fuel : Nat) (s : Str) (acc : List Str) : List Str :=
    match fuel with
    | 0 => acc.reverse
    | fuel + 1 =>
      let s := s.dropWhile e.isSpace
      if s.isEmpty then acc.reverse else
      go fuel (s.dropWhile (fun c => !e.isSpace c)) (s.takeWhile (fun c => !e.isSpace c) :: acc)
  go (s.length + 1) s []

/-! ### ParserUtils -/

/-- `ParserUtils.normalize_content` -/
def normalizeContent (e : Env) (v : Option Str) : Option Str :=
  match v with
  | some s => if !s.isEmpty && !(e.strip s).isEmpty then some s else none
  | none => none

/-- `ParserUtils.xsi_type` : `Except` because `resolve` raises ConverterError -/
def xsiTypeOf (e : BEnv) (attrs : List (QN × Str)) (nsmap : NsMap) : Except Err (Option QN) :=
  match (attrs.find? (·.1 = xsiType)).map (·.2) with
  | none | some [] => .ok none
  | some v =>
    match resolveQName e v nsmap with
    | none => .error .converter
    | some (uri, name) =>
      match buildQName uri (some name) with
      | some q => .ok (some q)
      | none => .error (.leaked "ValueError")

/-- `ParserUtils.xsi_nil` -/
def xsiNilOf (attrs : List (QN × Str)) : Option Bool :=
  match (attrs.find? (·.1 = xsiNil)).map (·.2) with
  | none | some [] => none
  | some v => some (v = "true".toList)

/-- `ParserUtils.parse_any_attribute` -/
def parseAnyAttribute (value : Str) (nsmap : NsMap) : Str :=
  let (pfx, suffix) := textSplit value ':'
  match pfx with
  | some p =>
    if !p.isEmpty then
      match nsmap.get (some p) with
      | some uri =>
        if startsWith suffix ['/', '/'] then value
        else (buildQName (some uri) (some suffix)).getD value
      | none => value
    else value
  | none => value

def parseAnyAttributes (attrs : List (QN × Str)) (nsmap : NsMap) : List (QN × Str) :=
  -- dict comprehension: a later duplicate key overwrites the value in place
  attrs.foldl (fun acc (k, v) =>
    let v' := parseAnyAttribute v nsmap
    if acc.any (·.1 = k) then acc.map (fun (k', w) => if k' = k then (k', v') else (k', w))
    else acc ++ [(k, v')]) []

/-- outcome of `parse_var`: the value and whether a ConverterWarning was issued -/
structure Parsed where
  val : Val
  warned : Bool := false

/-- `ParserUtils.parse_value` + `parse_var` -/
def parseVar (e : BEnv) (cfg : ParserConfig) (var : VarCore) (value : Option Str) (nsmap : NsMap)
    (types : Option (List TypeRef) := none) : Except Err Parsed :=
  let types := types.getD var.types
  match value with
  | none =>
    -- `default() if tokens_factory else None` for callables, else the default itself
    match var.default with
    | .none => .ok ⟨.none, false⟩
    | .val p => .ok ⟨.prim p, false⟩
    | .listFactory => .ok ⟨if var.tokens then .list [] else .none, false⟩
    | .dictFactory => .ok ⟨if var.tokens then .attrs [] else .none, false⟩
    | .other => .error (.unsupported "default")
  | some s =>
    let fail : Except Err Parsed :=
      if cfg.failOnConverterWarnings then .error (.parser "Failed to convert value")
      else .ok ⟨.prim (.str s), true⟩
    if var.tokens then
      let toks := pySplitWs e.py s
      match toks.mapM (fun t => deserialize e t types nsmap) with
      | some vs => .ok ⟨.list (vs.map .prim), false⟩
      | none => fail
    else
      match deserialize e s types nsmap with
      | some v => .ok ⟨.prim v, false⟩
      | none => fail

/-- `ParserUtils.validate_fixed_value` for the primitive defaults of the fragment -/
def validateFixed (e : Env) (var : VarCore) (value : Val) : Except Err Unit :=
  match var.default, value with
  | .val (.str d), .prim (.str v) =>
    if e.strip d = e.strip v || d = v then .ok () else .error (.parser "Fixed value mismatch")
  | .val d, .prim (.str v) =>
    if serPrim d = v then .ok () else .error (.parser "Fixed value mismatch")
  | .val d, .prim v => if d = v then .ok () else .error (.parser "Fixed value mismatch")
  | .none, .none => .ok ()
  | _, _ => .error (.parser "Fixed value mismatch")

/-! ### context lookups (formats/dataclass/context.py) on the exported universe -/

def Ctx.findTypes (Γ : Ctx) (qname : QN) : List ClassId :=
  if (Γ.datatypes.find? (·.1 = qname)).isSome then []
  else ((Γ.xsiIndex.find? (·.1 = qname)).map (·.2)).getD []

def Ctx.findType (Γ : Ctx) (qname : QN) : Option ClassId := (Γ.findTypes qname).getLast?

/-- `XmlContext.find_subclass` -/
def Ctx.findSubclass (Γ : Ctx) (clazz : ClassId) (qname : QN) : Option ClassId :=
  let cmro := ((Γ.find clazz).map (·.mro)).getD [clazz]
  (Γ.findTypes qname).find? fun tp =>
    if cmro.contains tp then false       -- issubclass(clazz, tp)
    else (((Γ.find tp).map (·.mro)).getD [tp]).any (cmro.contains ·)

/-- `XmlContext.fetch(clazz, parent_ns, xsi_type)` without the cache: the metadata of a
class is looked up under the parent namespace of this use (the cache of the real
context is the subject of C14; generators keep every class under one parent namespace) -/
def Ctx.fetch (Γ : Ctx) (clazz : ClassId) (pns : Option Str) (xsiType : Option QN) : Except Err XmlMeta :=
  match (Γ.find clazz).bind (·.metaFor pns) with
  | none => .error (.context "unknown class")
  | some m =>
    match xsiType with
    | some xt =>
      if m.targetQName ≠ some xt then
        match Γ.findSubclass clazz xt with
        | some sub => match (Γ.find sub).bind (·.metaFor pns) with
          | some sm => .ok sm
          | none => .error (.context "unknown class")
        | none => .ok m
      else .ok m
    | none => .ok m

/-! ### parameters under construction -/

abbrev Params := List (Str × Val)

def Params.get (p : Params) (k : Str) : Option Val := (p.find? (·.1 = k)).map (·.2)
def Params.has (p : Params) (k : Str) : Bool := p.any (·.1 = k)
def Params.set (p : Params) (k : Str) (v : Val) : Params :=
  if p.has k then p.map (fun (k', w) => if k' = k then (k', v) else (k', w)) else p ++ [(k, v)]

/-- `config.class_factory(clazz, params)` = `clazz(**params)`: the instance holds every
declared field, in declaration order, from `params` or from the field default -/
def classFactory (Γ : Ctx) (clazz : ClassId) (params : Params) : Except Err Val :=
  match Γ.find clazz with
  | none => .error (.context "unknown class")
  | some ci =>
    let vals := ci.fields.map fun f =>
      match (if f.init then params.get f.name else none), f.default with
      | some v, _ => some (f.name, v)
      | none, some d => some (f.name, d)
      | none, none => none
    if vals.all Option.isSome then .ok (.obj clazz (vals.filterMap id))
    else .error (.parser "Failed to create")   -- the constructor's TypeError, reported as ParserError

/-! ### nodes -/

inductive Node
  | element («meta» : XmlMeta) (attrs : List (QN × Str)) (nsmap : NsMap) (derived : Bool)
      (xsiType : Option QN) (xsiNil : Option Bool)
  /-- `nil`: the element says `xsi:nil="true"` (`bool(xsi_nil)`) -/
  | primitive (pmeta : XmlMeta) (var : XmlVar) (nsmap : NsMap) (nil : Bool)
  | standard (var : XmlVar) (dt : PT) (nsmap : NsMap) (nillable derived mixed : Bool)
  | wildcard (var : XmlVar) (attrs : List (QN × Str)) (nsmap : NsMap)
  | skip
  | wrapper (qname : QN)

abbrev Objs := List (Option QN × Val)

/-- mutable state of an `ElementNode` while its children are visited -/
structure ElState where
  assigned : List Nat := []
  wrappers : List (QN × List QN) := []

/-- `ElementNode.build_element_node` : `ok none` = the method returned `None` -/
def buildElementNode (Γ : Ctx) (pns : Option Str) (clazz : ClassId) (derived nillable : Bool)
    (attrs : List (QN × Str))
    (nsmap : NsMap) (derivedFactory : Bool) (xsiType : Option QN) (xsiNil : Option Bool) :
    Except Err (Option Node) := do
  let m ← Γ.fetch clazz pns xsiType
  let nillable := nillable || m.nillable
  match xsiNil with
  | some n => if nillable ≠ n then return none
  | none => pure ()
  let derived := if xsiType.isSome && !derived && !Γ.isSubclass m.clazz clazz then true else derived
  return some (.element m attrs nsmap (derivedFactory && derived) xsiType xsiNil)

/-- `ElementNode.build_node` -/
def buildNode (e : BEnv) (Γ : Ctx) (pmeta : XmlMeta) (qname : QN) (var : XmlVar)
    (attrs : List (QN × Str)) (nsmap : NsMap) : Except Err (Option Node) := do
  if var.isClazzUnion then throw (.unsupported "union node")
  let xt ← xsiTypeOf e attrs nsmap
  let xn := xsiNilOf attrs
  match var.clazz with
  | some c => buildElementNode Γ pmeta.namespace c false var.nillable attrs nsmap true xt xn
  | none =>
    if !var.anyType && !var.isWildcard then return some (.primitive pmeta var nsmap (xn = some true))
    let datatype := xt.bind fun q => (Γ.datatypes.find? (·.1 = q)).map (·.2)
    let derived := var.isWildcard
    match datatype with
    | some none => throw (.unsupported "datatype outside the fragment")
    | some (some dt) => return some (.standard var dt nsmap var.nillable derived pmeta.mixedContent)
    | none =>
      let clazz1 := xt.bind Γ.findType
      let node1 ← match clazz1 with
        | some c => buildElementNode Γ pmeta.namespace c derived var.nillable attrs nsmap true xt xn
        | none => pure none
      match node1 with
      | some n => return some n
      | none =>
        let clazz2 := if var.processContents ≠ "skip".toList then Γ.findType qname else clazz1
        let node2 ← match clazz2 with
          | some c => buildElementNode Γ pmeta.namespace c false var.nillable attrs nsmap false xt xn
          | none => pure none
        match node2 with
        | some n => return some n
        | none => return some (.wildcard var attrs nsmap)

/-- `ElementNode.child` : first var of `find_children` that yields a node -/
def childNode (e : BEnv) (Γ : Ctx) (cfg : ParserConfig) (m : XmlMeta) (st : ElState) (qname : QN)
    (attrs : List (QN × Str)) (nsmap : NsMap) (wrapper : Option QN) : Except Err (Node × ElState) :=
  let rec go : List XmlVar → Except Err (Node × ElState)
    | [] =>
      if cfg.failOnUnknownProperties then .error (.parser "Unknown property") else .ok (.skip, st)
    | var :: rest =>
      if wrapper.isSome && var.wrapperQName ≠ wrapper then go rest else
      let unique := if !var.isElement || var.listElement then 0 else var.index
      if unique = 0 || !st.assigned.contains unique then
        match buildNode e Γ m qname var attrs nsmap with
        | .error err => .error err
        | .ok none => go rest
        | .ok (some node) =>
          let assigned := if unique ≠ 0 then unique :: st.assigned else st.assigned
          let wrappers := match wrapper with
            | some w =>
              if st.wrappers.any (·.1 = qname) then
                st.wrappers.map (fun (k, ws) => if k = qname then (k, ws ++ [w]) else (k, ws))
              else st.wrappers ++ [(qname, [w])]
            | none => st.wrappers
          .ok (node, ⟨assigned, wrappers⟩)
      else go rest
  go (m.findChildren qname)

/-- `ElementNode.prepare_generic_value` -/
def prepareGeneric (qname : Option QN) (value : Val) : Except Err Val :=
  match qname with
  | none | some [] => .ok value
  | some q =>
    match value with
    | .obj .. | .any .. | .derived .. => .ok value        -- `is_model(value)`
    | .none => .ok (.any (some q) none none [] [])         -- `converter.serialize(None)` is None
    | .prim p => .ok (.any (some q) (some (serPrim p)) none [] [])
    | .list xs =>
      -- `" ".join(serialize(v))`
      let strs := xs.filterMap (fun v => match v with | .prim p => some (serPrim p) | _ => none)
      if strs.length ≠ xs.length then .error (.unsupported "generic list")
      else .ok (.any (some q) (some (" ".toList.intercalate strs)) none [] [])
    | .attrs _ => .error (.unsupported "generic dict")

/-- `ElementNode.bind_var` -/
def bindVar (params : Params) (var : XmlVar) (value : Val) : Bool × Params :=
  if var.init then
    if var.listElement then
      match params.get var.name with
      | some (.list items) => (true, params.set var.name (.list (items ++ [value])))
      | _ => (true, params.set var.name (.list [value]))
    else if !params.has var.name then (true, params.set var.name value)
    else (false, params)
  else (true, params)

/-- `ElementNode.bind_wild_var` -/
def bindWildVar (params : Params) (var : XmlVar) (qname : Option QN) (value : Val) :
    Except Err Params := do
  let value ← prepareGeneric qname value
  if var.listElement then
    match params.get var.name with
    | some (.list items) => return params.set var.name (.list (items ++ [value]))
    | _ => return params.set var.name (.list [value])
  else
    match params.get var.name with
    | some previous =>
      match previous with
      | .any none t tl a children => return params.set var.name (.any none t tl a (children ++ [value]))
      | _ => return params.set var.name (.any none none none [] [previous, value])
    | none => return params.set var.name value

/-- pop the first recorded wrapper for `qname` -/
def popWrapper (ws : List (QN × List QN)) (qname : Option QN) : Option QN × List (QN × List QN) :=
  match qname with
  | none => (none, ws)
  | some q =>
    match ws.find? (·.1 = q) with
    | some (_, w :: rest) => (some w, ws.map (fun (k, l) => if k = q then (k, rest) else (k, l)))
    | _ => (none, ws)

/-- `ElementNode.bind_object` : returns whether the object was assigned -/
def bindObject (m : XmlMeta) (ws : List (QN × List QN)) (params : Params) (qname : Option QN)
    (value : Val) : Except Err (Bool × Params × List (QN × List QN)) := do
  let (wrapper, ws') := popWrapper ws qname
  match qname with
  | none =>
    -- tail text of a child in non mixed content stays unassigned
    return (false, params, ws)
  | some q =>
    let rec go : List XmlVar → Except Err (Bool × Params)
      | [] => .ok (false, params)
      | var :: rest =>
        if wrapper.isSome && var.wrapperQName ≠ wrapper then go rest
        else if var.isWildcard then
          match bindWildVar params var (some q) value with
          | .ok p => .ok (true, p)
          | .error err => .error err
        else
          let (okk, p) := bindVar params var value
          if okk then .ok (true, p) else go rest
    let (b, p) ← go (m.findChildren q)
    return (b, p, ws')

/-- `ElementNode.bind_attrs` -/
def bindAttrs (e : BEnv) (cfg : ParserConfig) (m : XmlMeta) (attrs : List (QN × Str)) (nsmap : NsMap) :
    Except Err (Params × Nat) :=
  attrs.foldlM (fun (acc : Params × Nat) (kv : QN × Str) => do
    let (params, warns) := acc
    let (qname, value) := kv
    let direct := match m.findAttribute qname with
      | some var => if !params.has var.name then some var else none
      | none => none
    match direct with
    | some var =>
      let r ← parseVar e cfg var.toVarCore (some value) nsmap
      let warns := warns + (if r.warned then 1 else 0)
      if var.init then return (params.set var.name r.val, warns)
      else do validateFixed e.py var.toVarCore r.val; return (params, warns)
    | none =>
      -- control attributes stay out of the `Attributes` map: the parser has interpreted them and the
      -- serializer writes them itself
      if qname = xsiType || qname = xsiNil then return (params, warns) else
      match m.findAnyAttributes qname with
      | some var =>
        let cur := match params.get var.name with
          | some (.attrs a) => a
          | _ => []
        let v' := parseAnyAttribute value nsmap
        let cur' := if cur.any (·.1 = qname) then cur.map (fun (k, w) => if k = qname then (k, v') else (k, w))
                    else cur ++ [(qname, v')]
        return (params.set var.name (.attrs cur'), warns)
      | none =>
        if cfg.failOnUnknownAttributes && targetUri qname ≠ some xsiNs then
          throw (.parser "Unknown attribute")
        else return (params, warns)) ([], 0)

/-- `ElementNode.bind_text` -/
def bindText (e : BEnv) (cfg : ParserConfig) (m : XmlMeta) (xsiNil : Option Bool) (nsmap : NsMap)
    (params : Params) (text : Option Str) : Except Err (Bool × Params × Nat) :=
  match m.text with
  | none => .ok (false, params, 0)
  | some var =>
    let nil := xsiNil = some true
    if text.isNone && !nil then .ok (false, params, 0) else do
    -- an empty token list, not `None`: left to the field default
    if nil && (text.isNone || text = some []) && var.tokens then .ok (false, params, 0) else do
    let r ← if nil && (text.isNone || text = some []) then pure (⟨.none, false⟩ : Parsed)
            else parseVar e cfg var.toVarCore text nsmap
    let w := if r.warned then 1 else 0
    if var.init then return (true, params.set var.name r.val, w)
    else do validateFixed e.py var.toVarCore r.val; return (true, params, w)

/-- `ElementNode.bind_wild_text`; returns the new params and `tail_processed` -/
def bindWildText (e : BEnv) (var : XmlVar) (attrs : List (QN × Str)) (nsmap : NsMap) (params : Params)
    (text tail : Option Str) : Params × Bool :=
  let text := normalizeContent e.py text
  let tail := normalizeContent e.py tail
  if text.isNone && tail.isNone then (params, false) else
  let tv : Val := match text with
    | some t => .prim (.str t)
    | none => .none
  if var.listElement then
    match params.get var.name with
    | some (.list items) => (params.set var.name (.list (tv :: items)), false)
    | _ => (params.set var.name (.list [tv]), false)
  else
    let previous := params.get var.name
    let children := match previous with
      | some (.prim (.str [])) | some .none | none => []      -- `if previous:`
      | some p => [p]
    (params.set var.name (.any none text tail (parseAnyAttributes attrs nsmap) children), true)

/-- the result of parsing with warnings counted -/
structure Out where
  objs : Objs
  warns : Nat := 0

mutual

/-- parse the subtree `t` with the node that `start` created for it -/
def parseNode (e : BEnv) (Γ : Ctx) (cfg : ParserConfig) (node : Node) : Tree → Except Err Out
  | .node qname _ _ text children tail =>
    match node with
    | .skip => .ok ⟨[], 0⟩
    | .wrapper _ => .error (.unsupported "wrapper outside element")
    | .primitive pmeta var nsmap nil =>
      if !children.isEmpty then .error (.context "Primitive node doesn't support child nodes!") else do
      let r ← parseVar e cfg var.toVarCore text nsmap
      -- `PrimitiveNode.is_nil`: the empty element of a nillable `str` field is `""` unless it says
      -- `xsi:nil="true"`
      let isNil := var.nillable && (nil || !var.types.contains (.prim .str))
      let obj := match r.val with
        | .none => if !isNil then Val.prim (.str []) else Val.none
        | v => v
      let tl := if pmeta.mixedContent then normalizeContent e.py tail else none
      return ⟨[(some qname, obj)] ++ (match tl with | some t => [(none, .prim (.str t))] | none => []),
              if r.warned then 1 else 0⟩
    | .standard var dt nsmap nillable derived mixed =>
      if !children.isEmpty then .error (.context "StandardNode node doesn't support child nodes!") else do
      let r ← parseVar e cfg var.toVarCore text nsmap (types := some [.prim dt])
      let obj := match r.val with
        | .none => if !nillable then Val.prim (.str []) else Val.none
        | v => v
      let obj := if derived then Val.derived qname obj none else obj
      -- the tail is kept in mixed content, like `PrimitiveNode.bind`
      let tl := if mixed then normalizeContent e.py tail else none
      return ⟨[(some qname, obj)] ++ (match tl with | some t => [(none, .prim (.str t))] | none => []),
              if r.warned then 1 else 0⟩
    | .wildcard var attrs nsmap => do
      let sub ← parseWild e Γ cfg var children
      let kids := sub.objs.map (·.2)
      let attributes := parseAnyAttributes attrs nsmap
      let derived := qname ≠ var.qname
      let text := if !kids.isEmpty then normalizeContent e.py text else text
      let text := match text with
        | none => if !var.nillable then some [] else none
        | t => t
      let tail := normalizeContent e.py tail
      if tail.isSome || !attributes.isEmpty || !kids.isEmpty || var.isWildcard || derived then
        return ⟨[(some var.qname, .any (some qname) text tail attributes kids)], sub.warns⟩
      else
        return ⟨[(some var.qname, match text with | some t => .prim (.str t) | none => .none)], sub.warns⟩
    | .element m attrs nsmap derived xsiType xsiNil => do
      let (sub, st) ← parseKids e Γ cfg m {} none children
      let nil := xsiNil = some true
      let (objVal, left, tailProcessed, warns) ←
        if !nil || m.nillable then do
          let (params, w1) ← bindAttrs e cfg m attrs nsmap
          -- bind_content
          let wild := m.findAnyWildcard
          let mixedWild := match wild with | some w => w.mixed | none => false
          let (params, boundText, w2) ←
            match (if mixedWild then wild else none) with
            | some w => do
              let vals ← sub.objs.mapM (fun (q, v) => prepareGeneric q v)
              pure (params.set w.name (.list vals), false, 0)
            | none => do
              -- bind_objects
              let (params, _) ← sub.objs.foldlM (fun (acc : Params × List (QN × List QN)) (qv : Option QN × Val) => do
                  let (b, p, ws) ← bindObject m acc.2 acc.1 qv.1 qv.2
                  let _ := b
                  pure (p, ws)) (params, st.wrappers)
              let (bt, params, w) ← bindText e cfg m xsiNil nsmap params text
              pure (params, bt, w)
          let (params, tailProcessed) :=
            match boundText, wild with
            | false, some w => bindWildText e w attrs nsmap params text tail
            | _, _ => (params, false)
          let obj ← classFactory Γ m.clazz params
          pure (obj, ([] : Objs), tailProcessed, w1 + w2)
        else pure (Val.none, sub.objs, false, 0)
      let objVal := if derived then Val.derived qname objVal xsiType else objVal
      let tl := if !tailProcessed then normalizeContent e.py tail else none
      return ⟨left ++ [(some qname, objVal)] ++ (match tl with | some t => [(none, .prim (.str t))] | none => []),
              sub.warns + warns⟩

/-- children of a `WildcardNode` : every child is a `WildcardNode` for the same var -/
def parseWild (e : BEnv) (Γ : Ctx) (cfg : ParserConfig) (var : XmlVar) : List Tree → Except Err Out
  | [] => .ok ⟨[], 0⟩
  | (.node q a n t c tl) :: rest => do
    let o ← parseNode e Γ cfg (.wildcard var a n) (.node q a n t c tl)
    let r ← parseWild e Γ cfg var rest
    return ⟨o.objs ++ r.objs, o.warns + r.warns⟩

/-- children of an `ElementNode` (or, with `wrapper`, of a `WrapperNode` below it) -/
def parseKids (e : BEnv) (Γ : Ctx) (cfg : ParserConfig) (m : XmlMeta) (st : ElState) (wrapper : Option QN) :
    List Tree → Except Err (Out × ElState)
  | [] => .ok (⟨[], 0⟩, st)
  | (.node q a n t c tl) :: rest => do
    if wrapper.isNone && m.wrappers.any (·.1 = q) then
      -- `WrapperNode`: its children are created by the parent's `child(.., wrapper=q)`
      let (o, st') ← parseKids e Γ cfg m st (some q) c
      let (r, st'') ← parseKids e Γ cfg m st' wrapper rest
      return (⟨o.objs ++ r.objs, o.warns + r.warns⟩, st'')
    else
      let (node, st') ← childNode e Γ cfg m st q a n wrapper
      let o ← parseNode e Γ cfg node (.node q a n t c tl)
      let (r, st'') ← parseKids e Γ cfg m st' wrapper rest
      return (⟨o.objs ++ r.objs, o.warns + r.warns⟩, st'')

end

/-- `NodeParser.parse` with a target class, on the infoset of the document -/
def parseRoot (e : BEnv) (Γ : Ctx) (cfg : ParserConfig) (clazz : ClassId) : Tree → Except Err (Val × Nat)
  | .node q a n t c tl => do
    let xt ← xsiTypeOf e a n
    let m ← Γ.fetch clazz none xt
    let derived := !(xt.isNone || m.qname = q)
    let out ← parseNode e Γ cfg (.element m a n derived (if derived then xt else none) (xsiNilOf a))
      (.node q a n t c tl)
    match out.objs.getLast? with
    | some (_, .none) | none => throw (.parser "Failed to create target class")
    | some (_, v) => return (v, out.warns)

end Xs.Bind
