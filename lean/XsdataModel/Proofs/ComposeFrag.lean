/-
From the flat facts about a generated event list (`Proofs/WriterFlat.lean`: the binding layer's
abstract writer accepted it) and the lexical provenance of its events (`Proofs/GenLex.lean`) to the
hypotheses `eventsOK` / `eventsPlain` of the composed C03 theorems.
-/
import XsdataModel.Proofs.ComposeBridge
import XsdataModel.Proofs.WriterFlat
import XsdataModel.Proofs.GenLex

namespace Proofs.ComposeFrag
open Py Xs.Ns Xs.Writer Spec.XmlNs Spec.EventTree Spec.Hyps Spec.BindLex Xs.Compose
open Proofs.EventsTree Proofs.WriterFlat Proofs.GenLex

/-- what the lexical lemmas need from the constant tables -/
structure EnvLex (env : NsEnv) : Prop where
  xsiType : env.xsiType = Xs.Bind.xsiType
  dataTypes : ∀ s, isDataTypeQName env s = true → qnameTextOK s = true

/-- an event whose values need no namespace context (cf. `plainContent`) -/
def plainEv : Ev → Bool
  | .start q => (clark q).isSome
  | .attr q v => plainAttr (q, v)
  | .data v => (valText v).isSome
  | _ => true

theorem convEvs_mem : ∀ (evs : List Xs.Bind.Ev) (es : List Ev), convEvs evs = some es →
    ∀ ev' ∈ es, ∃ ev ∈ evs, convEv ev = some ev' := by
  intro evs
  induction evs with
  | nil => intro es h ev' hev; simp [convEvs] at h; subst h; cases hev
  | cons x r ih =>
    intro es h ev' hev
    simp only [convEvs] at h
    cases hx : convEv x with
    | none => rw [hx] at h; simp at h
    | some x' =>
      cases hr : convEvs r with
      | none => rw [hx, hr] at h; simp at h
      | some r' =>
        rw [hx, hr] at h
        simp only [Option.some.injEq] at h
        subst h
        rcases List.mem_cons.mp hev with rfl | hm
        · exact ⟨x, by simp, hx⟩
        · obtain ⟨ev, hev1, hev2⟩ := ih r' hr ev' hm
          exact ⟨ev, List.mem_cons_of_mem _ hev1, hev2⟩

/-- the items of a converted token list are the strings of the payload -/
theorem convItems_strs (f : Str → Bool) (g : Xs.Bind.PVal → Bool)
    (hg : ∀ p, g p = true → ∃ s, p = .str s ∧ f s = true) :
    ∀ (ds : List Xs.Bind.Data) (as : List Atom), convItems ds = some as →
    ds.all (itemLex g) = true →
    ∀ a ∈ as, ∃ s, a = .str s ∧ f s = true := by
  intro ds
  induction ds with
  | nil => intro as h _ a ha; simp [convItems] at h; subst h; cases ha
  | cons d r ih =>
    intro as h hall a ha
    simp only [List.all_cons, Bool.and_eq_true] at hall
    simp only [convItems] at h
    cases hd : convItem d with
    | none => rw [hd] at h; simp at h
    | some a0 =>
      cases hr : convItems r with
      | none => rw [hd, hr] at h; simp at h
      | some r' =>
        rw [hd, hr] at h
        simp only [Option.some.injEq] at h
        subst h
        rcases List.mem_cons.mp ha with rfl | hm
        · cases d with
          | prim p =>
            simp only [convItem, Option.some.injEq] at hd
            obtain ⟨s, hp, hf⟩ := hg p hall.1
            subst hp
            exact ⟨s, by rw [← hd]; rfl, hf⟩
          | none => simp [convItem] at hd
          | list xs => simp [convItem] at hd
        · exact ih r' hr hall.2 a hm

theorem atomsText_strs : ∀ (as : List Atom), (∀ a ∈ as, ∃ s, a = Atom.str s) →
    ∃ ss, atomsText as = some ss ∧ ss.length = as.length ∧ ∀ s ∈ ss, Atom.str s ∈ as := by
  intro as
  induction as with
  | nil => intro _; exact ⟨[], rfl, rfl, by intro s hs; cases hs⟩
  | cons a r ih =>
    intro h
    obtain ⟨s, hs⟩ := h a (by simp)
    subst hs
    obtain ⟨ss, h1, h2, h3⟩ := ih (fun x hx => h x (List.mem_cons_of_mem _ hx))
    exact ⟨s :: ss, by simp [atomsText, atomText, h1], by simp [h2],
      by intro x hx
         rcases List.mem_cons.mp hx with rfl | hx
         · simp
         · exact List.mem_cons_of_mem _ (h3 x hx)⟩

theorem join_head : ∀ (ss : List Str), (∀ s ∈ ss, s.head? ≠ some '{') → (joinStr [' '] ss).head? ≠ some '{' := by
  intro ss
  induction ss with
  | nil => intro _; simp [joinStr]
  | cons x r ih =>
    intro h
    cases r with
    | nil => simpa [joinStr] using h x (by simp)
    | cons y t =>
      simp only [joinStr]
      cases x with
      | nil => simp
      | cons c cs =>
        have := h (c :: cs) (by simp)
        simpa using this

theorem data_facts (d : Xs.Bind.Data) (v : Val) (hl : dataLex d = true) (hc : convData d = some v) :
    dataValOK v = true ∧ valNoNs v = true ∧ (valText v).isSome = true := by
  cases d with
  | none => simp [convData] at hc; subst hc; exact ⟨rfl, rfl, rfl⟩
  | prim p =>
    cases p with
    | str s =>
      simp [convData, convPrim] at hc; subst hc
      exact ⟨by simpa [dataLex, pLexD, dataValOK, Spec.Hyps.valOK, atomOK] using hl, rfl, rfl⟩
    | int i => simp [dataLex, pLexD] at hl
    | bool b => simp [dataLex, pLexD] at hl
    | qname t => simp [dataLex, pLexD] at hl
  | list ds =>
    simp only [convData] at hc
    cases hi : convItems ds with
    | none => rw [hi] at hc; simp at hc
    | some as =>
      rw [hi] at hc
      simp only [Option.map_some, Option.some.injEq] at hc
      subst hc
      have hstr := convItems_strs xmlChars pLexD (by
        intro p hp
        cases p with
        | str s => exact ⟨s, rfl, hp⟩
        | int i => simp [pLexD] at hp
        | bool b => simp [pLexD] at hp
        | qname t => simp [pLexD] at hp) ds as hi (by simpa [dataLex] using hl)
      refine ⟨?_, ?_, ?_⟩
      · simp only [dataValOK, Spec.Hyps.valOK, List.all_eq_true]
        intro a ha
        obtain ⟨s, rfl, hs⟩ := hstr a ha
        exact hs
      · simp only [valNoNs, List.all_eq_true]
        intro a ha
        obtain ⟨s, rfl, _⟩ := hstr a ha
        rfl
      · obtain ⟨ss, h1, _, _⟩ := atomsText_strs as (fun a ha => by obtain ⟨s, hs, _⟩ := hstr a ha; exact ⟨s, hs⟩)
        cases as with
        | nil => rfl
        | cons a t => simp [valText, h1]

theorem xsiType_name : (match clark Xs.Bind.xsiType with
    | some n => attrNameOK none n
    | none => false) = true := by decide +kernel


theorem attr_facts (env : NsEnv) (he : EnvLex env) (dflt : Option Str) (q : Str) (d : Xs.Bind.Data) (v : Val)
    (hq : q ≠ Xs.Bind.xsiType) (hn : attrNameLex q = true) (hl : attrDataLex d = true)
    (hc : convData d = some v) (hv : hasValue v = true) :
    attrOK env dflt (q, v) = true ∧ plainAttr (q, v) = true := by
  have hname : (match clark q with
      | some n => attrNameOK dflt n
      | none => false) = true := by
    simp only [attrNameLex, Bool.and_eq_true] at hn
    exact hn.1
  have hclark : (clark q).isSome = true := by
    cases hcq : clark q with
    | none => rw [hcq] at hname; cases hname
    | some n => rfl
  have hqe : q ≠ env.xsiType := by rw [he.xsiType]; exact hq
  cases d with
  | none => simp [convData] at hc; subst hc; cases hv
  | prim p =>
    cases p with
    | str s =>
      simp [convData, convPrim] at hc; subst hc
      simp only [attrDataLex, pLexA, attrStrLex, Bool.and_eq_true, bne_iff_ne, ne_eq] at hl
      have hx : xsiTypeValue env q (.atom (.str s)) = .atom (.str s) := by
        simp [xsiTypeValue, hl.2]
      refine ⟨?_, ?_⟩
      · simp only [attrOK, hx, Spec.Hyps.valOK, atomOK, hl.1, hasValue, Bool.and_true]
        exact hname
      · simp only [plainAttr, hclark, valText, atomText, Option.map_some, Bool.true_and, bne_iff_ne, ne_eq]
        exact hl.2
    | int i => simp [attrDataLex, pLexA] at hl
    | bool b => simp [attrDataLex, pLexA] at hl
    | qname t => simp [attrDataLex, pLexA] at hl
  | list ds =>
    simp only [convData] at hc
    cases hi : convItems ds with
    | none => rw [hi] at hc; simp at hc
    | some as =>
      rw [hi] at hc
      simp only [Option.map_some, Option.some.injEq] at hc
      subst hc
      have hstr := convItems_strs attrStrLex pLexA (by
        intro p hp
        cases p with
        | str s => exact ⟨s, rfl, hp⟩
        | int i => simp [pLexA] at hp
        | bool b => simp [pLexA] at hp
        | qname t => simp [pLexA] at hp) ds as hi (by simpa [attrDataLex] using hl)
      have hx : xsiTypeValue env q (.list as) = .list as := rfl
      refine ⟨?_, ?_⟩
      · simp only [attrOK, hx, hv, Bool.and_true, Bool.and_eq_true]
        refine ⟨hname, ?_⟩
        simp only [Spec.Hyps.valOK, List.all_eq_true]
        intro a ha
        obtain ⟨s, rfl, hs⟩ := hstr a ha
        exact attrStrLex_xml hs
      · obtain ⟨ss, h1, _, h3⟩ := atomsText_strs as (fun a ha => by obtain ⟨s, hs, _⟩ := hstr a ha; exact ⟨s, hs⟩)
        cases as with
        | nil => cases hv
        | cons a t =>
          simp only [plainAttr, hclark, valText, h1, Option.map_some, Bool.true_and, bne_iff_ne, ne_eq]
          apply join_head
          intro s hs
          obtain ⟨s', hs', hf⟩ := hstr _ (h3 s hs)
          cases hs'
          simp only [attrStrLex, Bool.and_eq_true, bne_iff_ne, ne_eq] at hf
          exact hf.2

/-- one event: lexically sound as a writer event; plain unless it is an `xsi:type` attribute -/
theorem ev_facts (env : NsEnv) (he : EnvLex env) (dflt : Option Str) (s : Bool) (ev : Xs.Bind.Ev) (ev' : Ev)
    (hl : bevLex s ev = true) (hc : convEv ev = some ev')
    (hv : ∀ q v, ev' = .attr q v → hasValue v = true) :
    evLexOK env dflt ev' = true ∧ (∀ v, ev' = .data v → valNoNs v = true) ∧ (s = true → plainEv ev' = true) := by
  cases ev with
  | start q =>
    simp [convEv] at hc; subst hc
    refine ⟨hl, (by intro v h; cases h), fun _ => ?_⟩
    simp only [bevLex, elemNameOK] at hl
    simp only [plainEv]
    cases hcq : clark q with
    | none => rw [hcq] at hl; cases hl
    | some n => rfl
  | «end» q =>
    simp [convEv] at hc; subst hc
    exact ⟨rfl, (by intro v h; cases h), fun _ => rfl⟩
  | data d =>
    simp only [convEv] at hc
    cases hd : convData d with
    | none => rw [hd] at hc; simp at hc
    | some v =>
      rw [hd] at hc
      simp only [Option.map_some, Option.some.injEq] at hc
      subst hc
      obtain ⟨h1, h2, h3⟩ := data_facts d v hl hd
      exact ⟨h1, (by intro v' h; cases h; exact h2), fun _ => h3⟩
  | attr q d =>
    simp only [convEv] at hc
    cases hd : convData d with
    | none => rw [hd] at hc; simp at hc
    | some v =>
      rw [hd] at hc
      simp only [Option.map_some, Option.some.injEq] at hc
      subst hc
      have hval := hv q v rfl
      simp only [bevLex] at hl
      by_cases hq : q = Xs.Bind.xsiType
      · simp only [hq, if_true, Bool.and_eq_true, Bool.not_eq_true'] at hl
        obtain ⟨hs, hl⟩ := hl
        refine ⟨?_, (by intro v' h; cases h), fun h => by rw [hs] at h; cases h⟩
        cases d with
        | prim p =>
          cases p with
          | qname t =>
            simp [convData, convPrim] at hd; subst hd
            subst hq
            have hx : xsiTypeValue env Xs.Bind.xsiType (.atom (.qname t)) = .atom (.qname t) := rfl
            simp only [evLexOK, attrOK, hx, Spec.Hyps.valOK, atomOK, hasValue, Bool.and_true, Bool.and_eq_true]
            exact ⟨xsiType_name, hl⟩
          | str s => cases hl
          | int i => cases hl
          | bool b => cases hl
        | none => cases hl
        | list ds => cases hl
      · simp only [hq, if_false, Bool.and_eq_true] at hl
        obtain ⟨h1, h2⟩ := attr_facts env he dflt q d v hq hl.1 hl.2 hd hval
        exact ⟨h1, (by intro v' h; cases h), fun _ => h2⟩

theorem lateOK_of_noNs : ∀ (es : List Ev), (∀ v, Ev.data v ∈ es → valNoNs v = true) → ∀ b, lateOK b es = true := by
  intro es
  induction es with
  | nil => intro _ b; rfl
  | cons x r ih =>
    intro h b
    have hr := ih (fun v hv => h v (List.mem_cons_of_mem _ hv))
    cases x with
    | data v => simp only [lateOK, Bool.and_eq_true]; exact ⟨by simp [h v (by simp)], hr false⟩
    | start q => simp only [lateOK]; exact hr true
    | attr q v => simp only [lateOK]; exact hr true
    | end_ q => simp only [lateOK]; exact hr false
    | unknown => simp only [lateOK]; exact hr false

/-- flat facts + lexical provenance give the hypotheses of the composed theorems -/
theorem frag_eventsOK (env : NsEnv) (he : EnvLex env) (dflt : Option Str) (s : Bool)
    (evs : List Xs.Bind.Ev) (es : List Ev) (hf : Flat false evs es) (hl : AllLex s evs) :
    eventsOK env dflt es = true ∧ (s = true → es.all plainEv = true) := by
  have key : ∀ ev' ∈ es, evLexOK env dflt ev' = true ∧ (∀ v, ev' = .data v → valNoNs v = true) ∧
      (s = true → plainEv ev' = true) := by
    intro ev' hev'
    obtain ⟨ev, hev, hc⟩ := convEvs_mem evs es hf.conv ev' hev'
    exact ev_facts env he dflt s ev ev' (hl ev hev) hc (by intro q v h; subst h; exact hf.valued q v hev')
  refine ⟨?_, fun hs => List.all_eq_true.mpr (fun ev' hev' => (key ev' hev').2.2 hs)⟩
  simp only [eventsOK, Bool.and_eq_true]
  refine ⟨⟨List.all_eq_true.mpr (fun ev' hev' => (key ev' hev').1), hf.follow⟩, ?_⟩
  exact lateOK_of_noNs es (fun v hv => (key _ hv).2.1 v rfl) false

end Proofs.ComposeFrag
