"""C03 oracles and known-finding replays — the property evaluated on the REAL
code only (no Lean model involved).

Oracle `c03.events`: for a structurally valid event list (START ATTR*
(DATA|element)* END, NCName local names) and any user prefix map, both writers
either raise SerializerError/XmlWriterError or produce a document that expat
and lxml both accept and whose infoset is the harness's own reading of the
events (QName values resolved against the namespaces in scope in the output).

Oracle `c03.object`: the same for dataclass instances, the expected tree being
computed from a declarative description of the binding model by the rules the
xsdata documentation gives (c03_models.py).
"""
import copy
import re
from xml.parsers import expat

from lxml import etree as LET

from framework import Oracle
from props import c03_support as S
from props.c03_gen import HAND, PLAIN_URIS, SAFE_MAPS, USER_MAPS, rand_cfg, rand_events, rand_map
from xsdata.exceptions import SerializerError, XmlWriterError
from xsdata.formats.dataclass.serializers.writers import LxmlEventWriter, XmlEventWriter
from xsdata.models.enums import DataType, Namespace

XSI, XS, XMLNS, XMLNS_NS = S.XSI, S.XS, S.XMLNS, S.XMLNS_NS
STANDARD = {ns.prefix: ns.uri for ns in Namespace}
DATATYPE_QNAMES = {str(dt) for dt in DataType}
WRITERS = {"native": XmlEventWriter, "lxml": LxmlEventWriter}


# ------------------------------------------------------------------ expected tree (liberal reading)
class NotJudged(Exception):
    pass


def _exp_atom(a):
    if isinstance(a, dict):
        t = a["q"]
        if not t:
            raise NotJudged("empty QName")
        if t.startswith("{"):
            n = S.clark(t)
            if n is None:
                raise NotJudged("QName text not in Clark notation")
            return ("Q", n[0], n[1])
        return ("Q", None, t)
    if a is True:
        return "true"
    if a is False:
        return "false"
    if isinstance(a, int):
        return str(a)
    return a


def _exp_val(v):
    """None | str | ("Q", uri, local) | ("L", [atoms])"""
    if v is None:
        return None
    if isinstance(v, list):
        if not v:
            return None
        atoms = [_exp_atom(x) for x in v]
        if all(isinstance(x, str) for x in atoms):
            return " ".join(atoms)
        return ("L", atoms)
    return _exp_atom(v)


def expected_tree(events, cfg):
    """Independent reading of an event list: element structure from START/END,
    attributes from the ATTR events that follow a START (later assignment to the
    same name wins), character content = the DATA values in order, xsi:nil kept
    only on an element without content, xsi:type given in Clark notation is a
    QName.  Raises NotJudged for lists no serializer run can produce."""
    n = len(events)

    def element(i, attrs):
        e = events[i]
        if not (len(e) == 2 and e[0] == "start" and isinstance(e[1], str)):
            raise NotJudged("start expected")
        q = e[1]
        name = S.clark(q)
        if name is None:
            raise NotJudged("element name")
        i += 1
        while i < n and events[i][0] == "attr" and len(events[i]) == 3:
            an = S.clark(events[i][1])
            raw = events[i][2]
            if an is None:
                raise NotJudged("attribute name")
            av = _exp_val(raw)
            if av is None:
                raise NotJudged("attribute without value")
            if isinstance(raw, str) and raw.startswith("{"):
                if events[i][1] == S.XSI_TYPE:
                    c = S.clark(raw)
                    if c is None:
                        raise NotJudged("xsi:type value")
                    av = ("Q", c[0], c[1])
                elif raw in DATATYPE_QNAMES:
                    av = ("ANYOF", raw, ("Q", XS, raw.split("}")[1]))
            for a in attrs:
                if (a[0], a[1]) == an:
                    a[2] = av
                    break
            else:
                attrs.append([an[0], an[1], av])
            i += 1
        kids = []
        nil_seen_none_first = False
        content = False
        first = True
        while True:
            if i >= n:
                raise NotJudged("unterminated")
            e = events[i]
            if e[0] == "data" and len(e) == 2:
                v = _exp_val(e[1])
                if first and v is None:
                    nil_seen_none_first = True
                if v is not None:
                    content = True
                    if v != "":
                        kids.append(["t", v])
                first = False
                i += 1
            elif e[0] == "start" and len(e) == 2:
                child, i = element(i, [])
                kids.append(child)
                content = True
                first = False
            elif e[0] == "end" and len(e) == 2:
                if e[1] != q:
                    raise NotJudged("end mismatch")
                has_nil = any((a[0], a[1]) == (XSI, "nil") for a in attrs)
                if content:
                    if has_nil and nil_seen_none_first:
                        raise NotJudged("xsi:nil with a None text followed by content")
                    attrs = [a for a in attrs if (a[0], a[1]) != (XSI, "nil")]
                return ["e", name[0], name[1], attrs, kids], i + 1
            else:
                raise NotJudged("unexpected event")

    if not events:
        raise NotJudged("empty")
    root_attrs = [[u, l, v] for u, l, v in S._cfg_root_attrs(cfg)]
    node, i = element(0, root_attrs)
    if i != n:
        raise NotJudged("events after the document element")
    return node


# ------------------------------------------------------------------ parse with scopes
def parse_scoped(text):
    """expat reading that also records the namespace bindings in scope of every
    element: ["e", ns, local, attrs, kids, scope]"""
    p = expat.ParserCreate(namespace_separator=S._SEP)
    p.ordered_attributes = True
    p.buffer_text = True
    root = []
    stack = []
    scope = [{}]
    pending = {}

    def split(name):
        if S._SEP in name:
            u, l = name.split(S._SEP, 1)
            return [u, l]
        return [None, name]

    def ns_start(prefix, uri):
        pending[prefix] = uri or ""

    def start(name, attrs):
        sc = dict(scope[-1])
        sc.update(pending)
        pending.clear()
        scope.append(sc)
        u, l = split(name)
        node = ["e", u, l, [split(attrs[i]) + [attrs[i + 1]] for i in range(0, len(attrs), 2)], [], sc]
        (stack[-1][4] if stack else root).append(node)
        stack.append(node)

    def end(name):
        stack.pop()
        scope.pop()

    def chars(s):
        if stack:
            kids = stack[-1][4]
            if kids and kids[-1][0] == "t":
                kids[-1][1] += s
            else:
                kids.append(["t", s])

    p.StartNamespaceDeclHandler = ns_start
    p.StartElementHandler = start
    p.EndElementHandler = end
    p.CharacterDataHandler = chars
    p.Parse(text.encode("utf-8"), True)
    return root[0]


def _resolve(s, scope):
    """XSD QName resolution of a lexical QName in a namespace scope"""
    if ":" in s:
        p, l = s.split(":", 1)
        if p == "xml":
            return (XMLNS, l)
        u = scope.get(p)
        if not u:
            return ("UNBOUND:" + p, l)
        return (u, l)
    return (scope.get(None) or None, s)


def _parts(exp):
    """an expected value as a sequence of literal pieces and QNames"""
    if isinstance(exp, str):
        return [("lit", exp)]
    if exp[0] == "Q":
        return [("q", exp[1], exp[2])]
    if exp[0] == "L":
        out = []
        for k, a in enumerate(exp[1]):
            if k:
                out.append(("lit", " "))
            out.extend(_parts(a))
        return out
    if exp[0] == "CAT":
        return _parts(exp[1]) + _parts(exp[2])
    raise ValueError(exp)


# deviations a known finding predicts (switched on only while a failure is being explained)
TOL = set()
TOL_DEFAULT = [None]
TOL_LATE = set()        # namespaces of late QName values (native writer only)


def _qname_forms(uri, local, scope):
    """the lexical QNames that resolve to (uri, local) in this scope"""
    forms = []
    if (scope.get(None) or None) == uri:
        forms.append(local)
    elif "c03-qname-default-ns" in TOL and uri is None:
        forms.append(local)          # written bare although a default namespace is in scope
    elif "c03-qname-default-reset" in TOL and uri is not None and uri == TOL_DEFAULT[0] and not scope.get(None):
        forms.append(local)          # written bare, then the default namespace was reset
    for p, u in scope.items():
        if p is not None and u and u == uri:
            forms.append(p + ":" + local)
    if uri == XMLNS:
        forms.append("xml:" + local)
    return forms


def _match_parts(actual, parts, scope):
    """None when `actual` is the concatenation of the literal pieces and, for each QName,
    some lexical form that resolves to it in `scope` (backtracking over the forms)"""
    if not parts:
        return None if actual == "" else "text has the extra tail %r" % actual
    head, rest = parts[0], parts[1:]
    if head[0] == "lit":
        if not actual.startswith(head[1]):
            return "text %r does not continue with the literal %r" % (actual, head[1])
        return _match_parts(actual[len(head[1]):], rest, scope)
    forms = _qname_forms(head[1], head[2], scope)
    if "c03-qname-late-prefix" in TOL and head[1]:
        mm = re.match(r"([A-Za-z_][\w.\-]*):" + re.escape(head[2]), actual)
        if mm and mm.group(1) not in scope:
            forms = forms + [mm.group(0)]   # a generated or standard prefix that was never declared
    last = "no prefix in scope is bound to %r for QName {%s}%s at %r" % (head[1], head[1], head[2], actual[:40])
    for f in sorted(forms, key=len, reverse=True):
        if actual.startswith(f):
            m = _match_parts(actual[len(f):], rest, scope)
            if m is None:
                return None
            last = m
    if forms and not any(actual.startswith(f) for f in forms):
        tok = re.split(r"[ <]", actual, 1)[0]
        last = "QName %r resolves to %r in scope, expected %r" % (tok, _resolve(tok, scope) if tok else None, (head[1], head[2]))
    return last


def _match_value(actual, exp, scope):
    if isinstance(exp, str):
        return None if actual == exp else "value %r, expected %r" % (actual, exp)
    if exp[0] == "ANYOF":
        if actual == exp[1]:
            return None
        return _match_parts(actual, _parts(exp[2]), scope)
    return _match_parts(actual, _parts(exp), scope)


def _merge_text(kids):
    """adjacent expected text chunks; a chunk with QNames stays structured"""
    out = []
    for k in kids:
        if k[0] == "t" and out and out[-1][0] == "t":
            a, b = out[-1][1], k[1]
            if isinstance(a, str) and isinstance(b, str):
                out[-1] = ["t", a + b]
            else:
                out[-1] = ["t", ("CAT", a, b)]
        else:
            out.append(list(k))
    return out


def compare_tree(actual, exp, path="/"):
    """None when `actual` (scoped parse) denotes `exp`; else a description"""
    here = path + (exp[2] if exp[0] == "e" else "text()")
    if actual[0] != exp[0]:
        return "%s: node kind %s, expected %s" % (here, actual[0], exp[0])
    if (actual[1], actual[2]) != (exp[1], exp[2]):
        # c03-qname-late-prefix, native writer: the handler believes the namespace of a late QName value bound,
        # XMLGenerator never heard of the binding and writes a later element of that namespace with a stale prefix
        if not (exp[1] in TOL_LATE and actual[2] == exp[2]):
            return "%s: element name {%s}%s, expected {%s}%s" % (here, actual[1], actual[2], exp[1], exp[2])
    scope = actual[5]
    got = {(a[0], a[1]): a[2] for a in actual[3]}
    want = {(a[0], a[1]): a[2] for a in exp[3]}
    if TOL_LATE and set(got) != set(want):
        # (see the element name above) an attribute of such a namespace written with a stale prefix
        for k in [k for k in want if k[0] in TOL_LATE and k not in got]:
            stale = [g for g in got if g not in want and g[1] == k[1]]
            if len(stale) == 1:
                got[k] = got.pop(stale[0])
    if set(got) != set(want):
        return "%s: attribute names %s, expected %s" % (here, sorted(got, key=str), sorted(want, key=str))
    for k in want:
        m = _match_value(got[k], want[k], scope)
        if m:
            return "%s/@%s: %s" % (here, k[1], m)
    ekids = _merge_text(exp[4])
    akids = actual[4]
    if len(akids) != len(ekids):
        return "%s: %d child nodes %s, expected %d %s" % (here, len(akids), _brief(akids), len(ekids), _brief(ekids))
    for a, e in zip(akids, ekids):
        if e[0] == "t":
            if a[0] != "t":
                return "%s: element where text %r expected" % (here, e[1])
            v = e[1]
            m = _match_value(a[1], v, scope)
            if m:
                return "%s/text(): %s" % (here, m)
        else:
            if a[0] != "e":
                return "%s: text %r where element %s expected" % (here, a[1], e[2])
            m = compare_tree(a, e, here + "/")
            if m:
                return m
    return None


def _brief(kids):
    return [k[2] if k[0] == "e" else "#text" for k in kids]


# ------------------------------------------------------------------ judging one output
def judge_output(text, exp):
    """kind, detail — kind None when the text is a namespace-well-formed
    document denoting `exp`"""
    data = text.encode("utf-8")
    try:
        tree = parse_scoped(text)
    except expat.ExpatError as e:
        return "not-wf", "expat: %s in %r" % (e, text[:200])
    except IndexError:
        return "not-wf", "expat: no document element in %r" % text[:200]
    try:
        LET.fromstring(data, LET.XMLParser(**S._LXML_PARSER))
    except LET.XMLSyntaxError as e:
        return "not-wf", "lxml: %s in %r" % (e, text[:200])
    m = compare_tree(tree, exp)
    if m:
        return "infoset", "%s in %r" % (m, text[:300])
    return None, ""


def _runs(a):
    """(writer name, writer, configuration, only well-formedness?) for every run the oracle makes"""
    for wname, w in WRITERS.items():
        cfg = dict(a["cfg"])
        if wname == "lxml":
            cfg.pop("indent", None)
        elif cfg.get("indent"):
            continue  # indentation adds character data by design; checked for well-formedness below
        yield wname, w, cfg, False
    if a["cfg"].get("indent") and S.xml_chars(a["cfg"]["indent"]) and not a["cfg"]["indent"].strip(" \t\n\r"):
        yield "native", XmlEventWriter, a["cfg"], True


def _run(a, w, cfg):
    """("text", text) | ("declared", None) | ("leak", exception)"""
    try:
        return "text", S.run_writer(w, a["events"], a["ns_map"], cfg)
    except (SerializerError, XmlWriterError):
        return "declared", None
    except Exception as e:  # noqa: BLE001
        return "leak", e


def _failures(a):
    """every way the two writers fail on the input: (message, writer name, writer, cfg, kind, wf_only)"""
    try:
        exp = expected_tree(a["events"], a["cfg"])
    except NotJudged:
        return []
    out = []
    for wname, w, cfg, wf_only in _runs(a):
        how, r = _run(a, w, cfg)
        if how == "declared":
            continue
        if how == "leak":
            kind = "leak:%s" % type(r).__name__
            out.append(("writer=%s kind=%s %s%s" % (wname, kind, str(r)[:100], " (indent)" if wf_only else ""), wname, w, cfg, kind, wf_only))
            continue
        if wf_only:
            if S.parse_infoset(r) is None:
                out.append(("writer=native kind=not-wf indented output %r" % r[:200], wname, w, cfg, "not-wf", True))
            continue
        kind, detail = judge_output(r, exp)
        if kind:
            out.append(("writer=%s kind=%s %s" % (wname, kind, detail), wname, w, cfg, kind, False))
    return out


def _messages(a):
    return [f[0] for f in _failures(a)]


def check_events(a):
    """None, or a failure message: one that no known finding explains if there is such a one
    (a known defect of one writer must not hide an unknown one of the other)"""
    fails = _failures(a)
    if not fails:
        return None
    for f in fails:
        why = explain_failure(a, f)
        if why[0] is None:
            return f[0] + why[1]
    return fails[0][0]


# ------------------------------------------------------------------ known findings: predicates on the input
def user_map(pairs):
    """The prefix map the user asked for, read independently of the code:
    '' and None both name the default namespace (first one wins), entries with
    an empty URI mean nothing, a default namespace that also has a prefix is
    expressed through that prefix."""
    out = {}
    for p, u in pairs:
        if not u:
            continue
        k = p if p else None
        if k not in out:
            out[k] = u
    d = out.get(None)
    if d and any(k is not None and u == d for k, u in out.items()):
        del out[None]
    return out




def _texts(a, kinds=("attr", "data")):
    for e in a["events"]:
        if e[0] in kinds and len(e) >= 2:
            v = e[-1]
            for x in v if isinstance(v, list) else [v]:
                if isinstance(x, str):
                    yield e[0], x
                elif isinstance(x, dict):
                    yield e[0], x["q"]
    for k in ("schema_location", "no_ns"):
        if a["cfg"].get(k):
            yield "attr", a["cfg"][k]


def _uris(a):
    for e in a["events"]:
        if e[0] in ("start", "attr") and isinstance(e[1], str):
            c = S.clark(e[1])
            if c and c[0]:
                yield c[0]
        if e[0] in ("attr", "data"):
            v = e[-1]
            for x in v if isinstance(v, list) else [v]:
                if isinstance(x, dict):
                    c = S.clark(x["q"])
                    if c and c[0]:
                        yield c[0]
                elif e[0] == "attr" and isinstance(x, str) and x.startswith("{"):
                    c = S.clark(x)
                    if c and c[0]:
                        yield c[0]
    for u in user_map(a["ns_map"]).values():
        yield u


def _qname_atoms(v):
    for x in v if isinstance(v, list) else [v]:
        if isinstance(x, dict):
            yield x["q"]


def _py_ncname(p):
    """what `str.isalpha` / `str.isdigit` make of the NCName production (independent transcription)"""
    return bool(p) and (p[0].isalpha() or p[0] == "_") and all(c.isalpha() or c.isdigit() or c in "\u00b7\u0387.-_" for c in p[1:])


def p_prefix_unicode_ncname(a):
    """a user prefix with a non-ASCII character that Python counts as a letter or digit but the XML
    Name production does not (U+00AA, U+00B2 …): `is_ncname` accepts it, no document can declare it"""
    for p, _ in user_map(a["ns_map"]).items():
        if p is not None and not S.is_ncname(p) and _py_ncname(p) and any(ord(c) > 127 for c in p):
            return True
    return False


def p_nonxml_chars(a):
    """a character outside the XML Char production in a text, an attribute value or a namespace name"""
    return any(not S.xml_chars(s) for _, s in _texts(a)) or any(not S.xml_chars(u) for u in _uris(a))


def late_qname_namespaces(a):
    """namespaces of the QName values in DATA events that are not the first content event after their START"""
    out = set()
    prev = None
    for e in a["events"]:
        if e[0] == "data" and prev not in ("start", "attr"):
            for q in _qname_atoms(e[1]):
                if q.startswith("{"):
                    out.add(q[1:q.find("}")])
        prev = e[0]
    return out


def p_qname_late(a):
    """a QName value with a namespace in a DATA event that is not the first
    content event after its START (its prefix is created after the element's
    declarations were written)"""
    prev = None
    for e in a["events"]:
        if e[0] == "data" and prev not in ("start", "attr"):
            if any(q.startswith("{") for q in _qname_atoms(e[1])):
                return True
        prev = e[0]
    return False


def p_qname_default(a):
    if None not in user_map(a["ns_map"]):
        return False
    for e in a["events"]:
        if e[0] in ("attr", "data"):
            if any(q and not q.startswith("{") for q in _qname_atoms(e[-1])):
                return True
    return False


def p_qname_default_reset(a):
    """a QName value in the user's default namespace on an unqualified element:
    it is written without prefix and then the default namespace is reset"""
    d = user_map(a["ns_map"]).get(None)
    if not d:
        return False
    unqualified = False
    for e in a["events"]:
        if e[0] == "start":
            c = S.clark(e[1])
            unqualified = c is not None and c[0] is None
        elif e[0] == "end":
            unqualified = False
        elif e[0] in ("attr", "data") and unqualified:
            v = e[-1]
            for x in v if isinstance(v, list) else [v]:
                t = x["q"] if isinstance(x, dict) else (x if e[0] == "attr" and isinstance(x, str) and x.startswith("{") else None)
                if t:
                    c = S.clark(t)
                    if c and c[0] == d:
                        return True
    return False


# id -> (predicate, {writer: kinds})
KNOWN = {
    "c03-qname-default-reset": (p_qname_default_reset, {"native": ("infoset",), "lxml": ("infoset",)}),
    "c03-prefix-unicode-ncname": (p_prefix_unicode_ncname, {"native": ("not-wf",), "lxml": ("leak:ValueError",)}),
    "c03-nonxml-chars": (p_nonxml_chars, {"native": ("not-wf",), "lxml": ("leak:ValueError",)}),
    "c03-qname-late-prefix": (p_qname_late, {"native": ("leak:KeyError", "infoset", "not-wf"), "lxml": ("infoset",)}),
    "c03-qname-default-ns": (p_qname_default, {"native": ("infoset",), "lxml": ("infoset",)}),
}


# ---- counterfactuals: the input with the trait of one finding removed, everything else kept
def _map_values(a, f_attr, f_data):
    b = copy.deepcopy(a)
    prev = None
    for e in b["events"]:
        if e[0] == "attr" and len(e) >= 3:
            e[2] = f_attr(e[2], e, prev)
        elif e[0] == "data" and len(e) >= 2:
            e[1] = f_data(e[1], e, prev)
        prev = e[0]
    return b


def _each_atom(v, f):
    if isinstance(v, list):
        return [f(x) for x in v]
    return f(v)


def n_nonxml_chars(a):
    def clean(s):
        return "".join(c if S.xml_chars(c) else "_" for c in s)

    def atom(x):
        if isinstance(x, str):
            return clean(x)
        if isinstance(x, dict) and "q" in x:
            return {"q": clean(x["q"])}
        return x

    b = _map_values(a, lambda v, e, p: _each_atom(v, atom), lambda v, e, p: _each_atom(v, atom))
    for e in b["events"]:
        if e[0] in ("start", "end", "attr") and isinstance(e[1], str):
            e[1] = clean(e[1])
    b["ns_map"] = [[p, clean(u) if isinstance(u, str) else u] for p, u in b["ns_map"]]
    for k in ("schema_location", "no_ns"):
        if b["cfg"].get(k):
            b["cfg"][k] = clean(b["cfg"][k])
    return b


def n_prefix_unicode_ncname(a):
    b = copy.deepcopy(a)
    out = []
    for i, (p, u) in enumerate(b["ns_map"]):
        if isinstance(p, str) and p and not S.is_ncname(p) and _py_ncname(p) and any(ord(c) > 127 for c in p):
            p = "u%d" % i
        out.append([p, u])
    b["ns_map"] = out
    return b


def _local(t):
    return t[t.find("}") + 1:] if t.startswith("{") else t


def n_qname_late(a):
    def data(v, e, prev):
        if prev in ("start", "attr"):
            return v
        return _each_atom(v, lambda x: _local(x["q"]) if isinstance(x, dict) and "q" in x and x["q"].startswith("{") else x)

    return _map_values(a, lambda v, e, p: v, data)


def n_qname_default(a):
    def atom(x):
        return x["q"] if isinstance(x, dict) and "q" in x and x["q"] and not x["q"].startswith("{") else x

    return _map_values(a, lambda v, e, p: _each_atom(v, atom), lambda v, e, p: _each_atom(v, atom))


def n_qname_default_reset(a):
    d = user_map(a["ns_map"]).get(None)
    b = copy.deepcopy(a)
    unqualified = False
    for e in b["events"]:
        if e[0] == "start":
            c = S.clark(e[1])
            unqualified = c is not None and c[0] is None
        elif e[0] == "end":
            unqualified = False
        elif e[0] in ("attr", "data") and unqualified:
            def atom(x, attr=e[0] == "attr"):
                t = x["q"] if isinstance(x, dict) and "q" in x else (x if attr and isinstance(x, str) and x.startswith("{") else None)
                if t:
                    c = S.clark(t)
                    if c and c[0] == d:
                        return c[1]
                return x

            e[-1] = _each_atom(e[-1], atom)
    return b


NEUTRAL = {
    "c03-qname-default-reset": n_qname_default_reset,
    "c03-prefix-unicode-ncname": n_prefix_unicode_ncname,
    "c03-nonxml-chars": n_nonxml_chars,
    "c03-qname-late-prefix": n_qname_late,
    "c03-qname-default-ns": n_qname_default,
}


def _predicted(fid, a, b, f):
    """does the failure `f` of input `a` deviate from a correct run exactly as finding `fid` predicts?
    (`b`: the input without the trait).  None = yes, else what else is wrong."""
    _, wname, w, cfg, kind, wf_only = f
    if kind.startswith("leak:"):
        return None                    # no output to look at: the counterfactual has to do
    how, text = _run(a, w, cfg)
    if how != "text":
        return "the run is not reproducible"
    if kind == "infoset":
        # the document must be right up to the deviations that the findings whose trait the input has predict
        # (without this finding's deviation it must not be: that is the failure being explained)
        present = {g for g, (pred, _) in KNOWN.items() if pred(a)}
        TOL.update(present)
        TOL_DEFAULT[0] = user_map(a["ns_map"]).get(None)
        if "c03-qname-late-prefix" in present and wname == "native":
            TOL_LATE.update(late_qname_namespaces(a))
        try:
            k2, d2 = judge_output(text, expected_tree(a["events"], a["cfg"]))
        finally:
            TOL.clear()
            TOL_LATE.clear()
            TOL_DEFAULT[0] = None
        return None if k2 is None else "apart from what the findings %s predict: %s %s" % (sorted(present), k2, d2[:200])
    if kind == "not-wf" and fid == "c03-nonxml-chars":
        # the writer treats the characters as opaque: the text is that of the clean run, character by character
        cfgb = dict(cfg)
        for k in ("schema_location", "no_ns"):
            if b["cfg"].get(k):
                cfgb[k] = b["cfg"][k]
        howb, textb = _run(b, w, cfgb)
        clean = "".join(c if S.xml_chars(c) else "_" for c in text)
        return None if howb == "text" and clean == textb else "the text is not that of the run without the characters: %r vs %r" % (clean[:200], (textb or "")[:200])
    if kind == "not-wf" and fid == "c03-prefix-unicode-ncname":
        howb, textb = _run(b, w, cfg)
        t = text
        for (p, _), (p2, _) in zip(a["ns_map"], b["ns_map"]):
            if p != p2:
                t = t.replace(p, p2)
        return None if howb == "text" and t == textb else "the text is not that of the run with an ASCII prefix: %r vs %r" % (t[:200], (textb or "")[:200])
    return None


def explain_failure(a, f, depth=0):
    """(finding id, "") when a known finding explains the failure `f` of input `a`:
    * the input has the finding's trait and the failure is of a kind the finding produces on that writer,
    * the output deviates from a correct one exactly as the finding predicts (`_predicted`),
    * the same input without the trait passes, or fails only in ways known findings explain;
    otherwise (None, note)."""
    msg, wname, w, cfg, kind, wf_only = f
    note = ""
    for fid, (pred, where) in KNOWN.items():
        if kind in where.get(wname, ()) and pred(a):
            b = NEUTRAL[fid](a)
            if pred(b):
                note = " [counterfactual of %s still has the trait]" % fid
                continue
            other = _predicted(fid, a, b, f)
            if other:
                note = " [%s does not explain it: %s]" % (fid, other)
                continue
            bad = [r for r in _failures(b) if depth >= 4 or explain_failure(b, r, depth + 1)[0] is None]
            if not bad:
                return fid, ""
            note = " [without the trait of %s (ns_map=%r, events=%r) it still fails: %s]" % (fid, b["ns_map"], b["events"], bad[0][0][:200])
    return None, note


def covered_events(a, msg):
    for f in _failures(a):
        if f[0] == msg or msg.startswith(f[0]):
            return explain_failure(a, f)[0]
    return None


def gen_oracle_events(rng, tier):
    for ev, m, cfg in HAND:
        yield {"events": ev, "ns_map": m, "cfg": cfg}
    n = 1500 if tier == "quick" else 20000
    for _ in range(n):
        r = rng.random()
        ev = rand_events(rng, hostile=r < 0.05, messy=0.05 <= r < 0.1)
        m = [list(x) for x in rng.choice(SAFE_MAPS)] if rng.random() < 0.8 else rand_map(rng)
        yield {"events": ev, "ns_map": m, "cfg": rand_cfg(rng)}


EVENT_OPS = ("writer.native", "writer.sax", "writer.lxml", "writer.events_tree")

ORACLES = [
    Oracle("c03.events", gen_oracle_events, check_events, covered=covered_events, from_ops=EVENT_OPS),
]


# ------------------------------------------------------------------ known findings: replay on the real code (object level)
from dataclasses import dataclass, field  # noqa: E402
from typing import List, Optional  # noqa: E402
from xml.etree.ElementTree import QName  # noqa: E402

from xsdata.formats.dataclass.models.generics import AnyElement  # noqa: E402
from xsdata.formats.dataclass.serializers import XmlSerializer  # noqa: E402
from xsdata.formats.dataclass.serializers.config import SerializerConfig  # noqa: E402


@dataclass
class RootA:
    class Meta:
        name = "R"
        namespace = "urn:a"

    x: Optional[str] = field(default=None, metadata={"type": "Attribute", "namespace": "urn:a"})
    t: Optional[str] = field(default=None, metadata={"type": "Element"})
    q: Optional[QName] = field(default=None, metadata={"type": "Element"})


@dataclass
class Mixed:
    class Meta:
        name = "M"

    content: List[object] = field(default_factory=list, metadata={"type": "Wildcard", "namespace": "##any", "mixed": True})


def _render(obj, ns_map=None, writer=XmlEventWriter):
    ser = XmlSerializer(config=SerializerConfig(xml_declaration=False), writer=writer)
    try:
        return ser.render(obj, ns_map)
    except (SerializerError, XmlWriterError) as e:
        return "SERIALIZER-ERROR %s" % type(e).__name__
    except Exception as e:  # noqa: BLE001
        return "EXC %s" % type(e).__name__


def _tree(text):
    try:
        return parse_scoped(text)
    except Exception:  # noqa: BLE001
        return None


def f_prefix_unicode_ncname():
    outs = [_render(RootA(), {p: "urn:a"}) for p in ("\u00aa", "p\u00b2")]
    bad = all(not o.startswith(("EXC", "SERIALIZER-ERROR")) and S.parse_infoset(o) is None for o in outs)
    lx = _render(RootA(), {"\u00aa": "urn:a"}, LxmlEventWriter)
    return bad and lx == "EXC ValueError", "native: %s; lxml U+00AA: %s" % (" | ".join(outs), lx)


def f_nonxml_chars():
    out = _render(RootA(t="a\x01b"))
    lx = _render(RootA(t="a\x01b"), None, LxmlEventWriter)
    return "\x01" in out and S.parse_infoset(out) is None and lx == "EXC ValueError", "render(t='a\\x01b') -> native %r (not well-formed), lxml %s" % (out, lx)


def f_qname_late():
    obj = Mixed(content=[AnyElement(qname="B"), QName("{urn:x}y"), AnyElement(qname="{urn:x}C")])
    out = _render(obj)
    out2 = _render(Mixed(content=[AnyElement(qname="B"), QName("{urn:x}y")]))
    lx = _render(Mixed(content=[AnyElement(qname="B"), QName("{urn:x}y")]), None, LxmlEventWriter)
    bad = out == "EXC KeyError" and out2 == "<M><B/>ns0:y</M>" and lx == "<M><B/>ns0:y</M>"
    # third face: the later element is written with a stale (empty) prefix
    ev = [["start", "{urn:a}R"], ["start", "b"], ["start", "c"], ["end", "c"], ["data", {"q": "{urn:a}x"}],
          ["start", "{urn:a}a"], ["end", "{urn:a}a"], ["end", "b"], ["end", "{urn:a}R"]]
    out3 = S.run_writer(XmlEventWriter, ev, [["", "urn:a"]], {})
    bad = bad and out3 == '<R xmlns="urn:a"><b xmlns=""><c/>ns1:x<a/></b></R>'
    return bad, "render(M mixed [B, QName({urn:x}y), {urn:x}C]) -> %s; without C -> %s (prefix ns0 never declared; lxml the same); stale prefix: %s" % (out, out2, out3)


@dataclass
class Base:
    class Meta:
        name = "item"

    v: Optional[str] = field(default=None, metadata={"type": "Element"})


@dataclass
class Derived(Base):
    class Meta:
        name = "Derived"
        namespace = "urn:a"

    w: Optional[str] = field(default=None, metadata={"type": "Element", "namespace": ""})


@dataclass
class Holder:
    class Meta:
        name = "holder"
        namespace = "urn:a"

    item: Optional[Base] = field(default=None, metadata={"type": "Element", "namespace": ""})


def f_qname_default_reset():
    out = _render(Holder(item=Derived(v="1")), {None: "urn:a"})
    t = _tree(out)
    bad = False
    if t is not None and t[4] and t[4][0][0] == "e":
        item = t[4][0]
        ty = [a[2] for a in item[3] if (a[0], a[1]) == (XSI, "type")]
        bad = bool(ty) and _resolve(ty[0], item[5]) != ("urn:a", "Derived")
    return bad, "render(holder/item: Derived{urn:a} for a Base field, ns_map={None:'urn:a'}) -> %s (xsi:type resolves outside urn:a)" % out


def f_qname_default():
    out = _render(RootA(q=QName("plain")), {None: "urn:a"})
    return out == '<R xmlns="urn:a"><q>plain</q></R>', "render(q=QName('plain'), ns_map={None:'urn:a'}) -> %s (reads back as {urn:a}plain)" % out


FINDINGS = {
    "c03-prefix-unicode-ncname": f_prefix_unicode_ncname,
    "c03-nonxml-chars": f_nonxml_chars,
    "c03-qname-late-prefix": f_qname_late,
    "c03-qname-default-ns": f_qname_default,
    "c03-qname-default-reset": f_qname_default_reset,
}
