/- Helper lemmas: the `repr` computed by `Conv/FloatRepr.lean` has the shape `PyReprFinite`. -/
import XsdataModel.Conv.FloatRepr
import XsdataModel.Proofs.FloatL

namespace Xs.Conv
open Py Xs.Spec

theorem stripTrailingZeros_subset (ds : Str) : ∀ c ∈ stripTrailingZeros ds, c ∈ ds := by
  intro c hc
  unfold stripTrailingZeros at hc
  have h1 : c ∈ ds.reverse.dropWhile (· = '0') := by simpa using hc
  have h2 := (List.dropWhile_sublist (fun x => decide (x = '0'))).subset h1
  simpa using h2

theorem digitsOf_spec (D : Nat) : digitsOf D ≠ [] ∧ AllDigits (digitsOf D) := by
  unfold digitsOf
  simp only
  split
  · exact ⟨by simp, by intro c hc; simp at hc; subst hc; decide⟩
  · rename_i h
    refine ⟨by intro h0; rw [h0] at h; simp at h, ?_⟩
    intro c hc
    exact (natStr_spec D).1 c (stripTrailingZeros_subset _ c hc)

theorem shortestDigits_spec (m : Nat) (q : Int) :
    (shortestDigits m q).1 ≠ [] ∧ AllDigits (shortestDigits m q).1 := by
  unfold shortestDigits
  exact digitsOf_spec _

/-- the layout of `repr` on a non-empty digit string is a finite-repr shape -/
theorem reprLayout_shape (ds : Str) (decpt : Int) (hne : ds ≠ []) (hd : AllDigits ds) :
    ∃ (ip fp : Str) (ex : Option (Bool × Str)),
      reprLayout ds decpt = ip ++ ((if fp = [] then [] else '.' :: fp) ++ reprExp ex) ∧
      ip ≠ [] ∧ AllDigits ip ∧ AllDigits fp ∧ ReprExpOk ex := by
  unfold reprLayout
  simp only
  split
  · -- exponent notation
    have hea := natStr_spec (decpt - 1).natAbs
    have hexp : ReprExpOk (some (decide (decpt - 1 < 0),
        if (natStr (decpt - 1).natAbs).length < 2 then '0' :: natStr (decpt - 1).natAbs else natStr (decpt - 1).natAbs)) := by
      constructor
      · split <;> simp [hea.2.1]
      · split
        · intro c hc
          rcases List.mem_cons.mp hc with rfl | h
          · decide
          · exact hea.1 c h
        · exact hea.1
    cases ds with
    | nil => exact absurd rfl hne
    | cons d rest =>
      cases rest with
      | nil =>
        refine ⟨[d], [], _, ?_, by simp, hd, (by intro c hc; cases hc), hexp⟩
        simp only [reprExp, if_true, List.nil_append]
        by_cases hneg : decpt - 1 < 0 <;> simp [hneg]
      | cons r rs =>
        refine ⟨[d], r :: rs, _, ?_, by simp, (by intro c hc; exact hd c (by simp at hc; simp [hc])),
          (by intro c hc; exact hd c (List.mem_cons_of_mem d hc)), hexp⟩
        simp only [reprExp]
        by_cases hneg : decpt - 1 < 0 <;> simp [hneg]
  · by_cases h2 : decpt ≤ 0
    · -- 0.000ddd
      rw [if_pos h2]
      refine ⟨['0'], List.replicate (-decpt).toNat '0' ++ ds, none,
        by simp [reprExp, hne], by simp, (by intro c hc; simp at hc; subst hc; decide),
        allDigits_append _ _ (allDigits_zeros _) hd, trivial⟩
    · rw [if_neg h2]
      by_cases h3 : decpt.toNat ≥ ds.length
      · -- ddd000.0
        rw [if_pos h3]
        refine ⟨ds ++ List.replicate (decpt.toNat - ds.length) '0', ['0'], none,
          by simp [reprExp], by simp [hne], allDigits_append _ _ hd (allDigits_zeros _),
          (by intro c hc; simp at hc; subst hc; decide), trivial⟩
      · -- dd.ddd
        rw [if_neg h3]
        have hpos : 0 < decpt.toNat := by omega
        have hlt : decpt.toNat < ds.length := by omega
        refine ⟨ds.take decpt.toNat, ds.drop decpt.toNat, none, ?_, ?_,
          fun c hc => hd c (List.mem_of_mem_take hc), fun c hc => hd c (List.mem_of_mem_drop hc), trivial⟩
        · have : ds.drop decpt.toNat ≠ [] := by
            intro h0
            have h4 : (ds.drop decpt.toNat).length = 0 := by rw [h0]; rfl
            rw [List.length_drop] at h4; omega
          simp [reprExp, this]
        · intro h0
          have h4 : (ds.take decpt.toNat).length = 0 := by rw [h0]; rfl
          rw [List.length_take] at h4; omega

/-- **the model's `repr` of every finite double has the finite-repr shape** -/
theorem f64_repr_shape (neg : Bool) (m : Nat) (q : Int) :
    ∃ lit, PyReprFinite (F64.repr (.fin neg m q)) lit := by
  have key : ∀ body : Str, (∃ (ip fp : Str) (ex : Option (Bool × Str)),
      body = ip ++ ((if fp = [] then [] else '.' :: fp) ++ reprExp ex) ∧
      ip ≠ [] ∧ AllDigits ip ∧ AllDigits fp ∧ ReprExpOk ex) →
      ∃ lit, PyReprFinite (if neg then '-' :: body else body) lit := by
    rintro body ⟨ip, fp, ex, hb, h1, h2, h3, h4⟩
    refine ⟨_, neg, ip, fp, ex, ?_, h1, h2, h3, h4, rfl⟩
    subst hb
    cases neg <;> simp [reprMant]
  unfold F64.repr
  simp only
  apply key
  split
  · exact ⟨['0'], ['0'], none, by simp [reprExp], by simp,
      by intro c hc; simp at hc; subst hc; decide, by intro c hc; simp at hc; subst hc; decide, trivial⟩
  · obtain ⟨hne, hd⟩ := shortestDigits_spec m q
    exact reprLayout_shape _ _ hne hd

/-! ### the digits found by the search read back as the double -/

theorem pickShortest_sound (okLo okHi : Bool) (lo hi dLo dHi D : Nat)
    (h : pickShortest okLo okHi lo hi dLo dHi = some D) :
    (D = lo ∧ okLo = true) ∨ (D = hi ∧ okHi = true) := by
  unfold pickShortest at h
  cases okLo <;> cases okHi <;> simp at h
  · exact Or.inr ⟨h.symm, rfl⟩
  · exact Or.inl ⟨h.symm, rfl⟩
  · split at h
    · injection h with h; exact Or.inl ⟨h.symm, rfl⟩
    · split at h
      · injection h with h; exact Or.inr ⟨h.symm, rfl⟩
      · split at h
        · injection h with h; exact Or.inl ⟨h.symm, rfl⟩
        · injection h with h; exact Or.inr ⟨h.symm, rfl⟩

theorem shortestWith_back (m : Nat) (q : Int) (vn vd : Nat) (decpt : Int) (k D : Nat)
    (h : shortestWith m q vn vd decpt k = some D) :
    roundDecimal false D (-((k : Int) - decpt)) = .fin false m q := by
  unfold shortestWith at h
  rcases pickShortest_sound _ _ _ _ _ _ D h with ⟨h1, h2⟩ | ⟨h1, h2⟩
  · simp only [Bool.and_eq_true] at h2
    have := h2.2
    rw [← h1] at this
    simpa [readsBack] using this
  · rw [← h1] at h2
    simpa [readsBack] using h2

theorem shortestSearch_back (m : Nat) (q : Int) (vn vd : Nat) (decpt : Int) (fuel k0 D k : Nat)
    (h : shortestSearch m q vn vd decpt fuel k0 = some (D, k)) :
    roundDecimal false D (-((k : Int) - decpt)) = .fin false m q := by
  induction fuel generalizing k0 with
  | zero => simp [shortestSearch] at h
  | succ fuel ih =>
    unfold shortestSearch at h
    cases hw : shortestWith m q vn vd decpt k0 with
    | some D' =>
      simp only [hw, Option.some.injEq, Prod.mk.injEq] at h
      obtain ⟨h1, h2⟩ := h
      subst h1; subst h2
      exact shortestWith_back m q vn vd decpt k0 D' hw
    | none =>
      simp only [hw] at h
      exact ih (k0 + 1) h

end Xs.Conv
