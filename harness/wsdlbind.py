"""C17 <-> C01: the generated envelope classes as the binding layer sees them.

`envelope_family(...)` exports the real `XmlMeta` of an envelope class and of its nested
classes (Header, Body, Fault, Detail) in the format of `bindlib.Universe.export_ctx`,
with python identifiers replaced by XML names (property C07 is not re-modelled here):
class ids are paths of XML names below the mapper's class qname
(`{tns}Pt_op_input/Body/Fault`), a var's `name` is its `local_name`, payload classes
(everything that is not nested in the envelope) are `py:<qualname>`.
"""
from __future__ import annotations

import dataclasses
import enum
from dataclasses import MISSING, fields, is_dataclass

from xsdata.formats.dataclass.context import XmlContext
from xsdata.models.enums import DataType

PRIM_NAMES = {str: "str", int: "int", bool: "bool"}


def payload_id(cls):
    return "py:" + cls.__qualname__


class Family:
    def __init__(self, env_cls, env_id: str, pns_list):
        self.env_cls = env_cls
        self.pns_list = pns_list
        self.ids: dict[type, str] = {}
        self.order: list[type] = []
        self.payload: list[type] = []
        self._walk(env_cls, env_id)

    # the nested classes in field order; ids follow the XML names of the fields
    def _walk(self, cls, cid):
        self.ids[cls] = cid
        self.order.append(cls)
        meta = XmlContext().build(cls, None)
        for var in sorted(meta.get_all_vars(), key=lambda v: v.index):
            tp = var.clazz
            if tp is None:
                continue
            if tp.__qualname__.startswith(cls.__qualname__ + "."):
                if tp not in self.ids:
                    self._walk(tp, cid + "/" + var.local_name)
            elif tp not in self.payload:
                self.payload.append(tp)

    def cid(self, cls):
        return self.ids.get(cls) or payload_id(cls)

    def typeref(self, tp):
        if tp in PRIM_NAMES:
            return {"prim": PRIM_NAMES[tp]}
        if tp is object:
            return "obj"
        if is_dataclass(tp):
            return {"cls": self.cid(tp)}
        return {"other": getattr(tp, "__name__", str(tp))}

    def export_var(self, var):
        kind = (
            "text" if var.is_text else "element" if var.is_element else "elements" if var.is_elements
            else "wildcard" if var.is_wildcard else "attribute" if var.is_attribute else "attributes"
        )
        d = var.default
        default = None if d is None else "list" if d in (list, tuple) else "dict" if d is dict else "other"
        return {
            "index": var.index,
            "name": var.local_name,
            "local_name": var.local_name,
            "qname": var.qname,
            "wrapper_qname": var.wrapper_qname,
            "types": [self.typeref(t) for t in var.types],
            "clazz": self.cid(var.clazz) if var.clazz else None,
            "init": bool(var.init),
            "mixed": bool(var.mixed),
            "tokens": bool(var.tokens),
            "format": var.format,
            "any_type": bool(var.any_type),
            "process_contents": var.process_contents,
            "required": bool(var.required),
            "nillable": bool(var.nillable),
            "sequence": var.sequence,
            "list_element": bool(var.list_element),
            "default": default,
            "namespaces": list(var.namespaces),
            "kind": kind,
            "is_clazz_union": bool(var.is_clazz_union),
            "elements": [[q, "?"] for q in var.elements],
            "wildcards": ["?" for _ in var.wildcards],
        }

    def export_meta(self, meta):
        return {
            "clazz": self.cid(meta.clazz),
            "qname": meta.qname,
            "target_qname": meta.target_qname,
            "nillable": bool(meta.nillable),
            "text": self.export_var(meta.text) if meta.text else None,
            "choices": [self.export_var(v) for v in meta.choices],
            "elements": [[q, [self.export_var(v) for v in vs]] for q, vs in meta.elements.items()],
            "wildcards": [self.export_var(v) for v in meta.wildcards],
            "attributes": [[q, self.export_var(v)] for q, v in meta.attributes.items()],
            "any_attributes": [self.export_var(v) for v in meta.any_attributes],
            "wrappers": [[k, v] for k, v in meta.wrappers.items()],
        }

    def export_class(self, cls):
        metas = []
        names = {}
        for pns in self.pns_list:
            meta = XmlContext().build(cls, pns)  # fresh context: no cache history
            for v in meta.get_all_vars():
                names[v.name] = v.local_name
            metas.append([pns, self.export_meta(meta)])
        flds = []
        for f in fields(cls):
            o = {"name": names.get(f.name, f.name), "init": f.init}
            if f.default is not MISSING:
                o["default"] = None if f.default is None else {"opaque": repr(f.default)}
            elif f.default_factory is not MISSING:
                o["default"] = {"opaque": "factory"}
            flds.append(o)
        return {
            "id": self.cid(cls),
            "metas": metas,
            "mro": [self.cid(k) for k in cls.__mro__ if k is not object],
            "bases": [self.cid(k) for k in cls.__bases__ if k is not object],
            "fields": flds,
        }

    def export(self):
        return [self.export_class(c) for c in self.order]

    # ---- payload classes (everything reachable that is not nested in the envelope)
    def payload_closure(self):
        seen = list(self.payload)
        i = 0
        while i < len(seen):
            meta = XmlContext().build(seen[i], None)
            for var in meta.get_all_vars():
                for tp in var.types:
                    if is_dataclass(tp) and tp not in self.ids and tp not in seen:
                        seen.append(tp)
            i += 1
        return seen

    def export_payload(self):
        return [self.export_class(c) for c in self.payload_closure()]

    # ---- values with XML names
    def to_val(self, obj):
        if obj is None:
            return None
        if isinstance(obj, bool):
            return {"bool": obj}
        if isinstance(obj, int):
            return {"int": obj}
        if isinstance(obj, str):
            return {"str": obj}
        if isinstance(obj, (list, tuple)):
            return {"list": [self.to_val(x) for x in obj]}
        if is_dataclass(obj):
            meta = XmlContext().build(type(obj), None)
            names = {v.name: v.local_name for v in meta.get_all_vars()}
            return {"obj": self.cid(type(obj)), "fields": [[names.get(f.name, f.name), self.to_val(getattr(obj, f.name))] for f in fields(obj)]}
        raise TypeError(type(obj).__name__)


def datatypes():
    out = []
    for dt in DataType:
        out.append([str(dt), PRIM_NAMES.get(dt.type) if dt.wrapper is None and dt.format is None else None])
    return out


def xml_names(data):
    """element names of a document, full depth, read with lxml"""
    from lxml import etree

    def walk(el):
        return {"q": el.tag, "c": [walk(c) for c in el if isinstance(c.tag, str)]}

    return walk(etree.fromstring(data.encode() if isinstance(data, str) else data))


def generated_classes(g):
    out = []
    for mod in g.modules.values():
        for v in vars(mod).values():
            if isinstance(v, type) and v.__module__ == mod.__name__ and (is_dataclass(v) or issubclass(v, enum.Enum)):
                if v not in out:
                    out.append(v)
    return out


def type_infos(g, env_json, spec):
    """TypeInfo records for the types the envelope family refers to (found among the generated classes by
    the qname the class was generated from)"""
    by_q = {}
    for c in generated_classes(g):
        if not is_dataclass(c):
            continue
        meta = XmlContext().build(c, None)
        for q in (meta.target_qname, meta.qname):
            if q and q not in by_q:
                by_q[q] = c
    infos = {}

    def visit(c):
        for a in c["attrs"]:
            if a["forward"] or a["native"]:
                continue
            q = a["type"]
            local = q.rsplit("}", 1)[-1]
            if local.startswith("S") and not local.startswith("Svc"):
                kind = "enumeration"
            elif local.startswith("R"):
                kind = "simple"
            elif q in by_q:
                kind = "complex"
            else:
                kind = "absent"
            cls = by_q.get(q) if kind == "complex" else None
            infos[q] = {"qname": q, "kind": kind, "ns": None, "class_id": payload_id(cls) if cls else None}
        for i in c["inner"]:
            visit(i)

    visit(env_json)
    return list(infos.values())
