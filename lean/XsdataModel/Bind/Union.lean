/-
L5b — xsdata/formats/dataclass/parsers/nodes/union.py: `UnionNode`, and the parser of
`Bind/Parse.lean` extended over it.

`Bind/Parse.lean` stops at a field whose type is a union with at least one class
(`Err.unsupported "union node"`).  This file adds the missing node without touching the
definitions the other properties' proofs rest on:

* `NodeU` = the nodes of `Parse.lean` + `union`;
* `buildNodeU` / `childNodeU` = `ElementNode.build_node` / `child` with the union branch;
* `parseNodeU` / `parseKidsU` = `parseNode` / `parseKids` with the union case; every node that
  cannot have a union below it (primitive, standard, wildcard, skip) is handed to `parseNode`;
* `parseRootU` = `NodeParser.parse`.

The real `UnionNode` buffers the events of its subtree (`child` returns `self`), and when its
own element ends it replays them: each candidate class gets a *fresh* `NodeParser` with
`fail_on_converter_warnings=True` over the buffered events, each primitive candidate goes
through `ParserUtils.parse_var(types=[candidate])` on the text; whatever a trial raises is
swallowed (`suppress(Exception)`); `score_object` ranks the results and the first best one is
appended under `var.qname`.  Over a tree the buffered events are the subtree itself, so a trial
is the root parse of the same subtree — structurally: the element binding of the candidate's
metadata over the children.
-/
import XsdataModel.BindShared.Parse

namespace Xs.Bind
open Py

/-! ### `score_object` (compat.py), in half points -/

/-- `score(value)` of one field value: `str` 1.0, `None` 0.0, anything else 1.5 -/
def fieldScore : Val → Nat
  | .none => 0
  | .prim (.str _) => 2
  | _ => 3

/-- the fields `get_fields(obj)` of the generic dataclasses `AnyElement` / `DerivedElement` -/
def optStrScore : Option Str → Nat
  | some _ => 2
  | none => 0

/-- `score_object(obj)`; `none` = the `-1.0` of `obj is None` -/
def scoreVal : Val → Option Nat
  | .none => none
  | .obj _ fields => some ((fields.map (fun f => fieldScore f.2)).sum)
  -- AnyElement(qname, text, tail, children, attributes): the list and the dict are never None
  | .any q t tl _ _ => some (optStrScore q + optStrScore t + optStrScore tl + 3 + 3)
  -- DerivedElement(qname, value, type)
  | .derived _ v t => some (2 + fieldScore v + optStrScore t)
  | v => some (fieldScore v)

/-- `score > max_score` with `max_score` starting at `-1.0` -/
def scoreGt (s best : Option Nat) : Bool :=
  match s, best with
  | some a, some b => a > b
  | some _, none => true
  | none, _ => false

/-- the loop `for candidate in candidates: … if score > max_score: obj = result`:
the first result among those of maximal score (`none` results never win) -/
def pickBest : List Val → Option Nat → Val → Val
  | [], _, best => best
  | r :: rest, bestScore, best =>
    if scoreGt (scoreVal r) bestScore then pickBest rest (scoreVal r) r else pickBest rest bestScore best

/-! ### nodes -/

inductive NodeU
  | base (n : Node)
  /-- `UnionNode(meta, var, attrs, ns_map)` with `candidates` already filtered -/
  | union (pmeta : XmlMeta) (var : XmlVar) (attrs : List (QN × Str)) (nsmap : NsMap) (candidates : List TypeRef)

/-- `UnionNode.filter_fixed_attrs(candidate, parent_ns)` -/
def filterFixedAttrs (e : BEnv) (Γ : Ctx) (attrs : List (QN × Str)) (pns : Option Str) : TypeRef → Except Err Bool
  | .cls c =>
    match (Γ.find c).bind (·.metaFor pns) with
    | none => .error (.context "unknown class")
    | some m =>
      .ok (attrs.all fun kv =>
        match m.findAttribute kv.1 with
        | none => true
        | some v =>
          if v.init then true
          else match validateFixed e.py v.toVarCore (.prim (.str kv.2)) with
            | .ok _ => true
            | .error _ => false)
  -- `if not is_model(candidate): return not self.attrs`
  | _ => .ok attrs.isEmpty

/-- `UnionNode.filter_candidates` (runs in `__init__`, i.e. at the start event) -/
def filterCandidates (e : BEnv) (Γ : Ctx) (var : XmlVar) (attrs : List (QN × Str)) : Except Err (List TypeRef) := do
  let keep ← var.types.mapM (fun t => (filterFixedAttrs e Γ attrs (targetUri var.qname) t).map (fun b => (t, b)))
  return (keep.filter (·.2)).map (·.1)

/-- `ElementNode.build_node` with the union branch -/
def buildNodeU (e : BEnv) (Γ : Ctx) (pmeta : XmlMeta) (qname : QN) (var : XmlVar)
    (attrs : List (QN × Str)) (nsmap : NsMap) : Except Err (Option NodeU) :=
  if var.isClazzUnion then do
    let cands ← filterCandidates e Γ var attrs
    return some (.union pmeta var attrs nsmap cands)
  else
    (buildNode e Γ pmeta qname var attrs nsmap).map (·.map .base)

/-- `ElementNode.child` (as `childNode`, over `buildNodeU`) -/
def childNodeU (e : BEnv) (Γ : Ctx) (cfg : ParserConfig) (m : XmlMeta) (st : ElState) (qname : QN)
    (attrs : List (QN × Str)) (nsmap : NsMap) (wrapper : Option QN) : Except Err (NodeU × ElState) :=
  let rec go : List XmlVar → Except Err (NodeU × ElState)
    | [] =>
      if cfg.failOnUnknownProperties then .error (.parser "Unknown property") else .ok (.base .skip, st)
    | var :: rest =>
      if wrapper.isSome && var.wrapperQName ≠ wrapper then go rest else
      let unique := if !var.isElement || var.listElement then 0 else var.index
      if unique = 0 || !st.assigned.contains unique then
        match buildNodeU e Γ m qname var attrs nsmap with
        | .error err => .error err
        | .ok none => go rest
        | .ok (some node) =>
          let assigned := if unique ≠ 0 then unique :: st.assigned else st.assigned
          let wrappers := match wrapper with
            | some w =>
              if st.wrappers.any (·.1 = qname) then
                st.wrappers.map (fun (k, ws) => if k = qname then (k, ws ++ [w]) else (k, ws))
              else st.wrappers ++ [(qname, [w])]
            | none => st.wrappers
          .ok (node, ⟨assigned, wrappers⟩)
      else go rest
  go (m.findChildren qname)

/-! ### `ElementNode.bind` after the children were visited

`elementFinish` (BindShared/Parse.lean) is the part of the `.element` case of `parseNode` that
follows `parseKids`; `Proofs.C10Shared.parseNode_element_split` proves the split. -/

/-- `NodeParser.parse`: the result is the last object, `None` is "Failed to create target class" -/
def rootResult (out : Out) : Except Err (Val × Nat) :=
  match out.objs.getLast? with
  | some (_, .none) | none => .error (.parser "Failed to create target class")
  | some (_, v) => .ok (v, out.warns)

/-- the root `ElementNode` that `NodeParser.start` creates for a target class -/
structure RootNode where
  «meta» : XmlMeta
  derived : Bool
  xsiType : Option QN

/-- `NodeParser.start` on an empty queue: `xsi_type`, `fetch`, the derived factory.
`pns` is the parent namespace the metadata of `clazz` was built under (`None` for a document
root; a union trial builds it under the namespace of the element first, and the cache keeps it) -/
def rootNode (e : BEnv) (Γ : Ctx) (clazz : ClassId) (pns : Option Str) (q : QN) (a : List (QN × Str)) (n : NsMap) :
    Except Err RootNode := do
  let xt ← xsiTypeOf e a n
  let m ← Γ.fetch clazz pns xt
  let derived := !(xt.isNone || m.qname = q)
  return ⟨m, derived, if derived then xt else none⟩

/-- the strict configuration of the trial parsers: `replace(config, fail_on_converter_warnings=True)` -/
def strictCfg (cfg : ParserConfig) : ParserConfig := { cfg with failOnConverterWarnings := true }

/-- what `with suppress(Exception)` leaves of a trial: its value, or `None`.
`unsupported` (the model's own marker) is not an exception of the code and is kept. -/
def suppressed : Except Err (Val × Nat) → Except Err Val
  | .ok (v, _) => .ok v
  | .error (.unsupported w) => .error (.unsupported w)
  | .error _ => .ok .none

/-- one turn of the loop of `UnionNode.bind`: the result of the candidate, `None` when the trial
raised.  `kids m` stands for the replay of the buffered child events by a fresh strict parser
whose root node has metadata `m`. -/
def unionTrial (e : BEnv) (Γ : Ctx) (cfg : ParserConfig) (kids : XmlMeta → Except Err (Out × ElState))
    (var : XmlVar) (attrs : List (QN × Str)) (nsmap : NsMap) (qname : QN) (text tail : Option Str) :
    TypeRef → Except Err Val
  | .cls c =>
    -- `context.build(candidate, parent_ns=target_uri(qname))`, then
    -- `NodeParser(config=strict, handler=EventsHandler).parse(self.events, candidate)`
    suppressed (do
      let root ← rootNode e Γ c (targetUri qname) qname attrs nsmap
      let (sub, st) ← kids root.meta
      let out ← elementFinish e Γ (strictCfg cfg) root.meta attrs nsmap root.derived root.xsiType
        (xsiNilOf attrs) qname text tail sub st
      rootResult out)
  | t =>
    -- `ParserUtils.parse_var(meta, var, config=strict, value=text, types=[candidate], ns_map)`
    suppressed ((parseVar e (strictCfg cfg) var.toVarCore text nsmap (types := some [t])).map (fun r => (r.val, 0)))

/-- the end of `UnionNode.bind`: the best result goes to the parent under `var.qname` -/
def unionBind (var : XmlVar) (results : List Val) : Except Err Out :=
  match pickBest results none .none with
  | .none => .error (.parser "Failed to parse union node")
  | obj => .ok ⟨[(some var.qname, obj)], 0⟩

mutual

/-- parse the subtree `t` with the node that `start` created for it -/
def parseNodeU (e : BEnv) (Γ : Ctx) (cfg : ParserConfig) (node : NodeU) : Tree → Except Err Out
  | .node qname a n text children tail =>
    match node with
    | .base (.element m attrs nsmap derived xsiType xsiNil) => do
      let (sub, st) ← parseKidsU e Γ cfg m {} none children
      elementFinish e Γ cfg m attrs nsmap derived xsiType xsiNil qname text tail sub st
    -- no union can occur below these nodes
    | .base nd => parseNode e Γ cfg nd (.node qname a n text children tail)
    | .union _pmeta var attrs nsmap candidates => do
      -- `UnionNode.bind` at level 0: replay the buffered events for every candidate
      let results ← candidates.mapM
        (unionTrial e Γ cfg (fun m => parseKidsU e Γ (strictCfg cfg) m {} none children) var attrs nsmap qname text tail)
      unionBind var results

/-- children of an `ElementNode` (or, with `wrapper`, of a `WrapperNode` below it) -/
def parseKidsU (e : BEnv) (Γ : Ctx) (cfg : ParserConfig) (m : XmlMeta) (st : ElState) (wrapper : Option QN) :
    List Tree → Except Err (Out × ElState)
  | [] => .ok (⟨[], 0⟩, st)
  | (.node q a n t c tl) :: rest => do
    if wrapper.isNone && m.wrappers.any (·.1 = q) then
      let (o, st') ← parseKidsU e Γ cfg m st (some q) c
      let (r, st'') ← parseKidsU e Γ cfg m st' wrapper rest
      return (⟨o.objs ++ r.objs, o.warns + r.warns⟩, st'')
    else
      let (node, st') ← childNodeU e Γ cfg m st q a n wrapper
      let o ← parseNodeU e Γ cfg node (.node q a n t c tl)
      let (r, st'') ← parseKidsU e Γ cfg m st' wrapper rest
      return (⟨o.objs ++ r.objs, o.warns + r.warns⟩, st'')

end

/-- `NodeParser.parse` with a target class, on the infoset of the document, unions included -/
def parseRootU (e : BEnv) (Γ : Ctx) (cfg : ParserConfig) (clazz : ClassId) : Tree → Except Err (Val × Nat)
  | .node q a n t c tl => do
    let root ← rootNode e Γ clazz none q a n
    let out ← parseNodeU e Γ cfg (.base (.element root.meta a n root.derived root.xsiType (xsiNilOf a)))
      (.node q a n t c tl)
    rootResult out

end Xs.Bind
