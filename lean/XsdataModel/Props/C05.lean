/- C05 — property theorems (only). -/
import XsdataModel.Conv.Factory

namespace Props.C05
open Py Xs.Conv

theorem placeholder : boolSerialize true = Tables.boolTrueStr := rfl

end Props.C05
