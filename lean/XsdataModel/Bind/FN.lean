/-
Fragments F2, F3, … of the binding layer (property C01): fragment F1 (`Bind/F1.lean`) widened
feature by feature.  One family of decidable predicates, indexed by the set of features a
universe may use (`Feat`); each theorem `bind_generate_F<k>` of `Props/C01.lean` is the round
trip for one feature set.

* `nillable` : nillable element vars (`xsi:nil`), `None` items in nillable lists, nillable classes
* `tokens`   : token lists (element, attribute and text vars) of `str` / `int` / `bool`
* `wrapper`  : wrapped list elements
* `sequence` : `sequence` groups (the rolling interleave of `next_value`)
* `fixed`    : fields with `init=False` (fixed values)
* `anyAttrs` : an `Attributes` map (`##any`, `##other`, …)
* `inherit`  : an element var of declared class `C` holds an instance of a proper subclass (`xsi:type`)
* `wildcard` : one list wildcard (`List[object]`, any `namespace`) per class, holding generic elements
               (`AnyElement` trees without tails)

Core Lean only (the driver evaluates the predicates on exported real universes and instances).
-/
import XsdataModel.Bind.F1
import XsdataModel.Generic.Basic

namespace Xs.Bind.FN
open Py Xs.Bind Xs.Bind.F1

/-- the features a universe may use beyond fragment F1 -/
structure Feat where
  nillable : Bool := false
  tokens : Bool := false
  wrapper : Bool := false
  sequence : Bool := false
  fixed : Bool := false
  anyAttrs : Bool := false
  inherit : Bool := false
  wildcard : Bool := false
  union : Bool := false
  qname : Bool := false
deriving DecidableEq, Repr

/-! ### metadata -/

/-- flags every var of the fragments has -/
def varBase (ft : Feat) (v : XmlVar) : Bool :=
  (v.init || ft.fixed) && !v.mixed && !v.anyType && !v.isClazzUnion && !v.qname.isEmpty &&
  (v.sequence.isNone || ft.sequence) &&
  (!v.nillable || ft.nillable) && (!v.tokens || ft.tokens) && (v.wrapperQName.isNone || ft.wrapper)

/-- a var with `init=False`: a scalar primitive with a fixed value -/
def fixedOK (v : XmlVar) : Bool :=
  !v.tokens && !v.listElement && !v.nillable && v.clazz.isNone && v.sequence.isNone &&
  (match v.default with | .val _ => true | _ => false)

/-- the dataclass field of a var: same `init`, and its default is the var's default -/
def fieldAgreesN (ci : ClassInfo) (v : XmlVar) : Bool :=
  match ci.fields.find? (·.name = v.name) with
  | some f => (f.init == v.init) && defaultAgrees v.default f.default
  | none => false

/-- the one primitive type of a var -/
def primTypeOf (v : XmlVar) : Option PT :=
  match v.types with
  | [.prim t] => if ptOK t then some t else none
  | _ => none

def attrVarOK (ft : Feat) (m : XmlMeta) (ci : ClassInfo) (v : XmlVar) : Bool :=
  v.isAttribute && varBase ft v && !v.nillable && v.wrapperQName.isNone && v.sequence.isNone &&
  decide (m.findAttribute v.qname = some v) &&
  decide (v.qname ≠ xsiNil) && decide (v.qname ≠ xsiType) &&
  (match primTypeOf v with
   | some t =>
     if v.tokens then decide (v.default = .listFactory) else !v.listElement && scalarDefault v.default t
   | none => false) &&
  (v.init || fixedOK v) && fieldAgreesN ci v

def textVarOK (ft : Feat) (ci : ClassInfo) (v : XmlVar) : Bool :=
  v.isText && varBase ft v && !v.nillable && v.wrapperQName.isNone && v.sequence.isNone &&
  (match primTypeOf v with
   | some t =>
     if v.tokens then !v.listElement && decide (v.default = .listFactory)
     else !v.listElement && scalarDefault v.default t
   | none => false) &&
  (v.init || fixedOK v) && fieldAgreesN ci v

/-- the types of a union of primitives: two or more of `str` / `int` / `bool` (in the order the
converter tries them) -/
def primUnionOf (v : XmlVar) : Bool :=
  decide (2 ≤ v.types.length) &&
  v.types.all (fun t => decide (t = .prim .str) || decide (t = .prim .int) || decide (t = .prim .bool))

/-- the type of a primitive of the fragment -/
def pvalType : PVal → Option PT
  | .str _ => some .str
  | .int _ => some .int
  | .bool _ => some .bool
  | .qname _ => none

def elemVarOK (ft : Feat) (Γ : Ctx) (m : XmlMeta) (ci : ClassInfo) (v : XmlVar) : Bool :=
  v.isElement && varBase ft v && decide (1 ≤ v.index) &&
  decide (m.elements.find? (·.1 = v.qname) = some (v.qname, [v])) &&
  -- a wrapper belongs to a list var and is announced in `meta.wrappers`
  (match v.wrapperQName with
   | none => true
   | some w => (v.listElement || v.tokens) && m.wrappers.any (·.1 = w) &&
       m.elements.all (fun qe => decide (qe.1 ≠ w))) &&
  (match v.clazz with
   | none =>
     (match primTypeOf v with
      | some t =>
        if v.tokens || v.listElement then
          decide (v.default = .listFactory)
        else scalarDefault v.default t && (!v.nillable || decide (v.default = .none))
      | none =>
        -- a union of primitives: `Optional[Union[..]]` with default `None` or a list of them
        -- … or a QName-typed element (`Optional[QName]` / `List[QName]`)
        ((ft.union && primUnionOf v) || (ft.qname && decide (v.types = [.prim .qname]))) &&
        v.init && !v.tokens && !v.nillable &&
        (if v.listElement then decide (v.default = .listFactory) else decide (v.default = .none)))
   | some c =>
     !v.tokens && decide (v.types = [.cls c]) &&
     (if v.listElement then decide (v.default = .listFactory) else decide (v.default = .none)) &&
     (metaOf Γ c (targetUri m.qname)).isSome) &&
  (v.init || fixedOK v) && fieldAgreesN ci v

/-- a wildcard: `List[object]` with default `[]` or `Optional[object]` with default `None`, no choices; its own (synthetic) qname leads
`find_children` back to it and to nothing else -/
def wildVarOK (m : XmlMeta) (ci : ClassInfo) (v : XmlVar) : Bool :=
  v.isWildcard && v.init && !v.mixed && !v.tokens && !v.nillable && !v.isClazzUnion &&
  v.wrapperQName.isNone && v.sequence.isNone && v.elements.isEmpty && v.clazz.isNone &&
  decide (v.default = if v.listElement then .listFactory else .none) && decide (1 ≤ v.index) && !v.qname.isEmpty &&
  decide (m.findChildren v.qname = [v]) && !m.wrappers.any (·.1 = v.qname) && m.text.isNone &&
  fieldAgreesN ci v

/-- an `Attributes` map: a `dict` field with default `{}` -/
def mapVarOK (ci : ClassInfo) (v : XmlVar) : Bool :=
  v.isAttributes && v.init &&
  (match ci.fields.find? (·.name = v.name) with
   | some f => f.init && (match f.default with | some (.attrs []) => true | _ => false)
   | none => false)

/-- the number of vars `next_value` rolls together when it meets a var of sequence group `sq` at
the head of `rest`: up to the last var of that group (vars in between are rolled along) -/
def sliceLen (rest : List XmlVar) (sq : Nat) : Nat :=
  (((List.range rest.length).filter (fun i => (rest[i]?.bind (·.sequence)) = some sq)).getLast?.getD 0) + 1

/-- no token-list var and no wrapped var is rolled with a `sequence` group (the roll hands the
items over one by one: `convert_tokens` then raises `TypeError`, and an empty wrapped list loses
its wrapper element) -/
def seqOK : Nat → List XmlVar → Bool
  | 0, _ => true
  | _, [] => true
  | f + 1, v :: tl =>
    match v.sequence with
    | none => seqOK f tl
    | some sq =>
      ((v :: tl).take (sliceLen (v :: tl) sq)).all (fun w => !w.tokens && w.wrapperQName.isNone) &&
      seqOK f ((v :: tl).drop (sliceLen (v :: tl) sq))

/-- one exported `XmlMeta` of class `ci` -/
def metaOK (ft : Feat) (Γ : Ctx) (ci : ClassInfo) (m : XmlMeta) : Bool :=
  decide (m.clazz = ci.id) && (!m.nillable || ft.nillable) && !m.qname.isEmpty &&
  -- at most one wildcard, a list
  (m.wildcards.isEmpty ||
    (ft.wildcard && (match m.wildcards with | [wv] => wildVarOK m ci wv | _ => false))) &&
  m.choices.isEmpty &&
  -- at most one `Attributes` map
  (m.anyAttributes.isEmpty ||
    (ft.anyAttrs && (match m.anyAttributes with | [av] => mapVarOK ci av | _ => false))) &&
  decide (m.findAttribute xsiNil = none) && (!ft.inherit || decide (m.findAttribute xsiType = none)) &&
  -- every announced wrapper is the wrapper of an element var
  m.wrappers.all (fun ww => m.elementVars.any (fun v => decide (v.wrapperQName = some ww.1))) &&
  m.attributeVars.all (fun v => attrVarOK ft m ci v || (decide (m.anyAttributes = [v]) && mapVarOK ci v)) &&
  decide ((m.attributeVars.map (·.qname)).Nodup) &&
  (match m.text with
   | none => m.elementVars.all (fun v => elemVarOK ft Γ m ci v || decide (m.wildcards = [v]))
   | some tv => decide (m.elementVars = [tv]) && textVarOK ft ci tv) &&
  decide ((m.elementVars.map (·.index)).Nodup) &&
  decide ((m.elementVars.map (·.qname)).Nodup) &&
  seqOK (m.elementVars.length + 1) m.elementVars &&
  decide (((m.attributeVars ++ m.elementVars).map (·.name)).Nodup) &&
  decide ((ci.fields.map (·.name)).Nodup) &&
  ci.fields.all (fun f => (m.attributeVars ++ m.elementVars).any (·.name = f.name))

/-- the universe is in the fragment of feature set `ft` -/
def ctxOK (ft : Feat) (Γ : Ctx) : Bool :=
  Γ.classes.all fun ci => !ci.metas.isEmpty && ci.metas.all (fun pm => metaOK ft Γ ci pm.2)

/-! ### values -/

/-- a token survives `" ".join` / `str.split()`: not empty, no white space -/
def tokenOK (e : BEnv) : PVal → Bool
  | .str s => !s.isEmpty && s.all (fun c => !e.py.isSpace c)
  | _ => true

/-- a token list of type `t` -/
def tokensOK (e : BEnv) (t : PT) : Val → Bool
  | .list xs => xs.all (fun y => match y with | .prim p => primHasType p t && tokenOK e p | _ => false)
  | _ => false

/-- the value of a field with `init=False` is its default -/
def fixedVal (var : XmlVar) (x : Val) : Bool :=
  match x, var.default with
  | .prim p, .val d => p = d
  | _, _ => false

/-- a value of an `Attributes` map that `parse_any_attribute` leaves alone under every prefix map:
no `prefix:rest` shape (except `prefix://…`) -/
def anyAttrValOK (v : Str) : Bool :=
  match textSplit v ':' with
  | (some p, suffix) => p.isEmpty || startsWith suffix ['/', '/']
  | (none, _) => true

/-- the entries of an `Attributes` map: distinct keys that match the namespaces of the var and that are neither
declared attributes nor `xsi:` attributes; plain values -/
def mapValOK (Γ : Ctx) (m : XmlMeta) (var : XmlVar) : Val → Bool
  | .attrs kv =>
    decide ((kv.map (·.1)).Nodup) &&
    kv.all (fun kw =>
      matchNamespace var.namespaces kw.1 && decide (m.findAttribute kw.1 = none) &&
      decide (targetUri kw.1 ≠ some xsiNs) && anyAttrValOK kw.2 && attrStrOK Γ (.str kw.2))
  | _ => false

def attrValOK (e : BEnv) (Γ : Ctx) (m : XmlMeta) (ci : ClassInfo) (var : XmlVar) (x : Val) : Bool :=
  if var.isAttributes then mapValOK Γ m var x else
  (var.init || fixedVal var x) &&
  (match primTypeOf var with
   | some t =>
     if var.tokens then tokensOK e t x
     else
       (match x with
        | .none => fdNone ci var.name
        | .prim p => primHasType p t && attrStrOK Γ p
        | _ => false)
   | none => false)

/-- `nil` = the element of the object is written with `xsi:nil="true"` when it has no content -/
def textValOK (e : BEnv) (ci : ClassInfo) (var : XmlVar) (nil : Bool) (x : Val) : Bool :=
  (var.init || fixedVal var x) &&
  match primTypeOf var with
  | some t =>
    if var.tokens then tokensOK e t x
    else
      (match x with
       | .none => nil || fdNone ci var.name
       | .prim p => primHasType p t && (decide (p ≠ .str []) || fdEmptyStr ci var.name)
       | _ => false)
  | none => false

/-- one child element of a var whose type is a union of primitives: the value is what
`converter.deserialize` makes of its own serialization, i.e. no type tried earlier accepts the text
(`""` comes back as `""` whatever the types: the empty element has no text) -/
def unionItemOK (e : BEnv) (var : XmlVar) : Val → Bool
  | .prim p =>
    (pvalType p).isSome &&
    (decide (p = .str []) || (!(serPrim p).isEmpty && decide (deserialize e (serPrim p) var.types [] = some p)))
  | _ => false

/-- one child element of a primitive element var -/
def primItemOK (var : XmlVar) (t : PT) : Val → Bool
  | .none => var.nillable        -- `xsi:nil`; comes back as the var default, which is `None`
  | .prim p =>
    primHasType p t &&
    -- an empty `str` comes back as the var default (`None` under a nillable var: then the empty
    -- element without `xsi:nil` is `""`)
    (decide (p ≠ .str []) || var.listElement || decide (var.default = .none) ||
      decide (var.default = .val (.str [])))
  | _ => false

mutual
/-- a generic element (`AnyElement`) in the form the parser builds, without tails: a name, a text
(`""`, not `None`, when there is none; not white space only next to children), attributes the generic
model keeps verbatim, children of the same form -/
def canonAny (e : BEnv) (Γ : Ctx) : Val → Bool
  | .any (some q) (some t) none a kids =>
    !q.isEmpty && Xs.Generic.keysDistinct a &&
    a.all (fun kv => anyAttrValOK kv.2 && !(kv.2.head? = some '{' && (kv.1 = xsiType || isDatatype Γ kv.2))) &&
    (kids.isEmpty || t.isEmpty || !(e.py.strip t).isEmpty) && canonAnyList e Γ kids
  | _ => false
def canonAnyList (e : BEnv) (Γ : Ctx) : List Val → Bool
  | [] => true
  | v :: vs => canonAny e Γ v && canonAnyList e Γ vs
end

/-- an item of the list wildcard `wv` of `m`: a generic element that `ElementNode.child` hands to the
wildcard (its name is no declared element or wrapper, lies in the namespaces of the wildcard and is
not the qualified name of a known class, which `build_node` would instantiate instead; no `xsi:`
control attributes) -/
def wildItemOK (e : BEnv) (Γ : Ctx) (m : XmlMeta) (wv : XmlVar) : Val → Bool
  | .any (some q) t tl a kids =>
    decide (m.elements.find? (·.1 = q) = none) && !m.wrappers.any (·.1 = q) &&
    matchNamespace wv.namespaces q &&
    decide ((if wv.processContents ≠ "skip".toList then Γ.findType q else none) = none) &&
    a.all (fun kv => decide (kv.1 ≠ xsiType) && decide (kv.1 ≠ xsiNil)) &&
    canonAny e Γ (.any (some q) t tl a kids)
  | _ => false

/-- the name of a class survives as an `xsi:type` value (`prefix:name` resolved by
`QNameConverter`): an NCName without white space -/
def typeNameOK (e : BEnv) (t : QN) : Bool :=
  let tag := localName t
  !tag.isEmpty && tag.all (fun ch => ch ≠ ':' && !e.py.isSpace ch) && tag.head? ≠ some '{' &&
  e.isNCName tag

/-- one child element of a QName-typed var: a QName whose local part is an NCName (the namespace, if
any, gets a prefix of the document's prefix map and is found again through it) -/
def qnameItemOK (e : BEnv) : Val → Bool
  | .prim (.qname t) => typeNameOK e t
  | _ => false

/-- an object under an element var of declared class `c` (`pns`: the namespace the parser looks the
metadata up under): an instance of `c` itself, or (`inh`) of a proper subclass `cls` whose qualified
name leads `XmlContext.fetch` from `c` back to `cls`.  `rec cls xt` checks the instance. -/
def objOK (inh : Bool) (Γ : Ctx) (pns : Option Str) (c : ClassId)
    (rec : ClassId → Option QN → Val → Bool) (y : Val) : Bool :=
  match y with
  | .obj cls _ =>
    if cls = c then rec c none y
    else
      inh && Γ.isSubclass cls c &&
      (match metaOf Γ cls pns with
       | some ms =>
         (match ms.targetQName with
          | some t =>
            (match Γ.fetch c pns (some t) with
             | .ok m2 => decide (m2 = ms)
             | .error _ => false) &&
            rec cls (some t) y
          | none => false)
       | none => false)
  | _ => false

/-- the class of a model-typed var: `(nillable class, instance check)` -/
def clsItemOK (var : XmlVar) (clsNillable : Bool) (rec : Val → Bool) : Val → Bool
  | .none => var.nillable && !clsNillable   -- under a nillable class `xsi:nil` is an empty object
  | y => rec y

def elemValOK (inh : Bool) (e : BEnv) (Γ : Ctx) (m : XmlMeta) (ci : ClassInfo) (var : XmlVar)
    (rec : ClassId → Option QN → Val → Bool) (x : Val) : Bool :=
  (var.init || fixedVal var x) &&
  if var.isWildcard then
    (if var.listElement then
      (match x with
       | .list xs => xs.all (wildItemOK e Γ m var)
       | _ => false)
     else
      -- a single wildcard holds one generic element (a second child would be nested under a new one)
      (match x with
       | .none => fdNone ci var.name
       | y => wildItemOK e Γ m var y))
  else
  match var.clazz with
  | none =>
    (match primTypeOf var with
     | some t =>
       if var.tokens then
         (if var.listElement then
            (match x with
             | .list xs => xs.all (fun y => tokensOK e t y)
             | _ => false)
          else tokensOK e t x)
       else if var.listElement then
         (match x with
          | .list xs => xs.all (primItemOK var t)
          | _ => false)
       else
         (match x with
          | .none => var.nillable || fdNone ci var.name
          | y => primItemOK var t y)
     | none =>
       if var.types = [.prim .qname] then
         (if var.listElement then
            (match x with
             | .list xs => xs.all (qnameItemOK e)
             | _ => false)
          else
            (match x with
             | .none => fdNone ci var.name
             | y => qnameItemOK e y))
       else if var.listElement then
         (match x with
          | .list xs => xs.all (unionItemOK e var)
          | _ => false)
       else
         (match x with
          | .none => fdNone ci var.name
          | y => unionItemOK e var y))
  | some c =>
    (match metaOf Γ c (targetUri m.qname) with
     | none => false
     | some m' =>
       if var.listElement then
         (match x with
          | .list xs => xs.all (clsItemOK var m'.nillable (objOK inh Γ (targetUri m.qname) c rec))
          | _ => false)
       else
         (match x with
          | .none => (var.nillable && !m'.nillable) || (!var.nillable && fdNone ci var.name)
          | .obj .. => objOK inh Γ (targetUri m.qname) c rec x
          | _ => false))

/-- the text value is written as character data (possibly empty): the start tag is flushed
without `xsi:nil` -/
def textHasData : Val → Bool
  | .prim _ => true
  | .list (_ :: _) => true
  | _ => false

/-- `v` is an instance of class `c` (metadata built under `pns`) inside the fragment, written with
`xsi:type` `xt`.  The `Nat` argument bounds the nesting depth. -/
def valObjN (inh : Bool) (e : BEnv) (Γ : Ctx) : Nat → Option Str → ClassId → Option QN → Val → Bool
  | 0, _, _, _, _ => false
  | n + 1, pns, c, xt, .obj cls fields =>
    decide (cls = c) &&
    -- written with `xsi:type`: the name must survive
    (match xt with | some t => inh && typeNameOK e t | none => true) &&
    (match Γ.find c with
     | none => false
     | some ci =>
       match ci.metaFor pns with
       | none => false
       | some m =>
         decide (fields.map (·.1) = ci.fields.map (·.name)) &&
         m.attributeVars.all (fun var => attrValOK e Γ m ci var (look fields var.name)) &&
         (match m.text with
          | some tv => textValOK e ci tv m.nillable (look fields tv.name)
          | none =>
            m.elementVars.all (fun var =>
              elemValOK inh e Γ m ci var (valObjN inh e Γ n (targetUri m.qname)) (look fields var.name))))
  | _ + 1, _, _, _, _ => false

/-- the value-level side of the fragments (`v.size` bounds the nesting depth of `v`); `inh`: element
vars may hold instances of proper subclasses of their declared class -/
def valOKI (inh : Bool) (e : BEnv) (Γ : Ctx) (c : ClassId) (v : Val) : Bool :=
  valObjN inh e Γ v.size none c none v

/-- every object is an instance of the declared class of its var -/
def valOK (e : BEnv) (Γ : Ctx) (c : ClassId) (v : Val) : Bool := valOKI false e Γ c v

end Xs.Bind.FN
