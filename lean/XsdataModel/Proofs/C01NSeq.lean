/-
C01 (fragment with `sequence`): the rolling interleave of `next_value`.  Every element var's
items come out in their own order (`roll_filter`), whatever the interleaving.
-/
import XsdataModel.Proofs.C01NStep

namespace Proofs.C01
open Py Xs.Bind Xs.Bind.F1 Xs.Bind.FN

/-- what round `j` of the roll emits for one `(var, value)` of the group -/
def roundJ (j : Nat) (vv : XmlVar × Val) : List (XmlVar × Val) :=
  match vv.2 with
  | .list xs => (match xs[j]? with | some x => emitOfN vv.1 x | none => [])
  | v => if j = 0 then emitOfN vv.1 v else []

def rollsJ (j : Nat) (vv : XmlVar × Val) : Bool :=
  match vv.2 with
  | .list xs => (xs[j]?).isSome
  | _ => decide (j = 0)

/-- everything rounds `j, j+1, …` emit for one `(var, value)` -/
def remJ (j : Nat) (vv : XmlVar × Val) : List (XmlVar × Val) :=
  match vv.2 with
  | .list xs => (xs.drop j).flatMap (emitOfN vv.1)
  | v => if j = 0 then emitOfN vv.1 v else []

theorem remJ_step (j : Nat) (vv : XmlVar × Val) : remJ j vv = roundJ j vv ++ remJ (j + 1) vv := by
  obtain ⟨v, x⟩ := vv
  cases x with
  | list xs =>
    simp only [remJ, roundJ]
    cases hj : xs[j]? with
    | none =>
      have : xs.length ≤ j := by simpa using hj
      simp [List.drop_eq_nil_of_le this, List.drop_eq_nil_of_le (Nat.le_succ_of_le this)]
    | some y =>
      have hlt : j < xs.length := by
        rcases Nat.lt_or_ge j xs.length with h | h
        · exact h
        · simp [List.getElem?_eq_none h] at hj
      rw [List.drop_eq_getElem_cons hlt]
      have : xs[j] = y := by
        rw [List.getElem?_eq_getElem hlt] at hj; exact Option.some.inj hj
      simp [this]
  | _ => by_cases h : j = 0 <;> simp [remJ, roundJ, h]

theorem remJ_nil_of_not_rolls {j : Nat} {vv : XmlVar × Val} (h : rollsJ j vv = false) : remJ j vv = [] := by
  obtain ⟨v, x⟩ := vv
  cases x with
  | list xs =>
    simp only [rollsJ, Option.isSome_eq_false_iff, Option.isNone_iff_eq_none] at h
    have : xs.length ≤ j := by simpa using h
    simp [remJ, List.drop_eq_nil_of_le this]
  | _ => simp [rollsJ] at h; simp [remJ, h]

theorem remJ_nil_of_big {j L : Nat} {vv : XmlVar × Val} (hL : ∀ xs, vv.2 = .list xs → xs.length ≤ L)
    (hj : L + 2 ≤ j) : remJ j vv = [] := by
  obtain ⟨v, x⟩ := vv
  cases x with
  | list xs =>
    have := hL xs rfl
    simp [remJ, List.drop_eq_nil_of_le (by omega : xs.length ≤ j)]
  | _ => have : j ≠ 0 := by omega
         simp [remJ, this]

/-- one step of the fold of round `j` -/
def rollStep (j : Nat) (st : Bool × List (XmlVar × Val)) (vv : XmlVar × Val) :
    Bool × List (XmlVar × Val) :=
  match vv.2 with
  | .list xs =>
    match xs[j]? with
    | some x => (true, st.2 ++ emitOfN vv.1 x)
    | none => st
  | v => if j = 0 then (true, st.2 ++ emitOfN vv.1 v) else st

theorem rollStep_eq (j : Nat) (st : Bool × List (XmlVar × Val)) (vv : XmlVar × Val) :
    rollStep j st vv = (st.1 || rollsJ j vv, st.2 ++ roundJ j vv) := by
  obtain ⟨v, x⟩ := vv
  cases x with
  | list xs =>
    simp only [rollStep, rollsJ, roundJ]
    cases xs[j]? <;> simp
  | _ => by_cases h : j = 0 <;> simp [rollStep, rollsJ, roundJ, h]

/-- the fold of one round -/
theorem roll_fold (j : Nat) : ∀ (vals : List (XmlVar × Val)) (st : Bool × List (XmlVar × Val)),
    vals.foldl (rollStep j) st = (st.1 || vals.any (rollsJ j), st.2 ++ vals.flatMap (roundJ j)) := by
  intro vals
  induction vals with
  | nil => intro st; simp
  | cons vv t ih =>
    intro st
    rw [List.foldl_cons, rollStep_eq, ih]
    simp [Bool.or_assoc]

theorem foldl_congr_mem {α β : Type} (f g : β → α → β) : ∀ (l : List α) (b : β),
    (∀ st, ∀ x ∈ l, f st x = g st x) → l.foldl f b = l.foldl g b
  | [], _, _ => rfl
  | x :: t, b, h => by
    rw [List.foldl_cons, List.foldl_cons, h b x (by simp)]
    exact foldl_congr_mem f g t _ (fun st y hy => h st y (by simp [hy]))

/-- a fold over vars without token lists is the fold of `rollStep` (a token list is handed over
whole, `rollStep` does not know about that) -/
theorem foldl_rollStep (j : Nat) (g : Bool × List (XmlVar × Val) → XmlVar × Val → Bool × List (XmlVar × Val))
    (vals : List (XmlVar × Val)) (hnt : ∀ vv ∈ vals, vv.1.tokens = false)
    (hg : ∀ st vv, vv.1.tokens = false → g st vv = rollStep j st vv) (b : Bool × List (XmlVar × Val)) :
    vals.foldl g b = vals.foldl (rollStep j) b :=
  foldl_congr_mem g (rollStep j) vals b (fun st vv hvv => hg st vv (hnt vv hvv))

theorem roll_succ (f j : Nat) (vals acc : List (XmlVar × Val)) (hnt : ∀ vv ∈ vals, vv.1.tokens = false) :
    nextValue.roll emitOfN (f + 1) j vals acc =
      if vals.any (rollsJ j) then nextValue.roll emitOfN f (j + 1) vals (acc ++ vals.flatMap (roundJ j))
      else acc := by
  rw [nextValue.roll]
  generalize hfold : List.foldl _ (false, ([] : List (XmlVar × Val))) vals = r
  have h2 : vals.foldl (rollStep j) (false, []) = r := by
    rw [← hfold]
    symm
    apply foldl_rollStep j _ vals hnt
    intro st vv ht
    obtain ⟨v, x⟩ := vv
    simp only at ht
    cases x <;> simp only [rollStep, ht, Bool.not_false, Bool.or_true, if_true]
    rename_i xs
    cases xs[j]? <;> rfl
  rw [roll_fold] at h2
  subst h2
  simp only [Bool.false_or, List.nil_append]

/-- chunks of round `j` that belong to field `k` -/
theorem filter_round (k : Str) (j : Nat) : ∀ (vals : List (XmlVar × Val)),
    (vals.map (·.1.name)).Nodup →
    (vals.flatMap (roundJ j)).filter (fun c => c.1.name = k) =
      match vals.find? (fun vv => vv.1.name = k) with
      | some vv => roundJ j vv
      | none => [] := by
  have hone : ∀ vv : XmlVar × Val, (roundJ j vv).filter (fun c => c.1.name = k) =
      if vv.1.name = k then roundJ j vv else [] := by
    intro vv
    have hvar : ∀ c ∈ roundJ j vv, c.1 = vv.1 := by
      intro c hc
      obtain ⟨v, x⟩ := vv
      have hem : ∀ y, c ∈ emitOfN v y → c.1 = v := fun y hy => by rw [(mem_emitOfN hy).1]
      cases x with
      | list xs =>
        simp only [roundJ] at hc
        cases hj : xs[j]? with
        | none => simp [hj] at hc
        | some y => rw [hj] at hc; exact hem y hc
      | _ =>
        simp only [roundJ] at hc
        split at hc
        · exact hem _ hc
        · cases hc
    by_cases hk : vv.1.name = k
    · simp only [hk, if_true]
      rw [List.filter_eq_self]
      intro c hc; simp [hvar c hc, hk]
    · simp only [hk, if_false]
      rw [List.filter_eq_nil_iff]
      intro c hc; simp [hvar c hc, hk]
  intro vals
  induction vals with
  | nil => intro _; rfl
  | cons vv t ih =>
    intro hnd
    simp only [List.map_cons, List.nodup_cons] at hnd
    simp only [List.flatMap_cons, List.filter_append, hone, List.find?_cons]
    by_cases hk : vv.1.name = k
    · have hnone : t.find? (fun vv => vv.1.name = k) = none := by
        simp only [List.find?_eq_none, decide_eq_true_eq]
        intro w hw heq
        exact hnd.1 (List.mem_map.2 ⟨w, hw, by rw [heq, hk]⟩)
      simp [hk, ih hnd.2, hnone]
    · simp [hk, ih hnd.2]

/-- **the roll, per field**: the chunks of field `k`, in order, are its remaining items -/
theorem roll_filter (k : Str) (vals : List (XmlVar × Val)) (L : Nat)
    (hL : ∀ vv ∈ vals, ∀ xs, vv.2 = .list xs → xs.length ≤ L) (hnd : (vals.map (·.1.name)).Nodup)
    (hnt : ∀ vv ∈ vals, vv.1.tokens = false) :
    ∀ (fuel j : Nat) (acc : List (XmlVar × Val)), L + 2 ≤ fuel + j →
    (nextValue.roll emitOfN fuel j vals acc).filter (fun c => c.1.name = k) =
      acc.filter (fun c => c.1.name = k) ++
        (match vals.find? (fun vv => vv.1.name = k) with
         | some vv => remJ j vv
         | none => []) := by
  intro fuel
  induction fuel with
  | zero =>
    intro j acc hb
    rw [nextValue.roll]
    cases hf : vals.find? (fun vv => vv.1.name = k) with
    | none => simp
    | some vv =>
      have hmem := List.mem_of_find?_eq_some hf
      have := remJ_nil_of_big (hL vv hmem) (by omega : L + 2 ≤ j)
      simp [this]
  | succ f ih =>
    intro j acc hb
    rw [roll_succ _ _ _ _ hnt]
    by_cases hr : vals.any (rollsJ j) = true
    · simp only [hr, if_true]
      rw [ih (j + 1) _ (by omega), List.filter_append, filter_round k j vals hnd]
      cases hf : vals.find? (fun vv => vv.1.name = k) with
      | none => simp
      | some vv => simp [remJ_step j vv]
    · have hr' : vals.any (rollsJ j) = false := by simpa using hr
      simp only [hr', Bool.false_eq_true, if_false]
      cases hf : vals.find? (fun vv => vv.1.name = k) with
      | none => simp
      | some vv =>
        have hmem := List.mem_of_find?_eq_some hf
        have : rollsJ j vv = false := by
          simp only [List.any_eq_false] at hr'
          simpa using hr' vv hmem
        simp [remJ_nil_of_not_rolls this]


theorem mem_roundJ {j : Nat} {vv : XmlVar × Val} {c : XmlVar × Val} (h : c ∈ roundJ j vv) :
    c.1 = vv.1 ∧ (c.2 ≠ .none ∨ vv.1.nillable = true) ∧
      (c.2 = vv.2 ∨ ∃ xs, vv.2 = .list xs ∧ c.2 ∈ xs) := by
  obtain ⟨v, x⟩ := vv
  cases x with
  | list xs =>
    simp only [roundJ] at h
    cases hj : xs[j]? with
    | none => simp [hj] at h
    | some y =>
      rw [hj] at h
      obtain ⟨rfl, hem⟩ := mem_emitOfN h
      exact ⟨rfl, hem, Or.inr ⟨xs, rfl, List.mem_of_getElem? hj⟩⟩
  | _ =>
    simp only [roundJ] at h
    split at h
    · obtain ⟨rfl, hem⟩ := mem_emitOfN h
      exact ⟨rfl, hem, Or.inl rfl⟩
    · cases h

theorem mem_roll {vals : List (XmlVar × Val)} {c : XmlVar × Val}
    (hnt : ∀ vv ∈ vals, vv.1.tokens = false) :
    ∀ (fuel j : Nat) (acc : List (XmlVar × Val)), c ∈ nextValue.roll emitOfN fuel j vals acc →
    c ∈ acc ∨ ∃ vv ∈ vals, ∃ j', c ∈ roundJ j' vv := by
  intro fuel
  induction fuel with
  | zero => intro j acc h; rw [nextValue.roll] at h; exact Or.inl h
  | succ f ih =>
    intro j acc h
    rw [roll_succ _ _ _ _ hnt] at h
    split at h
    · rcases ih _ _ h with h' | h'
      · rcases List.mem_append.1 h' with h'' | h''
        · exact Or.inl h''
        · obtain ⟨vv, hvv, hc⟩ := List.mem_flatMap.1 h''
          exact Or.inr ⟨vv, hvv, j, hc⟩
      · exact Or.inr h'
    · exact Or.inl h

/-- the items of the chunks a field value is rolled into are the items of the value -/
theorem remJ_items {v : XmlVar} {x : Val} (hs : Shape v x) (ht : v.tokens = false)
    (hn : ∀ y ∈ itemsN v x, y = .none → v.nillable = true) :
    (remJ 0 (v, x)).flatMap (fun c => itemsN c.1 c.2) = itemsN v x := by
  have hemit : ∀ y, (emitOfN v y).flatMap (fun c => itemsN c.1 c.2) = itemsN v y := by
    intro y
    unfold emitOfN
    cases y with
    | none => by_cases h : v.nillable = true <;> simp [itemsN, h]
    | _ => simp
  cases hs with
  | list xs _ hl harr =>
    have hitems : itemsN v (.list xs) = xs := by simp [itemsN, ht]
    rw [hitems] at hn ⊢
    clear hitems
    simp only [remJ, List.drop_zero]
    induction xs with
    | nil => rfl
    | cons y t ih =>
      rw [List.flatMap_cons, List.flatMap_append, hemit,
        ih (fun z hz => harr z (by simp [hz])) (fun z hz => hn z (by simp [hz]))]
      have hy : itemsN v y = [y] := by
        have ha := harr y (by simp)
        cases y with
        | none => simp [itemsN, hn .none (by simp) rfl]
        | list l => simp [Val.isArray] at ha
        | _ => rfl
      rw [hy]; rfl
  | toks ys ht' _ _ => rw [ht] at ht'; cases ht'
  | tokLists yss ht' _ _ => rw [ht] at ht'; cases ht'
  | none _ _ => simp [remJ, hemit]
  | prim p _ _ => simp [remJ, hemit]
  | obj c fs _ _ => simp [remJ, hemit]
  | any q t tl a k _ _ => simp [remJ, hemit]
  | seqItem _ _ harr =>
    cases x with
    | list l => simp [Val.isArray] at harr
    | _ => simp [remJ, hemit]


/-! ### `next_value` as a whole -/

/-- what the proof needs to know about an element var and its field value -/
structure VarSeq (fields : List (Str × Val)) (var : XmlVar) : Prop where
  mem : var.name ∈ fields.map (·.1)
  shape : Shape var (look fields var.name)
  nones : ∀ y ∈ itemsN var (look fields var.name), y = .none → var.nillable = true

/-- the pairs `next_value` yields for the vars `rest`: every pair is a well-shaped emitted chunk of
one of the vars, and the chunks of each var carry its items in order -/
def GoSpec (fields : List (Str × Val)) (rest : List XmlVar) (R : List (XmlVar × Val)) : Prop :=
  (∀ c ∈ R, c.1 ∈ rest ∧ Shape c.1 c.2 ∧ (c.2 ≠ .none ∨ c.1.nillable = true) ∧
    (c.2.isArray = true → c.2 = look fields c.1.name)) ∧
  (∀ k, (R.filter (fun c => c.1.name = k)).flatMap (fun c => itemsN c.1 c.2) =
      match rest.find? (fun v => v.name = k) with
      | some var => itemsN var (look fields var.name)
      | none => [])

theorem GoSpec_nil (fields : List (Str × Val)) : GoSpec fields [] [] :=
  ⟨(fun _ h => by cases h), fun _ => rfl⟩

theorem GoSpec.append {fields : List (Str × Val)} {r1 r2 : List XmlVar} {R1 R2 : List (XmlVar × Val)}
    (h1 : GoSpec fields r1 R1) (h2 : GoSpec fields r2 R2)
    (hd : ∀ a ∈ r1, ∀ b ∈ r2, a.name ≠ b.name) : GoSpec fields (r1 ++ r2) (R1 ++ R2) := by
  constructor
  · intro c hc
    rcases List.mem_append.1 hc with h | h
    · obtain ⟨a, b⟩ := h1.1 c h; exact ⟨List.mem_append_left _ a, b⟩
    · obtain ⟨a, b⟩ := h2.1 c h; exact ⟨List.mem_append_right _ a, b⟩
  · intro k
    rw [List.filter_append, List.flatMap_append, h1.2 k, h2.2 k, List.find?_append]
    cases hf1 : r1.find? (fun v => v.name = k) with
    | some var =>
      -- then no var of `r2` has this name
      have hmem := List.mem_of_find?_eq_some hf1
      have hk := List.find?_some hf1
      simp only [decide_eq_true_eq] at hk
      have : r2.find? (fun v => v.name = k) = none := by
        simp only [List.find?_eq_none, decide_eq_true_eq]
        intro b hb hbk
        exact hd var hmem b hb (by rw [hk, hbk])
      simp [this]
    | none => simp

theorem GoSpec_single {fields : List (Str × Val)} {var : XmlVar} (hv : VarSeq fields var) :
    GoSpec fields [var] (emitOfN var (look fields var.name)) := by
  constructor
  · intro c hc
    obtain ⟨rfl, hem⟩ := mem_emitOfN hc
    exact ⟨by simp, hv.shape, hem, fun _ => rfl⟩
  · intro k
    have hitems : (emitOfN var (look fields var.name)).flatMap (fun c => itemsN c.1 c.2) =
        itemsN var (look fields var.name) := by
      unfold emitOfN
      cases hx : look fields var.name with
      | none => by_cases h : var.nillable = true <;> simp [itemsN, h]
      | _ => simp
    by_cases hk : var.name = k
    · subst hk
      have : (emitOfN var (look fields var.name)).filter (fun c => c.1.name = var.name) =
          emitOfN var (look fields var.name) := by
        rw [List.filter_eq_self]; intro c hc; rw [(mem_emitOfN hc).1]; simp
      simp [this, hitems]
    · have : (emitOfN var (look fields var.name)).filter (fun c => c.1.name = k) = [] := by
        rw [List.filter_eq_nil_iff]; intro c hc; rw [(mem_emitOfN hc).1]; simp [hk]
      simp [this, hk]

theorem foldl_bound (g : Nat → XmlVar × Val → Nat)
    (hg : ∀ n vv, n ≤ g n vv ∧ ∀ xs, vv.2 = .list xs → xs.length ≤ g n vv) :
    ∀ (vals : List (XmlVar × Val)) (n0 : Nat),
    n0 ≤ vals.foldl g n0 ∧ ∀ vv ∈ vals, ∀ xs, vv.2 = .list xs → xs.length ≤ vals.foldl g n0 := by
  intro vals
  induction vals with
  | nil => intro n0; exact ⟨Nat.le_refl _, fun _ h => by cases h⟩
  | cons a t ih =>
    intro n0
    simp only [List.foldl_cons]
    obtain ⟨h1, h2⟩ := ih (g n0 a)
    constructor
    · exact Nat.le_trans (hg n0 a).1 h1
    · intro vv hvv xs hxs
      rcases List.mem_cons.1 hvv with rfl | hvt
      · exact Nat.le_trans ((hg n0 vv).2 xs hxs) h1
      · exact h2 vv hvt xs hxs

/-- the chunks of one rolled group -/
theorem GoSpec_slice {fields : List (Str × Val)} {slice : List XmlVar}
    (hv : ∀ var ∈ slice, VarSeq fields var) (hnd : (slice.map (·.name)).Nodup)
    (htok : ∀ var ∈ slice, var.tokens = false) (fuel L : Nat)
    (hL : ∀ vv ∈ slice.map (fun v => (v, look fields v.name)), ∀ xs, vv.2 = .list xs → xs.length ≤ L)
    (hfuel : L + 2 ≤ fuel) :
    GoSpec fields slice
      (nextValue.roll emitOfN fuel 0 (slice.map fun v => (v, look fields v.name)) []) := by
  have hnt : ∀ vv ∈ slice.map (fun v => (v, look fields v.name)), vv.1.tokens = false := by
    intro vv hvv
    obtain ⟨v, hvs, rfl⟩ := List.mem_map.1 hvv
    exact htok v hvs
  constructor
  · intro c hc
    rcases mem_roll hnt _ _ _ hc with h | ⟨vv, hvv, j', hcj⟩
    · cases h
    · obtain ⟨v, hvs, rfl⟩ := List.mem_map.1 hvv
      obtain ⟨hc1, hem, hc2⟩ := mem_roundJ hcj
      simp only at hc1 hem hc2
      rw [hc1]
      refine ⟨hvs, ?_, hem, ?_⟩
      · rcases hc2 with h | ⟨xs, hx, hy⟩
        · rw [h]; exact (hv v hvs).shape
        · have hs := (hv v hvs).shape
          rw [hx] at hs
          have ht := htok v hvs
          cases hs with
          | list _ _ hl harr => exact Shape.seqItem ht hl (harr _ hy)
          | toks _ ht' _ _ => rw [ht] at ht'; cases ht'
          | tokLists _ ht' _ _ => rw [ht] at ht'; cases ht'
          | seqItem _ _ harr => simp [Val.isArray] at harr
      · intro harr
        rcases hc2 with h | ⟨xs, hx, hy⟩
        · exact h
        · exfalso
          have hs := (hv v hvs).shape
          rw [hx] at hs
          have ht := htok v hvs
          cases hs with
          | list _ _ hl harr' => rw [harr' _ hy] at harr; cases harr
          | toks _ ht' _ _ => rw [ht] at ht'; cases ht'
          | tokLists _ ht' _ _ => rw [ht] at ht'; cases ht'
          | seqItem _ _ harr' => simp [Val.isArray] at harr'
  · intro k
    have hnd' : ((slice.map fun v => (v, look fields v.name)).map (·.1.name)).Nodup := by
      rw [List.map_map]; exact hnd
    rw [roll_filter k _ L hL hnd' hnt fuel 0 [] (by omega)]
    simp only [List.filter_nil, List.nil_append, List.find?_map]
    cases hf : slice.find? ((fun vv : XmlVar × Val => decide (vv.1.name = k)) ∘ fun v => (v, look fields v.name)) with
    | none =>
      have : slice.find? (fun v => v.name = k) = none := by simpa [Function.comp_def] using hf
      simp [this]
    | some v =>
      have hf' : slice.find? (fun v => v.name = k) = some v := by simpa [Function.comp_def] using hf
      have hvs := List.mem_of_find?_eq_some hf'
      simp only [Option.map_some, hf']
      exact remJ_items (hv v hvs).shape (htok v hvs) (hv v hvs).nones


theorem sliceLen_pos (rest : List XmlVar) (sq : Nat) : 1 ≤ sliceLen rest sq := by
  unfold sliceLen; omega

/-- **`next_value`**: for element vars whose token-list vars stay outside the `sequence` groups -/
theorem go_spec (fields : List (Str × Val)) : ∀ (fuel : Nat) (rest : List XmlVar)
    (acc : List (XmlVar × Val)), rest.length < fuel → (∀ var ∈ rest, VarSeq fields var) →
    (rest.map (·.name)).Nodup → seqOK fuel rest = true →
    ∃ R, nextValue.go fields emitOfN fuel rest acc = .ok (acc ++ R) ∧ GoSpec fields rest R := by
  intro fuel
  induction fuel with
  | zero => intro rest acc h; omega
  | succ f ih =>
    intro rest acc hlen hv hnd hseq
    cases rest with
    | nil => exact ⟨[], by simp [nextValue.go], GoSpec_nil fields⟩
    | cons var tl =>
      simp only [List.map_cons, List.nodup_cons] at hnd
      cases hsq : var.sequence with
      | none =>
        have hseq' : seqOK f tl = true := by simpa [seqOK, hsq] using hseq
        obtain ⟨R, hR, hspec⟩ := ih tl (acc ++ emitOfN var (look fields var.name))
          (by simp at hlen; omega) (fun w hw => hv w (by simp [hw])) hnd.2 hseq'
        refine ⟨emitOfN var (look fields var.name) ++ R, ?_, ?_⟩
        · simp only [nextValue.go, hsq, getField_look (hv var (by simp)).mem, bind, Except.bind]
          rw [hR]; simp
        · have := (GoSpec_single (hv var (by simp))).append hspec (by
            intro a ha b hb heq
            simp only [List.mem_singleton] at ha; subst ha
            exact hnd.1 (List.mem_map.2 ⟨b, hb, heq.symm⟩))
          simpa using this
      | some sq =>
        have hk := sliceLen_pos (var :: tl) sq
        generalize hkdef : sliceLen (var :: tl) sq = k at hk
        have hseq' : ((var :: tl).take k).all (fun w => !w.tokens && w.wrapperQName.isNone) = true ∧
            seqOK f ((var :: tl).drop k) = true := by
          simpa [seqOK, hsq, hkdef] using hseq
        have hndAll : ((var :: tl).map (·.name)).Nodup := by
          simp only [List.map_cons, List.nodup_cons]; exact hnd
        have hsplit : (var :: tl) = (var :: tl).take k ++ (var :: tl).drop k := (List.take_append_drop k _).symm
        have hndSplit : (((var :: tl).take k).map (·.name)).Nodup ∧ (((var :: tl).drop k).map (·.name)).Nodup ∧
            ∀ a ∈ (var :: tl).take k, ∀ b ∈ (var :: tl).drop k, a.name ≠ b.name := by
          have := hndAll
          rw [hsplit, List.map_append, List.nodup_append] at this
          refine ⟨this.1, this.2.1, fun a ha b hb => ?_⟩
          exact this.2.2 a.name (List.mem_map.2 ⟨a, ha, rfl⟩) b.name (List.mem_map.2 ⟨b, hb, rfl⟩)
        -- unfold `next_value` up to the roll
        have hk' : (((List.range (var :: tl).length).filter
            (fun i => ((var :: tl)[i]?.bind (·.sequence)) = some sq)).getLast?.getD 0) + 1 = k := hkdef
        rw [nextValue.go]
        simp only [hsq, hk', bind, Except.bind]
        rw [mapM_ok _ (fun v => (v, look fields v.name)) ((var :: tl).take k) (by
          intro v hvm
          have := (hv v (List.mem_of_mem_take hvm)).mem
          simp [getField_look this, pure, Except.pure])]
        simp only []
        generalize hG : List.foldl _ 1 (((var :: tl).take k).map fun v => (v, look fields v.name)) = mx
        obtain ⟨_, hb2⟩ : 1 ≤ mx ∧ ∀ vv ∈ ((var :: tl).take k).map (fun v => (v, look fields v.name)),
            ∀ xs, vv.2 = .list xs → xs.length ≤ mx := by
          rw [← hG]
          exact foldl_bound _ (by
            intro n vv
            constructor
            · split
              · exact Nat.le_max_left _ _
              · exact Nat.le_refl _
            · intro xs hxs; simp only [hxs]; exact Nat.le_max_right _ _) _ _
        have hslice := GoSpec_slice (fields := fields) (slice := (var :: tl).take k)
          (fun v hvm => hv v (List.mem_of_mem_take hvm)) hndSplit.1
          (fun v hvm => by
            have := List.all_eq_true.1 hseq'.1 v hvm
            simp only [Bool.and_eq_true, Bool.not_eq_true'] at this
            exact this.1) (mx + 2) mx hb2 (Nat.le_refl _)
        generalize hro : nextValue.roll emitOfN (mx + 2) 0
            (((var :: tl).take k).map fun v => (v, look fields v.name)) [] = rollOut at hslice
        obtain ⟨R, hR, hspec⟩ := ih ((var :: tl).drop k) (acc ++ rollOut)
          (by simp only [List.length_drop, List.length_cons] at hlen ⊢; omega)
          (fun w hw => hv w (List.mem_of_mem_drop hw)) hndSplit.2.1 hseq'.2
        refine ⟨rollOut ++ R, ?_, ?_⟩
        · rw [hR]; simp
        · have := hslice.append hspec hndSplit.2.2
          rw [← hsplit] at this
          exact this


theorem nextValue_spec (m : XmlMeta) (fields : List (Str × Val))
    (hv : ∀ var ∈ m.elementVars, VarSeq fields var) (hnd : (m.elementVars.map (·.name)).Nodup)
    (hseq : seqOK (m.elementVars.length + 1) m.elementVars = true) :
    ∃ R, nextValue m fields = .ok R ∧ GoSpec fields m.elementVars R := by
  obtain ⟨R, hR, hspec⟩ := go_spec fields (m.elementVars.length + 1) m.elementVars []
    (Nat.lt_succ_self _) hv hnd hseq
  refine ⟨R, ?_, hspec⟩
  unfold nextValue
  simp only [List.nil_append] at hR
  exact hR


/-! ### entries in any order -/

theorem filter_length_mono {α : Type} (p q : α → Bool) :
    ∀ l : List α, (∀ a ∈ l, p a = true → q a = true) → (l.filter p).length ≤ (l.filter q).length := by
  intro l
  induction l with
  | nil => intro _; simp
  | cons a t ih =>
    intro h
    have iht := ih (fun b hb => h b (by simp [hb]))
    simp only [List.filter_cons]
    by_cases hp : p a = true
    · simp [hp, h a (by simp) hp]; omega
    · have hp' : p a = false := by simpa using hp
      by_cases hq : q a = true <;> simp [hp', hq] <;> omega

theorem eq_of_nodup_index {l : List XmlVar} (h : (l.map (·.index)).Nodup) {a b : XmlVar}
    (ha : a ∈ l) (hb : b ∈ l) (hq : a.index = b.index) : a = b := by
  induction l with
  | nil => cases ha
  | cons v t ih =>
    simp only [List.map_cons, List.nodup_cons] at h
    rcases List.mem_cons.1 ha with rfl | ha' <;> rcases List.mem_cons.1 hb with rfl | hb'
    · rfl
    · exact absurd (List.mem_map.2 ⟨b, hb', hq.symm⟩) h.1
    · exact absurd (List.mem_map.2 ⟨a, ha', hq⟩) h.1
    · exact ih h.2 ha' hb'

/-- the number of entries of a non-list element var with index `idx` -/
def cntIdx (E : List (XmlVar × Val)) (idx : Nat) : Nat :=
  (E.filter (fun en => !multi en.1 && decide (en.1.index = idx))).length

theorem AssignedOK_of_cnt : ∀ (E : List (XmlVar × Val)) (asg : List Nat),
    (∀ idx, cntIdx E idx ≤ 1 ∧ (idx ∈ asg → cntIdx E idx = 0)) → AssignedOKN asg E := by
  intro E
  induction E with
  | nil => intro _ _; trivial
  | cons en r ih =>
    intro asg h
    obtain ⟨var, y⟩ := en
    by_cases hl : multi var = true
    · simp only [AssignedOKN, hl, if_true]
      apply ih
      intro idx
      have := h idx
      simpa [cntIdx, List.filter_cons, hl] using this
    · have hl' : multi var = false := by simpa using hl
      simp only [AssignedOKN, hl', Bool.false_eq_true, if_false]
      have hcons : ∀ idx, cntIdx ((var, y) :: r) idx =
          (if var.index = idx then 1 else 0) + cntIdx r idx := by
        intro idx
        by_cases hi : var.index = idx <;> simp [cntIdx, List.filter_cons, hl', hi] <;> omega
      have h0 := h var.index
      rw [hcons] at h0
      simp only [if_true] at h0
      refine ⟨fun hmem => by have := h0.2 hmem; omega, ih _ ?_⟩
      intro idx
      have hi := h idx
      rw [hcons] at hi
      refine ⟨by omega, fun hmem => ?_⟩
      rcases List.mem_cons.1 hmem with rfl | hm
      · omega
      · have := hi.2 hm; omega

theorem filter_flatMap_chunkEntries (k : Str) (R : List (XmlVar × Val)) :
    (R.flatMap chunkEntries).filter (fun en => en.1.name = k) =
      (R.filter (fun c => c.1.name = k)).flatMap chunkEntries := by
  induction R with
  | nil => rfl
  | cons c t ih =>
    simp only [List.flatMap_cons, List.filter_append, ih, List.filter_cons]
    by_cases hk : c.1.name = k
    · have : (chunkEntries c).filter (fun en => en.1.name = k) = chunkEntries c := by
        rw [List.filter_eq_self]; intro en hen
        simp only [chunkEntries, List.mem_map] at hen
        obtain ⟨y, _, rfl⟩ := hen; simp [hk]
      simp [hk, this]
    · have : (chunkEntries c).filter (fun en => en.1.name = k) = [] := by
        rw [List.filter_eq_nil_iff]; intro en hen
        simp only [chunkEntries, List.mem_map] at hen
        obtain ⟨y, _, rfl⟩ := hen; simp [hk]
      simp [hk, this]

theorem flatMap_chunkEntries_var {var : XmlVar} : ∀ (L : List (XmlVar × Val)), (∀ c ∈ L, c.1 = var) →
    L.flatMap chunkEntries = (L.flatMap fun c => itemsN c.1 c.2).map fun y => (var, y) := by
  intro L
  induction L with
  | nil => intro _; rfl
  | cons c t ih =>
    intro h
    have hc := h c (by simp)
    simp only [List.flatMap_cons, List.map_append, ih (fun c' hc' => h c' (by simp [hc']))]
    congr 1
    simp [chunkEntries, hc]

theorem find?_name_of_mem {l : List XmlVar} (hnd : (l.map (·.name)).Nodup) {v : XmlVar} (hv : v ∈ l) :
    l.find? (fun w => w.name = v.name) = some v := by
  induction l with
  | nil => cases hv
  | cons a t ih =>
    simp only [List.map_cons, List.nodup_cons] at hnd
    rcases List.mem_cons.1 hv with rfl | ht
    · simp
    · have hne : a.name ≠ v.name := by
        intro heq; exact hnd.1 (List.mem_map.2 ⟨v, ht, heq.symm⟩)
      simp [List.find?_cons, hne, ih hnd.2 ht]

theorem eq_of_nodup_name {l : List XmlVar} (h : (l.map (·.name)).Nodup) {a b : XmlVar}
    (ha : a ∈ l) (hb : b ∈ l) (hq : a.name = b.name) : a = b := by
  have h1 := find?_name_of_mem h ha
  have h2 := find?_name_of_mem h hb
  rw [hq] at h1
  rw [h1] at h2
  exact Option.some.inj h2

/-- the entries of one var, in document order -/
theorem entries_of_var {fields : List (Str × Val)} {vars : List XmlVar} {R : List (XmlVar × Val)}
    (hspec : GoSpec fields vars R) (hnd : (vars.map (·.name)).Nodup) {var : XmlVar} (hv : var ∈ vars) :
    (R.flatMap chunkEntries).filter (fun en => en.1.name = var.name) =
      (itemsN var (look fields var.name)).map fun y => (var, y) := by
  rw [filter_flatMap_chunkEntries, flatMap_chunkEntries_var (var := var)]
  · rw [hspec.2 var.name, find?_name_of_mem hnd hv]
  · intro c hc
    simp only [List.mem_filter, decide_eq_true_eq] at hc
    exact eq_of_nodup_name hnd (hspec.1 c hc.1).1 hv hc.2

theorem mem_entries {fields : List (Str × Val)} {vars : List XmlVar} {R : List (XmlVar × Val)}
    (hspec : GoSpec fields vars R) (hnd : (vars.map (·.name)).Nodup) {en : XmlVar × Val}
    (hen : en ∈ R.flatMap chunkEntries) : en.1 ∈ vars ∧ en.2 ∈ itemsN en.1 (look fields en.1.name) := by
  obtain ⟨c, hc, hec⟩ := List.mem_flatMap.1 hen
  simp only [chunkEntries, List.mem_map] at hec
  obtain ⟨y, hy, rfl⟩ := hec
  have hcv := (hspec.1 c hc).1
  refine ⟨hcv, ?_⟩
  have hmem : (c.1, y) ∈ (R.flatMap chunkEntries).filter (fun en => en.1.name = c.1.name) := by
    simp only [List.mem_filter, decide_eq_true_eq, and_true]
    exact hen
  rw [entries_of_var hspec hnd hcv] at hmem
  simp only [List.mem_map] at hmem
  obtain ⟨y', hy', heq⟩ := hmem
  cases heq
  exact hy'

/-- `ElementNode.child` finds every non-list var unassigned, whatever the interleaving -/
theorem AssignedOK_spec {fields : List (Str × Val)} {vars : List XmlVar} {R : List (XmlVar × Val)}
    (hspec : GoSpec fields vars R) (hnd : (vars.map (·.name)).Nodup)
    (hidx : (vars.map (·.index)).Nodup)
    (hshort : ∀ var ∈ vars, var.listElement = false → (itemsN var (look fields var.name)).length ≤ 1) :
    AssignedOKN [] (R.flatMap chunkEntries) := by
  apply AssignedOK_of_cnt
  intro idx
  refine ⟨?_, fun h => by cases h⟩
  by_cases hex : ∃ v ∈ vars, v.index = idx ∧ multi v = false
  · obtain ⟨v, hv, hvi, hvm⟩ := hex
    have hvl := (multi_false hvm).2
    have hle : cntIdx (R.flatMap chunkEntries) idx ≤
        ((R.flatMap chunkEntries).filter (fun en => en.1.name = v.name)).length := by
      unfold cntIdx
      apply filter_length_mono
      intro en hen hp
      simp only [Bool.and_eq_true, Bool.not_eq_true', decide_eq_true_eq] at hp
      have hev := (mem_entries hspec hnd hen).1
      have : en.1 = v := eq_of_nodup_index hidx hev hv (by rw [hp.2, hvi])
      simp [this]
    rw [entries_of_var hspec hnd hv, List.length_map] at hle
    exact Nat.le_trans hle (hshort v hv hvl)
  · have : cntIdx (R.flatMap chunkEntries) idx = 0 := by
      unfold cntIdx
      rw [List.length_eq_zero_iff, List.filter_eq_nil_iff]
      intro en hen hp
      simp only [Bool.and_eq_true, Bool.not_eq_true', decide_eq_true_eq] at hp
      exact hex ⟨en.1, (mem_entries hspec hnd hen).1, hp.2, hp.1⟩
    omega

end Proofs.C01
