"""Support code of the C12 (reproducible generation) check.

Nothing here changes xsdata's code.  Three kinds of stand-ins are installed
around it (all listed in the TRUSTED lines of props/c12.py):

* a minimal `click` (decorators + argument parser following click's documented
  option-name / destination rules) so that `xsdata.cli` imports and
  `xsdata.cli.generate` can be driven with a real argv list;
* a minimal template engine implementing xsdata's own Jinja templates
  (module/class/enum/package/service/imports) in Python on top of the *real*
  `Filters`, so that `CodeWriter.write` produces files whose bytes depend on
  everything the real templates consume (class order, imports, field types,
  metadata, defaults);
* `ShuffledSet`: a `set` subclass whose iteration order is an arbitrary, seeded
  permutation; injected as the global name `set` into the xsdata modules that
  call `set(...)`, it makes "the iteration order of a set" an explicit test
  parameter (much stronger than varying PYTHONHASHSEED).
"""
from __future__ import annotations

import hashlib
import importlib
import io
import json
import os
import sys
import tempfile
from pathlib import Path

HERE = os.path.dirname(os.path.abspath(__file__))


# ----------------------------------------------------------------------------
# click stand-in
# ----------------------------------------------------------------------------
class BadParameter(Exception):
    pass


class UsageError(Exception):
    pass


class ParamType:
    name = ""

    def convert(self, value, param=None, ctx=None):
        return value

    def fail(self, message, param=None, ctx=None):
        raise BadParameter(message)


class Choice(ParamType):
    def __init__(self, choices, case_sensitive=True):
        self.choices = list(choices)

    def convert(self, value, param=None, ctx=None):
        if value not in self.choices:
            raise BadParameter(f"{value!r} is not one of {self.choices}")
        return value


class PathType(ParamType):
    def __init__(self, *a, **k):
        pass


class Parameter:
    def __init__(self, decls, attrs, kind):
        self.kind = kind
        self.attrs = attrs
        self.type = attrs.get("type")
        self.is_flag = bool(attrs.get("is_flag"))
        self.default = attrs.get("default")
        self.opts, self.secondary = [], []
        explicit = None
        for d in decls:
            if kind == "argument":
                explicit = d
            elif d.isidentifier():
                explicit = d
            elif "/" in d:
                a, b = d.split("/", 1)
                self.opts.append(a)
                self.secondary.append(b)
                self.is_flag = True
            else:
                self.opts.append(d)
        if explicit is None:
            # click: the longest dashed name, dashes -> underscores
            longest = max(self.opts, key=lambda o: len(o.lstrip("-")))
            explicit = longest.lstrip("-").replace("-", "_")
        self.name = explicit

    def convert(self, value):
        t = self.type
        if t is None:
            return value
        if isinstance(t, ParamType):
            return t.convert(value, self, None)
        if t in (int, float, str):
            try:
                return t(value)
            except ValueError as e:
                raise BadParameter(str(e))
        return value


class Command:
    def __init__(self, name, callback, params):
        self.name = name
        self.callback = callback
        self.params = params

    def parse(self, argv):
        by_opt = {}
        for p in self.params:
            for o in p.opts:
                by_opt[o] = (p, True)
            for o in p.secondary:
                by_opt[o] = (p, False)
        values = {}
        positional = []
        i = 0
        argv = list(argv)
        while i < len(argv):
            tok = argv[i]
            i += 1
            if tok == "--":
                positional.extend(argv[i:])
                break
            if tok.startswith("-") and tok != "-":
                name, eq, val = tok.partition("=")
                if name not in by_opt:
                    raise UsageError(f"No such option: {name}")
                p, positive = by_opt[name]
                if p.is_flag:
                    if eq:
                        raise UsageError(f"Option {name} does not take a value")
                    values[p.name] = positive
                else:
                    if not eq:
                        if i >= len(argv):
                            raise UsageError(f"Option {name} requires an argument")
                        val = argv[i]
                        i += 1
                    values[p.name] = p.convert(val)
            else:
                positional.append(tok)
        args = [p for p in self.params if p.kind == "argument"]
        if len(positional) > len(args):
            raise UsageError("Got unexpected extra arguments")
        for p, v in zip(args, positional):
            values[p.name] = p.convert(v)
        kwargs = {}
        for p in self.params:
            if p.name in values:
                kwargs[p.name] = values[p.name]
            elif p.kind == "argument" and p.attrs.get("required") and p.default is None:
                raise UsageError(f"Missing argument {p.name}")
            else:
                kwargs[p.name] = p.default
        return kwargs

    def main(self, argv):
        return self.callback(**self.parse(argv))

    def __call__(self, *a, **k):
        return self.callback(*a, **k)


class Group(Command):
    def __init__(self, callback):
        super().__init__(callback.__name__, callback, [])
        self.commands = {}

    def command(self, name=None, **attrs):
        def deco(f):
            params = list(reversed(getattr(f, "__click_params__", [])))
            cmd = Command(name or f.__name__, f, params)
            self.commands[cmd.name] = cmd
            return cmd

        return deco


def _param_deco(kind):
    def factory(*decls, **attrs):
        def deco(f):
            if not hasattr(f, "__click_params__"):
                f.__click_params__ = []
            f.__click_params__.append(Parameter(decls, attrs, kind))
            return f

        return deco

    return factory


def install_fake_click():
    """Give the import shim `click` the few names xsdata.utils.click / xsdata.cli use."""
    import click

    if getattr(click, "_c12_fake", False):
        return click
    click._c12_fake = True
    click.ParamType = ParamType
    click.Choice = Choice
    click.Path = PathType
    click.Parameter = Parameter
    click.Command = Command
    click.Context = type("Context", (), {})
    click.BadParameter = BadParameter
    click.UsageError = UsageError
    click.option = _param_deco("option")
    click.argument = _param_deco("argument")
    click.group = lambda *a, **k: (lambda f: Group(f))
    click.pass_context = lambda f: f
    click.version_option = lambda *a, **k: (lambda f: f)
    click.style = lambda text, **k: text
    if not hasattr(click, "echo"):
        click.echo = lambda *a, **k: None
    return click


def cli_options():
    """[(dest, kind, opts, secondary)] of `@model_options(GeneratorOutput)` as the real
    `xsdata.utils.click.build_options` declares them."""
    install_fake_click()
    from xsdata.models.config import GeneratorOutput
    from xsdata.utils.click import model_options

    def probe():
        pass

    model_options(GeneratorOutput)(probe)
    out = []
    for p in reversed(probe.__click_params__):
        if p.is_flag:
            kind = "bool"
        elif p.type is int:
            kind = "int"
        else:
            kind = "str"
        out.append((p.name, kind, list(p.opts), list(p.secondary)))
    return out


# ----------------------------------------------------------------------------
# template stand-in (xsdata/formats/dataclass/templates/*.jinja2 in Python)
# ----------------------------------------------------------------------------
def _indent(text, n=4, first=False):
    lines = text.split("\n")
    pad = " " * n
    out = []
    for k, l in enumerate(lines):
        if (k == 0 and not first) or not l:
            out.append(l)
        else:
            out.append(pad + l)
    return "\n".join(out)


class _Template:
    def __init__(self, env, name):
        self.env = env
        self.name = name

    def render(self, **ctx):
        fn = getattr(self, "t_" + self.name.replace(".jinja2", ""))
        return fn(**ctx)

    # imports.jinja2
    def _imports(self, imports, module):
        f = self.env.filters
        groups = {}
        for imp in imports:
            groups.setdefault(imp.source, []).append(imp)
        out = []
        for source in sorted(groups):  # jinja's groupby sorts by the grouper
            items = groups[source]
            mod = f["import_module"](source, module)
            if len(items) == 1:
                out.append(f"from {mod} import {f['import_class'](items[0].name, alias=items[0].alias)}\n")
            else:
                out.append(f"from {mod} import (")
                for it in items:
                    out.append(f"\n    {f['import_class'](it.name, alias=it.alias)},")
                out.append("\n)\n")
        return "".join(out)

    def t_package(self, imports, module):
        f = self.env.filters
        out = [self._imports(imports, module), "__all__ = ["]
        groups = {}
        for imp in imports:
            groups.setdefault(imp.source, []).append(imp)
        for source in sorted(groups):
            for it in groups[source]:
                out.append('\n    "' + f["class_name"](it.alias if it.alias else it.name) + '",')
        out.append("\n]")
        return "".join(out)

    def t_module(self, output, classes, module, imports, namespace):
        f = self.env.filters
        out = [f["default_imports"](output), "\n", self._imports(imports, module)]
        if namespace:
            out.append(f'__NAMESPACE__ = "{namespace}"\n')
        out.append("\n\n" + output)
        return "".join(out)

    def _help(self, obj, level):
        f = self.env.filters
        if not obj.help and not obj.has_help_attr:
            return ""
        parts = ['"""' + f["clean_docstring"](obj.help) + '"""']
        if obj.has_help_attr:
            for name, doc in f["class_params"](obj):
                parts.append(f":ivar {name}: {doc}")
        return "\n".join(parts)

    def t_enum(self, obj, level=0, **ctx):
        f = self.env.filters
        cn = f["class_name"](obj.name)
        out = [f"class {cn}(Enum):"]
        h = self._help(obj, level)
        if h:
            out.append(_indent(h, 4, True))
        for attr in obj.attrs:
            out.append(f"    {f['constant_name'](attr.name, obj.name)} = {f['field_default'](attr, obj.ns_map)}")
        return "\n".join(out)

    def t_service(self, obj, **ctx):
        f = self.env.filters
        out = [f"class {f['class_name'](obj.name)}:"]
        for attr in obj.attrs:
            out.append(f"    {f['field_name'](attr.name, obj.name)} = {f['constant_value'](attr)}")
        return "\n".join(out)

    def t_class(self, obj, module_namespace=None, level=0, parent_namespace=None, **ctx):
        f = self.env.filters
        parent_namespace = obj.namespace if obj.namespace is not None else parent_namespace
        cn = f["class_name"](obj.name)
        ann = f["class_annotations"](obj, cn)
        global_type = level == 0 and not obj.local_type
        local_name = obj.meta_name or obj.name
        local_name = None if cn == local_name or not global_type else local_name
        bases = ", ".join(f["class_bases"](obj, cn))
        post = f["post_meta_hook"](obj)
        tns = obj.target_namespace if global_type and module_namespace != obj.target_namespace else None
        out = ["\n".join(ann), f"class {cn}" + (f"({bases})" if bases else "") + ":"]
        h = self._help(obj, level)
        if h:
            out.append(_indent(h, 4, True))
        if local_name or obj.is_nillable or obj.namespace is not None or tns or (obj.local_type and level == 0):
            out.append("    class Meta:")
            if obj.local_type:
                out.append("        global_type = False")
            if local_name:
                out.append(f'        name = "{local_name}"')
            if obj.is_nillable:
                out.append("        nillable = True")
            if obj.namespace is not None:
                out.append(f'        namespace = "{obj.namespace}"')
            if tns and tns != obj.namespace:
                out.append(f'        target_namespace = "{tns}"')
        elif len(obj.attrs) == 0 and not h:
            out.append("    pass")
        if post:
            out.append(_indent(post, 4, True))
        for attr in obj.attrs:
            typing = f["field_type"](obj, attr)
            definition = f["field_definition"](obj, attr, parent_namespace)
            out.append(f"    {f['field_name'](attr.name, obj.name)}: {typing} = {definition}")
        for inner in obj.inner:
            tpl = "enum" if inner.is_enumeration else "class"
            sub = getattr(self, "t_" + tpl)(
                obj=inner, module_namespace=module_namespace, level=level + 1, parent_namespace=parent_namespace
            )
            out.append(_indent("\n" + sub, 4))
        return "\n".join(out)


class StandInEnv:
    def __init__(self, *a, **k):
        self.filters = {}
        self.globals = {}
        self.tests = {}

    def get_template(self, name):
        return _Template(self, name)


def install_pipeline_patches():
    """Template engine stand-in; ruff formatting and the import-validation of the
    written package are side effects outside the property and are switched off."""
    install_fake_click()
    from xsdata.formats.dataclass import generator as G

    if getattr(G, "_c12_patched", False):
        return
    G._c12_patched = True
    G.Environment = StandInEnv
    G.DataclassGenerator.ruff_code = lambda self, file_paths: None
    G.DataclassGenerator.validate_imports = lambda self: None


# ----------------------------------------------------------------------------
# adversarial sets
# ----------------------------------------------------------------------------
_SHUFFLE_SEED = [None]
_REAL_SET = set


def shuffle_key(seed, e):
    return hashlib.sha1((str(seed) + "|" + repr(e)).encode("utf-8", "replace")).digest()


def shuffle_order(seed, items):
    """The order in which a ShuffledSet with this seed iterates `items` (distinct)."""
    out = []
    for x in items:
        if x not in out:
            out.append(x)
    return sorted(out, key=lambda e: shuffle_key(seed, e))


class ShuffledSet(set):
    """A set whose iteration order is a seeded pseudo-random permutation of its
    contents (independent of hashing and insertion order)."""

    def _key(self, e):
        return shuffle_key(_SHUFFLE_SEED[0], e)

    def __iter__(self):
        items = list(_REAL_SET.__iter__(self))
        try:
            items.sort(key=self._key)
        except Exception:  # noqa: BLE001
            pass
        return iter(items)

    def _wrap(self, s):
        return ShuffledSet(_REAL_SET.__iter__(s)) if not isinstance(s, ShuffledSet) else s

    def intersection(self, *o):
        return ShuffledSet(_REAL_SET.intersection(self, *o))

    def union(self, *o):
        return ShuffledSet(_REAL_SET.union(self, *o))

    def difference(self, *o):
        return ShuffledSet(_REAL_SET.difference(self, *o))

    def __sub__(self, o):
        return ShuffledSet(_REAL_SET.__sub__(self, o))

    def __and__(self, o):
        return ShuffledSet(_REAL_SET.__and__(self, o))

    def __or__(self, o):
        return ShuffledSet(_REAL_SET.__or__(self, o))

    def copy(self):
        return ShuffledSet(_REAL_SET.__iter__(self))


SET_MODULES = [
    "xsdata.utils.graphs",
    "xsdata.utils.collections",
    "xsdata.codegen.models",
    "xsdata.codegen.resolver",
    "xsdata.codegen.utils",
    "xsdata.codegen.validator",
    "xsdata.codegen.handlers.designate_class_packages",
    "xsdata.codegen.handlers.validate_references",
    "xsdata.codegen.handlers.detect_circular_references",
    "xsdata.codegen.handlers.disambiguate_choices",
    "xsdata.codegen.handlers.update_attributes_effective_choice",
    "xsdata.codegen.handlers.rename_duplicate_attributes",
    "xsdata.codegen.handlers.rename_duplicate_classes",
    "xsdata.codegen.handlers.flatten_class_extensions",
    "xsdata.codegen.handlers.validate_attributes_overrides",
    "xsdata.codegen.handlers.create_compound_fields",
    "xsdata.codegen.handlers.filter_classes",
    "xsdata.codegen.handlers.vacuum_inner_classes",
    "xsdata.codegen.mappers.schema",
    "xsdata.codegen.mappers.definitions",
    "xsdata.formats.dataclass.generator",
    "xsdata.formats.dataclass.filters",
    "toposort",
]


def set_shuffle(seed):
    """seed=None: the interpreter's own sets; otherwise every `set(...)` call in the
    listed modules yields a ShuffledSet permuted by `seed`."""
    _SHUFFLE_SEED[0] = seed
    for name in SET_MODULES:
        try:
            mod = importlib.import_module(name)
        except Exception:  # noqa: BLE001
            continue
        if seed is None:
            mod.__dict__.pop("set", None)
        else:
            mod.__dict__["set"] = ShuffledSet


# ----------------------------------------------------------------------------
# generation through the three routes
# ----------------------------------------------------------------------------
def _flags(options, cli_opts=None):
    """argv flags for an options dict {dest: value}"""
    cli_opts = cli_opts or cli_options()
    table = {d: (k, o, s) for d, k, o, s in cli_opts}
    argv = []
    for dest, val in options.items():
        kind, opts, secondary = table[dest]
        long = [o for o in opts if o.startswith("--")] or opts
        if kind == "bool":
            argv.append(long[0] if val else secondary[0])
        else:
            argv.extend([long[0], str(val)])
    return argv


def _api_config(options):
    """GeneratorConfig built the documented programmatic way: nested constructors."""
    from xsdata.models.config import (
        CompoundFields,
        DocstringStyle,
        GeneratorConfig,
        GeneratorOutput,
        OutputFormat,
        StructureStyle,
    )

    fmt, out, comp = {}, {}, {}
    for dest, val in options.items():
        parts = dest.split("__")
        if parts[0] == "format":
            fmt[parts[1]] = val
        elif parts[0] == "compound_fields":
            comp[parts[1]] = val
        elif parts[0] == "structure_style":
            out["structure_style"] = StructureStyle(val)
        elif parts[0] == "docstring_style":
            out["docstring_style"] = DocstringStyle(val)
        else:
            out[parts[0]] = val
    return GeneratorConfig(
        output=GeneratorOutput(format=OutputFormat(**fmt), compound_fields=CompoundFields(**comp), **out)
    )


def config_summary(cfg):
    o = cfg.output
    return {
        "package": o.package,
        "format__value": o.format.value,
        "format__repr": o.format.repr,
        "format__eq": o.format.eq,
        "format__order": o.format.order,
        "format__unsafe_hash": o.format.unsafe_hash,
        "format__frozen": o.format.frozen,
        "format__slots": o.format.slots,
        "structure_style": o.structure_style.value,
        "docstring_style": o.docstring_style.value,
        "relative_imports": o.relative_imports,
        "compound_fields__enabled": o.compound_fields.enabled,
        "wrapper_fields": o.wrapper_fields,
        "max_line_length": o.max_line_length,
        "generic_collections": o.generic_collections,
        "unnest_classes": o.unnest_classes,
        "ignore_patterns": o.ignore_patterns,
        "include_header": o.include_header,
    }


def route_config(route, options, workdir=None):
    """The GeneratorConfig that reaches ResourceTransformer on each route, without
    running a generation (a recording transformer is put in xsdata.cli's namespace)."""
    import warnings

    install_fake_click()
    with warnings.catch_warnings():
        warnings.simplefilter("ignore")
        if route == "api":
            return _api_config(options)
        import xsdata.cli as C
        from xsdata.models.config import GeneratorConfig

        seen = {}

        class Recorder:
            def __init__(self, config):
                seen["config"] = config

            def process(self, uris, cache=False):
                seen["uris"] = uris

        real = C.ResourceTransformer
        C.ResourceTransformer = Recorder
        tmp = workdir or tempfile.mkdtemp(prefix="c12cfg")
        try:
            src = os.path.join(tmp, "nothing-here")
            os.makedirs(src, exist_ok=True)
            if route == "cli":
                argv = [src, "-c", os.path.join(tmp, "absent.xml"), *_flags(options)]
            elif route == "file":
                path = os.path.join(tmp, "cfg.xml")
                with open(path, "w") as fp:
                    GeneratorConfig.write(fp, _api_config(options))
                argv = [src, "-c", path]
            else:
                raise ValueError(route)
            C.cli.commands["generate"].main(argv)
        finally:
            C.ResourceTransformer = real
        return seen["config"]


def generate(route, srcdir, options, shuffle=None, uris_order="sorted"):
    """Run a whole generation of every schema in `srcdir` into a fresh directory
    and return {relative file path: content}.  `route` in api|cli|file.
    `uris_order` (api route only): the list order in which the same set of source
    URIs is handed to ResourceTransformer.process: sorted | reversed."""
    import logging
    import warnings

    install_pipeline_patches()
    from xsdata.codegen.transformer import ResourceTransformer
    from xsdata.logger import logger

    logger.setLevel(logging.CRITICAL)
    out = _outdir()
    cwd = os.getcwd()
    os.chdir(out)
    set_shuffle(shuffle)
    try:
        with warnings.catch_warnings():
            warnings.simplefilter("ignore")
            if route == "api":
                cfg = _api_config(options)
                uris = sorted(p.resolve().as_uri() for p in Path(srcdir).glob("*.xsd"))
                if uris_order == "reversed":
                    uris.reverse()
                ResourceTransformer(config=cfg).process(uris)
            else:
                import xsdata.cli as C
                from xsdata.models.config import GeneratorConfig

                if route == "cli":
                    flagged = {d for d, _k, _o, _s in cli_options()}
                    file_only = {k: v for k, v in options.items() if k not in flagged}
                    cfg_path = os.path.join(out, "absent.xml")
                    if file_only:
                        # options without a command line flag (CompoundFields.use_substitution_groups, …)
                        # can only come from the project file; everything else is given as a flag
                        cfg_path = os.path.join(out, ".cfg.xml")
                        with open(cfg_path, "w") as fp:
                            GeneratorConfig.write(fp, _api_config(file_only))
                    argv = [srcdir, "-c", cfg_path, *_flags({k: v for k, v in options.items() if k in flagged})]
                else:
                    path = os.path.join(out, ".cfg.xml")
                    with open(path, "w") as fp:
                        GeneratorConfig.write(fp, _api_config(options))
                    argv = [srcdir, "-c", path]
                C.cli.commands["generate"].main(argv)
                logger.setLevel(logging.CRITICAL)
        files = {}
        for root, _, names in os.walk(out):
            for n in names:
                if n.startswith(".cfg") or n.endswith(".pyc"):
                    continue
                p = os.path.join(root, n)
                files[os.path.relpath(p, out)] = open(p, encoding="utf-8").read()
        return files
    finally:
        set_shuffle(None)
        os.chdir(cwd)
        import shutil

        shutil.rmtree(out, ignore_errors=True)


def _outdir():
    """A fresh working directory for every generation: each run is a generation
    in the same process after a chdir (package_path/module_path used to cache
    Path.cwd(); see known_findings.json, fixed C12 bc86f36)."""
    return os.path.realpath(tempfile.mkdtemp(prefix="c12out"))


def _wipe(d):
    import shutil

    for n in os.listdir(d):
        p = os.path.join(d, n)
        if os.path.isdir(p):
            shutil.rmtree(p, ignore_errors=True)
        else:
            os.unlink(p)


def digest(files):
    h = hashlib.sha1()
    for k in sorted(files):
        h.update(k.encode())
        h.update(b"\0")
        h.update(files[k].encode("utf-8", "surrogatepass"))
        h.update(b"\0")
    return h.hexdigest()


# ----------------------------------------------------------------------------
# tracing wrappers (observe, never alter): what enters DesignateClassPackages,
# what it assigns, what every render_module call resolves
# ----------------------------------------------------------------------------
TRACE = {}


def _class_info(obj):
    return {
        "qname": obj.qname,
        "name": obj.name,
        "ns": obj.target_namespace,
        "deps": sorted(set(obj.dependencies())),
        "depsAll": sorted(set(obj.dependencies(True))),
        "location": obj.location,
    }


def install_tracing():
    install_pipeline_patches()
    from xsdata.codegen.handlers import designate_class_packages as D
    from xsdata.formats.dataclass import generator as G

    if getattr(D, "_c12_traced", False):
        return
    D._c12_traced = True
    real_run = D.DesignateClassPackages.run
    real_render_module = G.DataclassGenerator.render_module

    def run(self):
        classes = list(self.container)
        TRACE["classes"] = [_class_info(c) for c in classes]
        nss = []
        for c in classes:
            if c.target_namespace not in nss:
                nss.append(c.target_namespace)
        TRACE["nspkg"] = [[ns, ".".join(self.combine_ns_package(ns))] for ns in nss]
        TRACE["nsparts"] = [[ns, list(self.combine_ns_package(ns))] for ns in nss]
        from xsdata.models.enums import COMMON_SCHEMA_DIR

        TRACE["common_dir"] = COMMON_SCHEMA_DIR.as_uri()
        try:
            real_run(self)
        finally:
            TRACE["assign"] = [
                [c.qname, [c.package, c.module] if c.module is not None else None] for c in classes
            ]

    def render_module(self, resolver, classes):
        raw = dict((q, pm) for q, pm in TRACE.get("assign", []))
        try:
            return real_render_module(self, resolver, classes)
        finally:
            first = TRACE.get("norm", {}).get(classes[0].qname) if classes else None
            TRACE.setdefault("modules", []).append(
                [
                    first,
                    [c.qname for c in resolver.sorted_classes()],
                    [i.qname for i in resolver.sorted_imports()],
                ]
            )

    real_normalize = G.DataclassGenerator.normalize_packages

    def normalize_packages(self, classes):
        # remember the raw (un-normalised) target module of every class
        norm = {}
        for c in classes:
            try:
                norm[c.qname] = c.target_module
            except Exception:  # noqa: BLE001
                norm[c.qname] = None
        TRACE["norm"] = norm
        return real_normalize(self, classes)

    D.DesignateClassPackages.run = run
    G.DataclassGenerator.render_module = render_module
    G.DataclassGenerator.normalize_packages = normalize_packages


def write_sources(schemas):
    """{file name: text} -> directory (cached by content)"""
    key = hashlib.sha1(json.dumps(schemas, sort_keys=True).encode()).hexdigest()[:16]
    d = os.path.join(tempfile.gettempdir(), f"c12src-{os.getpid()}-{key}")
    if not os.path.isdir(d):
        os.makedirs(d)
        for name, text in schemas.items():
            with open(os.path.join(d, name), "w", encoding="utf-8") as f:
                f.write(text)
        import atexit
        import shutil

        atexit.register(lambda: shutil.rmtree(d, ignore_errors=True))
    return d


def generate_full(route, schemas, options, shuffle=None, uris_order="sorted"):
    """generate() + the trace.  Returns {"files", "digest", "trace"} or {"err": name, "msg"}"""
    install_tracing()
    TRACE.clear()
    srcdir = write_sources(schemas)
    try:
        files = generate(route, srcdir, options, shuffle, uris_order)
    except Exception as e:  # noqa: BLE001
        msg = getattr(e, "message", None) or str(e)
        return {"err": type(e).__name__, "msg": msg[:200], "trace": dict(TRACE)}
    return {"files": files, "digest": digest(files), "trace": dict(TRACE)}
