/- Helper lemmas for C14 after the repair 7df03d4: histories in which
`local_names_match` evicts unbuildable classes from the published index.
The invariant is `InvR (EvictRel U)`: the stamped index is the cache-free
index with some *unbuildable* classes removed from its lists. -/
import XsdataModel.Proofs.CtxInv

namespace Xs.Ctx
open Py

abbrev Idx := List (Str × List ClassId)

def keepB (U : Universe) (l : List ClassId) : List ClassId := l.filter (buildable U)

/-- every class sits under its own xsi key -/
def WellKeyed (U : Universe) (a : Idx) : Prop :=
  ∀ k c, c ∈ (a.lookup k).getD [] → indexKey U c = some k

/-- `a` is `b` with some unbuildable classes removed from its lists -/
structure EvictRel (U : Universe) (a b : Idx) : Prop where
  keys : a.map (·.1) = b.map (·.1)
  keep : ∀ k, keepB U ((a.lookup k).getD []) = keepB U ((b.lookup k).getD [])
  keyed : WellKeyed U a
  sub : ∀ k, ((a.lookup k).getD []).Sublist ((b.lookup k).getD [])

/-! ### association-list facts -/

theorem lookup_dictAppend (d : Idx) (k : Str) (c : ClassId) (k' : Str) :
    (dictAppend d k c).lookup k' =
      if k' = k then some ((d.lookup k).getD [] ++ [c]) else d.lookup k' := by
  induction d with
  | nil =>
    simp only [dictAppend, lookup_cons_if]
    by_cases h : k' = k <;> simp [h, List.lookup]
  | cons hd tl ih =>
    obtain ⟨k0, l0⟩ := hd
    unfold dictAppend
    by_cases h0 : k0 = k
    · subst h0
      simp only [if_true, lookup_cons_if]
      by_cases h : k' = k0 <;> simp [h]
    · simp only [h0, if_false, lookup_cons_if, ih]
      by_cases h : k' = k
      · subst h
        have : ¬ k' = k0 := fun e => h0 e.symm
        simp [this]
      · simp [h]

theorem dictSet_keys {ν} (d : List (Str × ν)) (k : Str) (v : ν) (h : (d.lookup k).isSome = true) :
    (dictSet d k v).map (·.1) = d.map (·.1) := by
  induction d with
  | nil => simp [List.lookup] at h
  | cons hd tl ih =>
    obtain ⟨k0, v0⟩ := hd
    unfold dictSet
    by_cases h0 : k0 = k
    · simp [h0]
    · simp only [h0, if_false, List.map_cons]
      rw [ih]
      rw [lookup_cons_if] at h
      have : ¬ k = k0 := fun e => h0 e.symm
      simpa [this] using h

theorem lookup_some_mem_keys {ν} : ∀ (d : List (Str × ν)) (k : Str) (l : ν),
    d.lookup k = some l → k ∈ d.map (·.1)
  | [], _, _, h => by simp [List.lookup] at h
  | (k0, l0) :: tl, k, l, h => by
    rw [lookup_cons_if] at h
    by_cases h0 : k = k0
    · simp [h0]
    · simp only [h0, if_false] at h
      exact List.mem_cons_of_mem _ (lookup_some_mem_keys tl k l h)

theorem keepB_erase (U : Universe) (c : ClassId) (hb : buildable U c = false) :
    ∀ l : List ClassId, keepB U (l.erase c) = keepB U l
  | [] => rfl
  | a :: l => by
    by_cases h : a = c
    · subst h
      simp [keepB, List.filter_cons, hb]
    · have : (a == c) = false := by simp [h]
      rw [List.erase_cons, this]
      simp only [keepB, List.filter_cons, Bool.false_eq_true, if_false]
      have ih := keepB_erase U c hb l
      simp only [keepB] at ih
      rw [ih]

/-! ### the cache-free index is well keyed -/

theorem indexEntries_keyed (U : Universe) (n : Nat) : ∀ e ∈ indexEntries U n, indexKey U e.2 = some e.1 := by
  intro e he
  unfold indexEntries at he
  obtain ⟨c, _, hc⟩ := List.mem_filterMap.mp he
  by_cases hb : isBinding U c = true
  · simp only [hb, if_true] at hc
    cases hk : indexKey U c with
    | none => simp [hk] at hc
    | some k =>
      simp only [hk, Option.map_some] at hc
      cases hc
      exact hk
  · simp [hb] at hc

theorem foldAppend_keyed (U : Universe) : ∀ (es : List (Str × ClassId)) (d : Idx),
    (∀ e ∈ es, indexKey U e.2 = some e.1) → WellKeyed U d →
    WellKeyed U (es.foldl (fun d (e : Str × ClassId) => dictAppend d e.1 e.2) d)
  | [], _, _, hd => hd
  | e :: es, d, he, hd => by
    simp only [List.foldl_cons]
    apply foldAppend_keyed U es _ (fun e' h => he e' (List.mem_cons_of_mem _ h))
    intro k c hc
    rw [lookup_dictAppend] at hc
    by_cases hk : k = e.1
    · subst hk
      simp only [if_true, Option.getD_some, List.mem_append, List.mem_singleton] at hc
      cases hc with
      | inl h => exact hd _ c h
      | inr h => subst h; exact he e List.mem_cons_self
    · simp only [hk, if_false] at hc
      exact hd k c hc

theorem pureIndex_keyed (U : Universe) (n : Nat) : WellKeyed U (pureIndex U n) := by
  unfold pureIndex
  exact foldAppend_keyed U _ [] (indexEntries_keyed U n) (by intro k c h; simp [List.lookup] at h)

theorem EvictRel.refl (U : Universe) (n : Nat) : EvictRel U (pureIndex U n) (pureIndex U n) :=
  ⟨rfl, fun _ => rfl, pureIndex_keyed U n, fun _ => List.Sublist.refl _⟩

/-- removing one unbuildable class from the list under its key keeps the relation -/
theorem EvictRel.evict {U : Universe} {a b : Idx} (h : EvictRel U a b) {k : Str} {l : List ClassId}
    {c : ClassId} (hl : a.lookup k = some l) (hb : buildable U c = false) :
    EvictRel U (dictSet a k (l.erase c)) b := by
  refine ⟨?_, ?_, ?_, ?_⟩
  · rw [dictSet_keys a k _ (by simp [hl])]; exact h.keys
  · intro k'
    by_cases hk : k' = k
    · subst hk
      rw [lookup_dictSet_self, ← h.keep k', hl]
      exact keepB_erase U c hb l
    · rw [lookup_dictSet_ne _ _ _ _ hk]; exact h.keep k'
  · intro k' c' hc'
    by_cases hk : k' = k
    · subst hk
      rw [lookup_dictSet_self] at hc'
      apply h.keyed k' c'
      rw [hl]
      exact List.mem_of_mem_erase hc'
    · rw [lookup_dictSet_ne _ _ _ _ hk] at hc'
      exact h.keyed k' c' hc'
  · intro k'
    by_cases hk : k' = k
    · subst hk
      rw [lookup_dictSet_self]
      have := h.sub k'
      rw [hl] at this
      exact (List.erase_sublist).trans this
    · rw [lookup_dictSet_ne _ _ _ _ hk]; exact h.sub k'

/-! ### the weak invariant -/

abbrev InvW (U : Universe) := InvR (EvictRel U) U

theorem choiceOf_unbuildable {U : Universe} {names : List Str} {c : ClassId}
    (h : buildable U c = false) : choiceOf U names c = none := by
  unfold buildable at h
  unfold choiceOf
  cases hb : pureBuild U c none with
  | ok m => simp [hb] at h
  | error e => rfl

theorem filterMap_choiceOf_keepB (U : Universe) (names : List Str) :
    ∀ l : List ClassId, (keepB U l).filterMap (choiceOf U names) = l.filterMap (choiceOf U names)
  | [] => rfl
  | c :: l => by
    have ih := filterMap_choiceOf_keepB U names l
    simp only [keepB] at ih ⊢
    by_cases hb : buildable U c = true
    · simp only [List.filter_cons, hb, if_true, List.filterMap_cons]
      rw [ih]
    · have hb' : buildable U c = false := by simpa using hb
      simp only [List.filter_cons, hb', Bool.false_eq_true, if_false, List.filterMap_cons,
        choiceOf_unbuildable hb']
      exact ih

/-- replace the xsi part of an invariant -/
theorem InvR.withXsi {R R'} {U : Universe} {t : Track} {s s' : State} (h : InvR R U t s)
    (hc : s'.cache = s.cache) (hm : s'.sysModules = s.sysModules)
    (hx : ∀ idx, R s.xsi idx → R' s'.xsi idx) : InvR R' U t s' := by
  refine ⟨by rw [hc]; exact h.cache, ?_⟩
  rw [hm]
  cases h.xsi with
  | inl h0 => exact Or.inl h0
  | inr h1 =>
    obtain ⟨w, hw, hs, hr⟩ := h1
    exact Or.inr ⟨w, hw, hs, hx _ hr⟩

/-- `local_names_match` in any situation keeps the weak invariant and returns the
specified answer (since the `ValueError` of a repeated removal is suppressed) -/
theorem doLocalNamesMatchW {U : Universe} {t : Track} {s : State} (hI : InvW U t s)
    (c : ClassId) (names : List Str) :
    ∃ s', doLocalNamesMatch U s names c =
        (s', .ok (match pureBuild U c none with
          | .ok m => namesMatch names m
          | .error _ => false)) ∧
      InvW U t s' ∧ s'.sysModules = s.sysModules ∧
      (∀ idx, EvictRel U s.xsi idx → EvictRel U s'.xsi idx) ∧
      (∀ m, pureBuild U c none = .ok m → s'.xsi = s.xsi ∧ s'.cache.lookup (c, none) = some m) ∧
      (buildable U c = false →
        ∀ k l, indexKey U c = some k → s.xsi.lookup k = some l →
          s'.xsi = dictSet s.xsi k (l.erase c)) := by
  obtain ⟨s1, hb1, hI1, hx1, hm1, hl1⟩ := doBuild_spec hI c none
  unfold doLocalNamesMatch
  rw [hb1]
  cases hb : pureBuild U c none with
  | ok m =>
    refine ⟨s1, rfl, hI1, hm1, (fun idx h => by rw [hx1]; exact h), ?_, ?_⟩
    · intro m' hm'
      cases hm'
      exact ⟨hx1, by rw [hb] at hl1; exact hl1 m rfl⟩
    · intro hbf; simp [buildable, hb] at hbf
  | error e =>
    have hbf : buildable U c = false := by simp [buildable, hb]
    dsimp only
    cases hk : indexKey U c with
    | none =>
      refine ⟨s1, rfl, hI1, hm1, (fun idx h => by rw [hx1]; exact h), (by intro m hm; cases hm), ?_⟩
      intro _ k l h
      cases h
    | some k =>
      dsimp only
      cases hlk : s1.xsi.lookup k with
      | none =>
        refine ⟨s1, rfl, hI1, hm1, (fun idx h => by rw [hx1]; exact h), (by intro m hm; cases hm), ?_⟩
        intro _ k' l hk' hl'
        cases hk'
        rw [hx1, hl'] at hlk
        cases hlk
      | some l =>
        dsimp only
        have hlk' : s.xsi.lookup k = some l := by rw [← hx1]; exact hlk
        refine ⟨{ s1 with xsi := dictSet s1.xsi k (l.erase c) }, rfl, ?_, hm1, ?_,
          (by intro m hm; cases hm), ?_⟩
        · exact hI1.withXsi rfl rfl (fun idx h => h.evict hlk hbf)
        · intro idx h
          have h' : EvictRel U s1.xsi idx := by rw [hx1]; exact h
          exact h'.evict hlk hbf
        · intro _ k' l' hk' hl'
          cases hk'
          rw [hlk'] at hl'
          cases hl'
          show dictSet s1.xsi k (l.erase c) = dictSet s.xsi k (l.erase c)
          rw [hx1]

/-- the inner loop of `find_type_by_fields` over a snapshot, with evictions -/
theorem scanTypesW {U : Universe} {t : Track} (names : List Str) (idx : Idx) :
    ∀ (rest : List ClassId) (s : State) (acc : List Choice), InvW U t s → EvictRel U s.xsi idx →
      ∃ s', scanTypes U names rest s acc = (s', .ok (acc ++ rest.filterMap (choiceOf U names))) ∧
        InvW U t s' ∧ EvictRel U s'.xsi idx ∧ s'.sysModules = s.sysModules := by
  intro rest
  induction rest with
  | nil => intro s acc hI hR; exact ⟨s, by simp [scanTypes], hI, hR, rfl⟩
  | cons c rest ih =>
    intro s acc hI hR
    obtain ⟨s1, hr1, hI1, hm1, hR1, hok, _⟩ := doLocalNamesMatchW hI c names
    unfold scanTypes
    rw [hr1]
    cases hb : pureBuild U c none with
    | ok m =>
      obtain ⟨hx1, hl1⟩ := hok m hb
      obtain ⟨d, hd⟩ := pureBuild_ok_cls U c none m hb
      dsimp only
      cases hnm : namesMatch names m with
      | false =>
        dsimp only
        obtain ⟨s2, hr2, hI2, hR2, hm2⟩ := ih s1 acc hI1 (hR1 idx hR)
        refine ⟨s2, ?_, hI2, hR2, by rw [hm2, hm1]⟩
        rw [hr2]
        simp [choiceOf, hb, hd, hnm]
      | true =>
        have hdb : doBuild U s1 c none = (s1, .ok m) := by simp [doBuild, hl1]
        simp only [hdb, hd]
        obtain ⟨s2, hr2, hI2, hR2, hm2⟩ :=
          ih s1 (acc ++ [(c, (fieldDiff names m, d.name))]) hI1 (hR1 idx hR)
        refine ⟨s2, ?_, hI2, hR2, by rw [hm2, hm1]⟩
        rw [hr2]
        simp [choiceOf, hb, hd, hnm]
    | error e =>
      have hbf : buildable U c = false := by simp [buildable, hb]
      dsimp only
      obtain ⟨s2, hr2, hI2, hR2, hm2⟩ := ih s1 acc hI1 (hR1 idx hR)
      refine ⟨s2, ?_, hI2, hR2, by rw [hm2, hm1]⟩
      rw [hr2]
      simp [choiceOf_unbuildable hbf]

/-- the outer loop, with evictions -/
theorem scanKeysW {U : Universe} {t : Track} (names : List Str) (idx : Idx) :
    ∀ (ks : List Str) (s : State) (acc : List Choice), InvW U t s → EvictRel U s.xsi idx →
      ∃ s', scanKeys U names ks s acc =
          (s', .ok (acc ++ (ks.flatMap fun k => (idx.lookup k).getD []).filterMap (choiceOf U names))) ∧
        InvW U t s' ∧ EvictRel U s'.xsi idx ∧ s'.sysModules = s.sysModules := by
  intro ks
  induction ks with
  | nil => intro s acc hI hR; exact ⟨s, by simp [scanKeys], hI, hR, rfl⟩
  | cons k ks ih =>
    intro s acc hI hR
    unfold scanKeys
    obtain ⟨s1, hr1, hI1, hR1, hm1⟩ := scanTypesW names idx ((s.xsi.lookup k).getD []) s acc hI hR
    rw [hr1]
    dsimp only
    obtain ⟨s2, hr2, hI2, hR2, hm2⟩ := ih s1 _ hI1 hR1
    refine ⟨s2, ?_, hI2, hR2, by rw [hm2, hm1]⟩
    rw [hr2]
    have : ((s.xsi.lookup k).getD []).filterMap (choiceOf U names) =
        ((idx.lookup k).getD []).filterMap (choiceOf U names) := by
      rw [← filterMap_choiceOf_keepB U names ((s.xsi.lookup k).getD []), hR.keep k,
        filterMap_choiceOf_keepB]
    simp [List.filterMap_append, this]

/-- `build_xsi_cache` under the weak invariant -/
theorem doBuildXsiW {U : Universe} {t : Track} {s : State} (hI : InvW U t s) {w : World}
    (hw : w ∈ t.worlds) (hf : faithful t.worlds) :
    EvictRel U (doBuildXsi U w s).xsi (pureIndex U w.loaded) ∧
      (doBuildXsi U w s).sysModules = w.mods + 1 ∧ (doBuildXsi U w s).cache = s.cache ∧
      InvW U t (doBuildXsi U w s) := by
  unfold doBuildXsi
  by_cases hst : w.mods + 1 = s.sysModules
  · rw [if_pos hst]
    cases hI.xsi with
    | inl h0 => omega
    | inr h1 =>
      obtain ⟨w', hw', hs1, hs2⟩ := h1
      have hm : w'.mods = w.mods := by omega
      have := hf w' hw' w hw hm
      rw [this] at hs2
      exact ⟨hs2, hst.symm, rfl, hI⟩
  · rw [if_neg hst]
    exact ⟨EvictRel.refl U _, rfl, rfl, ⟨hI.cache, Or.inr ⟨w, hw, rfl, EvictRel.refl U _⟩⟩⟩

/-- **`find_type_by_fields` refines the specification whatever has been evicted** -/
theorem doFindTypeByFieldsW {U : Universe} {t : Track} {s : State} (hI : InvW U t s) {w : World}
    (hw : w ∈ t.worlds) (hf : faithful t.worlds) (names : List Str) :
    ∃ s', doFindTypeByFields U w s names = (s', .ok (pureFields U w names)) ∧ InvW U t s' := by
  obtain ⟨hR, _, _, hI0⟩ := doBuildXsiW hI hw hf
  unfold doFindTypeByFields
  obtain ⟨s2, hr2, hI2, _, _⟩ :=
    scanKeysW names (pureIndex U w.loaded) ((doBuildXsi U w s).xsi.map (·.1))
      (doBuildXsi U w s) [] hI0 hR
  dsimp only
  rw [hr2]
  refine ⟨s2, ?_, hI2⟩
  rw [hR.keys]
  simp [pureFields, indexedClasses]

theorem doFindTypesW {U : Universe} {t : Track} {s : State} (hI : InvW U t s) {w : World}
    (hw : w ∈ t.worlds) (hf : faithful t.worlds) (q : Str) : InvW U t (doFindTypes U w s q).1 := by
  unfold doFindTypes
  by_cases hd : isDataType q = true
  · simp [hd, hI]
  · simp only [hd]
    exact (doBuildXsiW hI hw hf).2.2.2

/-- **one call keeps the weak invariant; eviction-blind calls refine the specification** -/
theorem stepW_spec {U : Universe} {t : Track} {s : State} (hI : InvW U t s) {w : World} {op : Op}
    (hf : okStepW t w) :
    InvW U (t.next w op) (step U w s op).1 ∧
      (op.evictionBlind = true → (step U w s op).2 = pureOut U w op) := by
  have hI1 : InvW U ⟨w :: t.worlds⟩ s := hI.mono (fun w' hw' => List.mem_cons_of_mem _ hw')
  have hw : w ∈ (⟨w :: t.worlds⟩ : Track).worlds := List.mem_cons_self
  cases op with
  | build c p =>
    obtain ⟨s', hb, hI', _⟩ := doBuild_spec hI1 c p
    simp [step, pureOut, hb, Track.next, hI']
  | fetch c p x =>
    obtain ⟨s1, hb, hI', _⟩ := doBuild_spec hI1 c p
    simp only [step, pureOut, Track.next, doFetch, pureFetch, hb]
    rw [if_neg (by simp)]
    cases hpb : pureBuild U c p with
    | error e => exact ⟨hI', fun _ => rfl⟩
    | ok m =>
      dsimp only
      by_cases hx : (truthy x && m.targetQName != x) = true
      · rw [if_pos hx]
        have hI2 := doFindTypesW hI' hw hf (x.getD [])
        refine ⟨?_, ?_⟩
        · unfold doFindSubclass
          cases hsub : pickSubclass U c (doFindTypes U w s1 (x.getD [])).2 with
          | none => simpa [hsub] using hI2
          | some sub =>
            simp only [hsub]
            obtain ⟨s3, hb3, hI3, _⟩ := doBuild_spec hI2 sub p
            rw [hb3]
            cases pureBuild U sub p <;> exact hI3
        · intro hbl
          have : truthy x = false := by simpa [Op.evictionBlind] using hbl
          simp [this] at hx
      · rw [if_neg hx, if_neg hx]
        exact ⟨hI', fun _ => rfl⟩
  | findTypes q =>
    simp only [step, Track.next]
    rw [if_neg (by simp)]
    exact ⟨doFindTypesW hI1 hw hf q, by simp [Op.evictionBlind]⟩
  | findType q =>
    simp only [step, Track.next, doFindType]
    rw [if_neg (by simp)]
    exact ⟨doFindTypesW hI1 hw hf q, by simp [Op.evictionBlind]⟩
  | findSubclass c q =>
    simp only [step, Track.next, doFindSubclass]
    rw [if_neg (by simp)]
    exact ⟨doFindTypesW hI1 hw hf q, by simp [Op.evictionBlind]⟩
  | findTypeByFields names =>
    obtain ⟨s', h1, h2⟩ := doFindTypeByFieldsW hI1 hw hf names
    simp only [step, pureOut, Track.next, h1]
    rw [if_neg (by simp)]
    exact ⟨h2, fun _ => trivial⟩
  | localNamesMatch names c =>
    obtain ⟨s', h1, h2, _⟩ := doLocalNamesMatchW hI1 c names
    simp only [step, pureOut, Track.next, h1]
    rw [if_neg (by simp)]
    refine ⟨h2, fun _ => ?_⟩
    cases pureBuild U c none <;> rfl
  | buildXsiCache =>
    simp only [step, pureOut, Track.next]
    rw [if_neg (by simp)]
    exact ⟨(doBuildXsiW hI1 hw hf).2.2.2, fun _ => trivial⟩
  | reset =>
    simp only [step, pureOut, Track.next]
    exact ⟨InvR.init U _, fun _ => trivial⟩
  | serialize toks =>
    obtain ⟨h1, h2⟩ := serWalk_sim toks s [] [] [] hI1
    simp only [step, pureOut, Track.next]
    rw [if_neg (by simp)]
    unfold Xs.Ctx.serialize pureSerialize
    rw [← h1]
    cases hr : (serWalk U (fun s c p => doBuild U s c p) toks s [] []) with
    | mk s' r =>
      rw [hr] at h2
      cases r <;> exact ⟨h2, fun _ => rfl⟩

theorem run_invW {U : Universe} : ∀ (h : List (World × Op)) (t : Track) (s : State),
    InvW U t s → histOKW t h →
    ∃ t', InvW U t' (run U s h) ∧ (∀ w op, histOKW t (h ++ [(w, op)]) → okStepW t' w)
  | [], t, s, hI, _ => ⟨t, hI, by intro w op hh; simpa [histOKW] using hh⟩
  | (w, op) :: rest, t, s, hI, hh => by
    obtain ⟨hok, hrest⟩ := hh
    obtain ⟨hI', _⟩ := stepW_spec (op := op) hI hok
    obtain ⟨t', hI'', hnext⟩ := run_invW rest (t.next w op) (step U w s op).1 hI' hrest
    exact ⟨t', hI'', fun w' op' hh' => hnext w' op' hh'.2⟩

theorem histOKW_prefix : ∀ (h : List (World × Op)) (t : Track) (x : World × Op),
    histOKW t (h ++ [x]) → histOKW t h
  | [], _, _, _ => trivial
  | (_, _) :: rest, _, x, hx => ⟨hx.1, histOKW_prefix rest _ x hx.2⟩

theorem okStepW_empty {t : Track} {w : World} (_h : okStepW t w) : okStepW Track.empty w := by
  intro a ha b hb _
  simp [Track.empty] at ha hb
  rw [ha, hb]

/-! ### the cache alone: no side condition at all -/

/-- only the cache part of the invariant -/
abbrev InvC (U : Universe) := InvR (fun _ _ => True) U

theorem InvC.ofCache {U : Universe} {s : State}
    (h : ∀ c p m, s.cache.lookup (c, p) = some m → pureBuild U c p = .ok m) :
    InvC U ⟨[⟨0, s.sysModules - 1⟩]⟩ s := by
  refine ⟨h, ?_⟩
  by_cases h0 : s.sysModules = 0
  · exact Or.inl h0
  · refine Or.inr ⟨⟨0, s.sysModules - 1⟩, List.mem_singleton.mpr rfl, ?_, trivial⟩
    show s.sysModules = s.sysModules - 1 + 1
    omega

theorem doLocalNamesMatch_invC {U : Universe} {t : Track} {s : State} (hI : InvC U t s)
    (names : List Str) (c : ClassId) : InvC U t (doLocalNamesMatch U s names c).1 := by
  obtain ⟨s1, hb1, hI1, _, _, _⟩ := doBuild_spec hI c none
  unfold doLocalNamesMatch
  rw [hb1]
  cases pureBuild U c none with
  | ok m => exact hI1
  | error e =>
    dsimp only
    split
    · exact hI1
    · split
      · exact hI1
      · exact hI1.withXsi rfl rfl (fun _ _ => trivial)

theorem doLocalNamesMatch_outC {U : Universe} {t : Track} {s : State} (hI : InvC U t s)
    (names : List Str) (c : ClassId) :
    (doLocalNamesMatch U s names c).2 = .ok (match pureBuild U c none with
      | .ok m => namesMatch names m
      | .error _ => false) := by
  obtain ⟨s1, hb1, _⟩ := doBuild_spec hI c none
  unfold doLocalNamesMatch
  rw [hb1]
  cases pureBuild U c none with
  | ok m => rfl
  | error e =>
    dsimp only
    split
    · rfl
    · split <;> rfl

theorem scanTypes_invC {U : Universe} {t : Track} (names : List Str) :
    ∀ (l : List ClassId) (s : State) (acc : List Choice), InvC U t s →
      InvC U t (scanTypes U names l s acc).1
  | [], _, _, h => h
  | c :: rest, s, acc, h => by
    have h1 := doLocalNamesMatch_invC h names c
    unfold scanTypes
    cases hm : doLocalNamesMatch U s names c with
    | mk s1 r =>
      rw [hm] at h1
      cases r with
      | error e => exact h1
      | ok b =>
        cases b with
        | false => exact scanTypes_invC names rest s1 acc h1
        | true =>
          simp only
          obtain ⟨s2, hb2, hI2, _⟩ := doBuild_spec h1 c none
          rw [hb2]
          cases pureBuild U c none with
          | error e => exact hI2
          | ok m =>
            cases U.get? c with
            | none => exact hI2
            | some d => exact scanTypes_invC names rest s2 _ hI2

theorem scanKeys_invC {U : Universe} {t : Track} (names : List Str) :
    ∀ (ks : List Str) (s : State) (acc : List Choice), InvC U t s →
      InvC U t (scanKeys U names ks s acc).1
  | [], _, _, h => h
  | k :: ks, s, acc, h => by
    have h1 := scanTypes_invC names ((s.xsi.lookup k).getD []) s acc h
    unfold scanKeys
    cases hs : scanTypes U names ((s.xsi.lookup k).getD []) s acc with
    | mk s1 r =>
      rw [hs] at h1
      cases r with
      | error e => exact h1
      | ok acc1 => exact scanKeys_invC names ks s1 acc1 h1

theorem doBuildXsi_invC {U : Universe} {t : Track} {s : State} (hI : InvC U t s) {w : World}
    (hw : w ∈ t.worlds) : InvC U t (doBuildXsi U w s) := by
  unfold doBuildXsi
  split
  · exact hI
  · exact ⟨hI.cache, Or.inr ⟨w, hw, rfl, trivial⟩⟩

theorem doFindTypes_invC {U : Universe} {t : Track} {s : State} (hI : InvC U t s) {w : World}
    (hw : w ∈ t.worlds) (q : Str) : InvC U t (doFindTypes U w s q).1 := by
  unfold doFindTypes
  split
  · exact hI
  · exact doBuildXsi_invC hI hw

/-- **every call keeps the cache valid; index-free calls refine the specification
— with no side condition whatsoever** -/
theorem stepC_spec {U : Universe} {t : Track} {s : State} (hI : InvC U t s) (w : World) (op : Op) :
    InvC U ⟨w :: t.worlds⟩ (step U w s op).1 ∧
      (op.indexFree = true → (step U w s op).2 = pureOut U w op) := by
  have hI1 : InvC U ⟨w :: t.worlds⟩ s := hI.mono (fun w' hw' => List.mem_cons_of_mem _ hw')
  have hw : w ∈ (⟨w :: t.worlds⟩ : Track).worlds := List.mem_cons_self
  cases op with
  | build c p =>
    obtain ⟨s', hb, hI', _⟩ := doBuild_spec hI1 c p
    simp [step, pureOut, hb, hI']
  | fetch c p x =>
    obtain ⟨s1, hb, hI', _⟩ := doBuild_spec hI1 c p
    simp only [step, pureOut, doFetch, pureFetch, hb]
    cases hpb : pureBuild U c p with
    | error e => exact ⟨hI', fun _ => rfl⟩
    | ok m =>
      dsimp only
      by_cases hx : (truthy x && m.targetQName != x) = true
      · rw [if_pos hx]
        have hI2 := doFindTypes_invC hI' hw (x.getD [])
        refine ⟨?_, ?_⟩
        · unfold doFindSubclass
          cases hsub : pickSubclass U c (doFindTypes U w s1 (x.getD [])).2 with
          | none => simpa [hsub] using hI2
          | some sub =>
            simp only [hsub]
            obtain ⟨s3, hb3, hI3, _⟩ := doBuild_spec hI2 sub p
            rw [hb3]
            cases pureBuild U sub p <;> exact hI3
        · intro hbl
          have : truthy x = false := by simpa [Op.indexFree] using hbl
          simp [this] at hx
      · rw [if_neg hx, if_neg hx]
        exact ⟨hI', fun _ => rfl⟩
  | findTypes q => exact ⟨doFindTypes_invC hI1 hw q, by simp [Op.indexFree]⟩
  | findType q =>
    simp only [step, doFindType]
    exact ⟨doFindTypes_invC hI1 hw q, by simp [Op.indexFree]⟩
  | findSubclass c q =>
    simp only [step, doFindSubclass]
    exact ⟨doFindTypes_invC hI1 hw q, by simp [Op.indexFree]⟩
  | findTypeByFields names =>
    refine ⟨?_, by simp [Op.indexFree]⟩
    have h0 := doBuildXsi_invC hI1 hw
    have h1 := scanKeys_invC names ((doBuildXsi U w s).xsi.map (·.1)) (doBuildXsi U w s) [] h0
    simp only [step, doFindTypeByFields]
    cases hs : scanKeys U names ((doBuildXsi U w s).xsi.map (·.1)) (doBuildXsi U w s) [] with
    | mk s1 r =>
      rw [hs] at h1
      cases r <;> exact h1
  | localNamesMatch names c =>
    have h1 := doLocalNamesMatch_invC hI1 names c
    refine ⟨?_, fun _ => ?_⟩
    · simp only [step]
      cases hm : doLocalNamesMatch U s names c with
      | mk s1 r =>
        rw [hm] at h1
        cases r <;> exact h1
    · have h2 := doLocalNamesMatch_outC hI1 names c
      simp only [step, pureOut]
      cases hm : doLocalNamesMatch U s names c with
      | mk s1 r =>
        rw [hm] at h2
        simp only at h2
        rw [h2]
        cases pureBuild U c none <;> rfl
  | buildXsiCache => exact ⟨doBuildXsi_invC hI1 hw, fun _ => rfl⟩
  | reset => exact ⟨InvR.init U _, fun _ => rfl⟩
  | serialize toks =>
    obtain ⟨h1, h2⟩ := serWalk_sim toks s [] [] [] hI1
    simp only [step, pureOut]
    unfold Xs.Ctx.serialize pureSerialize
    rw [← h1]
    cases hr : (serWalk U (fun s c p => doBuild U s c p) toks s [] []) with
    | mk s' r =>
      rw [hr] at h2
      cases r <;> exact ⟨h2, fun _ => rfl⟩

theorem run_invC {U : Universe} : ∀ (h : List (World × Op)) (t : Track) (s : State),
    InvC U t s → ∃ t', InvC U t' (run U s h)
  | [], t, _, hI => ⟨t, hI⟩
  | (w, op) :: rest, _, _, hI => run_invC rest _ _ (stepC_spec hI w op).1

end Xs.Ctx
