/- C09 helper lemmas: with `process_xinclude` the native handler parses the merged document with
the declarations `iterwalk` invents. -/
import XsdataModel.Backends.XInclude
import XsdataModel.Proofs.C09Infoset

namespace Xs.Backends
open Py Xs.Bind Proofs.C09

theorem assemble_nativeParseTree (wk : List (Str × Str)) (T : XTree) :
    assemble (nativeParseTree wk T) = some (pumpedTree [] (redecl wk T []).1) := by
  unfold nativeParseTree
  rw [(iterwalk_eq_toks wk T []).1, assemble_pump]

theorem parse_nativeTree (e : BEnv) (Γ : Ctx) (cfg : ParserConfig) (c : ClassId) (t : XTree) :
    parseRoot e Γ cfg c (pumpedTree [] t) = parseRoot e Γ cfg c (specTree [] t) :=
  parseRoot_nsRel e Γ cfg c _ _ (nsRel_native_spec e t [] [] (by intro p; simp [topMap, get_nil, inScope]))

/-! ### the element structure does not depend on the declarations -/

mutual
def skel : XTree → Tree
  | .node _ q a _ t kids tl => .node q a [] t (skelKids kids) tl
def skelKids : List XTree → List Tree
  | [] => []
  | k :: ks => skel k :: skelKids ks
end

mutual
theorem eraseNs_specTree (frames : List (List (Str × Str))) (t : XTree) : eraseNs (specTree frames t) = skel t := by
  match t with
  | .node d q a st tx kids tl => simp only [specTree, eraseNs, skel, eraseNsL_specKids (d :: frames) kids]
theorem eraseNsL_specKids (frames : List (List (Str × Str))) (ks : List XTree) :
    eraseNsL (specKidsT frames ks) = skelKids ks := by
  match ks with
  | [] => rfl
  | k :: ks' => simp only [specKidsT, eraseNsL, skelKids, eraseNs_specTree frames k, eraseNsL_specKids frames ks']
end

mutual
theorem skel_redecl (wk : List (Str × Str)) (t : XTree) (m : NsMap) : skel (redecl wk t m).1 = skel t := by
  match t with
  | .node d q a st tx kids tl =>
    cases hu : targetUri q <;> simp only [redecl, hu, skel, skelKids_redecl wk kids]
theorem skelKids_redecl (wk : List (Str × Str)) (ks : List XTree) (m : NsMap) :
    skelKids (redeclKids wk ks m).1 = skelKids ks := by
  match ks with
  | [] => rfl
  | k :: ks' => simp only [redeclKids, skelKids, skel_redecl wk k m, skelKids_redecl wk ks']
end

end Xs.Backends
