/-
What the success of the binding layer's abstract writer (`Bind/Write.lean`, C01) says about an
event list, event by event: every payload is one the concrete writer model covers
(`convEvs = some`), every ATTR event arrives while a start tag is pending
(`attrsFollow`), and every attribute has a value.
-/
import XsdataModel.Bind.Write
import XsdataModel.Xml.Compose
import XsdataModel.Spec.Hyps
import XsdataModel.Proofs.GenForest

namespace Proofs.WriterFlat
open Py Xs.Bind Xs.Compose Spec.Hyps Proofs.GenForest

/-- flat facts about a converted event list; `p`: a start tag is pending -/
structure Flat (p : Bool) (evs : List Xs.Bind.Ev) (es : List Xs.Writer.Ev) : Prop where
  conv : convEvs evs = some es
  follow : attrsFollow p es = true
  valued : ∀ q v, Xs.Writer.Ev.attr q v ∈ es → hasValue v = true

theorem flush_pending (w : WState) (b : Bool) : (w.flush b).pending = none := by
  unfold WState.flush
  cases h : w.pending <;> simp [h]

theorem convItems_of_parts (m : NsMap) : ∀ (ds : List Data),
    (ds.map (fun d => match d with
      | .prim (.str s) => some s
      | .prim (.qname t) => some (qnameText m t)
      | .prim p => some (serPrim p)
      | _ => none)).all Option.isSome = true →
    ∃ as, convItems ds = some as ∧ as.length = ds.length := by
  intro ds
  induction ds with
  | nil => intro _; exact ⟨[], rfl, rfl⟩
  | cons d r ih =>
    intro h
    simp only [List.map_cons, List.all_cons, Bool.and_eq_true] at h
    obtain ⟨as, has, hlen⟩ := ih h.2
    cases d with
    | prim p => exact ⟨convPrim p :: as, by simp [convItems, convItem, has], by simp [hlen]⟩
    | none => simp at h
    | list xs => simp at h

/-- a payload the abstract writer accepts is one the concrete writer model covers -/
theorem encodeData_conv (m : NsMap) (d : Data) (r : Option Str) (h : encodeData m d = some r) :
    ∃ v, convData d = some v ∧ (r.isSome = true → hasValue v = true) := by
  cases d with
  | none => exact ⟨.none, rfl, by simp [encodeData] at h; subst h; simp⟩
  | prim p => exact ⟨.atom (convPrim p), rfl, fun _ => rfl⟩
  | list ds =>
    cases ds with
    | nil => exact ⟨.list [], rfl, by simp [encodeData] at h; subst h; simp⟩
    | cons d0 r0 =>
      simp only [encodeData] at h
      split at h
      · rename_i hall
        obtain ⟨as, has, hlen⟩ := convItems_of_parts m (d0 :: r0) hall
        refine ⟨.list as, by simp [convData, has], fun _ => ?_⟩
        cases as with
        | nil => simp at hlen
        | cons a t => rfl
      · cases h

theorem writer_flat (M : NsMap) (isDt : Str → Bool) : ∀ (evs : List Xs.Bind.Ev) (w w' : WState),
    evs.foldlM (WState.step M isDt) w = .ok w' →
    ∃ es, Flat w.pending.isSome evs es := by
  intro evs
  induction evs with
  | nil => intro w w' _; exact ⟨[], rfl, rfl, by intro q v h; cases h⟩
  | cons ev r ih =>
    intro w w' h
    rw [List.foldlM_cons] at h
    obtain ⟨w1, h1, h2⟩ := bind_ok h
    obtain ⟨es, hes⟩ := ih w1 w' h2
    cases ev with
    | start q =>
      simp only [WState.step, Except.ok.injEq] at h1
      have hp : w1.pending.isSome = true := by rw [← h1]; rfl
      rw [hp] at hes
      exact ⟨.start q :: es, by simp [convEvs, convEv, hes.conv], by simpa [attrsFollow] using hes.follow,
        by intro q' v hm; rcases List.mem_cons.mp hm with h' | h'; · cases h'
           · exact hes.valued q' v h'⟩
    | «end» q =>
      simp only [WState.step, Except.ok.injEq] at h1
      have hp : w1.pending.isSome = false := by
        rw [← h1]
        simp only []
        split
        · split <;> simp [flush_pending]
        · simp [flush_pending]
      rw [hp] at hes
      exact ⟨.end_ q :: es, by simp [convEvs, convEv, hes.conv], by simpa [attrsFollow] using hes.follow,
        by intro q' v hm; rcases List.mem_cons.mp hm with h' | h'; · cases h'
           · exact hes.valued q' v h'⟩
    | data d =>
      simp only [WState.step] at h1
      split at h1
      · cases h1
      · rename_i value hv
        obtain ⟨v, hcv, _⟩ := encodeData_conv M d value hv
        simp only [Except.ok.injEq] at h1
        have hp : w1.pending.isSome = false := by
          rw [← h1]
          simp only []
          split <;> (try split) <;> simp [flush_pending]
        rw [hp] at hes
        exact ⟨.data v :: es, by simp [convEvs, convEv, hcv, hes.conv], by simpa [attrsFollow] using hes.follow,
          by intro q' v' hm; rcases List.mem_cons.mp hm with h' | h'; · cases h'
             · exact hes.valued q' v' h'⟩
    | attr q d =>
      simp only [WState.step] at h1
      rcases ite_cases h1 with ⟨hpn, h1⟩ | ⟨hpn, h1⟩
      · cases h1
      · have hpend : w.pending.isSome = true := by
          cases hw : w.pending with
          | none => simp [hw] at hpn
          | some _ => rfl
        -- the payload, possibly re-read as a QName
        have key : ∀ d', encodeData M d' = none ∨ encodeData M d' = some none ∨ ∃ s, encodeData M d' = some (some s) := by
          intro d'
          cases hh : encodeData M d' with
          | none => exact Or.inl rfl
          | some o => cases o with
            | none => exact Or.inr (Or.inl rfl)
            | some s => exact Or.inr (Or.inr ⟨s, rfl⟩)
        have hconv : ∃ v, convData d = some v ∧ hasValue v = true := by
          cases d with
          | none =>
            simp only [encodeData] at h1
            cases h1
          | prim p => exact ⟨.atom (convPrim p), rfl, rfl⟩
          | list ds =>
            simp only [] at h1
            rcases key (.list ds) with hk | hk | ⟨s, hk⟩
            · rw [hk] at h1; cases h1
            · rw [hk] at h1; cases h1
            · obtain ⟨v, hv1, hv2⟩ := encodeData_conv M (.list ds) (some s) hk
              exact ⟨v, hv1, hv2 rfl⟩
        obtain ⟨v, hcv, hhas⟩ := hconv
        have hp1 : w1.pending = w.pending := by
          split at h1
          · simp only [Except.ok.injEq] at h1; rw [← h1]
          · cases h1
          · cases h1
        rw [hp1, hpend] at hes
        exact ⟨.attr q v :: es, by simp [convEvs, convEv, hcv, hes.conv],
          by rw [hpend]; simpa [attrsFollow] using hes.follow,
          by intro q' v' hm
             rcases List.mem_cons.mp hm with h' | h'
             · cases h'; exact hhas
             · exact hes.valued q' v' h'⟩

/-- the abstract writer of the binding layer accepted `evs` (from the initial state) -/
theorem eventsSax_flat (M : NsMap) (isDt : Str → Bool) (evs : List Xs.Bind.Ev) (sax : List Sax)
    (h : eventsSax M isDt evs = .ok sax) : ∃ es, Flat false evs es := by
  unfold eventsSax at h
  obtain ⟨w, hw, _⟩ := bind_ok h
  exact writer_flat M isDt evs {} w hw

theorem eventsTree_flat (isDt : Str → Bool) (evs : List Xs.Bind.Ev) (t : Tree)
    (h : Xs.Bind.eventsTree isDt evs = .ok t) : ∃ es, Flat false evs es := by
  unfold Xs.Bind.eventsTree at h
  obtain ⟨sax, hs, _⟩ := bind_ok h
  exact eventsSax_flat _ isDt evs sax hs

end Proofs.WriterFlat
